#!/usr/bin/env python3
"""Regenerate /verif/MANIFEST.json from tools/props.py (claimed checks) and properties.jsonl."""
import json, os, sys
sys.path.insert(0, os.path.dirname(os.path.abspath(__file__)))
import props
ROOT = os.path.dirname(os.path.dirname(os.path.abspath(__file__)))
ids = [json.loads(l)["id"] for l in open(os.path.join(ROOT, "properties.jsonl"))]
hooks_commit = open(os.path.join(ROOT, "tools", "hooks_commit.txt")).read().split()
checks = []
for i in ids:
    if i not in props.ALL:
        continue
    P = props.ALL[i]
    checks.append({
        "property_id": i,
        "quick_cmd": "./check %s quick" % i,
        "thorough_cmd": "./check %s thorough" % i,
        "evidence_file": "/verif/evidence/%s.json" % i,
        "replay_cmd_template": "./check replay {path}",
        "engine": "lean4-proof+correspondence",
        "level_claimed": {"category": "proof", "text": P.level_text, "design_ref": "DESIGN.md section 6, " + i},
        "level_note": P.level_note,
        "technique": P.technique,
    })
na = [{"property_id": i, "reason": props.NOT_CLAIMED.get(i, "check not built yet (work in progress, see DESIGN.md section 11)")}
      for i in ids if i not in props.ALL]
m = {
    "version": 1,
    "setup_cmd": "./setup.sh",
    "hooks": {"guard": "verif", "enable": "go build -tags verif (every harness builds /repo's working tree with the tag on)",
              "baseline_off_cmd": "cd /repo && go test -vet=off -count=1 ./...",
              "source_commits": hooks_commit, "add_only": True},
    "engines": [{"name": "lean4-proof+correspondence", "path": "/verif/check",
                 "serves_properties": [c["property_id"] for c in checks],
                 "kind_free_text": "Lean 4 theorems over a hand-written model of the anchored Go code (lake build + axiom audit), tied to /repo's working tree on every run by regenerated facts (go/ast extractor) and by a differential correspondence run (real code in-process vs compiled Lean model driver on the same operation lines); a direct property oracle on the implementation produces the replayable failing input"}],
    "checks": checks,
    "notes": "See DESIGN.md. `./check <id> quick|thorough`; exit 0 held, 1 VIOLATION, 2 infrastructure error (no verdict).",
    "not_applicable": na,
}
json.dump(m, open(os.path.join(ROOT, "MANIFEST.json"), "w"), indent=1)
print("MANIFEST.json: %d checks, %d not claimed" % (len(checks), len(na)))
