"""Per-property configuration and the generic check flow."""
import json, os, re, shutil, subprocess, sys, time
import runner
from runner import ROOT, LEAN, HARNESS, WORK, InfraError


def proj_full(op, line):
    return line


def proj_c01(op, line):
    if op.startswith("tcp ") or op.startswith("udp "):
        return line  # live-receiver operations: the surfaced services are compared in full
    t = line.split(" ")
    if t[0] == "ok":
        return "ok " + (t[1] if len(t) > 1 else "")
    return t[0]


class Prop:
    """A property decided by: Lean theorems (module Props.<id>) + correspondence of a line-protocol
    harness with the model driver + the harness's direct oracle."""
    id = ""
    lean_module = ""
    harness = "wire"
    # streams: (value of the harness's -prop flag, model driver executable, share of the budget)
    streams = None
    # further streams run by ANOTHER harness: (harness, -prop value, model driver or None, {tier: budget})
    extra_streams = []
    harness_go = "go"
    harness_test = False
    harness_pkg = None
    budgets = {"quick": 20000, "thorough": 200000}
    thorough_seeds = 3
    proj = staticmethod(proj_full)
    rule = ""
    assumptions = []
    partial = None
    technique = "Lean 4 theorems over a Go-slice-level model + differential correspondence with the real code"
    level_text = ""
    level_note = ("Trusted: Lean kernel; axioms propext/Classical.choice/Quot.sound only (audited each run); the hand-written "
                  "model is tied to the working tree by the correspondence run and the regenerated facts, whose strength is "
                  "bounded by the generators reported in the evidence; Go runtime/stdlib semantics as modelled.")

    def harness_cmd(self, binary, workdir, seed, budget, tier, flag=None):
        return [binary, "-prop", flag or self.id, "-seed", str(seed), "-budget", str(budget), "-dir", workdir]

    def harness_timeout(self, tier):
        return 1800 if tier == "thorough" else 600


class C01(Prop):
    id = "C01"
    lean_module = "Props.C01"
    budgets = {"quick": 60000, "thorough": 400000}
    proj = staticmethod(proj_c01)
    rule = ("inputs: valid frames of all 15 services / 8 cEMI kinds from the structured generator, every truncation, "
            "length-octet perturbations at every position, trailing bytes, uniform random strings; each decoded from an "
            "exact-capacity slice and as a prefix of a 0xAA-filled and a pseudo-random-filled larger array "
            "(3 operations per input). distinct = distinct (decoder, input bytes) pairs; all are non-trivial "
            "(each reaches the real decoder). Every input is decoded three times (exact capacity, two different tails "
            "behind its length); the third decode runs with a log target installed (util.Logger, as the README shows), "
            "so what a decoder says about a malformed frame is formatted, not skipped.")
    extra_streams = [("sock", "C01live", "knxdrv", {"quick": 300, "thorough": 3000})]
    assumptions = ["the live UDP/TCP receivers get the malformed-frame classes of this property through the socket harness "
                   "(stream C01live: header-only frames of every service, truncations with an honest and with a lying header, "
                   "perturbed embedded lengths, zero-length description blocks, each sequence followed by frames that must "
                   "still arrive); segmentation and ordering of well-formed streams are C16's"]
    technique = "Lean 4 proof (Safe-decoder refinement over Go slices with spare capacity) + differential correspondence"
    level_text = ("Theorems for ALL slices (any length, capacity, content behind the length): knxnet.Unpack and cemi.Unpack "
                  "return (no panic, no hang), consume <= len on success, and depend only on the visible bytes; the model "
                  "transliterates every Unpack with panic/hang as possible outcomes. Tie: every input decoded by the real "
                  "code from 3 capacities and by the model; oracle = panic/hang/over-consumption/capacity dependence.")


class C02(Prop):
    id = "C02"
    lean_module = "Props.C02"
    budgets = {"quick": 40000, "thorough": 400000}
    rule = ("values: structured generator over every packable service type x every cEMI kind with full-range fields "
            "(corner-biased), info 0..255, app data 1..255, families 0..126, names 0..29; each encoded by the real "
            "AllocAndPack and decoded back (2 operations per value); plus accepted non-canonical byte strings through "
            "decode->encode->decode. distinct = distinct rendered values / frames.")
    technique = "Lean 4 proof (round-trip calculus Parses/ParsesAll over the slice-level decoders) + decide on regenerated dispatch tables + differential correspondence"
    level_text = ("Theorems: decode(encode v) = v with the whole encoding accepted, for every cEMI message kind and EVERY "
                  "service type - search/description requests and responses (device block, family list of any admissible "
                  "length, description-block loop), connection services, tunnelling and routing frames, unknown services - "
                  "under explicit decidable encodability predicates (Service.ok / Cemi.ok); dispatch/constant tables "
                  "regenerated from source and decided by the kernel. Tie: real AllocAndPack/Unpack vs model on the same "
                  "values, full bytes and values.")


class C06(Prop):
    id = "C06"
    lean_module = "Props.C06"
    harness = "dpt"
    streams = [("C06", "gendrv", 1.0)]
    budgets = {"quick": 30000, "thorough": 1000000}
    escalate_seeds = 1  # the thorough generators enumerate their domains: a second seed adds little
    thorough_seeds = 1
    rule = ("unpack -> pack -> unpack through the real types (3 operations per accepted payload): exhaustive over all 256 "
            "one-byte and all 2^8 (x first-byte variants) two-byte payloads of every type; three-byte types: all 65,536 value "
            "encodings of 9.001, 9.002, 7.001, 8.001, 8.003, 8.004 in the quick tier and a stride-61 sample of the other 35 "
            "types (all 65,536 of every type in thorough); five-byte types: every sign x exponent class of float32 with 5 "
            "mantissas, corner and random patterns; 4/7/15-byte and variable-length types structured (reserved bits, garbage "
            "behind terminators, all field ranges). Oracle: decoded value identical after re-encoding; byte identity for the "
            "exact formats. distinct = distinct (type, payload) pairs.")
    technique = "Lean 4 proof (structural stability/exactness theorems per codec shape; kernel sweeps for the 8-bit scaled types) over a shape table regenerated from the source + exhaustive differential correspondence with an integer-only IEEE-754 model"
    level_text = ("Theorems (all payloads, no sampling): re-encoding a decoded value yields a payload decoding to the same value, "
                  "and byte-identical up to ignored bits, for the bool, integer, IEEE-754, RGB, scene, time, date (two-digit year "
                  "window, all-zero payload, calendar check), 14-character string (ASCII / ISO 8859-1), variable-string, xyY and "
                  "RGBW shapes (151 of 174 registered types, counted by a theorem over the regenerated shape table) and for 5.001 / "
                  "5.003 (all 256 octets through the float model in the kernel). _partial: the 20 sixteen-bit float types and "
                  "8.003/8.004/8.010 are decided by the exhaustive differential run + oracle.")
    partial = "Lean stability theorems for the 16-bit float shapes (20 types 9.xxx) and 8.003 / 8.004 / 8.010 are not finished; those 23 of 174 types rest on the exhaustive differential run (all 65 536 encodings each)"


class C07(Prop):
    id = "C07"
    lean_module = "Props.C07"
    harness = "dpt"
    streams = [("C07", "gendrv", 1.0)]
    budgets = {"quick": 30000, "thorough": 1000000}
    escalate_seeds = 1  # the thorough generators enumerate their domains: a second seed adds little
    thorough_seeds = 1
    rule = ("pack -> unpack through the real types: float32 bit patterns log-uniform over 1e-3..1e9 in both signs, uniform in "
            "each type's decoder-defined range, every bound and exponent-switch point of the 16-bit float with +-1/+-2 ulp "
            "neighbours, +-0, subnormals, +-Inf, NaN, for 9 float-valued types in full and a random quarter of the rest; all "
            "values of the 8-bit and (two types fully, others stride 7) 16-bit integer types; field combinations of time/date "
            "incl. invalid ones; strings of 0..40 runes over ASCII / Latin-1 / BMP / astral. Oracle: accuracy within one "
            "quantisation step, monotonicity over the sorted sample, saturation, fixed length + zero lead byte, decodability.")
    technique = "Lean 4 proof (encoding shape, saturation for every float32 input, self-decodability of integer/structure/string shapes) + differential correspondence and direct oracle for accuracy/monotonicity"
    level_text = ("Theorems: every encoding has its type's fixed length with a zero lead byte (6-bit value for one byte); values at or "
                  "beyond a bound encode exactly like the bound for every float32 input of every float-valued shape (no wrap, no sign "
                  "change); every time/date/string/colour value incl. invalid field combinations encodes to a payload its decoder "
                  "accepts. _partial: accuracy within one step and monotonicity for all finite inputs are decided by the differential "
                  "run against the integer-only IEEE model and by the oracle on ~10^5 float patterns per run.")
    partial = "accuracy/monotonicity for all finite float32 inputs not yet a Lean theorem (needs rounding-function lemmas)"


class C08(Prop):
    id = "C08"
    lean_module = "Props.C08"
    harness = "dpt"
    streams = [("C08", "gendrv", 1.0)]
    budgets = {"quick": 30000, "thorough": 1000000}
    thorough_seeds = 1
    rule = ("for each of the 174 registered types: every byte string of length 0..2 over a 13-letter boundary alphabet, samples "
            "of every length 3..20, every correct-length payload of the 1/2/3-byte types (oracle on all 65,536; a stride on the "
            "correspondence stream), all 2^21 day/month/year and weekday/hour/minute/second field combinations incl. reserved "
            "bits, all 256 reserved-bit patterns of the two colour structures; Unpack, String() and Unit() under recover. "
            "distinct = distinct (type, payload) pairs on the correspondence stream.")
    technique = "Lean 4 proof (totality of every shape's decoder at Go-slice level, length rejection, range theorems; documented bounds pinned against the regenerated shape table) + differential correspondence"
    level_text = ("Theorems for every byte string: no shape's decoder panics; a payload of the wrong length is rejected; decoded "
                  "values are in range (9.xxx within the type's bounds which the regenerated table pins to the documented ones, "
                  "5.001 in 0..100, 5.003 in 0..360, hour<24, min/sec<60, calendar dates 1990-2089 with Gregorian leap rule, scene<64, "
                  "reserved bits of the colour structures). Tie: shape table regenerated from source; real Unpack vs model.")


class C11(Prop):
    id = "C11"
    lean_module = "Props.C11"
    streams = [("C11", "knxdrv", 0.6), ("C11h", "gendrv", 0.4)]
    budgets = {"quick": 60000, "thorough": 400000}
    rule = ("frames: L_Data req/con/ind over all 2^16 pairs of control octets (strided in the quick tier), all 16 APCI x "
            "16 sequence x numbered x data/control combinations, payload and info lengths 1..254, corner addresses; each "
            "packed by the real encoder, compared with an independent bit-writer rendering of the specified layout, and the "
            "layout decoded back; every value 0..255 of the transport-control octet in hand-made L_Data.ind layouts (also those "
            "the encoder never writes: sequence bits in an unnumbered unit), decoded by the code and by the model. helpers: the five flag functions over all 256 inputs, hop round trip under 4 surrounding "
            "octets, the four address constructors over 12^3 corner triples plus random ones; compared with the definitions "
            "regenerated from the source (gendrv) and with arithmetic written from the specification. distinct = distinct "
            "frames / helper calls.")
    technique = "Lean 4 proof (encoder = independent bit-layout spec; decide over the full 8-bit domains of the regenerated helper functions) + differential correspondence"
    level_text = ("Theorems: what LData.Pack writes equals the specification's bit layout (Knx.Spec.Layout, written with bit-vector "
                  "concatenation) for all field values / lengths; the decoder extracts those fields; the flag constructors and "
                  "accessors - translated from the current source by the extractor on every run - agree with the layout on their "
                  "whole domain, incl. Hops(Control2Hops h) = min h 7. Tie: regenerated definitions + exhaustive comparison with "
                  "the real functions; frames through the real Pack/Unpack vs model and vs an independent Go bit writer.")


class C18(Prop):
    id = "C18"
    lean_module = "Props.C18"
    streams = [("C18", "gendrv", 1.0)]
    budgets = {"quick": 30000, "thorough": 400000}
    thorough_seeds = 2
    rule = ("exhaustive: all 65,535 non-zero addresses of both kinds formatted by the real String() and parsed back (4 "
            "operations each); component triples/pairs/raw values over the documented ranges widened by 3..12 on both sides "
            "incl. negatives (1/3 sample in quick, all in thorough); a grammar of malformed strings (21 pieces x 21 x 5 x 7 "
            "separators x 6 shapes: empty components, signs, spaces, hex, exponent, underscore, full-width and Arabic digits, "
            "20-digit numbers, wrong separators, 0/4 components). Oracle: acceptance and value by an independently written "
            "rule. distinct = distinct (parser, text) pairs.")
    technique = "Lean 4 proof (render/atoi and split/join inverses by induction; bit-extensional recomposition over the regenerated constructors) + exhaustive differential correspondence"
    level_text = ("Theorems: parse(format a) = a for every non-zero 16-bit address of both kinds (structural, not enumerated); "
                  "the accepted component tuples are exactly the documented ranges, address zero excluded (iff); text is accepted "
                  "iff it splits into Atoi-literals forming such a tuple; each constructor - regenerated from the source each run - "
                  "places every component in its bit field and ignores excess bits. Tie: regenerated constructors; all 65,535x2 "
                  "round trips and ~10^5 strings through the real parsers vs the model (gendrv).")


class C19(Prop):
    id = "C19"
    lean_module = "Props.C19"
    harness = "dpt"
    streams = [("C19", "gendrv", 1.0)]
    budgets = {"quick": 30000, "thorough": 1000000}
    thorough_seeds = 2
    rule = ("all registered names produced through the real Produce (type name by reflection, zero value, pointer "
            "distinctness, key format, uniqueness), ~300 other strings, random histories of Produce / Unpack over all "
            "types (same type produced repeatedly) compared with the heap model, a later Produce re-checked for the zero "
            "value, and 16 goroutines x 400 Produce/Unpack. distinct = distinct operation lines.")
    technique = "Lean 4 proof (kernel decide over the regenerated registry/type/shape tables; induction over Produce/Unpack histories of a heap model) + differential correspondence"
    level_text = ("Theorems over tables regenerated from the source each run: every entry is \"key\": new(T); keys unique; each key "
                  "names the type bearing its number; declared = registered (174 = 174); every type's Pack/Unpack recognised as a "
                  "modelled shape; the set of keys violating the three-digit form is exactly the recorded one (known finding). "
                  "Histories: Unpack writes its receiver only, Produce appends a zero cell, untouched instances stay zero "
                  "(induction over histories). Tie: regenerated tables + real Produce/Unpack histories vs the heap model.")
    partial = "freedom from data races between goroutines is a Go-runtime fact exercised (16 goroutines) but not proved"


class C12(Prop):
    id = "C12"
    lean_module = "Props.C12"
    streams = [("C12", "gendrv", 1.0)]
    budgets = {"quick": 30000, "thorough": 400000}
    rule = ("outbound: events with commands read/response/write and 3,4,15,255, corner-biased 16-bit sources and destinations, "
            "payload lengths 0,1,2,3,14,15,16,17,100,254 built by the real buildGroupOutbound (hook), compared with the model, "
            "checked against the documented shape, then encoded in a routing indication, decoded and pushed through the real "
            "serveGroupInbound (end to end); inbound: all 8 message kinds x both address types x APCI 0..15 x data/control "
            "units through the real filter, compared with the model and with the rule written independently; the group channel "
            "must close with its input. distinct = distinct operation lines.")
    technique = "Lean 4 proof (frame shape against the independent layout spec, filter iff, end-to-end law through the proven codec round trip) over regenerated flag helpers + differential correspondence through the verif hooks"
    level_text = ("Theorems for every event: the outbound frame is flagged group, hop count 6, low priority, standard-frame flag iff "
                  "payload <= 15 bytes, APCI = command, payload and addresses as given (read off the frame with the independent "
                  "layout accessors); an inbound message surfaces iff it is an L_Data.ind to a group address with an application "
                  "unit and APCI < 3, with the same fields; an event encoded by one client, decoded (Go-slice level decoder) and "
                  "filtered by another arrives with empty payload -> [0] and first byte & 63, else unchanged (uses the C02 round-trip "
                  "theorem); the forwarder preserves order and ends with its input.")


class C15(Prop):
    id = "C15"
    lean_module = "Props.C15"
    budgets = {"quick": 30000, "thorough": 300000}
    rule = ("values as for C02 plus the oversize family (info/app data 256..600 bytes, names >= 30 chars, non-Latin-1 "
            "names, hardware addresses of 0..8 bytes, out-of-range TPCI fields); each packed into three buffers of exactly "
            "the reported size pre-filled with 0x00 / 0xFF / random and followed by 16 guard bytes. distinct = distinct "
            "rendered values. Stream C16router: the datagram handed to the network by RouterSocket.Send (real multicast "
            "socket, observed by a second member of the group): its length equals the frame's size and its header's "
            "total length, whatever was sent before on that socket (longer, shorter, equal).")
    extra_streams = [("sock", "C16router", "knxdrv", {"quick": 150, "thorough": 1500})]
    technique = ("Lean 4 proof (Size() arithmetic vs bytes written for all values incl. oversize; buffer-writing model of every "
                 "Pack procedure - indexed stores, |= / &=, copy, sub-slices, util.PackSome - refined to the byte lists) + "
                 "prefilled-buffer correspondence")
    level_text = ("Theorems for ALL values (no encodability hypothesis): bytes written = Size() for every sub-structure, message "
                  "and service; header total length = size+6 = datagram length; truncation rules. Buffer level (Knx.Buf, the Pack "
                  "methods statement by statement): `frame_buffer` / `cemi_frame_buffer` / `body_buffer` - for EVERY buffer with "
                  "room, whatever it held, knxnet.Pack / cemi.Pack / each service's Pack does not panic, leaves exactly the "
                  "frame at the front and every byte behind it unchanged; corollaries `frame_prefill_independent`, "
                  "`frame_guard_untouched`. Tie: the same values packed by the real code into buffers prefilled with 0x00 / "
                  "0xFF / 0xA5 / pseudo-random bytes, the whole buffer compared with the buffer-writing model (`encw` lines) and "
                  "with the byte lists; guard bytes checked.")


class Proto(Prop):
    """protocol properties: scripts from harness/cmd/protogen, executed by the go1.26.8 test binary
    harness/proto under testing/synctest (virtual time), monitors by protogen -check"""
    harness = "proto"
    harness_go = "go1.26.8"
    harness_test = True
    harness_pkg = "./proto"
    extra_harness = ["protogen"]
    budgets = {"quick": 300, "thorough": 3000}
    thorough_seeds = 3
    level_note = (Prop.level_note + " The real client runs on an injected in-memory socket (build tag verif) under "
                  "testing/synctest, whose fake clock is trusted to fire timers in order; schedules in which a goroutine "
                  "waits for a sync.Mutex / sync.Once cannot be driven under virtual time and are not scripted.")


def run_proto_stream(P, tier, seed, budget, workdir, binaries, drv, flag):
    """generate scripts, run them on the real client (restarting after a crash or hang), run the monitors"""
    os.makedirs(workdir, exist_ok=True)
    for f in ("ops.txt", "impl.txt", "model.txt", "stats.json"):
        fp = os.path.join(workdir, f)
        if os.path.exists(fp):
            os.remove(fp)
    rc, out = runner.sh([binaries["protogen"], "-prop", flag, "-seed", str(seed), "-budget", str(budget), "-dir", workdir],
                        cwd=workdir, timeout=600)
    if rc != 0:
        raise InfraError("protogen failed: " + out[-2000:])
    ops = open(os.path.join(workdir, "ops.txt")).read().split("\n")
    ops = [o for o in ops if o.strip()]
    impl, crashes, start = [], [], 0
    while start < len(ops) and len(crashes) < 6:
        chunk_in = os.path.join(workdir, "chunk.txt")
        chunk_out = os.path.join(workdir, "chunk.out")
        open(chunk_in, "w").write("\n".join(ops[start:]) + "\n")
        if os.path.exists(chunk_out):
            os.remove(chunk_out)
        try:
            rc, out = runner.sh([binaries["proto"], "-test.run", "TestScripts", "-test.timeout", "0"], cwd=workdir,
                                timeout=P.harness_timeout(P, tier),
                                extra_env={"VERIF_OPS": chunk_in, "VERIF_OUT": chunk_out})
        except subprocess.TimeoutExpired:
            rc, out = 124, "timeout"
        got = open(chunk_out).read().split("\n") if os.path.exists(chunk_out) else []
        if got and got[-1] == "":
            got = got[:-1]  # the final newline; empty lines in between are empty traces
        impl += got
        done = start + len(got)
        if rc == 0 and done >= len(ops):
            break
        # the process died (fatal error / watchdog) on script number `done` (or its last line says HANG)
        if got and got[-1] == "HANG":
            crashes.append(dict(index=done - 1, script=ops[done - 1][:6000], what="HANG: the script did not finish within 20 s of real time"))
            start = done
        else:
            idx = min(done, len(ops) - 1)
            impl.append("CRASH")
            crashes.append(dict(index=idx, script=ops[idx][:6000], what="the test process died: " + out[-1500:]))
            start = idx + 1
    impl += ["MISSING"] * (len(ops) - len(impl))
    open(os.path.join(workdir, "impl.txt"), "w").write("\n".join(impl) + "\n")
    rc, out = runner.sh([binaries["protogen"], "-check", "-prop", flag, "-dir", workdir], cwd=workdir, timeout=600)
    sp = os.path.join(workdir, "stats.json")
    if rc != 0 or not os.path.exists(sp):
        raise InfraError("monitors failed: " + out[-2000:])
    stats = json.load(open(sp))
    for c in crashes:
        stats["findings"].append(dict(property=P.id, kind="crash-or-hang", op=c["script"], detail=c["what"]))
    if drv is None:
        return stats, [], stats.get("ops", 0)
    runner.run_driver(os.path.join(workdir, "ops.txt"), os.path.join(workdir, "model.txt"), drv)
    dis, n = runner.compare(os.path.join(workdir, "ops.txt"), os.path.join(workdir, "impl.txt"),
                            os.path.join(workdir, "model.txt"), P.proj)
    return stats, dis, n


class C03(Proto):
    id = "C03"
    lean_module = "Props.C03"
    streams = [("C03", "knxdrv", 0.95), ("C03rt", None, 0.05)]
    rule = ("scripts for the real Tunnel on an in-memory socket under virtual time: one script of 600 consecutive Sends "
            "(the 255->0 wrap twice) and random scripts of 3..27 Sends, each Send followed by one of 12 gateway behaviours "
            "(prompt ack, ack after k resends, wrong sequence numbers +1/-1/+128/+2 first, foreign channel first, error "
            "status 1..255, silence, ack after the timeout, duplicated ack, ack before the Send, interleaved inbound traffic, "
            "socket failure on a resend, ack one tick before the timeout), UDP and TCP, 4 (resend, timeout) settings. "
            "Trace = every frame with its virtual time + every Send result, compared exactly with the model's; monitors: one "
            "request in flight, identical periodic retransmissions, consecutive numbers, success only by a fresh matching ack, "
            "deadline. REAL time (stream C03rt): 1..8 goroutines sending at once; a reconnect during a Send; and `rsrt`: a Send "
            "that had to wait for another Send's late acknowledgement and whose own request is then lost twice - its first "
            "repetition comes no earlier than one resend interval after its FIRST TRANSMISSION (the wait for the other Send "
            "is not part of the interval). The scripts of the virtual- and real-time streams run with a log target "
            "installed (util.Logger), so the client's log calls are executed. distinct = scripts.")
    technique = "Lean 4 proof (invariant of a timed transition system of requestTunnel/handleTunnelRes over all label sequences) + exact trace correspondence of the real client under testing/synctest"
    level_text = ("Theorems over every label sequence (any inputs/timer expiries, any ack stream): a pending Send blocks any other "
                  "request; retransmissions are identical, one resend interval apart, strictly before the deadline; at the deadline "
                  "Send returns the timeout error; the ack rule (foreign channel / other number ignored, matching number completes with "
                  "ok iff status 0); in every reachable state the pending Send carries the current counter, so a completing ack "
                  "carries its channel and number; the counter moves +1 per completed exchange; TCP sends once and returns. "
                  "Tie: the real Tunnel driven along generated scripts under virtual time, traces equal to the model's.")
    partial = ("mutual exclusion of real goroutines rests on sync.Mutex (trusted); concurrent senders cannot be driven under "
               "virtual time - they are run in real time (stream C03rt: 1..8 goroutines on one tunnel against a rule-following "
               "gateway; monitors: no sequence number carries two telegrams, every successful Send is on the bus once)")


class C04(Proto):
    id = "C04"
    lean_module = "Props.C04"
    streams = [("C04", "knxdrv", 0.95), ("C17rt", None, 0.05)]
    rule = ("request streams for the real receiver under virtual time: one script of ~900 events (wrap at 256) and random "
            "scripts of 5..65 events: in-sequence requests, repetitions of the previous number (1..5x), skipped ahead +1..+3, "
            "far behind -2..-200, foreign channel, application reads (consumer stalls of arbitrary length: every accepted "
            "telegram is parked), gateway-initiated reconnects (new channel, expectation restarts), UDP and TCP. REAL time "
            "(stream C17rt): waiting / absent / intermittent readers, and 20 000 rounds on one long-lived client in which a "
            "telegram arrives exactly while the application takes the previous one - none may be left behind. Trace "
            "compared exactly with the model's; monitor recomputes expected acks and deliveries.")
    technique = "Lean 4 proof (case law of handleTunnelReq + induction over request streams of any length) + exact trace correspondence under testing/synctest"
    level_text = ("Theorems: the rule for one request in every state (foreign channel: nothing; expected number: accepted, +1 mod "
                  "256, acked with same channel/number/status 0; previous number: acked again only; else nothing; TCP: accepted, "
                  "never acked); for request streams of ANY length the accepted telegrams are exactly the in-sequence ones, each "
                  "once, in order, and the expectation is what the stream implies (induction, Byte arithmetic covers the wrap); "
                  "reads take the oldest accepted telegram; the expectation restarts at 0 on (re)connect.")


class C05(Proto):
    id = "C05"
    lean_module = "Props.C05"
    streams = [("C05", None, 0.5), ("C03", "knxdrv", 0.25), ("C04", "knxdrv", 0.25), ("C03rt", None, 0.05), ("C17rt", None, 0.05)]
    extra_streams = [("sock", "C05live", None, {"quick": 60, "thorough": 1500})]
    budgets = {"quick": 300, "thorough": 3000}
    rule = ("composed-system walks under virtual time: the real client against an in-harness rule-following gateway over a "
            "network that loses (0..40 %), duplicates (0..30 %, up to 3 copies), delays (up to 2 resend intervals + 5 ms, so "
            "datagrams overtake each other and outlive resends) every datagram of both directions, 1..12 telegrams per "
            "direction and walks of 280 + 270 telegrams across the wrap at 256, three (resend, timeout) settings; one directed "
            "walk (request delivered, all its acknowledgements lost, number reused). The monitor IS the property: bus log vs "
            "successful Sends, Inbound vs gateway-acknowledged. Plus the C03 / C04 script streams, compared exactly with the "
            "model (the tie of the client model whose sender/receiver rules the abstract proof is about). REAL sockets (stream "
            "C05live): knx.NewTunnel over loopback UDP / TCP in the data, bus-monitor and raw layer against a small gateway "
            "that sends 2..8 telegrams, each only after the previous one was acknowledged, while the application is not "
            "reading; the application then receives exactly those telegrams, in order, with the content they had when they "
            "were acknowledged (the socket reads every datagram into one buffer). distinct = walks/scripts.")
    technique = "Lean 4 proof (inductive invariant of the abstract stop-and-wait system with lossy/duplicating/reordering channels, unbounded telegram count, modulus 256) + witness by kernel evaluation + composed walks of the real client as oracle"
    level_text = ("Theorem (_partial: histories without an abandoned exchange): for EVERY interleaving of transmissions, "
                  "retransmissions, losses, duplicated and reordered deliveries, the exchanges completed successfully are 0..C-1 in "
                  "order, the receiver passed on 0..G-1 each exactly once in order, C <= G <= C+1: every telegram whose Send "
                  "succeeded is on the bus exactly once in completion order, nothing twice; by symmetry the same for gateway -> "
                  "client. The client's response timeout DOES abandon (counter not advanced): `abandon_breaks_it` is a 10-label "
                  "witness (success for a telegram that never reached the bus), replayed on the real client by the directed walk: "
                  "recorded as known finding D18, any other violation of the monitor is reported.")
    partial = "the full property fails on the current tree (known finding D18); proved only for abandon-free histories"


class C09(Proto):
    id = "C09"
    lean_module = "Props.C09"
    rule = ("scripts of 1..5 connection epochs under virtual time with heartbeat intervals 10/30/40 s below and above the "
            "response timeout (7/23 s): every heartbeat answered OK promptly / after a resend / with an error status 1..255 / "
            "only for a foreign channel / not at all; disconnect requests and responses for the current and for foreign "
            "channels; reconnect answered OK / busy (0x24, 0x25) then OK / refused / never; frames for the old channel after "
            "a reconnect; Sends and inbound telegrams interleaved. Trace compared exactly; monitors: channel of every frame, "
            "heartbeat presence, termination consequences.")
    technique = "Lean 4 proof (step laws of process/serve/requestConn/performHeartbeat on the transition system) + exact trace correspondence under testing/synctest"
    level_text = ("Theorems for every state: frames of all five channel-carrying kinds for a foreign channel change nothing and "
                  "emit nothing; the heartbeat tick emits one connection-state request for the current channel and arms resend/"
                  "timeout; a waiting heartbeat succeeds iff the status is 0, any other status or the timeout starts a reconnect "
                  "(connect request, ticks, deadline; workers die); a disconnect request on the current channel is answered and "
                  "reconnects; a successful reconnect installs the new channel, both counters 0, heartbeat restarted; busy is "
                  "tolerated, refusal / silence / a disconnect response terminate (Inbound closed, pending and later Sends fail).")


class C10(Proto):
    id = "C10"
    lean_module = "Props.C10"
    streams = [("C10", "knxdrv", 0.9), ("C10rt", "knxdrv", 0.1)]
    extra_streams = [("sock", "C10live", None, {"quick": 60, "thorough": 600})]
    rule = ("the C03 / C04 / C09 scripts with Close injected at a random position (1..3 calls, spaced 0 / 1 s / 30 s; a call "
            "made while another is still waiting is skipped by the harness, see level note), optionally after the socket died "
            "(closed) or started failing, followed by a Send, a read and another Close 40 s later; synctest's end-of-bubble "
            "check fails the script if any goroutine is left blocked (leak), a 20 s real-time watchdog marks hangs. Trace "
            "compared exactly; monitors: Close returns within 2x response timeout, one disconnect request, nothing after "
            "Close, Send fails, Inbound closed. REAL time (stream C10rt): 1..4 goroutines call Close at the same moment on a "
            "tunnel over an in-memory socket whose write of the disconnect request takes 3 ms, with pending Sends / gateway "
            "traffic / a reader: exactly one disconnect request, every Close returns, Inbound closed, Send fails, Close again "
            "returns. REAL sockets (stream C10live): knx.NewTunnel over loopback UDP and TCP against a small gateway that may "
            "send telegrams back to back; 1..4 concurrent closers; never more than one disconnect request, Close returns, "
            "Inbound closes, Send fails, pending Sends return, and the goroutine count is back to what it was before the "
            "tunnel was opened within 1 s.")
    technique = "Lean 4 proof (Close path lemmas + monotonicity of `done` over all label sequences) + exact trace correspondence and leak detection under testing/synctest"
    level_text = ("Theorems: first Close while connected sends one disconnect request and returns in the same instant with socket "
                  "and Inbound closed and the pending Send failed; during a reconnect it waits and returns when the attempt ends "
                  "(deadline or success -> process() sees done); `done` is never cleared (every label sequence), a Close that finds it "
                  "set transmits nothing (at most one disconnect request); Close after Close is a no-op; after it Send returns an "
                  "error at once and Inbound reads closed; no model process survives termination.")
    partial = ("data-race freedom and goroutine exit are Go-runtime facts: checked by synctest's leak detection on every script "
               "(and the race detector), not proved; concurrent closers block on sync.Once and are not driven under virtual "
               "time: their interleavings are proved on the Once-level model (Props.C10.Closers: any number of closers, any "
               "schedule) and the real code runs them in real time (streams C10rt - compared with that model - and C10live)")


class C17(Proto):
    id = "C17"
    lean_module = "Props.C17"
    streams = [("C17", "knxdrv", 0.95), ("C17rt", None, 0.05)]
    rule = ("virtual time: bursts of 2..64 in-sequence requests with the consumer stalled for the whole burst, and mixed "
            "streams with intermittent reads; the order of deliveries is compared with the order of acceptance. REAL time "
            "(stream C17rt, real goroutines, the Go scheduler decides): tunnel, router and the group layer, 30 rounds per "
            "script: 2 telegrams back to back while the application waits in its receive; bursts of 2,3,4,8,16,64 while "
            "nobody receives, then the application reads them all. distinct = scripts.")
    technique = "Lean 4 proof (FIFO law of the parked-delivery queue, composed with the acceptance theorem of C04) + trace correspondence under testing/synctest + real-time ordering runs"
    level_text = ("Theorems: (tunnel model) what is queued comes out in queue order, each telegram once; a burst followed by "
                  "reads yields exactly the accepted telegrams in acceptance order.  (Queue of knx/inbound.go, model Knx.IQ: the "
                  "serve loop's push under the mutex, the drainer's take, the blocking hand-over as separate atomic steps) for "
                  "EVERY interleaving of the three parties the invariant delivered ++ held ++ pending = pushed holds, so what the "
                  "application has received is a prefix of what was pushed - nothing twice, nothing skipped, nothing out of "
                  "order - and when the drainer has stopped everything has been received.  Before fix dc79db5 every parked "
                  "telegram had its own goroutine and real-time bursts arrived permuted (30 of 30 rounds) - found by the "
                  "real-time stream, repaired, recorded as fixed.  Tie: virtual-time traces equal to the model's; real-time "
                  "rounds (waiting / stalled / joining reader) in order.")
    partial = ("that a single goroutine sending on a channel delivers in program order is Go's channel semantics (trusted); "
               "the real-time rounds sample schedules, they do not enumerate them")


class C13(Proto):
    id = "C13"
    lean_module = "Props.C13"
    streams = [("C13", "knxdrv", 0.9), ("C13rt", None, 0.1)]
    rule = ("scripts for the real Router on an in-memory socket under virtual time, uncontended (a lock-needing event only "
            "when the send lock is free - a goroutine waiting for sync.Mutex cannot be driven under virtual time): Sends, "
            "failing Sends, routing indications, reads, lost indications (counts 0,1,2,3,31,32,33,64,65535), busy indications "
            "(wait 0..500 ms, control != 0, and control 0 where the 50 ms cap makes the random part irrelevant), Close; post-"
            "send pause 0 / 5 s / 20 s, retain 0(=32),1,2,5,31,32,33,64. Trace compared exactly; monitors: gap between "
            "transmissions >= pause, silence after busy, exact resend, deliveries, every Send returns.")
    technique = "Lean 4 proof (lock-held-until invariant of the router transition system: no transmission before the scheduled release, over all labels) + exact trace correspondence under testing/synctest"
    level_text = ("Theorems over the router transition system.  Per label: every transmission happens under the lock; a "
                  "successful one keeps it for the whole post-send pause, a busy indication for min(announced+random, 50 ms); "
                  "while it is held no label before the release time makes a routing indication leave the client.  Over WHOLE "
                  "EXECUTIONS (any label sequence whose times never go back - any number of pending Sends, busy / lost "
                  "indications, reads, timer expiries): once the lock is held until u nothing is transmitted before u "
                  "(no_tx_before_release); hence after a transmission at t nothing before t + pause (pacing_global) and after "
                  "a busy indication granted at t nothing before t + wait (backoff_global); at the release the first waiter "
                  "proceeds, a waiting Send transmits and returns.  Tie: virtual-time traces equal to the model's; contended "
                  "schedules in real time (stream C13rt) with the property as monitor.")


class C14(Proto):
    id = "C14"
    lean_module = "Props.C14"
    streams = [("C14", "knxdrv", 0.8), ("C14f", "knxdrv", 0.1), ("C17rt", None, 0.05), ("C14rt", None, 0.05)]
    rule = ("router scripts as for C13 with lost indications in half of the steps, one script of 300 steps; retained list and "
            "retransmissions compared exactly with the model and recomputed by the monitor from the transmissions observed. "
            "Stream C14f (compared with the batch model Knx.RtrF): batches of resends in which the socket refuses the write of one or two particular "
            "telegrams (front, middle, end of the batch): the others are still retransmitted, in order, and only they are "
            "retained. Stream C17rt (real time): routing indications to a waiting / absent / intermittent reader are handed "
            "to Inbound exactly once and in order. Stream C14rt (real time): a lost indication taken in while a Send is "
            "inside the socket write - the resend covers everything transmitted by the time the lock is obtained.")
    technique = "Lean 4 proof (list laws of the retainer, induction over the grant chain and over label sequences) + exact trace correspondence under testing/synctest"
    level_text = ("Theorems: the retained list never exceeds the configured count (32 when 0) in any reachable state (induction over "
                  "label sequences and over the lock hand-off chain); failed transmissions are not retained; an idle client told "
                  "that k messages were lost retransmits exactly the last min(k, retained) in original order and nothing else "
                  "(pause 0: whole chain; with a pause: one message per pause, step law); every routing indication is parked once "
                  "and read in order; after Close Inbound is closed. With a pause (resend_paced): as the timers fire, exactly the lost messages leave the client, in their original order, one post-send pause apart, and the lock ends up free.")


class C16(Prop):
    id = "C16"
    lean_module = "Props.C16"
    harness = "sock"
    streams = [("C16", "knxdrv", 0.7), ("C16send", "knxdrv", 0.3)]
    budgets = {"quick": 1500, "thorough": 20000}
    thorough_seeds = 3
    rule = ("real loopback sockets (kernel TCP/UDP stack, real goroutines): TCP streams of 1..3 frames cut at EVERY "
            "position, sent one byte per segment, and streams of 1..50 frames of every service type (structured generator, "
            "a quarter with a damaged body) coalesced at random; streams continued after a header that ends the receiver "
            "(header length / version / total length < 6); a sentinel frame ends every stream so that a stalled receiver is "
            "told from a dropped frame; beside these a TCP and a UDP socket that sent one frame and then stay silent for "
            "16.5 s (thorough: 65 s) must still surface a frame and accept a Send afterwards; UDP sequences of 1..8 datagrams (valid, truncated, length octets pointing beyond the "
            "datagram into what the previous one left in the reused array, random bytes), each followed by an awaited "
            "sentinel; Send of generated services observed as one datagram each; 1..8 goroutines x 40 Sends on one TCP "
            "socket re-parsed by the peer; Close with unread frames waiting (goroutine and channel end); the connect "
            "request's HPAI for UDP/TCP x SendLocalAddress; the routing socket (multicast, loopback on, a second group "
            "member as peer): every Send one datagram of exactly the frame after longer / shorter / equal ones; a TCP peer "
            "that does not read for 2.6 s while 30 000-octet frames are sent and then reads everything (the stream must be "
            "the frames of the successful Sends, back to back); 4 "
            "concurrent senders, datagrams from the peer surfaced once and in order, Close ends Inbound. "
            "distinct = operation lines.")

    def harness_cmd(self, binary, workdir, seed, budget, tier, flag=None):
        cmd = Prop.harness_cmd(self, binary, workdir, seed, budget, tier, flag)
        return cmd + ["-quiet", "65"] if tier == "thorough" else cmd

    technique = "Lean 4 proof (prefix-stability of the framing loop by strong induction => independence of every segmentation; reused-array independence from the Safe-decoder theorem) + loopback correspondence with the real sockets"
    level_text = ("Theorems: for EVERY list of segments, feeding them one by one gives the same services and receiver state as "
                  "feeding their concatenation (any cut positions, 1-byte dribble, empty segments, any coalescing); a stream of "
                  "well-formed frames surfaces exactly the frames that decode, each once, in order, and leaves the receiver "
                  "running; frames produced by Pack are well-formed and (C02) surface as the services sent; a stopped receiver "
                  "stays stopped; a UDP datagram's decoding does not depend on what earlier datagrams left in the array, each "
                  "datagram is decoded once in order. Tie: the real TunnelSocket over loopback TCP/UDP vs the model on the "
                  "same segment lists; Send, concurrency, Close and HPAI by direct oracle.")
    partial = ("kernel segmentation actually seen by the reader, goroutine exit, mutual exclusion of concurrent conn.Write "
               "calls (net.Conn contract) and the local-endpoint advertisement are observed on the real sockets, not proved")
    level_note = (Prop.level_note + " Runs in real time on the loopback interface: the kernel may coalesce the written "
                  "segments, which the theorem shows to be irrelevant.")


class C20(Prop):
    id = "C20"
    lean_module = "Props.C20"
    harness = "sock"
    streams = [("C20", "knxdrv", 1.0)]
    budgets = {"quick": 90, "thorough": 900}
    escalate_budget = 200
    thorough_seeds = 2
    rule = ("real knx.DescribeTunnel against a scripted loopback UDP server and real knx.Discover on a multicast group with "
            "0,1,2,3,5,20 responder sockets (group and unicast), timeouts 1,2,5,20,50,100,150,200,300,500 ms; scripts of 0..20 "
            "datagrams: matching responses, the other response type, other services, truncated / damaged matching responses, "
            "random bytes, datagrams from a foreign sender, scheduled at least 70 ms before or after the timeout (so that the "
            "expected result does not depend on scheduling; two agreeing runs out of three are taken), one script in six with "
            "a flood of non-matching frames every 2 ms through and beyond the timeout; a queried port nobody listens on. "
            "Observed: result vs model, return time <= timeout + 400 ms slack (discover: also >= timeout), exactly one request "
            "(discover: counted on a packet socket, the request is sent with multicast loopback off), the description "
            "request's HPAI = the socket's endpoint, local port unbound and no goroutine left after the return. "
            "distinct = operation lines.")
    technique = "Lean 4 proof (result and return time as functions of the arrival history: time bound, first-match, exact filter, irrelevance of non-matching and late arrivals) + real-time loopback correspondence"
    level_text = ("Theorems for every arrival history: describe returns by its timeout, with the first description response that "
                  "arrived before it or nothing; discover returns at its timeout with exactly the search responses that arrived "
                  "before it, each once, in arrival order; arrivals at or after the timeout and frames of any other type or "
                  "malformed datagrams never change either result (uses C16's reused-array theorem). Tie: the real calls on "
                  "loopback/multicast sockets in real time vs the model on the same scripts; request count, HPAI, socket and "
                  "goroutine release by direct oracle.")
    partial = ("wall-clock behaviour (the timer fires on time, the loop is not starved) and resource release are observed with "
               "a 400 ms slack on the real runtime, not proved; where no multicast-capable interface exists the Discover half "
               "is reported as not exercised")
    level_note = (Prop.level_note + " Real-time test: expected results are only defined for scripts whose arrivals keep 70 ms "
                  "distance from the timeout.")


ALL = {c.id: c for c in [C16, C20, C12, C01, C02, C03, C04, C05, C06, C07, C08, C09, C10, C11, C13, C14, C15, C17, C18, C19]}
NOT_CLAIMED = {}


# ------------------------------------------------------------------ flow

def setup():
    os.makedirs(WORK, exist_ok=True)
    try:
        with runner.Lock():
            runner.run_extractor()
            ok, out = runner.lake_build([])
            if not ok:
                print(out[-6000:])
                print("ERROR: lake build failed")
                return 2
            for name in sorted({c.harness for c in ALL.values()}):
                cls = [c for c in ALL.values() if c.harness == name][0]
                runner.build_harness(name, go=cls.harness_go, test=cls.harness_test, pkg=cls.harness_pkg)
                for extra in getattr(cls, "extra_harness", []):
                    runner.build_harness(extra)
    except InfraError as e:
        print("ERROR:", e)
        return 2
    print("setup ok")
    return 0


def replay(path):
    r = json.load(open(path))
    print(json.dumps(r, indent=1)[:4000])
    cmd = r.get("replay_cmd")
    if cmd:
        print("$ " + cmd)
        return subprocess.call(cmd, shell=True, cwd=ROOT, env=runner.env())
    return 0


def run_once(P, tier, seed, budget, workdir, binary, drivers):
    """runs every stream of the property; returns merged stats, disagreements, op count"""
    streams = P.streams or [(P.id, "knxdrv", 1.0)]
    merged = dict(ops=0, distinct=0, classes={}, generated={}, samples=[], findings=[])
    all_dis, total = [], 0
    for flag, drvname, share in streams:
        if issubclass(P, Proto):
            stats, dis, n = run_proto_stream(P, tier, seed, max(1, int(budget * share)), os.path.join(workdir, flag),
                                             binary, drivers[drvname], flag)
        else:
            stats, dis, n = run_stream(P, tier, seed, max(1, int(budget * share)), os.path.join(workdir, flag),
                                       binary["main"], drivers[drvname], flag)
        merged["ops"] += stats.get("ops", 0)
        merged["distinct"] += stats.get("distinct", 0)
        for k in ("classes", "generated"):
            for a, b in (stats.get(k) or {}).items():
                merged[k][a] = merged[k].get(a, 0) + b
        merged["samples"] += (stats.get("samples") or [])[:6]
        merged["findings"] += stats.get("findings") or []
        for d in dis:
            d["stream"] = flag
        all_dis += dis
        total += n
    for hname, flag, drvname, eb in P.extra_streams:
        b = eb["thorough"] if budget >= P.budgets["thorough"] else eb["quick"]
        stats, dis, n = run_stream(P, tier, seed, b, os.path.join(workdir, flag), binary[hname], drivers[drvname], flag)
        merged["ops"] += stats.get("ops", 0)
        merged["distinct"] += stats.get("distinct", 0)
        for k in ("classes", "generated"):
            for a, bb in (stats.get(k) or {}).items():
                merged[k][a] = merged[k].get(a, 0) + bb
        merged["samples"] += (stats.get("samples") or [])[:3]
        merged["findings"] += stats.get("findings") or []
        for d in dis:
            d["stream"] = flag
        all_dis += dis
        total += n
    return merged, all_dis, total


def run_stream(P, tier, seed, budget, workdir, binary, drv, flag):
    os.makedirs(workdir, exist_ok=True)
    for f in ("ops.txt", "impl.txt", "model.txt", "stats.json"):
        fp = os.path.join(workdir, f)
        if os.path.exists(fp):
            os.remove(fp)
    cmd = P.harness_cmd(P, binary, workdir, seed, budget, tier, flag)
    try:
        rc, out = runner.sh(cmd, cwd=workdir, timeout=P.harness_timeout(P, tier))
    except subprocess.TimeoutExpired:
        raise InfraError("harness timed out: " + " ".join(cmd))
    sp = os.path.join(workdir, "stats.json")
    if rc != 0 or not os.path.exists(sp):
        # a panic inside one of the library's own goroutines (a socket receiver) cannot be recovered by the
        # harness: the process dies.  The harness recorded the operation it was running.
        crash = re.search(r"^(panic: .*|fatal error: .*)$", out, re.M)
        infl = os.path.join(workdir, "inflight.txt")
        where = [l.strip() for l in out.splitlines() if "/knx-go/knx" in l or "/repo/knx" in l][:4]
        if crash and (os.path.exists(infl) or where):
            return dict(ops=0, distinct=0, classes={"process-crash": 1}, generated={}, samples=[],
                        findings=[dict(property=P.id, kind="process-crash",
                                       op=(open(infl).read() if os.path.exists(infl) else "<operation not recorded> " + " ".join(cmd[1:4])),
                                       detail="the library brought the process down: %s %s" % (crash.group(1), " | ".join(where)))]), [], 0
        raise InfraError("harness failed (rc=%s): %s\n%s" % (rc, " ".join(cmd), out[-3000:]))
    stats = json.load(open(sp))
    if drv is None:
        return stats, [], stats.get("ops", 0)
    runner.run_driver(os.path.join(workdir, "ops.txt"), os.path.join(workdir, "model.txt"), drv)
    dis, n = runner.compare(os.path.join(workdir, "ops.txt"), os.path.join(workdir, "impl.txt"),
                            os.path.join(workdir, "model.txt"), P.proj)
    return stats, dis, n


def run(prop, tier, seed):
    if prop not in ALL:
        print("ERROR: unknown property", prop)
        return 2
    P = ALL[prop]
    t0 = time.time()
    workdir = os.path.join(WORK, "%s-%s-%d" % (prop, tier, os.getpid()))
    os.makedirs(workdir, exist_ok=True)
    proof_log = ""
    with runner.Lock():
        runner.run_extractor()
        ok, out = runner.lake_build(["knxdrv"])
        if not ok:
            raise InfraError("model driver does not build:\n" + out[-4000:])
        # the property's theorems and its source tie (Props/Tie/<id>.lean: the files the hand-written model
        # stands for still have the reviewed text)
        modules = [P.lean_module, "Props.Tie." + P.id]
        proof_ok, proof_log = runner.lake_build(modules)
        gen_ok = True
        if any(d == "gendrv" for _, d, _ in (P.streams or [])):
            # gendrv executes the definitions regenerated from the source; when the source no longer
            # translates, that is a broken tie (decided below), not an infrastructure failure
            gen_ok, gout = runner.lake_build(["gendrv"])
            if not gen_ok:
                proof_log += "\n[gendrv] " + gout[-3000:]
        strict_broken = None
        uses_gen = any(d == "gendrv" for _, d, _ in (P.streams or []))
        if not proof_ok or not gen_ok:
            # The first way of the tie - theorems over the facts regenerated from the source - no longer
            # checks.  That alone does not say the property fails (a rewrite the translator cannot follow
            # breaks it too).  Second way: the facts recorded from the last reviewed tree (extract/baseline)
            # + the correspondence of the drivers built from them with the code as it is now.
            strict_log = proof_log
            changed = runner.changed_declarations()
            not_followed = runner.extraction_incomplete()

            def rebuild():
                ok2, log2 = runner.lake_build(modules)
                g2 = True
                if uses_gen and ok2:
                    g2, _ = runner.lake_build(["gendrv"])
                return ok2 and g2, log2

            # stage 1: only the source fingerprints are replaced by the recorded ones - every other
            # regenerated fact (tables, constants, translated helpers, shapes) stays as the code has it now,
            # so the semantic theorems are still checked against the current tree
            if proof_ok is False or gen_ok is False:
                if runner.restore_baseline(only=["Source.lean"]):
                    ok1, log1 = rebuild()
                    if ok1:
                        strict_broken = dict(theorems=(runner.broken_theorems(strict_log)[:8] or ["lake build " + P.lean_module]),
                                             log=strict_log[-2500:], changed_declarations=changed[:40], semantic=False)
                        proof_ok, gen_ok, proof_log = True, True, log1
                    else:
                        # stage 2: all recorded facts.  What broke in stage 1 is a theorem over a regenerated
                        # fact (or the translation itself)
                        strict_log = log1
                        if runner.restore_baseline():
                            ok2, log2 = rebuild()
                            if ok2:
                                items = runner.broken_theorems(strict_log)[:8] or ["lake build " + P.lean_module]
                                # a construct the extractor translates was rewritten into a form it does not
                                # know: the regenerated facts are incomplete, theorems over them say nothing
                                strict_broken = dict(theorems=items, log=strict_log[-2500:], changed_declarations=changed[:40],
                                                     not_followed=not_followed[:10],
                                                     semantic=not (not_followed or runner.only_followability(items)))
                                proof_ok, gen_ok, proof_log = True, True, log2
        thms, audit_ok, audit_log = [], False, ""
        if proof_ok:
            audit_ok, thms, audit_log = runner.audit(P.lean_module)
            ok_t, thms_t, log_t = runner.audit("Props.Tie." + P.id)
            audit_ok, thms, audit_log = audit_ok and ok_t and len(thms_t) == 1, thms + thms_t, audit_log + log_t
        forbidden = runner.grep_forbidden()
        leanchecker_ok = True
        if proof_ok and tier == "thorough":
            rc, lc = runner.sh(["lake", "env", "leanchecker"] + modules, cwd=LEAN, timeout=3600)
            leanchecker_ok = rc == 0
            if not leanchecker_ok:
                audit_log += "\nleanchecker: " + lc[-2000:]
        built = runner.build_harness(P.harness, go=P.harness_go, test=P.harness_test, pkg=P.harness_pkg)
        binary = {"main": os.path.join(workdir, os.path.basename(built))}
        shutil.copy(built, binary["main"])
        binary[P.harness] = binary["main"]
        for extra in list(getattr(P, "extra_harness", [])) + sorted({h for h, _, _, _ in P.extra_streams}):
            if extra in binary:
                continue
            b2 = runner.build_harness(extra)
            binary[extra] = os.path.join(workdir, extra)
            shutil.copy(b2, binary[extra])
        drivers = {}
        drivers[None] = None
        for dn in sorted({d for _, d, _ in (P.streams or [(P.id, "knxdrv", 1.0)]) if d} | {d for _, _, d, _ in P.extra_streams if d}):
            src = os.path.join(LEAN, ".lake", "build", "bin", dn)
            if dn == "gendrv" and not gen_ok:
                drivers[dn] = None  # the oracle of that stream still runs on the implementation
                continue
            drivers[dn] = os.path.join(workdir, dn)
            shutil.copy(src, drivers[dn])

    obligations = len(thms)
    discharged = len([t for t in thms if t["ok"]])
    proof_broken = (not gen_ok) or (not proof_ok) or (not audit_ok) or obligations == 0 or discharged != obligations \
        or bool(forbidden) or not leanchecker_ok
    broken_names = []
    if not proof_ok:
        broken_names = runner.broken_theorems(proof_log)[:8] or ["lake build " + P.lean_module]
    else:
        broken_names = [t["name"] for t in thms if not t["ok"]] + forbidden[:5]

    seeds = [seed] if tier == "quick" else [seed + i for i in range(P.thorough_seeds)]
    budget = P.budgets[tier]
    known = runner.load_known()
    all_findings, all_dis, evaluations, distinct = [], [], 0, 0
    classes, generated, samples = {}, {}, []
    runs = []

    def one(s, b, label):
        nonlocal evaluations, distinct
        wd = os.path.join(workdir, label)
        stats, dis, n = run_once(P, tier, s, b, wd, binary, drivers)
        evaluations += stats.get("ops", 0)
        distinct += stats.get("distinct", 0)
        for k, v in stats.get("classes", {}).items():
            classes[k] = classes.get(k, 0) + v
        for k, v in stats.get("generated", {}).items():
            generated[k] = generated.get(k, 0) + v
        if len(samples) < 12:
            samples.extend(stats.get("samples", [])[:6])
        for f in stats.get("findings", []):
            f["seed"] = s
            all_findings.append(f)
        for d in dis:
            d["seed"] = s
            all_dis.append(d)
        runs.append(dict(seed=s, budget=b, ops=stats.get("ops"), disagreements=len(dis),
                         oracle_findings=len(stats.get("findings", []))))

    for s in seeds:
        one(s, budget, "s%d" % s)

    new_findings = [f for f in all_findings if not runner.match_known(prop, f, known)]
    # escalate the search when something broke but no failing input is at hand
    if (proof_broken or all_dis or strict_broken) and not new_findings and tier == "quick":
        for s in (seed + 101, seed + 202)[:getattr(P, "escalate_seeds", 2)]:
            one(s, getattr(P, "escalate_budget", P.budgets["thorough"]), "esc%d" % s)
        new_findings = [f for f in all_findings if not runner.match_known(prop, f, known)]

    known_hit = {}
    for f in all_findings:
        k = runner.match_known(prop, f, known)
        if k:
            known_hit[k["id"]] = k

    verdict = 0
    lines = []
    for k in known_hit.values():
        lines.append("KNOWN-FINDING: property=%s %s" % (prop, k["what"]))
    replay_cmd = "./check %s %s  # with VERIF_SEED=%%d" % (prop, tier)
    if new_findings:
        f = new_findings[0]
        path = runner.write_replay(prop, dict(
            property=prop, kind=f["kind"], input=f["op"], detail=f["detail"], seed=f.get("seed"),
            how="the operation line `input` run against the real code by harness/cmd/%s; `detail` is what the oracle saw" % P.harness,
            replay_cmd="cd %s && VERIF_SEED=%d ./check %s %s" % (ROOT, f.get("seed", seed), prop, tier),
            more=[dict(kind=g["kind"], input=g["op"][:2000], detail=g["detail"][:1000]) for g in new_findings[1:10]],
            proof_obligation_broken=(broken_names if proof_broken else []) + (strict_broken["theorems"] if strict_broken else []),
            edited_declarations=(strict_broken.get("changed_declarations", []) if strict_broken else []),
            correspondence_disagreements=all_dis[:5]))
        lines.append("VIOLATION property=%s replay=%s" % (prop, path))
        verdict = 1
    elif proof_broken or all_dis:
        what = []
        if proof_broken:
            what.append(dict(theorems_or_build=broken_names, log=(proof_log + audit_log)[-3000:]))
        path = runner.write_replay(prop, dict(
            property=prop, kind="no-failing-input-found",
            broken=what, correspondence_disagreements=all_dis[:10],
            how=("a proof obligation of %s no longer checks and/or the model and the implementation disagree on the listed "
                 "operations; the oracle found no input on which the property itself fails" % P.lean_module),
            replay_cmd="cd %s && VERIF_SEED=%d ./check %s %s" % (ROOT, seed, prop, tier)))
        lines.append("VIOLATION property=%s replay=%s no-failing-input-found" % (prop, path))
        verdict = 1
    elif strict_broken and strict_broken.get("semantic"):
        # a theorem over a fact regenerated from the source as it is now is FALSE of that source (the translator
        # followed, the statement does not hold): the property is no longer shown to hold
        path = runner.write_replay(prop, dict(
            property=prop, kind="no-failing-input-found",
            broken=[dict(theorems_or_build=strict_broken["theorems"], log=strict_broken["log"])],
            edited_declarations=strict_broken.get("changed_declarations", []),
            how=("theorems of %s over the facts regenerated from the current source no longer check; with the recorded facts "
                 "they do, and the escalated search found no input on which the property fails" % P.lean_module),
            replay_cmd="cd %s && VERIF_SEED=%d ./check %s %s" % (ROOT, seed, prop, tier)))
        lines.append("VIOLATION property=%s replay=%s no-failing-input-found" % (prop, path))
        verdict = 1
    elif strict_broken:
        lines.append("NOTE: property=%s the theorems over the facts regenerated from the source no longer check (%s); "
                     "the recorded model (extract/baseline) and its correspondence with the code as it is now hold on "
                     "%d operations, no failing input%s" % (prop, ", ".join(strict_broken["theorems"][:3]), evaluations,
                                                           (("; edited declarations: " + "; ".join(strict_broken["changed_declarations"][:6]))
                                                            if strict_broken.get("changed_declarations") else "") +
                                                           (("; not followed by the extractor: " + "; ".join(strict_broken["not_followed"][:4]))
                                                            if strict_broken.get("not_followed") else "")))

    ev = dict(
        property_id=prop, tier=tier, seed=seed, level="proof",
        coverage=dict(
            obligations=max(obligations, 1) if proof_ok else 1,
            discharged=discharged if proof_ok else 0,
            checker_cmd="cd /verif/lean && lake build %s && lake env lean Audit/%s.lean%s" % (
                P.lean_module, P.lean_module.replace(".", "_"), " && lake env leanchecker " + P.lean_module if tier == "thorough" else ""),
            trusted_base=runner.TRUSTED_BASE,
            theorems=[dict(name=t["name"], axioms=t["axioms"], statement=t["statement"]) for t in thms],
            forbidden_token_hits=forbidden,
            evaluations=evaluations, distinct_nontrivial=distinct, rule=P.rule,
            samples=samples[:12] or ["<none>"],
            correspondence=dict(operations_compared=evaluations, disagreements=len(all_dis), runs=runs,
                                outcome_classes=classes, generated=generated),
            oracle_findings=len(all_findings), oracle_findings_known=len(all_findings) - len(new_findings),
            exhaustive=False,
        ),
        assumptions=list(P.assumptions) + (["PARTIAL: " + P.partial] if P.partial else []) + (
            ["TIE DEGRADED ON THIS RUN: the theorems over the regenerated facts did not check (%s); decided by the recorded "
             "model (extract/baseline) + correspondence" % ", ".join(strict_broken["theorems"][:5])] if strict_broken else []),
        wall_s=round(time.time() - t0, 2), violations=len(new_findings) + (1 if verdict and not new_findings else 0))
    runner.write_evidence(prop, ev)
    for l in lines:
        print(l)
    print("%s %s: theorems %d/%d, correspondence %d ops / %d disagreements, oracle findings %d (%d known), %.1fs" % (
        prop, tier, discharged, obligations, evaluations, len(all_dis), len(all_findings),
        len(all_findings) - len(new_findings), time.time() - t0))
    shutil.rmtree(workdir, ignore_errors=True)
    return verdict
