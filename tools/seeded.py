#!/usr/bin/env python3
"""Mutation drill: apply each kept seeded change (/verif/seeded/<name>/patch.diff) to /repo's working
tree, run the checks of its property, record whether a VIOLATION with a replay is reported, undo.

  tools/seeded.py [name ...] [--tier quick|thorough] [--also C03,C10]

Never commits anything to /repo; refuses to start when /repo's working tree is dirty."""
import json
import os
import re
import subprocess
import sys
import time

ROOT = os.path.dirname(os.path.dirname(os.path.abspath(__file__)))
SEEDED = os.path.join(ROOT, "seeded")
REPO = "/repo"


def sh(cmd, **kw):
    p = subprocess.run(cmd, stdout=subprocess.PIPE, stderr=subprocess.STDOUT, text=True, **kw)
    return p.returncode, p.stdout


def clean():
    rc, out = sh(["git", "-C", REPO, "status", "--porcelain"])
    return out.strip() == ""


def main():
    args = [a for a in sys.argv[1:] if not a.startswith("--")]
    tier = "quick"
    also = []
    for i, a in enumerate(sys.argv):
        if a == "--tier":
            tier = sys.argv[i + 1]
            args = [x for x in args if x != tier]
        if a == "--also":
            also = sys.argv[i + 1].split(",")
            args = [x for x in args if x != sys.argv[i + 1]]
    global SEEDED
    if "--harmless" in sys.argv:
        # behaviour-preserving rewrites: the checks must stay silent
        SEEDED = os.path.join(ROOT, "harmless")
    names = args or sorted(d for d in os.listdir(SEEDED) if os.path.isfile(os.path.join(SEEDED, d, "patch.diff")))
    if not clean():
        print("refusing: /repo has local changes")
        return 2
    resp = os.path.join(SEEDED, "RESULTS.json")
    results = json.load(open(resp)) if os.path.exists(resp) else {}
    for name in names:
        d = os.path.join(SEEDED, name)
        meta = json.load(open(os.path.join(d, "meta.json")))
        props = [meta["property"]] + [p for p in meta.get("also_checked_by", []) if p != meta["property"]] + also
        rc, out = sh(["git", "-C", REPO, "apply", os.path.join(d, "patch.diff")])
        if rc != 0:
            print(name, "patch does not apply:", out.strip()[:300])
            results[name] = dict(status="patch-does-not-apply")
            continue
        entry = dict(property=meta["property"], tier=tier, checks={})
        saved = {}
        for p in props:
            ep = os.path.join(ROOT, "evidence", p + ".json")
            if os.path.exists(ep):
                saved[ep] = open(ep).read()
        try:
            for p in props:
                t0 = time.time()
                rc, out = sh([os.path.join(ROOT, "check"), p, tier], cwd=ROOT)
                m = re.search(r"^VIOLATION property=(\S+) replay=(\S+)(.*)$", out, re.M)
                verdict = "caught" if (rc == 1 and m) else ("no-verdict" if rc not in (0, 1) else "missed")
                if "--harmless" in sys.argv:
                    verdict = {"caught": "ALARM", "missed": "silent"}.get(verdict, verdict)
                entry["checks"][p] = dict(verdict=verdict, rc=rc, seconds=round(time.time() - t0, 1),
                                          line=(m.group(0) if m else out.strip().splitlines()[-1][:300] if out.strip() else ""))
                if m and os.path.exists(m.group(2)):
                    try:
                        r = json.load(open(m.group(2)))
                        entry["checks"][p]["replay_kind"] = r.get("kind")
                        entry["checks"][p]["replay_input"] = str(r.get("input"))[:300]
                    except Exception:
                        pass
                    os.remove(m.group(2))  # replays of seeded changes are not kept
                print("%-28s %-4s %-10s %5.0fs  %s" % (name, p, verdict, time.time() - t0, entry["checks"][p]["line"][:140]))
                sys.stdout.flush()
        finally:
            sh(["git", "-C", REPO, "checkout", "--", "."])
            sh(["git", "-C", REPO, "clean", "-fdq"])
            for ep, txt in saved.items():  # evidence describes the unchanged tree, not the drill
                open(ep, "w").write(txt)
        entry["caught_by"] = [p for p, c in entry["checks"].items() if c["verdict"] in ("caught", "ALARM")]
        results[name] = entry
        json.dump(results, open(resp, "w"), indent=1, sort_keys=True)
    if not clean():
        print("WARNING: /repo not clean after the drill")
        return 2
    return 0


if __name__ == "__main__":
    sys.exit(main())
