#!/usr/bin/env python3
"""Confirm a sub-agent's seeded change in its scratch worktree and keep it under /verif/seeded.

  tools/import_seeded.py C08 [C18 ...]

For each of A.diff / B.diff in /tmp/wt-out/<id>/: apply in /tmp/wt/<id>, build, run the whole existing
test suite (must pass), run the demonstration on the changed and on the unchanged code (must
differ), revert.  Confirmed changes are copied to /verif/seeded/<id>-<name>/."""
import glob
import json
import os
import shutil
import subprocess
import sys

ENV = dict(os.environ, GOFLAGS="-mod=mod", GOPROXY="off", GOSUMDB="off", GOTOOLCHAIN="local")
ROOT = os.path.dirname(os.path.dirname(os.path.abspath(__file__)))


def sh(cmd, cwd, timeout=900):
    try:
        p = subprocess.run(cmd, cwd=cwd, env=ENV, stdout=subprocess.PIPE, stderr=subprocess.STDOUT, text=True, timeout=timeout)
        return p.returncode, p.stdout
    except subprocess.TimeoutExpired as e:
        return 124, "TIMEOUT " + str(e.stdout)[-2000:]


def run_demo(d):
    if not os.path.isdir(d):
        return None, "no demo dir"
    if glob.glob(os.path.join(d, "*_test.go")):
        return sh(["go", "test", "-tags", "verif", "-count=1", "-vet=off", "./..."], d, 600)
    gobin = "go"
    mod = os.path.join(d, "go.mod")
    if os.path.exists(mod) and ("go 1.26" in open(mod).read() or "synctest" in "".join(open(f).read() for f in glob.glob(os.path.join(d, "*.go")))):
        gobin = "go1.26.8"
    return sh([gobin, "run", "-tags", "verif", "."], d, 600)


def import_area(specs):
    """changes written per code area (not per property): /tmp/wt-out4/<name>/X<n>.diff, worktree /tmp/wt/<wt>;
    spec = name:wt.  Kept as /verif/seeded/X-<name>-<n>/ with the properties the author says are broken."""
    for spec in specs:
        name, wtn = spec.split(":")
        wt, out = "/tmp/wt/" + wtn, "/tmp/wt-out4/" + name
        meta = json.load(open(os.path.join(out, "meta.json")))
        by = {c["name"]: c for c in meta.get("changes", [])}
        for x in ("X1", "X2", "X3"):
            diff = os.path.join(out, x + ".diff")
            if not os.path.exists(diff):
                continue
            sh(["git", "checkout", "--", "."], wt)
            sh(["git", "clean", "-fdq"], wt)
            rc, o = sh(["git", "apply", "--check", diff], wt)
            if rc != 0:
                print(name, x, "REJECTED: does not apply", o[:200])
                continue
            touched = [l[6:].strip() for l in open(diff) if l.startswith("+++ b/")]
            if any(t.endswith("_test.go") or t.endswith("verif_hooks.go") for t in touched):
                print(name, x, "REJECTED: touches tests/hooks", touched)
                continue
            sh(["git", "apply", diff], wt)
            rc_b, _ = sh(["go", "build", "./..."], wt)
            rc_t, o_t = sh(["go", "test", "-vet=off", "-count=1", "./..."], wt)
            rc_c, o_c = run_demo(os.path.join(out, "demo" + x))
            sh(["git", "checkout", "--", "."], wt)
            sh(["git", "clean", "-fdq"], wt)
            rc_u, o_u = run_demo(os.path.join(out, "demo" + x))
            ok = rc_b == 0 and rc_t == 0 and rc_c is not None and (rc_c != rc_u or o_c != o_u)
            c = by.get(x, {})
            breaks = [b for b in (c.get("breaks") or []) if b.startswith("C")]
            print("X-%s-%s build=%s tests=%s demo changed rc=%s unchanged rc=%s breaks=%s -> %s" % (
                name, x[1:], rc_b, rc_t, rc_c, rc_u, breaks, "CONFIRMED" if ok and breaks else "NOT CONFIRMED"))
            if not (ok and breaks):
                continue
            dst = os.path.join(ROOT, "seeded", "X-%s-%s" % (name, x[1:]))
            if os.path.exists(dst):
                shutil.rmtree(dst)
            os.makedirs(os.path.join(dst, "demo"))
            shutil.copy(diff, os.path.join(dst, "patch.diff"))
            for f in glob.glob(os.path.join(out, "demo" + x, "*")):
                if os.path.isfile(f) and os.path.getsize(f) < 200000 and not f.endswith("go.sum"):
                    shutil.copy(f, os.path.join(dst, "demo"))
            open(os.path.join(dst, "demo", "confirmed_changed.txt"), "w").write("rc=%s\n%s" % (rc_c, (o_c or "")[-6000:]))
            open(os.path.join(dst, "demo", "confirmed_unchanged.txt"), "w").write("rc=%s\n%s" % (rc_u, (o_u or "")[-6000:]))
            json.dump(dict(property=breaks[0], also_checked_by=breaks[1:], name="X-%s-%s" % (name, x[1:]),
                           origin="fresh sub-agent given all twenty property texts, one code area and a scratch worktree",
                           summary=c.get("summary"), files=touched, manifests_when=c.get("manifests_when"),
                           expected_vs_actual=c.get("expected_vs_actual"),
                           confirmed=dict(applies=True, builds=True, existing_tests_pass=True,
                                          demo_differs_between_changed_and_unchanged=True)),
                      open(os.path.join(dst, "meta.json"), "w"), indent=1)
    return 0


def import_harmless(pids):
    """behaviour-preserving rewrites from /tmp/wt-out3/<id>/R*.diff: apply, build (with and without the
    verif tag), run the existing tests; kept under /verif/harmless/<id>-R<n>/"""
    for pid in pids:
        wt, out = "/tmp/wt/" + pid, os.environ.get("HARMLESS_OUT", "/tmp/wt-out3") + "/" + pid
        meta = json.load(open(os.path.join(out, "meta.json")))
        by = {c["name"]: c for c in meta.get("changes", [])}
        for name in ("R1", "R2", "R3"):
            store = os.environ.get("HARMLESS_RENAME", "").split(",")
            sname = dict(zip(("R1", "R2", "R3"), store)).get(name, name) if len(store) == 3 else name
            diff = os.path.join(out, name + ".diff")
            if not os.path.exists(diff):
                continue
            sh(["git", "checkout", "--", "."], wt)
            sh(["git", "clean", "-fdq"], wt)
            rc, o = sh(["git", "apply", "--check", diff], wt)
            if rc != 0:
                print(pid, name, "REJECTED: does not apply", o[:200])
                continue
            touched = [l[6:].strip() for l in open(diff) if l.startswith("+++ b/")]
            if any(t.endswith("_test.go") or t.endswith("verif_hooks.go") for t in touched):
                print(pid, name, "REJECTED: touches tests/hooks", touched)
                continue
            sh(["git", "apply", diff], wt)
            rc_b, _ = sh(["go", "build", "./..."], wt)
            rc_v, _ = sh(["go", "build", "-tags", "verif", "./..."], wt)
            rc_t, o_t = sh(["go", "test", "-vet=off", "-count=1", "./..."], wt)
            sh(["git", "checkout", "--", "."], wt)
            sh(["git", "clean", "-fdq"], wt)
            ok = rc_b == 0 and rc_v == 0 and rc_t == 0
            print("%s-%s build=%s verif-build=%s tests=%s -> %s" % (pid, name, rc_b, rc_v, rc_t, "CONFIRMED" if ok else "NOT CONFIRMED"))
            if not ok:
                continue
            dst = os.path.join(ROOT, "harmless", "%s-%s" % (pid, sname))
            if os.path.exists(dst):
                shutil.rmtree(dst)
            os.makedirs(dst)
            shutil.copy(diff, os.path.join(dst, "patch.diff"))
            c = by.get(name, {})
            json.dump(dict(property=pid, name=name, origin="fresh sub-agent asked for a behaviour-preserving rewrite of the code the property is anchored in",
                           summary=c.get("summary"), files=touched, why_behaviour_is_identical=c.get("why_behaviour_is_identical"),
                           confirmed=dict(applies=True, builds=True, builds_with_verif_tag=True, existing_tests_pass=True)),
                      open(os.path.join(dst, "meta.json"), "w"), indent=1)
    return 0


def main():
    outroot, rename = "/tmp/wt-out", {"A": "A", "B": "B"}
    args = sys.argv[1:]
    if args and args[0] == "--round2":
        outroot, rename = "/tmp/wt-out2", {"A": "C", "B": "D"}
        args = args[1:]
    if args and args[0] == "--round5":
        outroot, rename = "/tmp/wt-out5", {"A": "E", "B": "F"}
        args = args[1:]
    if args and args[0] == "--round8":
        outroot, rename = "/tmp/wt-out9", {"A": "K", "B": "L"}
        args = args[1:]
    if args and args[0] == "--round9":
        outroot, rename = "/tmp/wt-out10", {"A": "N", "B": "O"}
        args = args[1:]
    if args and args[0] == "--round7":
        outroot, rename = "/tmp/wt-out8", {"A": "I", "B": "J"}
        args = args[1:]
    if args and args[0] == "--round6":
        outroot, rename = "/tmp/wt-out6", {"A": "G", "B": "H"}
        args = args[1:]
    if args and args[0] == "--harmless":
        return import_harmless(args[1:])
    if args and args[0] == "--area":
        return import_area(args[1:])
    for pid in args:
        wt, out = "/tmp/wt/" + pid, outroot + "/" + pid
        meta = json.load(open(os.path.join(out, "meta.json")))
        by = {c["name"]: c for c in meta.get("changes", [])}
        for name in ("A", "B"):
            diff = os.path.join(out, name + ".diff")
            if not os.path.exists(diff):
                continue
            sh(["git", "checkout", "--", "."], wt)
            rc, o = sh(["git", "apply", "--check", diff], wt)
            if rc != 0:
                print(pid, name, "REJECTED: does not apply", o[:200])
                continue
            touched = [l[6:].strip() for l in open(diff) if l.startswith("+++ b/")]
            if any(t.endswith("_test.go") or t.endswith("verif_hooks.go") for t in touched):
                print(pid, name, "REJECTED: touches tests/hooks", touched)
                continue
            sh(["git", "apply", diff], wt)
            rc_b, o_b = sh(["go", "build", "./..."], wt)
            rc_t, o_t = sh(["go", "test", "-vet=off", "-count=1", "./..."], wt)
            rc_c, o_c = run_demo(os.path.join(out, "demo" + name))
            sh(["git", "checkout", "--", "."], wt)
            rc_u, o_u = run_demo(os.path.join(out, "demo" + name))
            ok = rc_b == 0 and rc_t == 0 and rc_c is not None and (rc_c != rc_u or o_c != o_u)
            print("%s-%s build=%s tests=%s demo changed rc=%s unchanged rc=%s -> %s" % (
                pid, rename[name], rc_b, rc_t, rc_c, rc_u, "CONFIRMED" if ok else "NOT CONFIRMED"))
            if not ok:
                print("   ", (o_t if rc_t else o_c or "")[-600:].replace("\n", "\n    "))
                continue
            dst = os.path.join(ROOT, "seeded", "%s-%s" % (pid, rename[name]))
            if os.path.exists(dst):
                shutil.rmtree(dst)
            os.makedirs(os.path.join(dst, "demo"))
            shutil.copy(diff, os.path.join(dst, "patch.diff"))
            for f in glob.glob(os.path.join(out, "demo" + name, "*")):
                if os.path.isfile(f) and os.path.getsize(f) < 200000 and not f.endswith("go.sum"):
                    shutil.copy(f, os.path.join(dst, "demo"))
            open(os.path.join(dst, "demo", "confirmed_changed.txt"), "w").write("rc=%s\n%s" % (rc_c, (o_c or "")[-6000:]))
            open(os.path.join(dst, "demo", "confirmed_unchanged.txt"), "w").write("rc=%s\n%s" % (rc_u, (o_u or "")[-6000:]))
            c = by.get(name, {})
            json.dump(dict(property=pid, name=rename[name], origin="fresh sub-agent given only the property text and a scratch worktree",
                           summary=c.get("summary"), files=touched, manifests_when=c.get("manifests_when"),
                           expected_vs_actual=c.get("expected_vs_actual"),
                           confirmed=dict(applies=True, builds=True, existing_tests_pass=True,
                                          demo_differs_between_changed_and_unchanged=True)),
                      open(os.path.join(dst, "meta.json"), "w"), indent=1)
    return 0


if __name__ == "__main__":
    sys.exit(main())
