#!/usr/bin/env python3
"""Writes lean/Props/Tie/<id>.lean: the obligation that the source files the property is anchored in
(properties.jsonl, plus the files listed in EXTRA) still have the reviewed fingerprints.
usage: source_tie.py [lean dir]"""
import json, os, re, sys

ROOT = os.path.dirname(os.path.dirname(os.path.abspath(__file__)))
LEAN = sys.argv[1] if len(sys.argv) > 1 else os.path.join(ROOT, "lean")
PROPS = os.path.join(ROOT, "properties.jsonl") if os.path.exists(os.path.join(ROOT, "properties.jsonl")) else "/verif/properties.jsonl"

# files the anchors do not list but the model of the property covers
EXTRA = {
    "C03": ["knx/inbound.go"], "C04": ["knx/inbound.go"], "C05": ["knx/inbound.go"], "C09": ["knx/inbound.go"],
    "C10": ["knx/inbound.go"], "C17": ["knx/inbound.go"], "C13": ["knx/inbound.go"], "C14": ["knx/inbound.go"],
    "C12": ["knx/inbound.go"], "C16": ["knx/knxnet/tunnel.go", "knx/knxnet/control.go"],
}


def ident(rel):
    return re.sub(r"[/\-.]", "_", rel[:-3] if rel.endswith(".go") else rel)


def main():
    for line in open(PROPS):
        d = json.loads(line)
        pid = d["id"]
        files = list(d["anchors"].get("files", []))
        for f in EXTRA.get(pid, []):
            if f not in files:
                files.append(f)
        dirs = []
        for f in files:
            dd = os.path.dirname(f)
            if dd not in dirs:
                dirs.append(dd)
        names = [ident(f) for f in files] + ["dir_" + ident(dd) for dd in dirs]
        path = os.path.join(LEAN, "Props", "Tie", pid + ".lean")
        os.makedirs(os.path.dirname(path), exist_ok=True)

        def lst(ns):
            out, cur = [], "     "
            for n in names:
                item = ns + "." + n + ", "
                if len(cur) + len(item) > 108:
                    out.append(cur.rstrip())
                    cur = "     "
                cur += item
            out.append(cur.rstrip().rstrip(","))
            return "\n".join(out)

        s = ("/-\n  Props/Tie/" + pid + ".lean - written by tools/source_tie.py, do not edit.\n\n"
             "  Source tie of " + pid + ".  The model behind this property was written by hand against one particular text of\n"
             "  the declarations in\n    " + ",\n    ".join(files) + ".\n"
             "  `Knx.Gen.Source` holds the fingerprints of every declaration of those files as they are in the working\n"
             "  tree now (regenerated on every run), `Knx.Reviewed` the fingerprints of the text the model was reviewed\n"
             "  against (`./check baseline`).  When this obligation no longer checks, code the model stands for was\n"
             "  edited: the check then falls back to the recorded facts and runs the escalated search for a failing\n"
             "  input (DESIGN.md 12.10).  A comment or layout change does not alter a fingerprint.\n-/\n"
             "import Knx.Gen.Source\nimport Knx.Reviewed\n\nnamespace Props." + pid + "\n\n"
             "theorem model_reviewed_against_source :\n    [\n" + lst("Knx.Gen.Source") + "\n    ] = [\n" + lst("Knx.Reviewed")
             + "\n    ] := by decide +kernel\n\nend Props." + pid + "\n")
        old = open(path, encoding="utf-8").read() if os.path.exists(path) else None
        if old != s:
            open(path, "w", encoding="utf-8").write(s)
        print(pid, len(files), "files")


main()
