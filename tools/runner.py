"""Orchestration for ./check: extract -> prove -> audit -> build harness -> correspond -> oracle -> decide."""
import fcntl, hashlib, json, os, re, shutil, subprocess, sys, time

ROOT = os.path.dirname(os.path.dirname(os.path.abspath(__file__)))
LEAN = os.path.join(ROOT, "lean")
HARNESS = os.path.join(ROOT, "harness")
EXTRACT = os.path.join(ROOT, "extract")
WORK = os.path.join(ROOT, "work")
REPO = os.environ.get("VERIF_REPO", "/repo")
ALLOWED_AXIOMS = {"propext", "Classical.choice", "Quot.sound"}
FORBIDDEN = re.compile(r"\b(sorry|admit|native_decide|bv_decide|implemented_by|unsafe)\b|^\s*axiom\s|maxHeartbeats\s+0\b")

TRUSTED_BASE = [
    "Lean 4.33.0 kernel (theorems re-elaborated by `lake build`; axioms of every property theorem listed by Lean.collectAxioms, allowed: propext, Classical.choice, Quot.sound)",
    "the hand-written Lean model of the anchored Go code, tied to /repo's working tree by the correspondence run of this check (same operations through the real code, built with -tags verif, and through the compiled model driver knxdrv)",
    "the go/ast extractor /verif/extract (regenerates Knx/Gen/*.lean from the working tree on every run)",
    "Go runtime and standard library semantics (slices, copy, channels, timers) as modelled",
]


def env():
    e = dict(os.environ)
    e.update(GOFLAGS="-mod=mod", GOPROXY="off", GOSUMDB="off", GOTOOLCHAIN="local", CGO_ENABLED=e.get("CGO_ENABLED", "1"))
    return e


def sh(cmd, cwd=None, timeout=None, inp=None, extra_env=None):
    e = env()
    if extra_env:
        e.update(extra_env)
    p = subprocess.run(cmd, cwd=cwd, env=e, stdout=subprocess.PIPE, stderr=subprocess.STDOUT, timeout=timeout,
                       input=inp, text=True)
    return p.returncode, p.stdout


class Lock:
    def __enter__(self):
        self.f = open(os.path.join(ROOT, ".lock"), "w")
        fcntl.flock(self.f, fcntl.LOCK_EX)
        return self

    def __exit__(self, *a):
        fcntl.flock(self.f, fcntl.LOCK_UN)
        self.f.close()


class InfraError(Exception):
    pass


# ---------------------------------------------------------------- build steps

def build_extractor():
    rc, out = sh(["go", "build", "-o", "bin/extract", "."], cwd=EXTRACT)
    if rc != 0:
        raise InfraError("extractor does not build:\n" + out)


def run_extractor():
    build_extractor()
    rc, out = sh([os.path.join(EXTRACT, "bin/extract"), "-repo", REPO, "-out", os.path.join(LEAN, "Knx", "Gen")])
    if rc != 0:
        raise InfraError("extractor failed on the working tree (does /repo parse?):\n" + out)


BASELINE = os.path.join(EXTRACT, "baseline")
GEN_FILES = ("Wire.lean", "Helpers.lean", "Dpt.lean", "Source.lean", "Client.lean")


def changed_declarations():
    """names of the declarations whose fingerprint in the regenerated Knx/Gen/Source.lean differs from the
    recorded one (extract/baseline/Source.lean); for the diagnostics of a broken source tie"""
    def read(path):
        out, cur = {}, None
        if not os.path.exists(path):
            return out
        for line in open(path, encoding="utf-8"):
            m = re.match(r"def (\S+) : List Nat", line)
            if m:
                cur = m.group(1)
                continue
            m = re.match(r"\s+(\d+),? -- (.*)", line)
            if m and cur:
                out.setdefault((cur, m.group(2).strip()), []).append(m.group(1))
        return out
    a, b = read(os.path.join(LEAN, "Knx", "Gen", "Source.lean")), read(os.path.join(BASELINE, "Source.lean"))
    names = sorted({k for k in set(a) | set(b) if a.get(k) != b.get(k)})
    return ["%s: %s" % (f, d) for f, d in names]


def restore_baseline(only=None):
    """second way of the tie: the facts recorded from the last reviewed tree (extract/baseline) take the place
    of the freshly regenerated ones (all of them, or only the files named); returns False when there is no
    baseline"""
    names = [n for n in GEN_FILES if os.path.exists(os.path.join(BASELINE, n))]
    if len(names) != len(GEN_FILES):
        return False
    for n in (only or names):
        shutil.copy(os.path.join(BASELINE, n), os.path.join(LEAN, "Knx", "Gen", n))
    return True


# obligations that only say "the translator could follow the source": when nothing but these (or the
# regenerated files themselves, or the source fingerprints) break, the semantic theorems were never
# contradicted by the code as it is
FOLLOWABILITY = ("shapes_recognised", "every_type_has_a_modelled_shape", "model_reviewed_against_source")


def extraction_incomplete():
    """what the extractor could not follow in the working tree (Knx/Gen/Status.lean, written on every run)"""
    p = os.path.join(LEAN, "Knx", "Gen", "Status.lean")
    if not os.path.exists(p):
        return []
    return re.findall(r'^\s+"((?:[^"\\]|\\.)*)"[,\]]?$', open(p, encoding="utf-8").read(), re.M)


def only_followability(items):
    """items: entries of broken_theorems (`path:line name - msg`)"""
    for it in items:
        m = re.match(r"(\S+?):\d+ (\S+)", it)
        if not m:
            if it.startswith("lake build") or it.startswith("[gendrv]"):
                continue
            return False
        path, name = m.group(1), m.group(2)
        if path.startswith("Knx/Gen/") or path.startswith("Driver/") or name in FOLLOWABILITY:
            continue
        return False
    return True


def record_baseline():
    """./check baseline: regenerate from /repo, build everything, and record the regenerated facts"""
    run_extractor()
    # the text the hand-written models are declared reviewed against: the working tree as it is now
    src = open(os.path.join(LEAN, "Knx", "Gen", "Source.lean"), encoding="utf-8").read()
    reviewed = src.replace("namespace Knx.Gen.Source", "namespace Knx.Reviewed").replace("end Knx.Gen.Source", "end Knx.Reviewed")
    reviewed = reviewed.replace("GENERATED by /verif/extract from /repo's working tree — do not edit.",
                                "RECORDED by `./check baseline` (a copy of Knx/Gen/Source.lean at that moment) — do not edit by hand.")
    open(os.path.join(LEAN, "Knx", "Reviewed.lean"), "w", encoding="utf-8").write(reviewed)
    ok, out = lake_build([])
    if not ok:
        print(out[-4000:])
        print("ERROR: the regenerated facts do not build; baseline not recorded")
        return 2
    os.makedirs(BASELINE, exist_ok=True)
    for n in GEN_FILES:
        shutil.copy(os.path.join(LEAN, "Knx", "Gen", n), os.path.join(BASELINE, n))
    print("baseline recorded from", REPO)
    return 0


def lake_build(targets):
    rc, out = sh(["lake", "build"] + targets, cwd=LEAN, timeout=3600)
    return rc == 0, out


def build_harness(name, tags="verif", go="go", test=False, pkg=None):
    os.makedirs(os.path.join(HARNESS, "bin"), exist_ok=True)
    shutil.copy(os.path.join(REPO, "go.sum"), os.path.join(HARNESS, "go.sum"))
    out_bin = os.path.join(HARNESS, "bin", name)
    if os.path.exists(out_bin):
        os.remove(out_bin)
    pkg = pkg or "./cmd/" + name
    if test:
        cmd = [go, "test", "-c", "-tags", tags, "-o", out_bin, pkg]
    else:
        cmd = [go, "build", "-tags", tags, "-o", out_bin, pkg]
    rc, out = sh(cmd, cwd=HARNESS, timeout=900)
    if rc != 0 or not os.path.exists(out_bin):
        raise InfraError("harness %s (or /repo with -tags %s) does not build:\n%s" % (name, tags, out))
    return out_bin


def broken_theorems(log):
    """map `error: File.lean:LINE:COL: msg` lines of a lake log to the enclosing theorem names"""
    out = []
    for m in re.finditer(r"error: (\S+?\.lean):(\d+):\d+: (.*)", log):
        path, line, msg = m.group(1), int(m.group(2)), m.group(3)
        name = None
        try:
            src = open(os.path.join(LEAN, path), encoding="utf-8").read().split("\n")
            for i in range(min(line, len(src)) - 1, -1, -1):
                mm = re.match(r"\s*(?:private\s+)?(?:theorem|lemma|def|example)\s+(\S+)?", src[i])
                if mm:
                    name = mm.group(1) or "example"
                    break
        except OSError:
            pass
        item = "%s:%d %s — %s" % (path, line, name or "?", msg[:160])
        if item not in out:
            out.append(item)
    return out


def driver_path():
    return os.path.join(LEAN, ".lake", "build", "bin", "knxdrv")


def run_driver(ops_path, model_path, drv=None):
    with open(ops_path) as fi, open(model_path, "w") as fo:
        p = subprocess.run([drv or driver_path()], stdin=fi, stdout=fo, stderr=subprocess.PIPE, text=True)
    if p.returncode != 0:
        raise InfraError("model driver failed: " + p.stderr[-2000:])


# ---------------------------------------------------------------- audit

AUDIT_TEMPLATE = """import Lean
import {mod}
open Lean Elab Command in
#eval show CommandElabM Unit from do
  let env ← getEnv
  let some idx := env.getModuleIdx? `{mod} | throwError "module not found"
  let mut n : Nat := 0
  for (name, ci) in env.constants.map₁.toList do
    if env.getModuleIdxFor? name == some idx then
      if let .thmInfo _ := ci then
        if name.isInternal then continue
        if !(`Props).isPrefixOf name then continue
        if name.components.any (fun c => (toString c).startsWith "eq_" || (toString c).startsWith "match_" || (toString c).startsWith "proof_" || (toString c).startsWith "_") then continue
        let axs ← collectAxioms name
        let ty ← liftTermElabM (do let f ← Meta.ppExpr ci.type; pure f.pretty)
        let ty1 := (ty.replace "\\n" " ")
        let axl := String.intercalate "," (axs.toList.map toString)
        IO.println s!"THEOREM {{name}} AXIOMS [{{axl}}] STATEMENT {{ty1}}"
        n := n + 1
  IO.println s!"THEOREMS {{n}}"
"""


def audit(mod):
    """returns (theorems: list of dict(name, axioms, statement, ok), log)"""
    os.makedirs(os.path.join(LEAN, "Audit"), exist_ok=True)
    path = os.path.join(LEAN, "Audit", mod.replace(".", "_") + ".lean")
    with open(path, "w") as f:
        f.write(AUDIT_TEMPLATE.format(mod=mod))
    rc, out = sh(["lake", "env", "lean", path], cwd=LEAN, timeout=1200)
    thms = []
    for m in re.finditer(r"THEOREM (\S+) AXIOMS \[(.*?)\] STATEMENT (.*)", out):
        axs = [a.strip() for a in m.group(2).split(",") if a.strip()]
        thms.append(dict(name=m.group(1), axioms=axs, statement=m.group(3).strip()[:400],
                         ok=set(axs) <= ALLOWED_AXIOMS))
    return rc == 0, thms, out


def grep_forbidden():
    hits = []
    for d, _, fs in os.walk(LEAN):
        if ".lake" in d or d.endswith("/Audit"):
            continue
        for fn in fs:
            if not fn.endswith(".lean"):
                continue
            p = os.path.join(d, fn)
            in_block = False
            for i, line in enumerate(open(p, encoding="utf-8"), 1):
                s = line
                # strip comments (line comments and simple block comments)
                if in_block:
                    if "-/" in s:
                        s = s.split("-/", 1)[1]
                        in_block = False
                    else:
                        continue
                while "/-" in s:
                    a, b = s.split("/-", 1)
                    if "-/" in b:
                        s = a + b.split("-/", 1)[1]
                    else:
                        s = a
                        in_block = True
                s = s.split("--", 1)[0]
                if FORBIDDEN.search(s):
                    hits.append("%s:%d: %s" % (os.path.relpath(p, ROOT), i, line.strip()))
    return hits


# ---------------------------------------------------------------- known findings

def load_known():
    p = os.path.join(ROOT, "known_findings.json")
    if not os.path.exists(p):
        return []
    return json.load(open(p)).get("findings", [])


def match_known(prop, finding, known):
    """a finding is known when every key of the entry's `match` is a regex that matches the
    corresponding field of the finding"""
    for k in known:
        if k.get("property") != prop or k.get("status") == "fixed":
            continue
        ok = True
        for field, rx in k.get("match", {}).items():
            if not re.search(rx, str(finding.get(field, ""))):
                ok = False
                break
        if ok:
            return k
    return None


# ---------------------------------------------------------------- evidence / verdict

def write_evidence(prop, ev):
    os.makedirs(os.path.join(ROOT, "evidence"), exist_ok=True)
    with open(os.path.join(ROOT, "evidence", prop + ".json"), "w") as f:
        json.dump(ev, f, indent=1, ensure_ascii=False)


def write_replay(prop, payload):
    os.makedirs(os.path.join(ROOT, "replays"), exist_ok=True)
    h = hashlib.sha1(json.dumps(payload, sort_keys=True).encode()).hexdigest()[:12]
    path = os.path.join(ROOT, "replays", "%s-%s.json" % (prop, h))
    with open(path, "w") as f:
        json.dump(payload, f, indent=1, ensure_ascii=False)
    return path


def compare(ops_path, impl_path, model_path, proj):
    ops = open(ops_path, encoding="utf-8").read().split("\n")
    impl = open(impl_path, encoding="utf-8").read().split("\n")
    model = open(model_path, encoding="utf-8").read().split("\n")
    dis = []
    n = min(len(impl), len(model))
    if len(impl) != len(model):
        dis.append(dict(index=n, op="<stream length>", impl=str(len(impl)), model=str(len(model))))
    for i in range(n):
        a, b = impl[i], model[i]
        if a == b:
            continue
        if proj(ops[i], a) != proj(ops[i], b):
            dis.append(dict(index=i, op=ops[i][:6000], impl=a[:6000], model=b[:6000]))
            if len(dis) >= 50:
                break
    return dis, n


def main(argv):
    import props
    if not argv:
        print(__doc__)
        return 2
    if argv[0] == "setup":
        return props.setup()
    if argv[0] == "replay":
        return props.replay(argv[1])
    if argv[0] == "baseline":
        with Lock():
            return record_baseline()
    prop = argv[0]
    tier = argv[1] if len(argv) > 1 else os.environ.get("VERIF_TIER", "quick")
    seed = int(os.environ.get("VERIF_SEED", "1"))
    try:
        return props.run(prop, tier, seed)
    except InfraError as e:
        print("ERROR (no verdict): %s" % e)
        return 2
