/-
  Knx/RoundTripDib.lean — round trips of the description blocks: friendly name, device
  information block, supported-services block, and the two services built from them
  (SearchRes, DescriptionRes).
-/
import Knx.RoundTrip

namespace Knx

/-- an encodable friendly name: Latin-1 without NUL, at most 29 characters -/
def Name.ok (n : List Nat) : Bool := n.length ≤ 29 && n.all (fun c => 0 < c && c < 256)

theorem dropWhile_zero_replicate (k : Nat) (l : List Byte) :
    (List.replicate k (0 : Byte) ++ l).dropWhile (· == 0) = l.dropWhile (· == 0) := by
  induction k with
  | zero => rfl
  | succ k ih => simp [List.replicate_succ, ih]

theorem trimRightNul_pad (e : List Byte) (k : Nat) (h : ∀ b ∈ e, b ≠ 0) :
    trimRightNul (e ++ List.replicate k 0) = e := by
  unfold trimRightNul
  rw [List.reverse_append, List.reverse_replicate, dropWhile_zero_replicate]
  have : e.reverse.dropWhile (· == 0) = e.reverse := by
    cases hr : e.reverse with
    | nil => rfl
    | cons b t =>
      have hb : b ∈ e := by
        have : b ∈ e.reverse := by rw [hr]; exact List.mem_cons_self ..
        simpa using this
      have := h b hb
      simp only [List.dropWhile_cons]
      rw [if_neg (by simpa using this)]
  rw [this, List.reverse_reverse]

theorem encName_ok (n : List Nat) (h : Name.ok n = true) :
    encName n = n.map (BitVec.ofNat 8) ++ List.replicate (30 - n.length) 0 := by
  simp only [Name.ok, Bool.and_eq_true, decide_eq_true_eq, List.all_eq_true] at h
  unfold encName
  have hall : n.all (· < 256) = true := by
    simp only [List.all_eq_true, decide_eq_true_eq]
    intro c hc; exact (h.2 c hc).2
  simp only [hall, ↓reduceIte, List.length_map]
  rw [if_neg (by omega)]

theorem encName_length (n : List Nat) : (encName n).length = 30 := by
  unfold encName
  split
  · simp only [List.length_map]
    split
    · simp only [List.length_append, List.length_take, List.length_map, List.length_cons, List.length_nil]; omega
    · simp only [List.length_append, List.length_map, List.length_replicate]; omega
  · simp

/-- the friendly name comes back -/
theorem Parses.name (n : List Nat) (h : Name.ok n = true) : Parses (unpackString 30) (encName n) n := by
  intro r tl
  have hlen := encName_length n
  unfold unpackString
  simp only [GoSlice.len, List.length_append, hlen]
  rw [if_neg (by omega)]
  simp only [GoSlice.upto, GoSlice.slice, GoSlice.cap, List.length_append, hlen, List.drop_zero]
  rw [if_pos (by omega)]
  simp only [Nat.sub_zero]
  have : ((encName n ++ r) ++ tl).take 30 = encName n := by
    rw [List.append_assoc, List.take_append_of_le_length (by omega), ← hlen, List.take_length]
  rw [this, encName_ok n h]
  have hk := h
  simp only [Name.ok, Bool.and_eq_true, decide_eq_true_eq, List.all_eq_true] at hk
  rw [trimRightNul_pad]
  · simp only [List.map_map]
    congr 1
    · have : n.map (BitVec.toNat ∘ BitVec.ofNat 8) = n.map id := by
        apply List.map_congr_left
        intro c hc
        have := (hk.2 c hc).2
        simp only [Function.comp, BitVec.toNat_ofNat, id]
        omega
      simpa using this
  · intro b hb
    simp only [List.mem_map] at hb
    obtain ⟨c, hc, rfl⟩ := hb
    have := hk.2 c hc
    intro h0
    have h1 := congrArg BitVec.toNat h0
    simp only [BitVec.toNat_ofNat] at h1
    have : (0 : BitVec 8).toNat = 0 := rfl
    rw [this] at h1
    omega

/-- an encodable device information block -/
def DevInfo.ok (d : DevInfo) : Bool :=
  d.serial.length == 6 && d.mcast.length == 4 && d.hw.length == 6 && Name.ok d.name

theorem fit_exact (n : Nat) (l : List Byte) (h : l.length = n) : fit n l = l := by
  unfold fit
  subst h
  simp

theorem rt_devInfo (d : DevInfo) (h : d.ok = true) : Parses unpackDevInfo (encDevInfo d) d := by
  simp only [DevInfo.ok, Bool.and_eq_true, beq_iff_eq] at h
  obtain ⟨⟨⟨hs, hm⟩, hh⟩, hn⟩ := h
  have henc : encDevInfo d = 54 :: d.ty :: d.medium :: d.status :: hi8 d.source :: lo8 d.source ::
      hi8 d.project :: lo8 d.project :: (d.serial ++ (d.mcast ++ (d.hw ++ (encName d.name ++ [])))) := by
    unfold encDevInfo encU16
    rw [fit_exact 6 _ hs, fit_exact 4 _ hm, fit_exact 6 _ hh]
    simp
  rw [henc]
  unfold unpackDevInfo
  refine Parses.u8_bind (Parses.u8_bind (Parses.u8_bind (Parses.u8_bind ?_)))
  refine Parses.u16_bind (Parses.u16_bind ?_)
  refine Parses.bytes_bind hs (Parses.bytes_bind hm (Parses.bytes_bind hh ?_))
  refine (Parses.name d.name hn).bind ?_
  exact Parses.guard_bind rfl (Parses.pure _)

/-! ### supported-services block -/

def flatFams (fams : List (Byte × Byte)) : List Byte := fams.flatMap (fun f => [f.1, f.2])

theorem flatFams_length (fams : List (Byte × Byte)) : (flatFams fams).length = 2 * fams.length := by
  induction fams with
  | nil => rfl
  | cons f t ih => simp only [flatFams, List.flatMap_cons, List.length_append, List.length_cons,
      List.length_nil] at ih ⊢; omega

theorem Parses.family (a b : Byte) : Parses unpackFamily [a, b] (a, b) := by
  unfold unpackFamily
  exact Parses.u8_bind (Parses.u8_bind (Parses.pure _))

theorem familiesLoop_ok (length : Nat) (s : GoSlice) :
    ∀ (rest : List (Byte × Byte)) (n : Nat) (acc : List (Byte × Byte)) (fuel : Nat) (r : List Byte),
      rest.length < fuel → s.vis.drop n = flatFams rest ++ r → n ≤ s.len → n + 2 * rest.length = length →
      familiesLoop length fuel n acc s = .ok (acc ++ rest, length) := by
  intro rest
  induction rest with
  | nil =>
    intro n acc fuel r hf _ _ hn
    cases fuel with
    | zero => omega
    | succ fuel =>
      unfold familiesLoop
      simp only [List.length_nil, Nat.mul_zero, Nat.add_zero] at hn
      rw [if_neg (by omega)]
      simp [hn]
  | cons f rest ih =>
    intro n acc fuel r hf hd hle hn
    cases fuel with
    | zero => omega
    | succ fuel =>
      unfold familiesLoop
      simp only [List.length_cons] at hn hf
      rw [if_pos (by omega)]
      simp only [GoSlice.from]
      rw [if_pos hle]
      simp only
      have hd' : s.vis.drop n = [f.1, f.2] ++ (flatFams rest ++ r) := by
        rw [hd]; simp [flatFams, List.flatMap_cons]
      rw [hd']
      rw [Parses.family f.1 f.2 (flatFams rest ++ r) s.tail]
      simp only [List.length_cons, List.length_nil]
      have hlen : (s.vis.drop n).length = 2 + (flatFams rest ++ r).length := by
        rw [hd']; simp; omega
      simp only [List.length_drop] at hlen
      have := ih (n + 2) (acc ++ [f]) fuel r (by omega)
        (by rw [← List.drop_drop, hd']; rfl) (by simp only [GoSlice.len]; omega) (by omega)
      rw [this]
      simp

/-- an encodable supported-services block: the length octet can hold it -/
def SvcDIB.ok (d : SvcDIB) : Bool := d.families.length ≤ 126

theorem rt_svcDIB (d : SvcDIB) (h : d.ok = true) : Parses (unpackSvcDIB []) (encSvcDIB d) d := by
  simp only [SvcDIB.ok, decide_eq_true_eq] at h
  intro r tl
  have henc : encSvcDIB d = BitVec.ofNat 8 (sizeSvcDIB d) :: d.ty :: flatFams d.families := rfl
  have hlen : (encSvcDIB d).length = 2 + 2 * d.families.length := by
    rw [henc]; simp [flatFams_length]; omega
  unfold unpackSvcDIB
  simp only
  have hhdr : unpackDibHeader.run { vis := encSvcDIB d ++ r, tail := tl } =
      .ok ((BitVec.ofNat 8 (sizeSvcDIB d), d.ty), 2) := by
    have : Parses unpackDibHeader [BitVec.ofNat 8 (sizeSvcDIB d), d.ty] (BitVec.ofNat 8 (sizeSvcDIB d), d.ty) := by
      unfold unpackDibHeader
      exact Parses.u8_bind (Parses.u8_bind (Parses.pure _))
    have := this (flatFams d.families ++ r) tl
    rw [henc]
    simpa using this
  rw [hhdr]
  simp only
  have hsz : (BitVec.ofNat 8 (sizeSvcDIB d)).toNat = 2 + 2 * d.families.length := by
    simp only [BitVec.toNat_ofNat, sizeSvcDIB]; omega
  rw [hsz]
  rw [familiesLoop_ok (2 + 2 * d.families.length) _ d.families 2 [] _ r]
  · simp only [List.nil_append]
    rw [if_neg (by omega)]
    rw [hlen]
  · simp only [GoSlice.len, List.length_append, hlen]; omega
  · rw [henc]; simp
  · simp only [GoSlice.len, List.length_append, hlen]; omega
  · rfl

/-! ### the two services -/

theorem rt_searchRes (c : HostInfo) (dev : DevInfo) (svc : SvcDIB) (hd : dev.ok = true) (hs : svc.ok = true) :
    Parses unpackSearchRes (encHostInfo c ++ (encDevInfo dev ++ (encSvcDIB svc ++ []))) (.searchRes c dev svc) := by
  unfold unpackSearchRes
  exact (rt_hostInfo c).bind ((rt_devInfo dev hd).bind ((rt_svcDIB svc hs).bind (Parses.pure _)))

theorem encDevInfo_length (d : DevInfo) : (encDevInfo d).length = 54 := by
  simp [encDevInfo, encU16, fit, encName_length]
  omega

theorem encSvcDIB_length (d : SvcDIB) : (encSvcDIB d).length = 2 + 2 * d.families.length := by
  have henc : encSvcDIB d = BitVec.ofNat 8 (sizeSvcDIB d) :: d.ty :: flatFams d.families := rfl
  rw [henc]; simp [flatFams_length]; omega

theorem dibHeader_cons (a b : Byte) (l tl : List Byte) :
    unpackDibHeader.run { vis := a :: b :: l, tail := tl } = .ok ((a, b), 2) := by
  have : Parses unpackDibHeader [a, b] (a, b) := by
    unfold unpackDibHeader
    exact Parses.u8_bind (Parses.u8_bind (Parses.pure _))
  exact this l tl

/-- the description block of a description response: device information (type 1) followed by the
    supported service families (type 2) -/
theorem rt_descBlock (dev : DevInfo) (svc : SvcDIB) (hd : dev.ok = true) (hs : svc.ok = true)
    (ht1 : dev.ty = 1) (ht2 : svc.ty = 2) :
    ParsesAll unpackDescBlock (encDevInfo dev ++ encSvcDIB svc) { dev := dev, svc := svc, unknown := [] } := by
  intro tl
  have hA := encDevInfo_length dev
  have hB := encSvcDIB_length svc
  have hk : svc.families.length ≤ 126 := by simpa [SvcDIB.ok] using hs
  obtain ⟨a2, hAeq⟩ : ∃ l, encDevInfo dev = 54 :: dev.ty :: l := ⟨_, rfl⟩
  have hBeq : encSvcDIB svc = BitVec.ofNat 8 (sizeSvcDIB svc) :: svc.ty :: flatFams svc.families := rfl
  have hL : (BitVec.ofNat 8 (sizeSvcDIB svc)).toNat = 2 + 2 * svc.families.length := by
    simp only [BitVec.toNat_ofNat, sizeSvcDIB]; omega
  unfold unpackDescBlock
  simp only [GoSlice.len, List.length_append, hA, hB]
  -- first block
  rw [show 54 + (2 + 2 * svc.families.length) + 1 = (54 + 2 * svc.families.length) + 1 + 1 + 1 by omega]
  rw [descLoop]
  simp only [GoSlice.len, List.length_append, hA, hB]
  rw [if_pos (by omega)]
  simp only [GoSlice.from, GoSlice.len, Nat.zero_le, ↓reduceIte, List.drop_zero]
  rw [hAeq, List.cons_append, List.cons_append, dibHeader_cons]
  simp only
  have h54 : (54 : Byte).toNat = 54 := rfl
  rw [h54, ← List.cons_append, ← List.cons_append, ← hAeq]
  rw [if_neg (by first | omega | (simp only [List.length_append, hA, hB]; omega))]
  rw [ht1]
  simp only [beq_self_eq_true, ↓reduceIte, GoSlice.slice, GoSlice.cap, List.length_append, hA, hB, List.drop_zero]
  rw [if_pos (by omega)]
  simp only [Nat.sub_zero]
  have htake : ((encDevInfo dev ++ encSvcDIB svc) ++ tl).take 54 = encDevInfo dev ++ [] := by
    rw [List.append_assoc, List.take_append_of_le_length (by omega), ← hA, List.take_length, List.append_nil]
  rw [htake, rt_devInfo dev hd [] _]
  simp only
  -- second block
  rw [descLoop]
  simp only [GoSlice.len, List.length_append, hA, hB, Nat.zero_add]
  rw [if_pos (by omega)]
  simp only [GoSlice.from, GoSlice.len, List.length_append, hA, hB]
  rw [if_pos (by omega)]
  simp only
  have hdrop : (encDevInfo dev ++ encSvcDIB svc).drop 54 = encSvcDIB svc := by
    rw [← hA, List.drop_left]
  rw [hdrop, hBeq, dibHeader_cons, ← hBeq]
  simp only [hL]
  rw [if_neg (by first | omega | (simp only [List.length_append, hA, hB]; omega))]
  rw [ht2]
  simp only [show ((2 : Byte) == 1) = false from rfl, Bool.false_eq_true, ↓reduceIte, beq_self_eq_true,
    GoSlice.slice, GoSlice.cap, List.length_append, hA, hB]
  rw [if_pos (by omega)]
  have hsl : (((encDevInfo dev ++ encSvcDIB svc) ++ tl).drop 54).take (54 + (2 + 2 * svc.families.length) - 54) =
      encSvcDIB svc ++ [] := by
    rw [List.append_assoc, ← hA, List.drop_left, hA, List.take_append_of_le_length (by omega)]
    rw [show 54 + (2 + 2 * svc.families.length) - 54 = (encSvcDIB svc).length by omega, List.take_length,
      List.append_nil]
  rw [hsl]
  have hz : (DescBlock.zero).svc.families = [] := rfl
  simp only [hz]
  rw [rt_svcDIB svc hs [] _]
  simp only
  -- the end
  rw [descLoop]
  simp only [GoSlice.len, List.length_append, hA, hB]
  rw [if_neg (by omega)]
  try simp only [hB]
  try rfl

/-- every encodable service value (the predicate of the full C02 theorem): the simple services as
    before; a search response with an encodable device block and family list; a description
    response whose two blocks carry their own type codes and that holds no unknown blocks (the
    encoder does not emit any) -/
def Service.ok : Service → Bool
  | .searchRes _ dev svc => dev.ok && svc.ok
  | .descrRes b => b.dev.ok && b.svc.ok && b.dev.ty == 1 && b.svc.ty == 2 && b.unknown.isEmpty
  | v => v.okSimple

theorem bodyRT_searchRes (c : HostInfo) (dev : DevInfo) (svc : SvcDIB) (hd : dev.ok = true) (hs : svc.ok = true) :
    BodyRT (.searchRes c dev svc) (encHostInfo c ++ encDevInfo dev ++ encSvcDIB svc) := by
  intro tl
  have := (rt_searchRes c dev svc hd hs).all tl
  simp only [List.append_nil] at this
  simp only [bodyDecoder, Service.id, SearchReqService, SearchResService, unreadTail, List.append_assoc,
    Nat.sub_zero]
  exact this

theorem bodyRT_descrRes (b : DescBlock) (hd : b.dev.ok = true) (hs : b.svc.ok = true)
    (ht1 : b.dev.ty = 1) (ht2 : b.svc.ty = 2) (hu : b.unknown = []) :
    BodyRT (.descrRes b) (encDevInfo b.dev ++ encSvcDIB b.svc) := by
  intro tl
  have h := rt_descBlock b.dev b.svc hd hs ht1 ht2
  have := (h.bind_pure Service.descrRes) tl
  have hb : ({ dev := b.dev, svc := b.svc, unknown := [] } : DescBlock) = b := by
    cases b; simp_all
  rw [hb] at this
  simp only [bodyDecoder, Service.id, SearchReqService, SearchResService, DescrReqService, DescrResService,
    unreadTail, Nat.sub_zero]
  exact this

/-- every encodable service body round-trips through its decoder -/
theorem bodyRT_all (v : Service) (h : v.ok = true) : ∃ body, encBody v = some body ∧ BodyRT v body := by
  cases v with
  | searchRes c dev svc =>
    simp only [Service.ok, Bool.and_eq_true] at h
    exact ⟨_, rfl, bodyRT_searchRes c dev svc h.1 h.2⟩
  | descrRes b =>
    simp only [Service.ok, Bool.and_eq_true, beq_iff_eq, List.isEmpty_iff] at h
    exact ⟨_, rfl, bodyRT_descrRes b h.1.1.1.1 h.1.1.1.2 h.1.1.2 h.1.2 h.2⟩
  | _ => exact bodyRT_simple _ h

end Knx
