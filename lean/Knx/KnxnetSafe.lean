/-
  Knx/KnxnetSafe.lean — every decoder of `Knx.Knxnet` is `Safe`
  (returns, consumed ≤ len, independent of the bytes behind the slice).
-/
import Knx.Knxnet

namespace Knx

/-- discharge `Safe (do …)` goals built from safe pieces -/
macro "safe_tac" : tactic => `(tactic| repeat' (first
  | exact safe_unpackU8 | exact safe_unpackU16 | exact safe_unpackBytes _ | exact safe_unpackRest
  | exact safe_unpackString _ | exact safe_unpackInfo | exact safe_unpackTPDU
  | exact safe_unpackLData | exact safe_unpackCemi
  | exact Safe.pure _ | exact Safe.fail | exact Safe.guard _
  | apply Safe.bind | intro _ | split))

theorem safe_unpackHostInfo : Safe unpackHostInfo := by unfold unpackHostInfo; safe_tac

macro "safe_tac2" : tactic => `(tactic| repeat' (first
  | exact safe_unpackU8 | exact safe_unpackU16 | exact safe_unpackBytes _ | exact safe_unpackRest
  | exact safe_unpackString _ | exact safe_unpackCemi | exact safe_unpackHostInfo
  | exact Safe.pure _ | exact Safe.fail | exact Safe.guard _
  | apply Safe.bind | intro _ | split))

theorem safe_unpackConnReq : Safe unpackConnReq := by unfold unpackConnReq; safe_tac2
theorem safe_unpackConnRes : Safe unpackConnRes := by unfold unpackConnRes; safe_tac2
theorem safe_unpackConnStateReq : Safe unpackConnStateReq := by unfold unpackConnStateReq; safe_tac2
theorem safe_unpackConnStateRes : Safe unpackConnStateRes := by unfold unpackConnStateRes; safe_tac2
theorem safe_unpackDiscReq : Safe unpackDiscReq := by unfold unpackDiscReq; safe_tac2
theorem safe_unpackDiscRes : Safe unpackDiscRes := by unfold unpackDiscRes; safe_tac2
theorem safe_unpackTunnelReq : Safe unpackTunnelReq := by unfold unpackTunnelReq; safe_tac2
theorem safe_unpackTunnelRes : Safe unpackTunnelRes := by unfold unpackTunnelRes; safe_tac2
theorem safe_unpackRoutingInd : Safe unpackRoutingInd := by unfold unpackRoutingInd; safe_tac2
theorem safe_unpackRoutingLost : Safe unpackRoutingLost := by unfold unpackRoutingLost; safe_tac2
theorem safe_unpackRoutingBusy : Safe unpackRoutingBusy := by unfold unpackRoutingBusy; safe_tac2
theorem safe_unpackDevInfo : Safe unpackDevInfo := by unfold unpackDevInfo; safe_tac2
theorem safe_unpackFamily : Safe unpackFamily := by unfold unpackFamily; safe_tac2
theorem safe_unpackSearchReq : Safe unpackSearchReq := by unfold unpackSearchReq; safe_tac2
theorem safe_unpackDescrReq : Safe unpackDescrReq := by unfold unpackDescrReq; safe_tac2
theorem safe_unpackHeader : Safe unpackHeader := by unfold unpackHeader; safe_tac2
theorem safe_unpackDibHeader : Safe unpackDibHeader := by unfold unpackDibHeader; safe_tac2

/-- a family, when decoded, consumes exactly two bytes -/
theorem unpackFamily_eq (s : GoSlice) :
    unpackFamily.run s = match s.vis with
      | a :: b :: _ => .ok ((a, b), 2)
      | _ => .err := by
  obtain ⟨vis, tl⟩ := s
  unfold unpackFamily
  simp only [Dec.bind_def, Dec.bind, Dec.pure_def, unpackU8, GoSlice.get, GoSlice.from, GoSlice.len]
  rcases vis with _ | ⟨a, _ | ⟨b, t⟩⟩ <;> simp

theorem unpackFamily_consumed {s : GoSlice} {f : Byte × Byte} {n : Nat}
    (h : unpackFamily.run s = .ok (f, n)) : n = 2 := by
  rw [unpackFamily_eq] at h
  split at h
  · simp only [R.ok.injEq, Prod.mk.injEq] at h; omega
  · cases h

/-! #### the supported-services loop -/

theorem familiesLoop_spec (length : Nat) (s : GoSlice) :
    ∀ fuel n acc, n ≤ s.len → s.len - n < fuel →
      (familiesLoop length fuel n acc s).Returns ∧
      (∀ r k, familiesLoop length fuel n acc s = .ok (r, k) → k ≤ s.len) ∧
      familiesLoop length fuel n acc s = familiesLoop length fuel n acc s.clip := by
  intro fuel
  induction fuel with
  | zero => intro n acc _ h; omega
  | succ fuel ih =>
    intro n acc hn hf
    unfold familiesLoop
    by_cases hl : n < length
    · simp only [hl, if_true, GoSlice.from, hn, GoSlice.clip_len]
      have hs := safe_unpackFamily
      have hc := hs.clip { vis := s.vis.drop n, tail := s.tail }
      simp only [GoSlice.clip] at hc ⊢
      rw [← hc]
      cases hu : unpackFamily.run { vis := s.vis.drop n, tail := s.tail } with
      | ok p =>
        obtain ⟨f, nn⟩ := p
        have h2 := unpackFamily_consumed hu
        have h3 := hs.consumed _ _ _ hu
        simp only [GoSlice.len, List.length_drop] at h3
        subst h2
        have := ih (n + 2) (acc ++ [f]) (by simp only [GoSlice.len] at hn ⊢; omega)
          (by simp only [GoSlice.len] at hn hf ⊢; omega)
        exact this
      | err => exact ⟨trivial, fun _ _ h => (by cases h), rfl⟩
      | panic =>
        have := hs.returns { vis := s.vis.drop n, tail := s.tail }; rw [hu] at this; exact this.elim
      | hang =>
        have := hs.returns { vis := s.vis.drop n, tail := s.tail }; rw [hu] at this; exact this.elim
    · simp only [hl, if_false]
      exact ⟨trivial, fun _ _ h => (by cases h; exact hn), trivial⟩

theorem safe_unpackSvcDIB (prev : List (Byte × Byte)) : Safe (unpackSvcDIB prev) := by
  have hh : Safe unpackDibHeader := safe_unpackDibHeader
  refine ⟨fun s => ?_, fun s a k h => ?_, fun s => ?_⟩
  · unfold unpackSvcDIB; dsimp only
    have h1 := hh.returns s
    have h2 := hh.consumed s
    cases hd : unpackDibHeader.run s with
    | ok p =>
      obtain ⟨⟨length, ty⟩, n⟩ := p
      have hn := h2 _ _ hd
      obtain ⟨r1, _, _⟩ := familiesLoop_spec length.toNat s (s.len + 1) n prev hn (by omega)
      simp only
      cases hl : familiesLoop length.toNat (s.len + 1) n prev s with
      | ok q => obtain ⟨fams, n'⟩ := q; simp only; split <;> trivial
      | err => trivial
      | panic => rw [hl] at r1; exact r1
      | hang => rw [hl] at r1; exact r1
    | err => trivial
    | panic => rw [hd] at h1; exact h1
    | hang => rw [hd] at h1; exact h1
  · unfold unpackSvcDIB at h; dsimp only at h
    have h2 := hh.consumed s
    cases hd : unpackDibHeader.run s with
    | ok p =>
      obtain ⟨⟨length, ty⟩, n⟩ := p
      have hn := h2 _ _ hd
      obtain ⟨_, r2, _⟩ := familiesLoop_spec length.toNat s (s.len + 1) n prev hn (by omega)
      rw [hd] at h; simp only at h
      cases hl : familiesLoop length.toNat (s.len + 1) n prev s with
      | ok q =>
        obtain ⟨fams, n'⟩ := q
        rw [hl] at h; simp only at h
        split at h
        · cases h
        · simp only [R.ok.injEq, Prod.mk.injEq] at h; obtain ⟨_, rfl⟩ := h; exact r2 _ _ hl
      | err => rw [hl] at h; cases h
      | panic => rw [hl] at h; cases h
      | hang => rw [hl] at h; cases h
    | err => rw [hd] at h; cases h
    | panic => rw [hd] at h; cases h
    | hang => rw [hd] at h; cases h
  · unfold unpackSvcDIB; dsimp only
    rw [← hh.clip s]
    have h2 := hh.consumed s
    cases hd : unpackDibHeader.run s with
    | ok p =>
      obtain ⟨⟨length, ty⟩, n⟩ := p
      have hn := h2 _ _ hd
      obtain ⟨_, _, r3⟩ := familiesLoop_spec length.toNat s (s.len + 1) n prev hn (by omega)
      simp only [GoSlice.clip_len]
      rw [← r3]
    | err => rfl
    | panic => rfl
    | hang => rfl

/-! #### the description-block loop -/

theorem Safe.tail_irrel {α} {f : Dec α} (hf : Safe f) (v t1 t2 : List Byte) :
    f.run { vis := v, tail := t1 } = f.run { vis := v, tail := t2 } := by
  have h1 := hf.clip { vis := v, tail := t1 }
  have h2 := hf.clip { vis := v, tail := t2 }
  simp only [GoSlice.clip] at h1 h2
  rw [h1, h2]

/-- decoding a two-index sub-slice that lies within the visible bytes: never panics, and the result
    is the same for the slice and for its exact-capacity copy -/
theorem sub_step {α} {f : Dec α} (hf : Safe f) (s : GoSlice) (a b : Nat) (hab : a ≤ b)
    (hb : b ≤ s.len) :
    ∃ sub sub', s.slice a b = .ok sub ∧ s.clip.slice a b = .ok sub' ∧
      f.run sub = f.run sub' ∧ (f.run sub').Returns := by
  unfold GoSlice.slice GoSlice.cap
  simp only [GoSlice.len] at hb
  simp only [GoSlice.clip_vis, GoSlice.clip_tail, List.length_nil, Nat.add_zero, List.append_nil]
  rw [if_pos ⟨hab, by omega⟩, if_pos ⟨hab, hb⟩]
  refine ⟨_, _, rfl, rfl, ?_, hf.returns _⟩
  have : List.take (b - a) (List.drop a (s.vis ++ s.tail)) = List.take (b - a) (List.drop a s.vis) := by
    rw [List.drop_append_of_le_length (by omega), List.take_append_of_le_length (by simp; omega)]
  simp only [this]
  exact hf.tail_irrel _ _ _

theorem descLoop_spec (s : GoSlice) :
    ∀ fuel n di, n ≤ s.len → s.len - n < fuel →
      (descLoop fuel n di s).Returns ∧
      (∀ r k, descLoop fuel n di s = .ok (r, k) → k ≤ s.len) ∧
      descLoop fuel n di s = descLoop fuel n di s.clip := by
  intro fuel
  induction fuel with
  | zero => intro n di _ h; omega
  | succ fuel ih =>
    intro n di hn hf
    unfold descLoop
    by_cases hl : n < s.len
    · simp only [hl, if_true, GoSlice.from, hn, GoSlice.clip_len]
      have hh := safe_unpackDibHeader
      have hc := hh.clip { vis := s.vis.drop n, tail := s.tail }
      simp only [GoSlice.clip] at hc ⊢
      rw [← hc]
      have hr := hh.returns { vis := s.vis.drop n, tail := s.tail }
      cases hu : unpackDibHeader.run { vis := s.vis.drop n, tail := s.tail } with
      | ok p =>
        obtain ⟨⟨length, ty⟩, k⟩ := p
        simp only
        by_cases hbad : length.toNat < 2 ∨ n + length.toNat > s.len
        · simp only [hbad, if_true]
          exact ⟨trivial, fun _ _ h => (by cases h), (by first | rfl | trivial)⟩
        · simp only [hbad, if_false]
          have hL : 2 ≤ length.toNat := by omega
          have hE : n + length.toNat ≤ s.len := by omega
          have next := fun di' => ih (n + length.toNat) di' hE (by omega)
          split
          · -- device info
            obtain ⟨sub, sub', e1, e2, e3, e4⟩ :=
              sub_step safe_unpackDevInfo s n (n + length.toNat) (by omega) hE
            have e2' : GoSlice.slice { vis := s.vis, tail := [] } n (n + length.toNat) = .ok sub' := e2
            rw [e1, e2']; simp only; rw [e3]
            cases hd : unpackDevInfo.run sub' with
            | ok q => obtain ⟨d, _⟩ := q; exact next _
            | err => exact ⟨trivial, fun _ _ h => (by cases h), (by first | rfl | trivial)⟩
            | panic => rw [hd] at e4; exact e4.elim
            | hang => rw [hd] at e4; exact e4.elim
          · split
            · -- supported services
              obtain ⟨sub, sub', e1, e2, e3, e4⟩ :=
                sub_step (safe_unpackSvcDIB di.svc.families) s n (n + length.toNat) (by omega) hE
              have e2' : GoSlice.slice { vis := s.vis, tail := [] } n (n + length.toNat) = .ok sub' := e2
              rw [e1, e2']; simp only; rw [e3]
              cases hd : (unpackSvcDIB di.svc.families).run sub' with
              | ok q => obtain ⟨d, _⟩ := q; exact next _
              | err => exact ⟨trivial, fun _ _ h => (by cases h), (by first | rfl | trivial)⟩
              | panic => rw [hd] at e4; exact e4.elim
              | hang => rw [hd] at e4; exact e4.elim
            · split
              · split
                · -- known but unparsed DIB with data
                  obtain ⟨sub, sub', e1, e2, e3, e4⟩ :=
                    sub_step safe_unpackRest s (n + 2) (n + length.toNat) (by omega) hE
                  have e2' : GoSlice.slice { vis := s.vis, tail := [] } (n + 2) (n + length.toNat)
                      = .ok sub' := e2
                  unfold unpackUnknownDIB
                  rw [e1, e2']; simp only; rw [e3]
                  cases hd : unpackRest.run sub' with
                  | ok q => obtain ⟨d, _⟩ := q; exact next _
                  | err => exact ⟨trivial, fun _ _ h => (by cases h), (by first | rfl | trivial)⟩
                  | panic => rw [hd] at e4; exact e4.elim
                  | hang => rw [hd] at e4; exact e4.elim
                · exact next _
              · exact next _
      | err => exact ⟨trivial, fun _ _ h => (by cases h), (by first | rfl | trivial)⟩
      | panic => rw [hu] at hr; exact hr.elim
      | hang => rw [hu] at hr; exact hr.elim
    · simp only [hl, if_false, GoSlice.clip_len]
      exact ⟨trivial, fun _ _ h => (by cases h; exact hn), (by first | rfl | trivial)⟩

theorem safe_unpackDescBlock : Safe unpackDescBlock := by
  refine ⟨fun s => ?_, fun s a k h => ?_, fun s => ?_⟩
  · exact (descLoop_spec s (s.len + 1) 0 .zero (Nat.zero_le _) (by omega)).1
  · exact (descLoop_spec s (s.len + 1) 0 .zero (Nat.zero_le _) (by omega)).2.1 _ _ h
  · exact (descLoop_spec s (s.len + 1) 0 .zero (Nat.zero_le _) (by omega)).2.2

macro "safe_tac3" : tactic => `(tactic| repeat' (first
  | exact safe_unpackU8 | exact safe_unpackU16 | exact safe_unpackBytes _ | exact safe_unpackRest
  | exact safe_unpackHostInfo | exact safe_unpackDevInfo | exact safe_unpackSvcDIB _
  | exact safe_unpackDescBlock | exact safe_unpackHeader
  | exact Safe.pure _ | exact Safe.fail | exact Safe.guard _
  | apply Safe.bind | intro _ | split))

theorem safe_unpackDescrRes : Safe unpackDescrRes := by unfold unpackDescrRes; safe_tac3
theorem safe_unpackSearchRes : Safe unpackSearchRes := by unfold unpackSearchRes; safe_tac3

theorem Safe.ite {α} {c : Prop} [Decidable c] {a b : Dec α} (ha : Safe a) (hb : Safe b) :
    Safe (if c then a else b) := by split <;> assumption

theorem safe_bodyDecoder (id : BitVec 16) : Safe (bodyDecoder id) := by
  unfold bodyDecoder
  repeat' apply Safe.ite
  all_goals first
    | exact safe_unpackSearchReq | exact safe_unpackSearchRes | exact safe_unpackDescrReq
    | exact safe_unpackDescrRes | exact safe_unpackConnReq | exact safe_unpackConnRes
    | exact safe_unpackConnStateReq | exact safe_unpackConnStateRes | exact safe_unpackDiscReq
    | exact safe_unpackDiscRes | exact safe_unpackTunnelReq | exact safe_unpackTunnelRes
    | exact safe_unpackRoutingInd | exact safe_unpackRoutingLost | exact safe_unpackRoutingBusy
    | exact Safe.bind safe_unpackRest fun _ => Safe.pure _

/-- `knxnet.Unpack` is safe on every slice. -/
theorem safe_unpackService : Safe unpackService := by
  unfold unpackService
  refine Safe.bind safe_unpackHeader fun p => ?_
  obtain ⟨id, _⟩ := p
  exact safe_bodyDecoder id

end Knx
