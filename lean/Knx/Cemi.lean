/-
  Knx/Cemi.lean — `knx/cemi`: message types and the Go-level decoders
  (`Info.Unpack`, `LData.Unpack`, `unpackTransportUnit`, `LRaw.Unpack`, `LBusmonInd.Unpack`,
  `UnsupportedMessage.Unpack`, `cemi.Unpack`).
-/
import Knx.Dec

namespace Knx

/-- `cemi.TransportUnit`: `*AppData` or `*ControlData`. -/
inductive TPDU where
  | app (numbered : Bool) (seq : Byte) (cmd : Byte) (data : List Byte)
  | ctl (numbered : Bool) (seq : Byte) (cmd : Byte)
  deriving DecidableEq, Repr, Inhabited

/-- `cemi.LData` -/
structure LData where
  info : List Byte
  ctrl1 : Byte
  ctrl2 : Byte
  src : BitVec 16
  dst : BitVec 16
  tpdu : TPDU
  deriving DecidableEq, Repr, Inhabited

/-- the seven message kinds `cemi.Unpack` knows plus `UnsupportedMessage` -/
inductive Cemi where
  | ldataReq (l : LData)
  | ldataCon (l : LData)
  | ldataInd (l : LData)
  | lrawReq (d : List Byte)
  | lrawCon (d : List Byte)
  | lrawInd (d : List Byte)
  | lbusmon (d : List Byte)
  | unsupported (code : Byte) (d : List Byte)
  deriving DecidableEq, Repr, Inhabited

/-- message-code constants; the values the *source* declares are regenerated in `Knx.Gen.Facts`
    and `Props.C02` proves both tables agree. -/
def LBusmonIndCode : Byte := 0x2B
def LDataReqCode : Byte := 0x11
def LDataIndCode : Byte := 0x29
def LDataConCode : Byte := 0x2E
def LRawReqCode : Byte := 0x10
def LRawIndCode : Byte := 0x2D
def LRawConCode : Byte := 0x2F

/-- `Message.MessageCode()` -/
def Cemi.code : Cemi → Byte
  | .ldataReq _ => LDataReqCode
  | .ldataCon _ => LDataConCode
  | .ldataInd _ => LDataIndCode
  | .lrawReq _ => LRawReqCode
  | .lrawCon _ => LRawConCode
  | .lrawInd _ => LRawIndCode
  | .lbusmon _ => LBusmonIndCode
  | .unsupported c _ => c

/-! ### decoders -/

/-- `Info.Unpack` (after the fix): length octet, bounds check, `data[n:n+length]`. -/
def unpackInfo : Dec (List Byte) := ⟨fun s =>
  match unpackU8.run s with
  | .ok (length, n) =>
    if s.len < n + length.toNat then .err else
    if length.toNat > 0 then
      match s.slice n (n + length.toNat) with
      | .ok sub => .ok (sub.vis, n + length.toNat)
      | _ => .panic
    else .ok ([], n)
  | .err => .err
  | .panic => .panic
  | .hang => .hang⟩

/-- `unpackTransportUnit` (after the fix). -/
def unpackTPDU : Dec TPDU := ⟨fun s =>
  if s.len < 2 then .err else
  match s.get 1 with
  | .ok b1 =>
    if (b1 &&& 0x80) == 0x80 then
      .ok (.ctl ((b1 &&& 0x40) == 0x40) ((b1 >>> 2) &&& 15) (b1 &&& 3), 2)
    else
      match s.get 0 with
      | .ok b0 =>
        let dataLength := b0.toNat
        if s.len < 3 ∨ dataLength + 2 ≠ s.len then .err else
        match s.get 2, s.from 2 with
        | .ok b2, .ok rest =>
          -- `make([]byte, dataLength)`, `copy(app.Data, data[2:])`, `app.Data[0] &= 63`
          let copied := rest.vis.take dataLength
          let data := copied ++ List.replicate (dataLength - copied.length) 0
          match data with
          | [] => .panic
          | d0 :: ds =>
            .ok (.app ((b1 &&& 0x40) == 0x40) ((b1 >>> 2) &&& 15)
                  (((b1 &&& 3) <<< 2) ||| (b2 >>> 6)) ((d0 &&& 63) :: ds), dataLength + 2)
        | _, _ => .panic
      | _ => .panic
  | _ => .panic⟩

/-- `LData.Unpack`: `UnpackSome(info, ctrl1, ctrl2, source, destination)` then the transport unit
    on `data[n:]`. -/
def unpackLData : Dec LData := do
  let info ← unpackInfo
  let c1 ← unpackU8
  let c2 ← unpackU8
  let src ← unpackU16
  let dst ← unpackU16
  let t ← unpackTPDU
  pure { info, ctrl1 := c1, ctrl2 := c2, src, dst, tpdu := t }

/-- `cemi.Unpack` -/
def unpackCemi : Dec Cemi := do
  let code ← unpackU8
  if code == LBusmonIndCode then (do let d ← unpackRest; pure (.lbusmon d))
  else if code == LDataReqCode then (do let l ← unpackLData; pure (.ldataReq l))
  else if code == LDataConCode then (do let l ← unpackLData; pure (.ldataCon l))
  else if code == LDataIndCode then (do let l ← unpackLData; pure (.ldataInd l))
  else if code == LRawReqCode then (do let d ← unpackRest; pure (.lrawReq d))
  else if code == LRawConCode then (do let d ← unpackRest; pure (.lrawCon d))
  else if code == LRawIndCode then (do let d ← unpackRest; pure (.lrawInd d))
  else (do let d ← unpackRest; pure (.unsupported code d))

/-! ### safety of the decoders -/

/-- what `unpackInfo` computes, as a function of the visible bytes alone -/
def infoP : List Byte → R (List Byte × Nat)
  | [] => .err
  | l :: t => if t.length < l.toNat then .err
              else if l.toNat > 0 then .ok (t.take l.toNat, 1 + l.toNat) else .ok ([], 1)

theorem unpackInfo_eq (s : GoSlice) : unpackInfo.run s = infoP s.vis := by
  unfold unpackInfo unpackU8 GoSlice.get GoSlice.slice GoSlice.len GoSlice.cap infoP
  dsimp only
  rcases hv : s.vis with _ | ⟨l, t⟩
  · simp
  · simp only [List.length_cons, Nat.lt_one_iff, Nat.add_eq_zero_iff, Nat.succ_ne_self,
      and_false, ↓reduceIte, List.getElem?_cons_zero]
    by_cases h1 : t.length < l.toNat
    · rw [if_pos (by omega), if_pos h1]
    · rw [if_neg (by omega), if_neg h1]
      by_cases h2 : l.toNat > 0
      · rw [if_pos h2, if_pos h2, if_pos (by omega)]
        simp only [List.cons_append, Nat.add_sub_cancel_left, R.ok.injEq, Prod.mk.injEq, and_true]
        rw [show (1 : Nat) = 0 + 1 from rfl, List.drop_succ_cons, List.drop_zero]
        rw [List.take_append_of_le_length (by omega)]
      · rw [if_neg h2, if_neg h2]

theorem safe_unpackInfo : Safe unpackInfo := by
  refine Safe.of_vis infoP unpackInfo_eq (fun l => ?_) (fun l a n h => ?_)
  · unfold infoP; split
    · trivial
    · split
      · trivial
      · split <;> trivial
  · unfold infoP at h; split at h
    · cases h
    · split at h
      · cases h
      · split at h <;>
          (simp only [R.ok.injEq, Prod.mk.injEq] at h; simp only [List.length_cons]; omega)

/-- what `unpackTPDU` computes, as a function of the visible bytes alone -/
def tpduP : List Byte → R (TPDU × Nat)
  | b0 :: b1 :: t =>
    if (b1 &&& 0x80) == 0x80 then
      .ok (.ctl ((b1 &&& 0x40) == 0x40) ((b1 >>> 2) &&& 15) (b1 &&& 3), 2)
    else
      match t with
      | [] => .err
      | b2 :: t' =>
        if b0.toNat ≠ t'.length + 1 then .err
        else .ok (.app ((b1 &&& 0x40) == 0x40) ((b1 >>> 2) &&& 15)
                  (((b1 &&& 3) <<< 2) ||| (b2 >>> 6)) ((b2 &&& 63) :: t'), b0.toNat + 2)
  | _ => .err

theorem unpackTPDU_eq (s : GoSlice) : unpackTPDU.run s = tpduP s.vis := by
  unfold unpackTPDU GoSlice.get GoSlice.from GoSlice.len tpduP
  dsimp only
  rcases hv : s.vis with _ | ⟨b0, _ | ⟨b1, t⟩⟩
  · simp
  · simp
  · simp only [List.length_cons]
    rw [if_neg (by omega)]
    simp only [List.getElem?_cons_succ, List.getElem?_cons_zero]
    split
    · rfl
    · rcases t with _ | ⟨b2, t'⟩
      · simp
      · simp only [List.length_cons, List.getElem?_cons_zero]
        by_cases h : b0.toNat = t'.length + 1
        · rw [if_neg (by omega), if_pos (by omega)]
          simp only [h, List.drop_succ_cons, List.drop_zero, ne_eq, not_true_eq_false, ↓reduceIte]
          rw [List.take_of_length_le (by simp)]
          simp
        · rw [if_pos (by omega)]; simp [h]

theorem safe_unpackTPDU : Safe unpackTPDU := by
  refine Safe.of_vis tpduP unpackTPDU_eq (fun l => ?_) (fun l a n h => ?_)
  · unfold tpduP; split
    · split
      · trivial
      · split
        · trivial
        · split <;> trivial
    · trivial
  · unfold tpduP at h; split at h
    · split at h
      · simp only [R.ok.injEq, Prod.mk.injEq] at h; simp only [List.length_cons]; omega
      · split at h
        · cases h
        · split at h
          · cases h
          · simp only [R.ok.injEq, Prod.mk.injEq] at h; simp only [List.length_cons]; omega
    · cases h

theorem safe_unpackLData : Safe unpackLData := by
  unfold unpackLData
  refine Safe.bind safe_unpackInfo fun _ => Safe.bind safe_unpackU8 fun _ =>
    Safe.bind safe_unpackU8 fun _ => Safe.bind safe_unpackU16 fun _ =>
    Safe.bind safe_unpackU16 fun _ => Safe.bind safe_unpackTPDU fun _ => Safe.pure _

theorem safe_unpackCemi : Safe unpackCemi := by
  unfold unpackCemi
  refine Safe.bind safe_unpackU8 fun code => ?_
  repeat' split
  all_goals
    first
    | exact Safe.bind safe_unpackRest fun _ => Safe.pure _
    | exact Safe.bind safe_unpackLData fun _ => Safe.pure _

end Knx
