/-
  Knx/RouterText.lean — script / trace syntax of the protocol harness for the router model.
-/
import Knx.Router
import Knx.TunnelText

namespace Knx.Rtr
open Knx.Tun (words sortObs)

def Obs.time : Obs → Nat
  | .tx t _ | .ret t _ _ | .got t _ | .gotClosed t | .dropped t => t

def Obs.text : Obs → String
  | .tx t p => s!"tx {t} rind {p}"
  | .ret t p ok => s!"ret {t} {p} {if ok then "ok" else "sockerr"}"
  | .got t (some p) => s!"got {t} {p}"
  | .got t none => s!"got {t} none"
  | .gotClosed t => s!"got {t} closed"
  | .dropped t => s!"undelivered {t}"

def parseEvent (toks : List String) : Option (Nat × In) :=
  match toks with
  | at_ :: rest => do
    let t ← (at_.drop 1).toString.toNat?
    match rest with
    | ["send", p] => do pure (t, .send (← p.toNat?))
    | ["rx", "rind", p] => do pure (t, .rind (← p.toNat?))
    | ["rx", "rbusy", w, c] => do
      let w ← w.toNat?
      let c ← c.toNat?
      -- control 0 adds a random 0..50 ms: only determinate when the cap is reached anyway
      if c ≠ 0 then pure (t, .rbusy (min maxWait w))
      else if w ≥ maxWait then pure (t, .rbusy maxWait) else none
    | ["rx", "rlost", k] => do pure (t, .rlost (← k.toNat?))
    | ["rx", "other"] => pure (t, .tick)
    | ["read"] => pure (t, .read)
    | ["close"] => pure (t, .close)
    | ["sockfail", b] => pure (t, .sockfail (b == "1"))
    | ["end"] => pure (t, .tick)
    | _ => none
  | [] => none

/-- run a script line `rtr <pause> <retain> : events` -/
def runScript (line : String) : Option String := do
  let parts := line.splitOn ":"
  let head ← parts.head?
  let evs := ":".intercalate (parts.drop 1)
  match words head with
  | ["rtr", p, r] =>
    let cfg : Cfg := { pause := ← p.toNat?, retain := ← r.toNat? }
    let ins ← ((evs.splitOn ";").map words).filter (· ≠ []) |>.mapM parseEvent
    let obs := run cfg 100000 {} ins
    let sorted := sortObs (obs.map fun o => (o.time, o.text))
    pure (" ; ".intercalate (sorted.map (·.2)))
  | _ => none

end Knx.Rtr
