/-
  Knx/Dec.lean — Go-level decoders (`Unpack(data []byte) (uint, error)`) as functions on Go slices,
  the sequencing that `util.UnpackSome` performs, and the primitives of `knx/util/unpack.go`.
-/
import Knx.Basic

namespace Knx

/-- A Go `Unpack`: from a slice to (value, consumed) / error / panic / hang. -/
structure Dec (α : Type) where
  run : GoSlice → R (α × Nat)

namespace Dec

/-- `util.UnpackSome` step: run `f` on `data`, then `g` on `data[n:]`, add up the consumed counts. -/
@[inline] def bind {α β} (f : Dec α) (g : α → Dec β) : Dec β := ⟨fun s =>
  match f.run s with
  | .ok (a, n) =>
    match s.from n with
    | .ok s' =>
      match (g a).run s' with
      | .ok (b, m) => .ok (b, n + m)
      | .err => .err
      | .panic => .panic
      | .hang => .hang
    | .err => .err
    | .panic => .panic
    | .hang => .hang
  | .err => .err
  | .panic => .panic
  | .hang => .hang⟩

instance : Monad Dec where
  pure a := ⟨fun _ => .ok (a, 0)⟩
  bind := Dec.bind

/-- returning a non-nil error -/
def fail {α} : Dec α := ⟨fun _ => .err⟩

/-- `if cond { return n, errors.New(...) }` -/
def guard (c : Bool) : Dec Unit := ⟨fun _ => if c then .ok ((), 0) else .err⟩

theorem pure_def {α} (a : α) : (pure a : Dec α) = ⟨fun _ => .ok (a, 0)⟩ := rfl
theorem bind_def {α β} (f : Dec α) (g : α → Dec β) : (f >>= g) = Dec.bind f g := rfl

end Dec

/-- What C01 demands of a decoder, for every slice (any length, any capacity, any garbage behind):
    it returns (no panic, no hang); on success the consumed count is within the input;
    and the outcome does not depend on the bytes behind the slice's length. -/
structure Safe {α} (f : Dec α) : Prop where
  returns : ∀ s, (f.run s).Returns
  consumed : ∀ s a n, f.run s = .ok (a, n) → n ≤ s.len
  clip : ∀ s, f.run s = f.run s.clip

namespace Safe

theorem pure {α} (a : α) : Safe (Pure.pure a : Dec α) :=
  ⟨fun _ => trivial, fun _ _ _ h => (by cases h; exact Nat.zero_le _), fun _ => rfl⟩

theorem fail {α} : Safe (Dec.fail : Dec α) :=
  ⟨fun _ => trivial, fun _ _ _ h => (by cases h), fun _ => rfl⟩

theorem guard (c : Bool) : Safe (Dec.guard c) := by
  refine ⟨fun _ => ?_, fun _ _ _ h => ?_, fun _ => rfl⟩
  · unfold Dec.guard; dsimp only; split <;> trivial
  · unfold Dec.guard at h; dsimp only at h; split at h
    · cases h; exact Nat.zero_le _
    · cases h

theorem bind {α β} {f : Dec α} {g : α → Dec β} (hf : Safe f) (hg : ∀ a, Safe (g a)) :
    Safe (f >>= g) := by
  refine ⟨fun s => ?_, fun s b k h => ?_, fun s => ?_⟩
  · have h1 := hf.returns s
    have h2 := hf.consumed s
    simp only [Dec.bind_def, Dec.bind]
    cases hfs : f.run s with
    | ok p =>
      obtain ⟨a, n⟩ := p
      have hn := h2 a n hfs
      simp only [GoSlice.from, hn, if_true]
      have h3 := (hg a).returns { vis := s.vis.drop n, tail := s.tail }
      cases hgs : (g a).run { vis := s.vis.drop n, tail := s.tail } with
      | ok q => obtain ⟨b, m⟩ := q; trivial
      | err => trivial
      | panic => rw [hgs] at h3; exact h3
      | hang => rw [hgs] at h3; exact h3
    | err => trivial
    | panic => rw [hfs] at h1; exact h1
    | hang => rw [hfs] at h1; exact h1
  · simp only [Dec.bind_def, Dec.bind] at h
    cases hfs : f.run s with
    | ok p =>
      obtain ⟨a, n⟩ := p
      have hn := hf.consumed s a n hfs
      rw [hfs] at h
      simp only [GoSlice.from, hn, if_true] at h
      cases hgs : (g a).run { vis := s.vis.drop n, tail := s.tail } with
      | ok q =>
        obtain ⟨b', m⟩ := q
        rw [hgs] at h
        have hm := (hg a).consumed _ b' m hgs
        simp only [GoSlice.len, List.length_drop] at hm
        simp only [R.ok.injEq, Prod.mk.injEq] at h
        simp only [GoSlice.len] at hn ⊢
        omega
      | err => rw [hgs] at h; cases h
      | panic => rw [hgs] at h; cases h
      | hang => rw [hgs] at h; cases h
    | err => rw [hfs] at h; cases h
    | panic => rw [hfs] at h; cases h
    | hang => rw [hfs] at h; cases h
  · simp only [Dec.bind_def, Dec.bind]
    rw [← hf.clip s]
    cases hfs : f.run s with
    | ok p =>
      obtain ⟨a, n⟩ := p
      have hn := hf.consumed s a n hfs
      have hn' : n ≤ s.clip.len := hn
      simp only [GoSlice.from, hn, hn', if_true]
      have h3 := (hg a).clip { vis := s.vis.drop n, tail := s.tail }
      simp only [GoSlice.clip] at h3 ⊢
      rw [h3]
    | err => rfl
    | panic => rfl
    | hang => rfl

/-- a decoder that is literally a function of the visible bytes -/
theorem of_vis {α} {f : Dec α} (g : List Byte → R (α × Nat)) (h : ∀ s, f.run s = g s.vis)
    (hr : ∀ l, (g l).Returns) (hc : ∀ l a n, g l = .ok (a, n) → n ≤ l.length) : Safe f :=
  ⟨fun s => h s ▸ hr _, fun s a n e => hc _ a n (h s ▸ e), fun s => by rw [h, h]; rfl⟩

end Safe

/-! ### `knx/util/unpack.go` -/

/-- `case *uint8`: length check, then `data[0]`. -/
def unpackU8 : Dec Byte := ⟨fun s =>
  if s.len < 1 then .err else
  match s.get 0 with
  | .ok b => .ok (b, 1)
  | _ => .panic⟩

/-- `unpackUInt16`. -/
def unpackU16 : Dec (BitVec 16) := ⟨fun s =>
  if s.len < 2 then .err else
  match s.get 0, s.get 1 with
  | .ok a, .ok b => .ok (be16 a b, 2)
  | _, _ => .panic⟩

/-- `case []byte` with an output slice of length `k`: error when `k > len(data)`, else `copy`. -/
def unpackBytes (k : Nat) : Dec (List Byte) := ⟨fun s =>
  if k > s.len then .err else .ok (s.vis.take k, k)⟩

/-- the decoders that copy all of `data` (`LRaw.Unpack`, `UnknownService.Unpack`, …) -/
def unpackRest : Dec (List Byte) := ⟨fun s => .ok (s.vis, s.len)⟩

/-- `bytes.TrimRight(buffer, "\x00")` -/
def trimRightNul (l : List Byte) : List Byte :=
  (l.reverse.dropWhile (· == 0)).reverse

/-- `util.UnpackString(buffer, length, &out)` after the fix: length check, `buffer[:length]`,
    trim trailing NULs, Latin-1 decode (every byte is its own code point; never fails). -/
def unpackString (length : Nat) : Dec (List Nat) := ⟨fun s =>
  if s.len < length then .err else
  match s.upto length with
  | .ok b => .ok ((trimRightNul b.vis).map BitVec.toNat, length)
  | _ => .panic⟩

theorem safe_unpackU8 : Safe unpackU8 := by
  refine ⟨fun s => ?_, fun s a n h => ?_, fun s => ?_⟩
  all_goals
    unfold unpackU8 GoSlice.get GoSlice.len at *
    rcases hv : s.vis with _ | ⟨b, t⟩
  all_goals simp_all [GoSlice.clip]

theorem safe_unpackU16 : Safe unpackU16 := by
  refine ⟨fun s => ?_, fun s a n h => ?_, fun s => ?_⟩
  all_goals
    unfold unpackU16 GoSlice.get GoSlice.len at *
    rcases hv : s.vis with _ | ⟨b, _ | ⟨c, t⟩⟩
  all_goals simp_all [GoSlice.clip]
  · rw [if_neg (by omega)]; trivial
  · rw [if_neg (by omega)] at h
    simp only [R.ok.injEq, Prod.mk.injEq] at h; omega

theorem safe_unpackBytes (k : Nat) : Safe (unpackBytes k) := by
  refine ⟨fun s => ?_, fun s a n h => ?_, fun s => ?_⟩
  · unfold unpackBytes; dsimp only; split <;> trivial
  · unfold unpackBytes at h; dsimp only at h; split at h
    · cases h
    · simp only [R.ok.injEq, Prod.mk.injEq] at h; omega
  · rfl

theorem safe_unpackRest : Safe unpackRest :=
  ⟨fun _ => trivial, fun s a n h => (by cases h; exact Nat.le_refl _), fun _ => rfl⟩

theorem safe_unpackString (k : Nat) : Safe (unpackString k) := by
  refine ⟨fun s => ?_, fun s a n h => ?_, fun s => ?_⟩
  · unfold unpackString GoSlice.upto GoSlice.slice GoSlice.cap GoSlice.len
    dsimp only
    split
    · trivial
    · rw [if_pos (by omega)]; trivial
  · unfold unpackString GoSlice.upto GoSlice.slice GoSlice.cap GoSlice.len at h
    dsimp only at h
    split at h
    · cases h
    · rw [if_pos (by omega)] at h
      simp only [R.ok.injEq, Prod.mk.injEq] at h
      simp only [GoSlice.len]; omega
  · unfold unpackString GoSlice.upto GoSlice.slice GoSlice.cap GoSlice.len
    dsimp only
    simp only [GoSlice.clip_vis, GoSlice.clip_tail, List.length_nil, Nat.add_zero, List.append_nil]
    split
    · rfl
    · rename_i h
      rw [if_pos (by omega), if_pos (by omega)]
      simp only [List.drop_zero, Nat.sub_zero]
      rw [List.take_append_of_le_length (by omega)]

end Knx
