/-
  Knx/Groups.lean — `knx/groups.go`: group events to / from L_Data frames.
  The flag constructors are the definitions regenerated from knx/cemi/control.go.
-/
import Knx.Cemi
import Knx.Gen.Helpers

namespace Knx.Grp

structure Event where
  cmd : Byte
  src : BitVec 16
  dst : BitVec 16
  data : List Byte
  deriving DecidableEq, Repr, Inhabited

/-- `defaultGroupLData.Control1` -/
def defaultCtrl1 : Byte :=
  Gen.Control1NoRepeat ||| Gen.Control1NoSysBroadcast ||| Gen.Control1WantAck ||| Gen.Control1Prio Gen.PrioLow

/-- `defaultGroupLData.Control2` -/
def defaultCtrl2 : Byte := Gen.Control2GroupAddr ||| Gen.Control2Hops 6

/-- `buildGroupOutbound` -/
def build (ev : Event) : LData :=
  { info := []
    ctrl1 := if ev.data.length ≤ 15 then defaultCtrl1 ||| Gen.Control1StdFrame else defaultCtrl1
    ctrl2 := defaultCtrl2
    src := ev.src
    dst := ev.dst
    tpdu := .app false 0 ev.cmd ev.data }

/-- the filter of `serveGroupInbound` -/
def filter : Cemi → Option Event
  | .ldataInd l =>
    if Gen.IsGroupAddr l.ctrl2 then
      match l.tpdu with
      | .app _ _ cmd data => if Gen.IsGroupCommand cmd then some { cmd, src := l.src, dst := l.dst, data } else none
      | .ctl .. => none
    else none
  | _ => none

end Knx.Grp
