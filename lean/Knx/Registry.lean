/-
  Knx/Registry.lean — `dpt.Produce` and instance independence: a heap of cells, one per produced
  instance; `Unpack` writes the cell of its receiver only; the registry's prototypes are never
  written (they are not even reachable from a produced instance: `reflect.New` allocates).
-/
import Knx.Dpt

namespace Knx.Dpt

/-- what an instance holds: the zero value, a decoded value, or the partially written state a
    failed `Unpack` may leave behind (not compared) -/
inductive Cell where
  | zero
  | val (v : DVal)
  | dirty
  deriving DecidableEq, Repr, Inhabited

abbrev Heap := List (Shape × Cell)

/-- `Produce(name)`: allocate a fresh zero cell of the prototype's element type -/
def Heap.produce (h : Heap) (s : Shape) : Heap := h ++ [(s, .zero)]

/-- `instance[i].Unpack(data)` -/
def Heap.unpack (h : Heap) (i : Nat) (data : List Byte) : Heap :=
  h.modify i (fun (s, _) =>
    match decode s data with
    | .ok v => (s, .val v)
    | _ => (s, .dirty))

inductive HOp where
  | produce (s : Shape)
  | unpack (i : Nat) (data : List Byte)

def Heap.step (h : Heap) : HOp → Heap
  | .produce s => h.produce s
  | .unpack i d => h.unpack i d

def Heap.run (h : Heap) (ops : List HOp) : Heap := ops.foldl Heap.step h

/-- the zero value of a shape's Go type -/
def zeroVal : Shape → DVal
  | .b1 => .bool false
  | .u8 | .scene17 | .scene18 => .u8 0
  | .v8 => .i8 0
  | .u16 => .u16 0
  | .v16 => .i16 0
  | .u32 => .u32 0
  | .v32 => .i32 0
  | .f32 => .f32 0
  | .f16 .. | .scaled | .angle | .v16scaled _ => .flt Knx.Fl.F32.zero
  | .time => .time 0 0 0 0
  | .date => .date 0 0 0
  | .strAscii | .strLatin1 => .str []
  | .varstr => .bytes []
  | .rgb => .rgb 0 0 0
  | .xyY => .xyY 0 0 0 false false
  | .rgbw => .rgbw 0 0 0 0 false false false false
  | .unknown _ => .bool false

end Knx.Dpt
