/-
  Knx/TunnelText.lean — script / trace syntax of the protocol harness for the tunnel model.
-/
import Knx.Tunnel

namespace Knx.Tun

def b2s (b : Byte) : String := toString b.toNat

def Fr.text : Fr → String
  | .creq => "creq"
  | .cres ch st => s!"cres {b2s ch} {b2s st}"
  | .csreq ch => s!"csreq {b2s ch}"
  | .csres ch st => s!"csres {b2s ch} {b2s st}"
  | .dreq ch => s!"dreq {b2s ch}"
  | .dres ch => s!"dres {b2s ch}"
  | .treq ch seq pid => s!"treq {b2s ch} {b2s seq} {pid}"
  | .tres ch seq st => s!"tres {b2s ch} {b2s seq} {b2s st}"
  | .other => "other"

def Ret.text : Ret → String
  | .ok => "ok" | .timeout => "timeout" | .rejected => "rejected" | .terminated => "terminated"
  | .sockerr => "sockerr"

def Obs.time : Obs → Nat
  | .tx t _ | .ret t _ _ | .got t _ | .gotClosed t | .closed t | .undelivered t | .skipped t => t

def Obs.text : Obs → String
  | .tx t f => s!"tx {t} {f.text}"
  | .ret t pid r => s!"ret {t} {pid} {r.text}"
  | .got t (some p) => s!"got {t} {p}"
  | .got t none => s!"got {t} none"
  | .gotClosed t => s!"got {t} closed"
  | .closed t => s!"closed {t}"
  | .undelivered t => s!"undelivered {t}"
  | .skipped t => s!"skipped {t}"

def byteTok (s : String) : Option Byte := s.toNat?.bind fun n => if n < 256 then some (BitVec.ofNat 8 n) else none

def parseFr : List String → Option Fr
  | ["creq"] => some .creq
  | ["cres", a, b] => do pure (.cres (← byteTok a) (← byteTok b))
  | ["csreq", a] => do pure (.csreq (← byteTok a))
  | ["csres", a, b] => do pure (.csres (← byteTok a) (← byteTok b))
  | ["dreq", a] => do pure (.dreq (← byteTok a))
  | ["dres", a] => do pure (.dres (← byteTok a))
  | ["treq", a, b, c] => do pure (.treq (← byteTok a) (← byteTok b) (← c.toNat?))
  | ["tres", a, b, c] => do pure (.tres (← byteTok a) (← byteTok b) (← byteTok c))
  | ["other"] => some .other
  | _ => none

/-- `@<t> <event…>`; `end` yields no input -/
def parseEvent (toks : List String) : Option (Option (Nat × In)) :=
  match toks with
  | at_ :: rest => do
    let t ← (at_.drop 1).toString.toNat?
    match rest with
    | ["send", p] => do pure (some (t, .send (← p.toNat?)))
    | "rx" :: f => do pure (some (t, .rx (← parseFr f)))
    | ["read"] => pure (some (t, .read))
    | ["close"] => pure (some (t, .close))
    | ["sockclose"] => pure (some (t, .sockclose))
    | ["sockfail", b] => pure (some (t, .sockfail (b == "1")))
    | ["end"] => pure (some (t, .tick))
    | _ => none
  | [] => none

def words (s : String) : List String := (s.splitOn " ").filter (· ≠ "")

/-- first word of an observation's text -/
def kindOf (s : String) : String := (s.splitOn " ").headD ""

/-- stable insertion sort of observations by (time, kind): observations of the same kind within one
    instant keep their order -/
def insertObs (x : Nat × String) : List (Nat × String) → List (Nat × String)
  | [] => [x]
  | y :: r => if x.1 < y.1 ∨ (x.1 = y.1 ∧ kindOf x.2 ≤ kindOf y.2) then x :: y :: r else y :: insertObs x r

def sortObs (l : List (Nat × String)) : List (Nat × String) := l.foldr insertObs []

/-- run a script line `tun R T H tcp ch : events` -/
def runScript (line : String) : Option String := do
  let parts := line.splitOn ":"
  let head ← parts.head?
  let evs := ":".intercalate (parts.drop 1)
  match words head with
  | ["tun", r, t, h, tcp, ch] =>
    let cfg : Cfg := { R := ← r.toNat?, T := ← t.toNat?, H := ← h.toNat?, tcp := tcp == "1" }
    let ch ← byteTok ch
    let evl ← ((evs.splitOn ";").map words).filter (· ≠ []) |>.mapM parseEvent
    let ins := evl.filterMap id
    let obs := Obs.tx 0 .creq :: run cfg 100000 (init cfg ch) ins
    let sorted := sortObs (obs.map fun o => (o.time, o.text))
    pure (" ; ".intercalate (sorted.map (·.2)))
  | _ => none

end Knx.Tun
