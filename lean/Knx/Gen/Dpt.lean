/- GENERATED (placeholder) -/
