/-
  Knx/TunnelTrav.lean — preservation lemmas proved by traversing every branch of the tunnel
  transition functions: monotone flags (`done`, closed socket) and "which steps can transmit".
-/
import Knx.TunnelLemmas

namespace Knx.Tun

set_option hygiene false in
macro "unpair" : tactic => `(tactic| (rename_i hq; obtain ⟨rfl, rfl⟩ := Prod.ext_iff.mp hq))

/-- split every branch; close each leaf with the simp set (after substituting the components of
    destructured results) -/
macro "trav" : tactic => `(tactic| repeat' (first
  | split | (simp; done) | (unpair; simp; done) | (unpair; unpair; simp; done) | dsimp only))

/-! ### `done` is only ever set by Close and never cleared -/

@[simp] theorem serveExit_done (s : St) (t : Nat) : (serveExit s t).1.done = s.done := by
  unfold serveExit; simp only; split <;> rfl
@[simp] theorem startReconn_done (cfg : Cfg) (s : St) (t : Nat) : (startReconn cfg s t).1.done = s.done := by
  unfold startReconn; simp only; split <;> simp
@[simp] theorem procExit_done (cfg : Cfg) (s : St) (t : Nat) (b : Bool) : (procExit cfg s t b).1.done = s.done := by
  unfold procExit; simp only; split <;> simp
@[simp] theorem procEnter_done (cfg : Cfg) (s : St) (t : Nat) : (procEnter cfg s t).1.done = s.done := by
  unfold procEnter; split <;> simp
@[simp] theorem wkResult_done (cfg : Cfg) (s : St) (t : Nat) (b : Bool) : (wkResult cfg s t b).1.done = s.done := by
  unfold wkResult; repeat' split
  all_goals simp
@[simp] theorem sndTakes_done (s : St) (x : Snd) (a : Ack) (t : Nat) : (sndTakes s x a t).1.done = s.done := by
  unfold sndTakes; repeat' split
  all_goals rfl
@[simp] theorem drainAcks_done (t : Nat) : ∀ fuel (s : St), (drainAcks s t fuel).1.done = s.done := by
  intro fuel; induction fuel with
  | zero => intro s; rfl
  | succ n ih =>
    intro s; unfold drainAcks; split
    · simp only; rw [ih]; simp
    · rfl
@[simp] theorem onFrame_done (cfg : Cfg) (s : St) (t : Nat) (f : Fr) : (onFrame cfg s t f).1.done = s.done := by
  unfold onFrame; trav
@[simp] theorem fire_done (cfg : Cfg) (s : St) (t : Nat) : (fire cfg s t).1.done = s.done := by
  unfold fire; trav
@[simp] theorem settle_done (cfg : Cfg) (r : St × List Obs) (t : Nat) : (settle cfg r t).1.done = r.1.done := by
  unfold settle; trav

theorem applyIn_done_mono (cfg : Cfg) (s : St) (t : Nat) (i : In) (h : s.done = true) :
    (applyIn cfg s t i).1.done = true := by
  cases i <;> simp only [applyIn] <;> trav <;> simp [h]

/-- Close is never undone -/
theorem done_monotone (cfg : Cfg) (s : St) (l : Lbl) (h : s.done = true) : (stepL cfg s l).1.done = true := by
  cases l with
  | inp t i => simp only [stepL, settle_done]; exact applyIn_done_mono cfg s t i h
  | timer t => simp [stepL, h]

/-! ### a closed socket stays closed and transmits nothing -/

def isTx : Obs → Bool
  | .tx _ _ => true
  | _ => false

@[simp] theorem sockSend_closed (s : St) (t : Nat) (f : Fr) (h : s.sockOpen = false) :
    sockSend s t f = (false, []) := by simp [sockSend, h]

theorem sockSend_tx (s : St) (t : Nat) (f : Fr) : ∀ o ∈ (sockSend s t f).2, o = .tx t f := by
  unfold sockSend; split <;> simp

end Knx.Tun
