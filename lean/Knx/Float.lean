/-
  Knx/Float.lean — IEEE-754 binary32/binary64 arithmetic as needed by knx/dpt, over core `Rat`:
  finite values are exact rationals, every operation is "exact, then round to nearest even at the
  format's precision" (subnormal range and overflow included for binary32).
-/
namespace Knx.Fl

/-- 2^e as a rational, any integer e -/
def pow2 (e : Int) : Rat :=
  if e ≥ 0 then ((2 ^ e.toNat : Nat) : Rat) else 1 / ((2 ^ (-e).toNat : Nat) : Rat)

/-- floor(log2 q) for q > 0 -/
def ilog2 (q : Rat) : Int :=
  let n := q.num.toNat
  let d := q.den
  let g : Int := (Nat.log2 n : Int) - (Nat.log2 d : Int)
  -- 2^g ≤ q < 2^(g+2) roughly; fix up by comparison
  if q < pow2 g then g - 1 else if q ≥ pow2 (g + 1) then g + 1 else g

/-- round to nearest integer, ties to even -/
def rne (q : Rat) : Int :=
  let f := q.floor
  let r := q - (f : Rat)
  if r < 1 / 2 then f else if r > 1 / 2 then f + 1 else if f % 2 = 0 then f else f + 1

/-- round to nearest integer, ties away from zero (`math.Round`) -/
def roundHalfAway (q : Rat) : Int :=
  if q ≥ 0 then (q + 1 / 2).floor else -((-q + 1 / 2).floor)

/-- truncate toward zero (float → integer conversion) -/
def trunc (q : Rat) : Int := if q ≥ 0 then q.floor else -((-q).floor)

/-- round a rational to `p` significant bits with minimum exponent `emin` (the exponent of the
    least significant bit never drops below `emin - p + 1`); result is a rational -/
def roundPrec (p : Nat) (emin : Int) (q : Rat) : Rat :=
  if q = 0 then 0 else
  let a := if q < 0 then -q else q
  let e := ilog2 a
  let lsb : Int := (if e < emin then emin else e) - (p : Int) + 1
  let m := rne (a / pow2 lsb)
  let r := (m : Rat) * pow2 lsb
  if q < 0 then -r else r

/-- a binary32 value -/
inductive F32 where
  | fin (q : Rat)
  | inf (neg : Bool)
  | nan
  deriving DecidableEq, Repr, Inhabited

def maxF32 : Rat := ((2 ^ 24 - 1 : Nat) : Rat) * pow2 104   -- (2 - 2^-23) * 2^127

/-- round an exact result to binary32 -/
def toF32 (q : Rat) : F32 :=
  let r := roundPrec 24 (-126) q
  if r > maxF32 then .inf false else if r < -maxF32 then .inf true else .fin r

/-- round an exact result to binary64 precision (range never matters here) -/
def toF64 (q : Rat) : Rat := roundPrec 53 (-1022) q

def F32.mul : F32 → F32 → F32
  | .fin a, .fin b => toF32 (a * b)
  | .nan, _ | _, .nan => .nan
  | .inf s, .fin b => if b = 0 then .nan else .inf (s != decide (b < 0))
  | .fin a, .inf s => if a = 0 then .nan else .inf (s != decide (a < 0))
  | .inf s, .inf t => .inf (s != t)

def F32.div : F32 → F32 → F32
  | .fin a, .fin b => if b = 0 then (if a = 0 then .nan else .inf (decide (a < 0))) else toF32 (a / b)
  | .nan, _ | _, .nan => .nan
  | .inf s, .fin b => .inf (s != decide (b < 0))
  | .fin _, .inf _ => .fin 0
  | .inf _, .inf _ => .nan

def F32.add : F32 → F32 → F32
  | .fin a, .fin b => toF32 (a + b)
  | .nan, _ | _, .nan => .nan
  | .inf s, .fin _ => .inf s
  | .fin _, .inf s => .inf s
  | .inf s, .inf t => if s = t then .inf s else .nan

/-- `x <= y` (false when either is NaN) -/
def F32.le : F32 → F32 → Bool
  | .fin a, .fin b => decide (a ≤ b)
  | .nan, _ | _, .nan => false
  | .inf s, .inf t => s || !t
  | .inf s, .fin _ => s
  | .fin _, .inf t => !t

def F32.lt (x y : F32) : Bool :=
  match x, y with
  | .nan, _ | _, .nan => false
  | _, _ => !(F32.le y x)

/-- decode a bit pattern -/
def F32.ofBits (b : BitVec 32) : F32 :=
  let sign := b.getLsbD 31
  let ex := ((b >>> 23) &&& 0xFF).toNat
  let man := (b &&& 0x7FFFFF).toNat
  if ex = 255 then (if man = 0 then .inf sign else .nan)
  else
    let mag : Rat :=
      if ex = 0 then (man : Rat) * pow2 (-149)
      else ((man + 2 ^ 23 : Nat) : Rat) * pow2 ((ex : Int) - 150)
    .fin (if sign then -mag else mag)

/-- encode a finite, exactly representable value (as produced by `toF32`); zero is +0 -/
def F32.toBits : F32 → BitVec 32
  | .nan => 0x7FC00000
  | .inf false => 0x7F800000
  | .inf true => 0xFF800000
  | .fin q =>
    if q = 0 then 0 else
    let a := if q < 0 then -q else q
    let s : Nat := if q < 0 then 1 else 0
    let e := ilog2 a
    if e < -126 then
      let man := (a / pow2 (-149)).floor.toNat
      BitVec.ofNat 32 (s * 2 ^ 31 + man)
    else
      let man := (a / pow2 (e - 23)).floor.toNat - 2 ^ 23
      BitVec.ofNat 32 (s * 2 ^ 31 + (e + 127).toNat * 2 ^ 23 + man)

/-- an integer as binary32 (`float32(m)`) -/
def F32.ofInt (i : Int) : F32 := toF32 (i : Rat)

/-- a decimal source literal `num / den` converted to binary32 -/
def F32.ofLit (num : Int) (den : Nat) : F32 := toF32 ((num : Rat) / (den : Rat))

end Knx.Fl
