/-
  Knx/Float.lean — IEEE-754 binary32 (and binary64 precision) arithmetic as needed by knx/dpt.

  Finite values are dyadic numbers `m · 2^e` held as two integers, kept normalised (odd mantissa,
  or 0·2^0), so structural equality is numerical equality.  Every operation is "exact, then round
  to nearest even at the format's precision" (subnormal range and overflow included for
  binary32).  Only integer operations the kernel evaluates natively are used, so that exhaustive
  statements over 2^16 encodings can be checked by `decide +kernel`.
-/
namespace Knx.Fl

/-- `m · 2^e` -/
structure Dy where
  m : Int
  e : Int
  deriving DecidableEq, Repr, Inhabited

namespace Dy

def zero : Dy := ⟨0, 0⟩

/-- number of trailing zero bits of a positive natural -/
def tz (n : Nat) : Nat :=
  if n = 0 then 0 else
  let L := Nat.log2 n + 1
  Nat.log2 (n &&& (2 ^ L - n))

/-- normal form: odd mantissa, or zero with exponent 0 -/
def norm (d : Dy) : Dy :=
  if d.m = 0 then zero else
  let t := tz d.m.natAbs
  ⟨d.m / (2 ^ t : Nat), d.e + t⟩

def ofInt (i : Int) : Dy := norm ⟨i, 0⟩

def neg (a : Dy) : Dy := ⟨-a.m, a.e⟩

def mul (a b : Dy) : Dy := norm ⟨a.m * b.m, a.e + b.e⟩

/-- both mantissas at the smaller exponent -/
def align (a b : Dy) : Int × Int × Int :=
  let e := if a.e ≤ b.e then a.e else b.e
  (a.m * (2 ^ (a.e - e).toNat : Nat), b.m * (2 ^ (b.e - e).toNat : Nat), e)

def add (a b : Dy) : Dy :=
  let (x, y, e) := align a b
  norm ⟨x + y, e⟩

def le (a b : Dy) : Bool :=
  let (x, y, _) := align a b
  decide (x ≤ y)

def lt (a b : Dy) : Bool :=
  let (x, y, _) := align a b
  decide (x < y)

def isNeg (a : Dy) : Bool := decide (a.m < 0)

/-- bit length of a natural (0 for 0) -/
def bitLen (n : Nat) : Nat := if n = 0 then 0 else Nat.log2 n + 1

/-- round to `p` significant bits, the least significant bit's exponent never below `lsbMin`;
    ties to even -/
def round (p : Nat) (lsbMin : Int) (d : Dy) : Dy :=
  if d.m = 0 then zero else
  let a := d.m.natAbs
  let msb : Int := d.e + (bitLen a : Int) - 1
  let lsb0 : Int := msb - (p : Int) + 1
  let lsb : Int := if lsb0 < lsbMin then lsbMin else lsb0
  let s : Int := lsb - d.e
  if s ≤ 0 then norm d else
  let sN := s.toNat
  let q := a / 2 ^ sN
  let rem := a % 2 ^ sN
  let half := 2 ^ (sN - 1)
  let q' := if rem > half ∨ (rem = half ∧ q % 2 = 1) then q + 1 else q
  norm ⟨if d.m < 0 then -(q' : Int) else (q' : Int), lsb⟩

/-- `a / b` (b ≠ 0) with a sticky bit, precise enough to be rounded to `p` bits afterwards -/
def divSticky (p : Nat) (a b : Dy) : Dy :=
  let na := a.m.natAbs
  let nb := b.m.natAbs
  let k := (p + 3 + bitLen nb) - bitLen na
  let num := na * 2 ^ k
  let q := num / nb
  let r := num % nb
  let m' : Nat := 2 * q + (if r = 0 then 0 else 1)
  let neg := (a.m < 0) != (b.m < 0)
  ⟨if neg then -(m' : Int) else (m' : Int), a.e - b.e - (k : Int) - 1⟩

/-- round to the nearest integer, ties away from zero (`math.Round`) -/
def roundHalfAway (d : Dy) : Int :=
  if d.e ≥ 0 then d.m * (2 ^ d.e.toNat : Nat) else
  let s := (-d.e).toNat
  let a := d.m.natAbs
  let q : Int := ((a + 2 ^ (s - 1)) / 2 ^ s : Nat)
  if d.m < 0 then -q else q

/-- truncate toward zero (float → integer conversion) -/
def trunc (d : Dy) : Int :=
  if d.e ≥ 0 then d.m * (2 ^ d.e.toNat : Nat) else
  let s := (-d.e).toNat
  let q : Int := (d.m.natAbs / 2 ^ s : Nat)
  if d.m < 0 then -q else q

end Dy

/-- a binary32 value -/
inductive F32 where
  | fin (d : Dy)
  | inf (neg : Bool)
  | nan
  deriving DecidableEq, Repr, Inhabited

/-- round an exact result to binary32 (overflow to infinity) -/
def toF32 (d : Dy) : F32 :=
  let r := Dy.round 24 (-149) d
  if r.m = 0 then .fin r
  else if r.e + (Dy.bitLen r.m.natAbs : Int) > 128 then .inf (decide (r.m < 0)) else .fin r

/-- round an exact result to binary64 precision -/
def toF64 (d : Dy) : Dy := Dy.round 53 (-1074) d

namespace F32

def zero : F32 := .fin Dy.zero

def mul : F32 → F32 → F32
  | .fin a, .fin b => toF32 (a.mul b)
  | .nan, _ | _, .nan => .nan
  | .inf s, .fin b => if b.m = 0 then .nan else .inf (s != b.isNeg)
  | .fin a, .inf s => if a.m = 0 then .nan else .inf (s != a.isNeg)
  | .inf s, .inf t => .inf (s != t)

def div : F32 → F32 → F32
  | .fin a, .fin b =>
    if b.m = 0 then (if a.m = 0 then .nan else .inf a.isNeg)
    else if a.m = 0 then zero else toF32 (Dy.divSticky 24 a b)
  | .nan, _ | _, .nan => .nan
  | .inf s, .fin b => .inf (s != b.isNeg)
  | .fin _, .inf _ => zero
  | .inf _, .inf _ => .nan

def add : F32 → F32 → F32
  | .fin a, .fin b => toF32 (a.add b)
  | .nan, _ | _, .nan => .nan
  | .inf s, .fin _ => .inf s
  | .fin _, .inf s => .inf s
  | .inf s, .inf t => if s = t then .inf s else .nan

/-- `x <= y` (false when either is NaN) -/
def le : F32 → F32 → Bool
  | .fin a, .fin b => a.le b
  | .nan, _ | _, .nan => false
  | .inf s, .inf t => s || !t
  | .inf s, .fin _ => s
  | .fin _, .inf t => !t

/-- `x < y` (false when either is NaN) -/
def lt : F32 → F32 → Bool
  | .fin a, .fin b => a.lt b
  | .nan, _ | _, .nan => false
  | .inf s, .inf t => s && !t
  | .inf s, .fin _ => s
  | .fin _, .inf t => !t

/-- decode a bit pattern -/
def ofBits (b : BitVec 32) : F32 :=
  let sign := b.getLsbD 31
  let ex := ((b >>> 23) &&& 0xFF).toNat
  let man := (b &&& 0x7FFFFF).toNat
  if ex = 255 then (if man = 0 then .inf sign else .nan)
  else
    let m : Nat := if ex = 0 then man else man + 2 ^ 23
    let e : Int := if ex = 0 then -149 else (ex : Int) - 150
    .fin (Dy.norm ⟨if sign then -(m : Int) else (m : Int), e⟩)

/-- encode a value (finite ones are exactly representable when they come from `toF32`);
    zero is +0 -/
def toBits : F32 → BitVec 32
  | .nan => 0x7FC00000
  | .inf false => 0x7F800000
  | .inf true => 0xFF800000
  | .fin d =>
    if d.m = 0 then 0 else
    let a := d.m.natAbs
    let s : Nat := if d.m < 0 then 1 else 0
    let msb : Int := d.e + (Dy.bitLen a : Int) - 1
    if msb < -126 then
      -- subnormal: value = man · 2^-149
      let man := a * 2 ^ (d.e + 149).toNat
      BitVec.ofNat 32 (s * 2 ^ 31 + man)
    else
      -- normal: 24-bit significand at exponent msb-23
      let sh := (d.e - (msb - 23)).toNat
      let sig := a * 2 ^ sh
      BitVec.ofNat 32 (s * 2 ^ 31 + (msb + 127).toNat * 2 ^ 23 + (sig - 2 ^ 23))

/-- an integer as binary32 (`float32(m)`) -/
def ofInt (i : Int) : F32 := toF32 (Dy.ofInt i)

/-- a decimal source literal `num / den` converted to binary32 -/
def ofLit (num : Int) (den : Nat) : F32 :=
  if num = 0 then zero else toF32 (Dy.divSticky 24 (Dy.ofInt num) (Dy.ofInt den))

end F32

end Knx.Fl
