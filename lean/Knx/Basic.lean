/-
  Knx/Basic.lean — bytes, Go slices, the outcome monad.

  Everything here is core Lean (no Mathlib) so that the driver links as a `lean_exe`.
-/

namespace Knx

abbrev Byte := BitVec 8

/-- Outcome of running a piece of Go code that returns `(value, error)`:
    `ok` – returned without error, `err` – returned a non-nil error,
    `panic` – a run-time panic (index / slice bounds), `hang` – did not terminate. -/
inductive R (α : Type) where
  | ok (a : α)
  | err
  | panic
  | hang
  deriving DecidableEq, Repr, Inhabited

namespace R

@[inline] def bind {α β : Type} (x : R α) (f : α → R β) : R β :=
  match x with
  | .ok a => f a
  | .err => .err
  | .panic => .panic
  | .hang => .hang

instance : Monad R where
  pure := R.ok
  bind := R.bind

@[simp] theorem pure_eq {α} (a : α) : (pure a : R α) = .ok a := rfl
@[simp] theorem bind_ok {α β} (a : α) (f : α → R β) : (R.ok a >>= f) = f a := rfl
@[simp] theorem bind_err {α β} (f : α → R β) : ((R.err : R α) >>= f) = .err := rfl
@[simp] theorem bind_panic {α β} (f : α → R β) : ((R.panic : R α) >>= f) = .panic := rfl
@[simp] theorem bind_hang {α β} (f : α → R β) : ((R.hang : R α) >>= f) = .hang := rfl

/-- terminated by returning (value or error): no panic, no hang -/
def Returns {α} : R α → Prop
  | .ok _ => True
  | .err => True
  | .panic => False
  | .hang => False

instance {α} (x : R α) : Decidable x.Returns := by
  cases x <;> simp [Returns] <;> infer_instance

@[simp] theorem returns_ok {α} (a : α) : (R.ok a).Returns := trivial
@[simp] theorem returns_err {α} : (R.err : R α).Returns := trivial
@[simp] theorem not_returns_panic {α} : ¬ (R.panic : R α).Returns := id
@[simp] theorem not_returns_hang {α} : ¬ (R.hang : R α).Returns := id

def isOk {α} : R α → Bool
  | .ok _ => true
  | _ => false

def map {α β} (f : α → β) : R α → R β
  | .ok a => .ok (f a)
  | .err => .err
  | .panic => .panic
  | .hang => .hang

@[simp] theorem map_ok {α β} (f : α → β) (a : α) : (R.ok a).map f = .ok (f a) := rfl

end R

/-- A Go byte slice: `vis` are the elements below `len`, `tail` the elements of the same backing
    array between `len` and `cap`.  Decoders are supposed never to look at `tail`. -/
structure GoSlice where
  vis : List Byte
  tail : List Byte := []
  deriving DecidableEq, Repr, Inhabited

namespace GoSlice

@[inline] def len (s : GoSlice) : Nat := s.vis.length
@[inline] def cap (s : GoSlice) : Nat := s.vis.length + s.tail.length

/-- the same visible bytes with nothing behind them (an exact-capacity copy) -/
@[inline] def clip (s : GoSlice) : GoSlice := { vis := s.vis, tail := [] }

@[simp] theorem clip_vis (s : GoSlice) : s.clip.vis = s.vis := rfl
@[simp] theorem clip_tail (s : GoSlice) : s.clip.tail = [] := rfl
@[simp] theorem clip_len (s : GoSlice) : s.clip.len = s.len := rfl
@[simp] theorem clip_clip (s : GoSlice) : s.clip.clip = s.clip := rfl

/-- `s[n:]` -/
def «from» (s : GoSlice) (n : Nat) : R GoSlice :=
  if n ≤ s.len then .ok { vis := s.vis.drop n, tail := s.tail } else .panic

/-- `s[a:b]` (two-index slice: may reach into spare capacity) -/
def slice (s : GoSlice) (a b : Nat) : R GoSlice :=
  if a ≤ b ∧ b ≤ s.cap then
    let all := s.vis ++ s.tail
    .ok { vis := (all.drop a).take (b - a), tail := all.drop b }
  else .panic

/-- `s[:b]` -/
def upto (s : GoSlice) (b : Nat) : R GoSlice := s.slice 0 b

/-- `s[i]` -/
def get (s : GoSlice) (i : Nat) : R Byte :=
  match s.vis[i]? with
  | some b => .ok b
  | none => .panic

end GoSlice

/-- big-endian helpers (Go: `uint16(data[1]) | uint16(data[0])<<8`) -/
def be16 (hi lo : Byte) : BitVec 16 := BitVec.ofNat 16 (hi.toNat * 256 + lo.toNat)
def hi8 (x : BitVec 16) : Byte := BitVec.ofNat 8 (x.toNat / 256)
def lo8 (x : BitVec 16) : Byte := BitVec.ofNat 8 (x.toNat % 256)

@[simp] theorem be16_hi_lo (x : BitVec 16) : be16 (hi8 x) (lo8 x) = x := by
  unfold be16 hi8 lo8; bv_omega
@[simp] theorem hi8_be16 (a b : Byte) : hi8 (be16 a b) = a := by
  unfold be16 hi8; bv_omega
@[simp] theorem lo8_be16 (a b : Byte) : lo8 (be16 a b) = b := by
  unfold be16 lo8; bv_omega

end Knx
