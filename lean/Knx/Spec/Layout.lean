/-
  Knx/Spec/Layout.lean — the cEMI L_Data bit layout, written from the KNX specification
  (03_06_03 EMI_IMI §4.1.5.3, 03_03_04/03_03_07 for the TPCI/APCI octets) with bit-vector
  concatenation, most significant field first.  Nothing here refers to the code's shifts and masks.
-/
import Knx.Basic

namespace Knx.Spec

def bit (b : Bool) : BitVec 1 := BitVec.ofBool b

/-- control field 1: frame type (1 = standard), reserved 0, repeat flag, system-broadcast flag,
    2-bit priority, acknowledge request, error/confirm flag -/
structure Ctrl1 where
  std : Bool := false
  noRepeat : Bool := false
  noSysBroadcast : Bool := false
  prio : BitVec 2 := 0
  wantAck : Bool := false
  hasError : Bool := false
  deriving DecidableEq, Repr

def Ctrl1.byte (c : Ctrl1) : Byte :=
  bit c.std ++ (0 : BitVec 1) ++ bit c.noRepeat ++ bit c.noSysBroadcast ++ c.prio ++ bit c.wantAck ++
    bit c.hasError

def Ctrl1.ofByte (b : Byte) : Ctrl1 :=
  { std := b.getLsbD 7, noRepeat := b.getLsbD 5, noSysBroadcast := b.getLsbD 4,
    prio := b.extractLsb' 2 2, wantAck := b.getLsbD 1, hasError := b.getLsbD 0 }

/-- control field 2: destination address type in bit 7, hop count in bits 6..4, extended frame
    format in bits 3..0 -/
structure Ctrl2 where
  group : Bool := false
  hops : BitVec 3 := 0
  eff : BitVec 4 := 0
  deriving DecidableEq, Repr

def Ctrl2.byte (c : Ctrl2) : Byte := bit c.group ++ c.hops ++ c.eff

def Ctrl2.ofByte (b : Byte) : Ctrl2 :=
  { group := b.getLsbD 7, hops := b.extractLsb' 4 3, eff := b.extractLsb' 0 4 }

/-- transport/application octets of a data unit: data flag 0, numbered flag, 4-bit sequence
    number, the two high APCI bits | the two low APCI bits, six data bits -/
def tpciData (numbered : Bool) (seq : BitVec 4) (apci : BitVec 4) : Byte :=
  (0 : BitVec 1) ++ bit numbered ++ seq ++ apci.extractLsb' 2 2

def apciData (apci : BitVec 4) (data6 : BitVec 6) : Byte := apci.extractLsb' 0 2 ++ data6

/-- transport octet of a control unit: control flag 1, numbered flag, sequence number, 2-bit
    control code -/
def tpciControl (numbered : Bool) (seq : BitVec 4) (code : BitVec 2) : Byte :=
  (1 : BitVec 1) ++ bit numbered ++ seq ++ code

/-- 16-bit address, high octet first -/
def addr (a : BitVec 16) : List Byte := [a.extractLsb' 8 8, a.extractLsb' 0 8]

/-- an L_Data frame with an application unit: message code, additional-info length and bytes,
    the two control octets, source, destination, length octet (number of octets after the TPCI
    octet), TPCI/APCI octets, remaining data -/
def ldataApp (mc : Byte) (info : List Byte) (c1 c2 : Byte) (src dst : BitVec 16)
    (numbered : Bool) (seq apci : BitVec 4) (data6 : BitVec 6) (rest : List Byte) : List Byte :=
  [mc, BitVec.ofNat 8 info.length] ++ info ++ [c1, c2] ++ addr src ++ addr dst ++
    [BitVec.ofNat 8 (rest.length + 1), tpciData numbered seq apci, apciData apci data6] ++ rest

/-- an L_Data frame with a control unit (length octet 0) -/
def ldataControl (mc : Byte) (info : List Byte) (c1 c2 : Byte) (src dst : BitVec 16)
    (numbered : Bool) (seq : BitVec 4) (code : BitVec 2) : List Byte :=
  [mc, BitVec.ofNat 8 info.length] ++ info ++ [c1, c2] ++ addr src ++ addr dst ++
    [0, tpciControl numbered seq code]

end Knx.Spec
