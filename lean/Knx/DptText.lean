/-
  Knx/DptText.lean — canonical token syntax for datapoint values (line protocol).
-/
import Knx.Dpt
import Knx.Text

namespace Knx.Dpt
open Knx.Text Knx.Fl

def hex32 (x : BitVec 32) : String := hex (bytes32 x)

def DVal.toks : DVal → List String
  | .bool b => ["b", bool2s b]
  | .u8 x => ["u8", toString x.toNat]
  | .i8 x => ["i8", toString x.toNat]
  | .u16 x => ["u16", toString x.toNat]
  | .i16 x => ["i16", toString x.toNat]
  | .u32 x => ["u32", toString x.toNat]
  | .i32 x => ["i32", toString x.toNat]
  | .f32 x => ["f", hex32 x]
  | .flt x => ["f", hex32 x.toBits]
  | .str cps => ["s", name cps]
  | .bytes b => ["y", hex b]
  | .time wd h m s => ["t", b2s wd, b2s h, b2s m, b2s s]
  | .date y m d => ["d", w2s y, b2s m, b2s d]
  | .rgb r g b => ["c", b2s r, b2s g, b2s b]
  | .xyY x y yb cv bv => ["x", w2s x, w2s y, b2s yb, bool2s cv, bool2s bv]
  | .rgbw r g b w rv gv bv wv => ["w", b2s r, b2s g, b2s b, b2s w, bool2s rv, bool2s gv, bool2s bv, bool2s wv]

def dword : P (BitVec 32) := fun ts => (nat ts).bind fun (n, r) =>
  if n < 4294967296 then some (BitVec.ofNat 32 n, r) else none

def hexWord : P (BitVec 32) := fun ts => (bytes ts).bind fun (b, r) =>
  match b with
  | [a, b, c, d] => some (be32 a b c d, r)
  | _ => none

/-- parse a value for the given shape -/
def parseVal (s : Shape) (ts : List String) : Option DVal :=
  match ts with
  | [] => none
  | tag :: r =>
    match tag with
    | "b" => do let (b, _) ← bool r; pure (.bool b)
    | "u8" => do let (x, _) ← byte r; pure (.u8 x)
    | "i8" => do let (x, _) ← byte r; pure (.i8 x)
    | "u16" => do let (x, _) ← word r; pure (.u16 x)
    | "i16" => do let (x, _) ← word r; pure (.i16 x)
    | "u32" => do let (x, _) ← dword r; pure (.u32 x)
    | "i32" => do let (x, _) ← dword r; pure (.i32 x)
    | "f" => do
      let (x, _) ← hexWord r
      match s with
      | .f32 => pure (.f32 x)
      | _ => pure (.flt (F32.ofBits x))
    | "s" => do let (n, _) ← pName r; pure (.str n)
    | "y" => do let (b, _) ← bytes r; pure (.bytes b)
    | "t" => do
      let (a, r) ← byte r; let (b, r) ← byte r; let (c, r) ← byte r; let (d, _) ← byte r
      pure (.time a b c d)
    | "d" => do
      let (y, r) ← word r; let (m, r) ← byte r; let (d, _) ← byte r
      pure (.date y m d)
    | "c" => do
      let (a, r) ← byte r; let (b, r) ← byte r; let (c, _) ← byte r
      pure (.rgb a b c)
    | "x" => do
      let (x, r) ← word r; let (y, r) ← word r; let (yb, r) ← byte r
      let (cv, r) ← bool r; let (bv, _) ← bool r
      pure (.xyY x y yb cv bv)
    | "w" => do
      let (a, r) ← byte r; let (b, r) ← byte r; let (c, r) ← byte r; let (d, r) ← byte r
      let (rv, r) ← bool r; let (gv, r) ← bool r; let (bv, r) ← bool r; let (wv, _) ← bool r
      pure (.rgbw a b c d rv gv bv wv)
    | _ => none

end Knx.Dpt
