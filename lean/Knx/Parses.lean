/-
  Knx/Parses.lean — a small calculus for round-trip proofs:
  `Parses f a x`   : run on `a ++ rest` (any rest, any spare capacity), `f` returns `x` having consumed
                     exactly `a`;
  `ParsesAll f a x`: the same for decoders that take everything that is left.
-/
import Knx.Enc

namespace Knx

def Parses {α} (f : Dec α) (a : List Byte) (x : α) : Prop :=
  ∀ r tl, f.run { vis := a ++ r, tail := tl } = .ok (x, a.length)

def ParsesAll {α} (f : Dec α) (a : List Byte) (x : α) : Prop :=
  ∀ tl, f.run { vis := a, tail := tl } = .ok (x, a.length)

theorem Parses.all {α} {f : Dec α} {a x} (h : Parses f a x) : ParsesAll f a x := by
  intro tl; have := h [] tl; simpa using this

theorem Dec.run_bind {α β} (f : Dec α) (g : α → Dec β) (s : GoSlice) :
    (f >>= g).run s = (Dec.bind f g).run s := rfl

theorem Parses.bind {α β} {f : Dec α} {g : α → Dec β} {a b x y}
    (hf : Parses f a x) (hg : Parses (g x) b y) : Parses (f >>= g) (a ++ b) y := by
  intro r tl
  have h1 := hf (b ++ r) tl
  rw [← List.append_assoc] at h1
  have h2 := hg r tl
  rw [Dec.run_bind]; unfold Dec.bind
  simp only [h1, GoSlice.from, GoSlice.len, List.length_append]
  rw [if_pos (by omega)]
  simp only [List.append_assoc, List.drop_left, h2]

theorem Parses.bindAll {α β} {f : Dec α} {g : α → Dec β} {a b x y}
    (hf : Parses f a x) (hg : ParsesAll (g x) b y) : ParsesAll (f >>= g) (a ++ b) y := by
  intro tl
  have h1 := hf b tl
  have h2 := hg tl
  rw [Dec.run_bind]; unfold Dec.bind
  simp only [h1, GoSlice.from, GoSlice.len, List.length_append]
  rw [if_pos (by omega)]
  simp only [List.drop_left, h2]

theorem Parses.pure {α} (x : α) : Parses (Pure.pure x : Dec α) [] x := fun _ _ => rfl

theorem Parses.u8 (b : Byte) : Parses unpackU8 [b] b := by
  intro r tl; simp [unpackU8, GoSlice.len, GoSlice.get]

theorem Parses.u16 (x : BitVec 16) : Parses unpackU16 (encU16 x) x := by
  intro r tl; simp [unpackU16, encU16, GoSlice.len, GoSlice.get]

theorem Parses.bytes (a : List Byte) : Parses (unpackBytes a.length) a a := by
  intro r tl
  simp only [unpackBytes, GoSlice.len, List.length_append]
  rw [if_neg (by omega)]
  simp

theorem Parses.guard : Parses (Dec.guard true) [] () := fun _ _ => rfl

theorem ParsesAll.rest (a : List Byte) : ParsesAll unpackRest a a := fun _ => rfl

/-! cons-shaped variants, convenient when the encoder is written with list literals -/

theorem Parses.u8_bind {β} {g : Byte → Dec β} {b l y} (h : Parses (g b) l y) :
    Parses (unpackU8 >>= g) (b :: l) y := (Parses.u8 b).bind h

theorem Parses.u16_bind {β} {g : BitVec 16 → Dec β} {x l y} (h : Parses (g x) l y) :
    Parses (unpackU16 >>= g) (hi8 x :: lo8 x :: l) y := (Parses.u16 x).bind h

theorem Parses.u8_bindAll {β} {g : Byte → Dec β} {b l y} (h : ParsesAll (g b) l y) :
    ParsesAll (unpackU8 >>= g) (b :: l) y := (Parses.u8 b).bindAll h

theorem Parses.u16_bindAll {β} {g : BitVec 16 → Dec β} {x l y} (h : ParsesAll (g x) l y) :
    ParsesAll (unpackU16 >>= g) (hi8 x :: lo8 x :: l) y := (Parses.u16 x).bindAll h

theorem Parses.guard_bind {β} {g : Unit → Dec β} {c : Bool} {l y} (hc : c = true)
    (h : Parses (g ()) l y) : Parses (Dec.guard c >>= g) l y := by
  subst hc; exact Parses.guard.bind h

theorem Parses.guard_bindAll {β} {g : Unit → Dec β} {c : Bool} {l y} (hc : c = true)
    (h : ParsesAll (g ()) l y) : ParsesAll (Dec.guard c >>= g) l y := by
  subst hc; exact Parses.guard.bindAll h

theorem Parses.bytes_bind {β} {k : Nat} {g : List Byte → Dec β} {a l y} (hk : a.length = k)
    (h : Parses (g a) l y) : Parses (unpackBytes k >>= g) (a ++ l) y := by
  subst hk; exact (Parses.bytes a).bind h

theorem ParsesAll.bind_pure {α β} {f : Dec α} {a x} (hf : ParsesAll f a x) (h : α → β) :
    ParsesAll (f >>= fun t => (Pure.pure (h t) : Dec β)) a (h x) := by
  intro tl
  have h1 := hf tl
  rw [Dec.run_bind]; unfold Dec.bind
  simp only [h1, GoSlice.from, GoSlice.len, Nat.le_refl, if_true]
  rfl

theorem Parses.bind_run {α β} {f : Dec α} {g : α → Dec β} {a b x y k tl}
    (hf : Parses f a x) (hg : (g x).run { vis := b, tail := tl } = .ok (y, k)) :
    (f >>= g).run { vis := a ++ b, tail := tl } = .ok (y, a.length + k) := by
  have h1 := hf b tl
  rw [Dec.run_bind]; unfold Dec.bind
  simp only [h1, GoSlice.from, GoSlice.len, List.length_append]
  rw [if_pos (by omega)]
  simp only [List.drop_left, hg]

theorem ParsesAll.pure_nil {α} (x : α) : ParsesAll (Pure.pure x : Dec α) [] x := fun _ => rfl

end Knx
