/-
  Knx/Enc.lean — what the `Pack` methods of `knx/cemi` and `knx/knxnet` write (as byte lists) and
  what the `Size()` methods report (as separate definitions mirroring the Go arithmetic).
-/
import Knx.Knxnet

namespace Knx

def encU16 (x : BitVec 16) : List Byte := [hi8 x, lo8 x]

/-- pad with zero bytes / cut to exactly `n` bytes (fixed-width array fields) -/
def fit (n : Nat) (l : List Byte) : List Byte := l.take n ++ List.replicate (n - l.length) 0

/-! ### cemi -/

/-- `Info.Size` -/
def sizeInfo (info : List Byte) : Nat := if info.length > 255 then 256 else 1 + info.length

/-- `Info.Pack` -/
def encInfo (info : List Byte) : List Byte :=
  if info.length > 255 then 255 :: info.take 255 else BitVec.ofNat 8 info.length :: info

/-- `dataLength` of `AppData.Size` / `AppData.Pack` -/
def appDataLength (data : List Byte) : Nat :=
  if data.length > 255 then 255 else if data.length < 1 then 1 else data.length

/-- `TransportUnit.Size` -/
def sizeTPDU : TPDU → Nat
  | .app _ _ _ data => 2 + appDataLength data
  | .ctl .. => 2

/-- TPCI octet shared by both unit kinds: numbered flag and sequence number -/
def tpciBits (numbered : Bool) (seq : Byte) : Byte :=
  if numbered then 0x40 ||| ((seq &&& 15) <<< 2) else 0

/-- `AppData.Pack` (after the fix) / `ControlData.Pack` -/
def encTPDU : TPDU → List Byte
  | .app numbered seq cmd data =>
    let dl := appDataLength data
    let b1 := ((cmd >>> 2) &&& 3) ||| tpciBits numbered seq
    match data.take dl with
    | [] => [BitVec.ofNat 8 dl, b1, (cmd &&& 3) <<< 6]
    | d0 :: ds => BitVec.ofNat 8 dl :: b1 :: ((d0 &&& 63) ||| ((cmd &&& 3) <<< 6)) :: ds
  | .ctl numbered seq cmd => [0, (0x80 ||| (cmd &&& 3)) ||| tpciBits numbered seq]

/-- `LData.Size` -/
def sizeLData (l : LData) : Nat := sizeInfo l.info + 6 + sizeTPDU l.tpdu

/-- `LData.Pack` -/
def encLData (l : LData) : List Byte :=
  encInfo l.info ++ [l.ctrl1, l.ctrl2] ++ encU16 l.src ++ encU16 l.dst ++ encTPDU l.tpdu

/-- `Message.Size` -/
def sizeCemiBody : Cemi → Nat
  | .ldataReq l | .ldataCon l | .ldataInd l => sizeLData l
  | .lrawReq d | .lrawCon d | .lrawInd d | .lbusmon d | .unsupported _ d => d.length

def encCemiBody : Cemi → List Byte
  | .ldataReq l | .ldataCon l | .ldataInd l => encLData l
  | .lrawReq d | .lrawCon d | .lrawInd d | .lbusmon d | .unsupported _ d => d

/-- `cemi.Size` -/
def sizeCemi (m : Cemi) : Nat := 1 + sizeCemiBody m

/-- `cemi.Pack` -/
def encCemi (m : Cemi) : List Byte := m.code :: encCemiBody m

/-! ### knxnet -/

/-- `HostInfo.Pack` -/
def encHostInfo (h : HostInfo) : List Byte := [8, h.proto, h.a0, h.a1, h.a2, h.a3] ++ encU16 h.port

/-- `util.PackString(buf, 30, name)` into a fresh zero buffer, error ignored as
    `DeviceInformationBlock.Pack` does: a name that is not Latin-1 leaves 30 NULs;
    30 or more characters are cut to 29 plus the terminator. -/
def encName (name : List Nat) : List Byte :=
  if name.all (· < 256) then
    let e := name.map (BitVec.ofNat 8)
    if e.length ≥ 30 then e.take 29 ++ [0] else e ++ List.replicate (30 - e.length) 0
  else List.replicate 30 0

/-- `DeviceInformationBlock.Pack` (after the fix) -/
def encDevInfo (d : DevInfo) : List Byte :=
  [54, d.ty, d.medium, d.status] ++ encU16 d.source ++ encU16 d.project ++
    fit 6 d.serial ++ fit 4 d.mcast ++ fit 6 d.hw ++ encName d.name

/-- `SupportedServicesDIB.Size` -/
def sizeSvcDIB (d : SvcDIB) : Nat := 2 + 2 * d.families.length

/-- `SupportedServicesDIB.Pack` -/
def encSvcDIB (d : SvcDIB) : List Byte :=
  [BitVec.ofNat 8 (sizeSvcDIB d), d.ty] ++ d.families.flatMap (fun f => [f.1, f.2])

/-- `ServicePackable.Size`; `none` for the two services that have no `Pack` -/
def sizeBody : Service → Option Nat
  | .searchReq _ | .descrReq _ => some 8
  | .searchRes _ _ svc => some (8 + 54 + sizeSvcDIB svc)
  | .descrRes b => some (54 + sizeSvcDIB b.svc)
  | .connReq .. => some (2 * 8 + 4)
  | .connRes _ st _ => some (if st == 0 then 8 + 6 else 2)
  | .connStateReq .. | .discReq .. => some (2 + 8)
  | .connStateRes .. | .discRes .. => some 2
  | .tunnelReq _ _ m => some (4 + sizeCemi m)
  | .tunnelRes .. => some 4
  | .routingInd m => some (sizeCemi m)
  | .routingLost .. | .routingBusy .. => none
  | .unknown _ d => some d.length

/-- the `Pack` method of each service type; `none` where the type has none -/
def encBody : Service → Option (List Byte)
  | .searchReq h | .descrReq h => some (encHostInfo h)
  | .searchRes c dev svc => some (encHostInfo c ++ encDevInfo dev ++ encSvcDIB svc)
  | .descrRes b => some (encDevInfo b.dev ++ encSvcDIB b.svc)
  | .connReq c t layer => some (encHostInfo c ++ encHostInfo t ++ [4, 4, layer, 0])
  | .connRes ch st c =>
    some (if st == 0 then [ch, 0] ++ encHostInfo c ++ [4, 4, 0, 0] else [ch, st])
  | .connStateReq ch st c | .discReq ch st c => some ([ch, st] ++ encHostInfo c)
  | .connStateRes ch st | .discRes ch st => some [ch, st]
  | .tunnelReq ch seq m => some ([4, ch, seq, 0] ++ encCemi m)
  | .tunnelRes ch seq st => some [4, ch, seq, st]
  | .routingInd m => some (encCemi m)
  | .routingLost .. | .routingBusy .. => none
  | .unknown _ d => some d

/-- `knxnet.Pack` into a buffer of `knxnet.Size` bytes (`AllocAndPack`) -/
def encFrame (v : Service) : Option (List Byte) :=
  match encBody v, sizeBody v with
  | some b, some sz => some ([6, 16] ++ encU16 v.id ++ encU16 (BitVec.ofNat 16 (sz + 6)) ++ b)
  | _, _ => none

end Knx
