/-
  Knx/RegistryChecks.lean — decidable checks over the regenerated registry tables
  (names as code-point lists so that the kernel can evaluate them quickly).
-/
namespace Knx.Dpt

def isDigitCp (c : Nat) : Bool := decide (48 ≤ c) && decide (c ≤ 57)

/-- `main.sub` with one or more digits, a dot, exactly three digits -/
def keyWellFormed (k : List Nat) : Bool :=
  match k.span isDigitCp with
  | (main, 46 :: sub) => !main.isEmpty && sub.length == 3 && sub.all isDigitCp
  | _ => false

/-- the type bearing a key's number: "DPT_" followed by the key without its dot -/
def typeNameOfKey (k : List Nat) : List Nat := [68, 80, 84, 95] ++ k.filter (· != 46)

def allDistinct : List (List Nat) → Bool
  | [] => true
  | a :: t => !t.contains a && allDistinct t

end Knx.Dpt
