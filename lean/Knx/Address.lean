/-
  Knx/Address.lean — `knx/cemi/address.go`: formatting and parsing of group / individual addresses.

  Strings are byte lists (Go's `strings.Split` and `strconv.Atoi` work on bytes).  The component
  constructors are the definitions regenerated from the source (`Knx.Gen.Helpers`).
-/
import Knx.Gen.Helpers

namespace Knx.Addr

abbrev Str := List Nat

def isDigit (c : Nat) : Bool := decide (48 ≤ c) && decide (c ≤ 57)

/-- value of a digit string, most significant first -/
def digitsVal (l : Str) : Nat := l.foldl (fun acc c => acc * 10 + (c - 48)) 0

/-- `strconv.Atoi`: optional sign, at least one digit, digits only, value within int64 -/
def isNeg : Str → Bool
  | 45 :: _ => true
  | _ => false

def stripSign : Str → Str
  | 45 :: t => t
  | 43 :: t => t
  | l => l

def atoi (l : Str) : Option Int :=
  let neg := isNeg l
  let ds := stripSign l
  if ds.isEmpty || !ds.all isDigit then none
  else
    let v := digitsVal ds
    if neg then (if v ≤ 9223372036854775808 then some (-(v : Int)) else none)
    else (if v ≤ 9223372036854775807 then some (v : Int) else none)

/-- `strings.Split(s, sep)` for a one-byte separator -/
def splitOn (sep : Nat) : Str → List Str
  | [] => [[]]
  | c :: t =>
    if c = sep then [] :: splitOn sep t
    else match splitOn sep t with
      | h :: r => (c :: h) :: r
      | [] => [[c]]

/-- `fmt.Sprintf("%d", n)` for a natural number -/
def render (n : Nat) : Str :=
  if h : n < 10 then [48 + n] else render (n / 10) ++ [48 + n % 10]
termination_by n
decreasing_by omega

def joinWith (sep : Nat) : List Str → Str
  | [] => []
  | [a] => a
  | a :: b :: r => a ++ sep :: joinWith sep (b :: r)

def slash : Nat := 47
def dot : Nat := 46

/-- `GroupAddr.String()` -/
def formatGroup (a : BitVec 16) : Str :=
  joinWith slash [render ((a >>> 11) &&& 0x1F).toNat, render ((a >>> 8) &&& 0x7).toNat,
    render (a &&& 0xFF).toNat]

/-- `IndividualAddr.String()` -/
def formatIndividual (a : BitVec 16) : Str :=
  joinWith dot [render ((a >>> 12) &&& 0xF).toNat, render ((a >>> 8) &&& 0xF).toNat,
    render (a &&& 0xFF).toNat]

def i8 (x : Int) : BitVec 8 := BitVec.ofInt 8 x
def i16 (x : Int) : BitVec 16 := BitVec.ofInt 16 x

/-- the `switch len(nums)` of `NewGroupAddrString` -/
def groupOfNums : List Int → Option (BitVec 16)
  | [a, b, c] =>
    if a < 0 ∨ a > 31 ∨ b < 0 ∨ b > 7 ∨ c < 0 ∨ c > 255 then none
    else if a = 0 ∧ b = 0 ∧ c = 0 then none
    else some (Gen.NewGroupAddr3 (i8 a) (i8 b) (i8 c))
  | [a, b] =>
    if a < 0 ∨ a > 31 ∨ b < 0 ∨ b > 2047 then none
    else if a = 0 ∧ b = 0 then none
    else some (Gen.NewGroupAddr2 (i8 a) (i16 b))
  | [a] => if a ≤ 0 ∨ a > 65535 then none else some (i16 a)
  | _ => none

/-- the `switch len(nums)` of `NewIndividualAddrString` -/
def individualOfNums : List Int → Option (BitVec 16)
  | [a, b, c] =>
    if a < 0 ∨ a > 15 ∨ b < 0 ∨ b > 15 ∨ c < 0 ∨ c > 255 then none
    else if a = 0 ∧ b = 0 ∧ c = 0 then none
    else some (Gen.NewIndividualAddr3 (i8 a) (i8 b) (i8 c))
  | [a, b] =>
    if a < 0 ∨ a > 255 ∨ b < 0 ∨ b > 255 then none
    else if a = 0 ∧ b = 0 then none
    else some (Gen.NewIndividualAddr2 (i8 a) (i8 b))
  | [a] => if a ≤ 0 ∨ a > 65535 then none else some (i16 a)
  | _ => none

/-- `NewGroupAddrString` -/
def parseGroup (s : Str) : Option (BitVec 16) :=
  match (splitOn slash s).mapM atoi with
  | none => none
  | some nums => groupOfNums nums

/-- `NewIndividualAddrString` -/
def parseIndividual (s : Str) : Option (BitVec 16) :=
  match (splitOn dot s).mapM atoi with
  | none => none
  | some nums => individualOfNums nums

end Knx.Addr
