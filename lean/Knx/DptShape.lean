/-
  Knx/DptShape.lean — the codec shapes of knx/dpt (what the extractor recognises in the bodies of
  `Pack` / `Unpack`) and decimal literals as they appear in the source.
-/
namespace Knx.Dpt

/-- a decimal literal of the source: `num / den` with `den` a power of ten -/
structure Lit where
  num : Int
  den : Nat
  deriving DecidableEq, Repr, Inhabited

inductive Shape where
  | b1 | u8 | v8 | u16 | v16 | u32 | v32 | f32
  /-- 16-bit KNX float: `d <= lo → packF16(loVal)`, `d >= hi → packF16(hiVal)`; the decoder rejects
      values `< unLo` or `> unHi` -/
  | f16 (lo loVal hi hiVal unLo unHi : Lit)
  | scaled | angle | scene17 | scene18
  | v16scaled (k : Nat)
  | time | date | strAscii | strLatin1 | varstr | rgb | xyY | rgbw
  | unknown (why : String)
  deriving DecidableEq, Repr, Inhabited

end Knx.Dpt
