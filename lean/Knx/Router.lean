/-
  Knx/Router.lean — `knx/router.go` as a timed transition system: the send lock (pacing after a
  transmission, back-off after a busy indication), the retained messages and their resending, the
  inbound deliveries.

  The lock is a `sync.Mutex`; goroutines waiting for it are kept in a FIFO (`waiters`).  That the
  runtime hands the mutex over in arrival order is the hypothesis `FifoGrant` of the contended
  theorems — Go's mutex does so for waiters older than 1 ms (starvation mode), not in general.
-/
import Knx.Basic

namespace Knx.Rtr

structure Cfg where
  pause : Nat        -- PostSendPauseDuration (ms)
  retain : Nat       -- RetainCount after checkRouterConfig (0 means 32)
  deriving DecidableEq, Repr, Inhabited

def Cfg.cap (c : Cfg) : Nat := if c.retain = 0 then 32 else c.retain

def maxWait : Nat := 50

/-- who is waiting for the send lock -/
inductive Waiter where
  | send (pid : Nat)                 -- an application Send
  | resend (pid : Nat) (rest : List Nat)   -- the sendMultiple goroutine, about to send `pid`
  | busy (wait : Nat)                -- the serve loop handling RoutingBusy
  | lost (k : Nat)                   -- the serve loop handling RoutingLost
  deriving DecidableEq, Repr, Inhabited

inductive Obs where
  | tx (t : Nat) (pid : Nat)               -- a routing indication left the socket
  | ret (t : Nat) (pid : Nat) (ok : Bool)  -- an application Send returned
  | got (t : Nat) (pid : Option Nat)
  | gotClosed (t : Nat)
  | dropped (t : Nat)                      -- frame offered while the serve loop was not receiving
  deriving DecidableEq, Repr, Inhabited

structure St where
  heldUntil : Option Nat := none     -- lock held by a pause / busy timer until then
  waiters : List Waiter := []
  serveBlocked : Bool := false       -- the serve loop itself is among the waiters
  retained : List Nat := []
  parked : List Nat := []
  sockOpen : Bool := true
  sockFail : Bool := false
  inboundClosed : Bool := false
  deriving DecidableEq, Repr, Inhabited

inductive In where
  | send (pid : Nat)
  | rind (pid : Nat)
  | rbusy (wait : Nat)      -- the effective wait time min(50, announced + random part)
  | rlost (k : Nat)
  | read
  | close
  | sockfail (b : Bool)
  | tick
  deriving DecidableEq, Repr, Inhabited

/-- `retainer.PushBack(data)`, then drop from the front while longer than the cap -/
def pushRetain (cap : Nat) (l : List Nat) (m : Nat) : List Nat :=
  let l' := l ++ [m]
  l'.drop (l'.length - cap)

/-- one transmission under the lock (application Send or resend): returns the new state (lock held
    for the pause when it succeeded), observations, and whether it succeeded -/
def transmit (cfg : Cfg) (s : St) (t : Nat) (pid : Nat) : St × List Obs × Bool :=
  if s.sockOpen && !s.sockFail then
    let s := { s with retained := pushRetain cfg.cap s.retained pid }
    (if cfg.pause > 0 then { s with heldUntil := some (t + cfg.pause) } else s, [.tx t pid], true)
  else (s, [], false)

/-- the holder-less lock is granted to the first waiter, repeatedly, until someone keeps it -/
def grant (cfg : Cfg) : Nat → St → Nat → St × List Obs
  | 0, s, _ => (s, [])
  | fuel + 1, s, t =>
    match s.heldUntil, s.waiters with
    | none, w :: rest =>
      let s := { s with waiters := rest }
      match w with
      | .send pid =>
        let (s', o, ok) := transmit cfg s t pid
        let (s'', o') := grant cfg fuel s' t
        (s'', o ++ [.ret t pid ok] ++ o')
      | .resend pid more =>
        let (s', o, _) := transmit cfg s t pid
        -- sendMultiple goes on with the next message: it queues for the lock again
        let s' := match more with
          | [] => s'
          | p :: ps => { s' with waiters := s'.waiters ++ [.resend p ps] }
        let (s'', o') := grant cfg fuel s' t
        (s'', o ++ o')
      | .busy wait =>
        grant cfg fuel { s with heldUntil := some (t + wait), serveBlocked := false } t
      | .lost k =>
        let n := min k s.retained.length
        let msgs := s.retained.drop (s.retained.length - n)
        let s := { s with retained := s.retained.take (s.retained.length - n), serveBlocked := false }
        let s := match msgs with
          | [] => s
          | p :: ps => { s with waiters := s.waiters ++ [.resend p ps] }
        grant cfg fuel s t
    | _, _ => (s, [])

def fuelOf (s : St) : Nat := 4 * (s.waiters.length + s.retained.length + 4)

/-- reaction to an input at time `t` -/
def applyIn (cfg : Cfg) (s : St) (t : Nat) : In → St × List Obs
  | .send pid =>
    let s := { s with waiters := s.waiters ++ [.send pid] }
    grant cfg (fuelOf s) s t
  | .rind pid =>
    if s.inboundClosed || s.serveBlocked then (s, [.dropped t])
    else ({ s with parked := s.parked ++ [pid] }, [])
  | .rbusy wait =>
    if s.inboundClosed || s.serveBlocked then (s, [.dropped t])
    else
      let s := { s with waiters := s.waiters ++ [.busy wait], serveBlocked := true }
      grant cfg (fuelOf s) s t
  | .rlost k =>
    if s.inboundClosed || s.serveBlocked then (s, [.dropped t])
    else
      let s := { s with waiters := s.waiters ++ [.lost k], serveBlocked := true }
      grant cfg (fuelOf s) s t
  | .read =>
    match s.parked with
    | p :: rest => ({ s with parked := rest }, [.got t (some p)])
    | [] => if s.inboundClosed then (s, [.gotClosed t]) else (s, [.got t none])
  | .close =>
    -- the socket's inbound channel closes; the serve loop ends as soon as it is not blocked
    ({ s with sockOpen := false }, [])
  | .sockfail b => ({ s with sockFail := b }, [])
  | .tick => (s, [])

def nextTimer (s : St) : Option Nat := s.heldUntil

/-- the pause / back-off timer releases the lock -/
def fire (cfg : Cfg) (s : St) (t : Nat) : St × List Obs :=
  match s.heldUntil with
  | some u =>
    if u ≤ t then
      let s := { s with heldUntil := none }
      grant cfg (fuelOf s) s t
    else (s, [])
  | none => (s, [])

inductive Lbl where
  | inp (t : Nat) (i : In)
  | timer (t : Nat)
  deriving DecidableEq, Repr, Inhabited

/-- the serve loop leaves its `range` over the closed socket channel as soon as it is not waiting
    for the lock: `close(router.inbound)`; parked deliveries die in their recovered panics -/
def settle (r : St × List Obs) : St × List Obs :=
  if !r.1.sockOpen && !r.1.serveBlocked && !r.1.inboundClosed then
    ({ r.1 with inboundClosed := true, parked := [] }, r.2)
  else r

def stepL (cfg : Cfg) (s : St) : Lbl → St × List Obs
  | .inp t i => settle (applyIn cfg s t i)
  | .timer t => settle (fire cfg s t)

def advance (cfg : Cfg) (limit : Nat) : Nat → St → St × List Obs
  | 0, s => (s, [])
  | fuel + 1, s =>
    match nextTimer s with
    | some t =>
      if t < limit then
        let (s', o) := stepL cfg s (.timer t)
        let (s'', o') := advance cfg limit fuel s'
        (s'', o ++ o')
      else (s, [])
    | none => (s, [])

def run (cfg : Cfg) (fuel : Nat) : St → List (Nat × In) → List Obs
  | _, [] => []
  | s, (t, i) :: rest =>
    let (s1, o1) := advance cfg t fuel s
    let (s2, o2) := stepL cfg s1 (.inp t i)
    o1 ++ o2 ++ run cfg fuel s2 rest

end Knx.Rtr
