/-
  Knx/DptLemmas.lean — helper lemmas for the datapoint properties.
-/
import Knx.Dpt

namespace Knx.Dpt
open Knx

theorem bytes32_be32 (a b c d : Byte) : bytes32 (be32 a b c d) = [a, b, c, d] := by
  simp only [bytes32, be32, List.cons.injEq, and_true]
  refine ⟨?_, ?_, ?_, ?_⟩ <;> bv_omega

theorem be32_bytes32 (x : BitVec 32) :
    (match bytes32 x with | [a, b, c, d] => be32 a b c d | _ => 0) = x := by
  simp only [bytes32, be32]; bv_omega

/-- the 16.xxx decode loop reads back what the encoder wrote: characters that survive the mask,
    none of them NUL, followed by NUL padding -/
theorem strLoop_encoded (mask : Byte) (cs : List Byte) (k : Nat)
    (h : ∀ c ∈ cs, (c &&& mask) = c ∧ c ≠ 0) :
    strLoop mask (cs ++ List.replicate k 0) = cs.map BitVec.toNat := by
  induction cs with
  | nil =>
    cases k with
    | zero => rfl
    | succ k => simp [strLoop, List.replicate_succ]
  | cons c t ih =>
    have hc := h c (by simp)
    simp only [List.cons_append, strLoop, hc.1, hc.2, ↓reduceIte, List.map_cons, List.cons.injEq, true_and]
    exact ih (fun x hx => h x (by simp [hx]))

end Knx.Dpt
