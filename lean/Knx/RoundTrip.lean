/-
  Knx/RoundTrip.lean — encodability predicates and the decode∘encode theorems for cEMI messages
  and KNXnet/IP services.
-/
import Knx.Parses

namespace Knx

/-! ### which values the encoders represent faithfully -/

/-- transport unit: sequence number and command fit their bit fields; an unnumbered unit has no
    sequence number (its bits are reserved-zero); application data is 1..255 bytes whose first byte
    fits in 6 bits -/
def TPDU.ok : TPDU → Bool
  | .app numbered seq cmd data =>
    (numbered || seq == 0) && decide (seq.toNat ≤ 15) && decide (cmd.toNat ≤ 15) &&
    decide (1 ≤ data.length) && decide (data.length ≤ 255) &&
    (match data with | [] => false | d0 :: _ => decide (d0.toNat < 64))
  | .ctl numbered seq cmd =>
    (numbered || seq == 0) && decide (seq.toNat ≤ 15) && decide (cmd.toNat ≤ 3)

def LData.ok (l : LData) : Bool := decide (l.info.length ≤ 255) && l.tpdu.ok

def knownCode (c : Byte) : Bool :=
  c == LBusmonIndCode || c == LDataReqCode || c == LDataConCode || c == LDataIndCode ||
  c == LRawReqCode || c == LRawConCode || c == LRawIndCode

def Cemi.ok : Cemi → Bool
  | .ldataReq l | .ldataCon l | .ldataInd l => l.ok
  | .lrawReq _ | .lrawCon _ | .lrawInd _ | .lbusmon _ => true
  | .unsupported c _ => !knownCode c

/-! ### bit-field facts (finite, by kernel evaluation over the whole field domain) -/

theorem tpci_app_facts : ∀ (n : Bool) (s c : Fin 16),
    let seq : Byte := BitVec.ofNat 8 s.val
    let cmd : Byte := BitVec.ofNat 8 c.val
    let b1 := ((cmd >>> 2) &&& 3) ||| tpciBits n seq
    ((b1 &&& 0x80) == 0x80) = false ∧ ((b1 &&& 0x40) == 0x40) = n ∧
    ((b1 >>> 2) &&& 15) = (if n then seq else 0) ∧ ((b1 &&& 3) <<< 2) = ((cmd >>> 2) <<< 2) := by
  decide

theorem apci_lo_facts : ∀ (c : Fin 16) (d : Fin 64),
    let cmd : Byte := BitVec.ofNat 8 c.val
    let d0 : Byte := BitVec.ofNat 8 d.val
    let b2 := (d0 &&& 63) ||| ((cmd &&& 3) <<< 6)
    (((cmd >>> 2) <<< 2) ||| (b2 >>> 6)) = cmd ∧ (b2 &&& 63) = d0 := by
  decide

theorem apci_lo_empty : ∀ (c : Fin 16),
    let cmd : Byte := BitVec.ofNat 8 c.val
    let b2 : Byte := (cmd &&& 3) <<< 6
    (((cmd >>> 2) <<< 2) ||| (b2 >>> 6)) = cmd ∧ (b2 &&& 63) = 0 := by
  decide

theorem tpci_ctl_facts : ∀ (n : Bool) (s : Fin 16) (c : Fin 4),
    let seq : Byte := BitVec.ofNat 8 s.val
    let cmd : Byte := BitVec.ofNat 8 c.val
    let b1 := (0x80 ||| (cmd &&& 3)) ||| tpciBits n seq
    ((b1 &&& 0x80) == 0x80) = true ∧ ((b1 &&& 0x40) == 0x40) = n ∧
    ((b1 >>> 2) &&& 15) = (if n then seq else 0) ∧ (b1 &&& 3) = cmd := by
  decide

theorem byte_ofNat_toNat (b : Byte) : BitVec.ofNat 8 b.toNat = b := by simp

/-! ### cEMI -/

theorem rt_tpdu (t : TPDU) (h : t.ok = true) : ParsesAll unpackTPDU (encTPDU t) t := by
  intro tl
  rw [unpackTPDU_eq]
  cases t with
  | app numbered seq cmd data =>
    simp only [TPDU.ok, Bool.and_eq_true, Bool.or_eq_true, decide_eq_true_eq, beq_iff_eq] at h
    obtain ⟨⟨⟨⟨⟨hns, hs⟩, hc⟩, h1⟩, h255⟩, hd0⟩ := h
    rcases data with _ | ⟨d0, ds⟩
    · simp at h1
    · simp only [decide_eq_true_eq] at hd0
      have hdl : appDataLength (d0 :: ds) = ds.length + 1 := by
        unfold appDataLength; simp only [List.length_cons] at h255 ⊢
        rw [if_neg (by omega), if_neg (by omega)]
      have f1 := tpci_app_facts numbered ⟨seq.toNat, by omega⟩ ⟨cmd.toNat, by omega⟩
      have f2 := apci_lo_facts ⟨cmd.toNat, by omega⟩ ⟨d0.toNat, hd0⟩
      simp only [byte_ofNat_toNat] at f1 f2
      obtain ⟨a1, a2, a3, a4⟩ := f1
      obtain ⟨c1, c2⟩ := f2
      simp only [encTPDU, hdl, List.take_succ_cons, List.take_length, tpduP, a1, a2, a3, a4, c1, c2,
        Bool.false_eq_true, ↓reduceIte, List.length_cons]
      have hlen : (BitVec.ofNat 8 (ds.length + 1)).toNat = ds.length + 1 := by
        simp only [List.length_cons] at h255
        simp only [BitVec.toNat_ofNat]; omega
      rw [if_neg (by rw [hlen]; simp)]
      have hseq : (if numbered = true then seq else 0) = seq := by
        cases hns with
        | inl h => simp [h]
        | inr h => simp [h]
      simp only [hseq, hlen]
  | ctl numbered seq cmd =>
    simp only [TPDU.ok, Bool.and_eq_true, Bool.or_eq_true, decide_eq_true_eq, beq_iff_eq] at h
    obtain ⟨⟨hns, hs⟩, hc⟩ := h
    have f1 := tpci_ctl_facts numbered ⟨seq.toNat, by omega⟩ ⟨cmd.toNat, by omega⟩
    simp only [byte_ofNat_toNat] at f1
    obtain ⟨a1, a2, a3, a4⟩ := f1
    have hseq : (if numbered = true then seq else 0) = seq := by
      cases hns with
      | inl h => simp [h]
      | inr h => simp [h]
    simp only [encTPDU, tpduP, a1, a2, a3, a4, hseq, ↓reduceIte, List.length_cons, List.length_nil]

theorem rt_info (info : List Byte) (h : info.length ≤ 255) : Parses unpackInfo (encInfo info) info := by
  intro r tl
  rw [unpackInfo_eq]
  unfold encInfo
  rw [if_neg (by omega)]
  simp only [List.cons_append, infoP, List.length_append, List.length_cons]
  have hlen : (BitVec.ofNat 8 info.length).toNat = info.length := by
    simp only [BitVec.toNat_ofNat]; omega
  rw [hlen, if_neg (by omega)]
  rcases info with _ | ⟨i0, is⟩
  · simp
  · simp only [List.length_cons, gt_iff_lt, Nat.zero_lt_succ, ↓reduceIte, R.ok.injEq, Prod.mk.injEq]
    constructor
    · rw [← List.length_cons (a := i0), List.take_left]
    · omega

theorem rt_ldata (l : LData) (h : l.ok = true) : ParsesAll unpackLData (encLData l) l := by
  simp only [LData.ok, Bool.and_eq_true, decide_eq_true_eq] at h
  unfold unpackLData encLData encU16
  simp only [List.append_assoc, List.cons_append, List.nil_append]
  refine (rt_info l.info h.1).bindAll ?_
  refine Parses.u8_bindAll (Parses.u8_bindAll (Parses.u16_bindAll (Parses.u16_bindAll ?_)))
  exact (rt_tpdu l.tpdu h.2).bind_pure (LData.mk l.info l.ctrl1 l.ctrl2 l.src l.dst)

theorem rt_cemi (m : Cemi) (h : m.ok = true) : ParsesAll unpackCemi (encCemi m) m := by
  unfold unpackCemi encCemi
  refine Parses.u8_bindAll ?_
  cases m with
  | ldataReq l =>
    simp only [Cemi.code, LDataReqCode, LBusmonIndCode, LDataConCode, LDataIndCode, LRawReqCode,
      LRawConCode, LRawIndCode, encCemiBody]
    exact (rt_ldata l h).bind_pure Cemi.ldataReq
  | ldataCon l =>
    simp only [Cemi.code, LDataReqCode, LBusmonIndCode, LDataConCode, LDataIndCode, LRawReqCode,
      LRawConCode, LRawIndCode, encCemiBody]
    exact (rt_ldata l h).bind_pure Cemi.ldataCon
  | ldataInd l =>
    simp only [Cemi.code, LDataReqCode, LBusmonIndCode, LDataConCode, LDataIndCode, LRawReqCode,
      LRawConCode, LRawIndCode, encCemiBody]
    exact (rt_ldata l h).bind_pure Cemi.ldataInd
  | lrawReq d =>
    simp only [Cemi.code, LDataReqCode, LBusmonIndCode, LDataConCode, LDataIndCode, LRawReqCode,
      LRawConCode, LRawIndCode, encCemiBody]
    exact (ParsesAll.rest d).bind_pure Cemi.lrawReq
  | lrawCon d =>
    simp only [Cemi.code, LDataReqCode, LBusmonIndCode, LDataConCode, LDataIndCode, LRawReqCode,
      LRawConCode, LRawIndCode, encCemiBody]
    exact (ParsesAll.rest d).bind_pure Cemi.lrawCon
  | lrawInd d =>
    simp only [Cemi.code, LDataReqCode, LBusmonIndCode, LDataConCode, LDataIndCode, LRawReqCode,
      LRawConCode, LRawIndCode, encCemiBody]
    exact (ParsesAll.rest d).bind_pure Cemi.lrawInd
  | lbusmon d =>
    simp only [Cemi.code, LDataReqCode, LBusmonIndCode, LDataConCode, LDataIndCode, LRawReqCode,
      LRawConCode, LRawIndCode, encCemiBody]
    exact (ParsesAll.rest d).bind_pure Cemi.lbusmon
  | unsupported c d =>
    simp only [Cemi.ok, knownCode, Bool.not_eq_true', Bool.or_eq_false_iff] at h
    obtain ⟨⟨⟨⟨⟨⟨h1, h2⟩, h3⟩, h4⟩, h5⟩, h6⟩, h7⟩ := h
    simp only [Cemi.code, h1, h2, h3, h4, h5, h6, h7, Bool.false_eq_true, ↓reduceIte, encCemiBody]
    exact (ParsesAll.rest d).bind_pure (Cemi.unsupported c)

/-! ### KNXnet/IP -/

theorem rt_hostInfo (h : HostInfo) : Parses unpackHostInfo (encHostInfo h) h := by
  unfold unpackHostInfo encHostInfo encU16
  refine Parses.u8_bind (Parses.u8_bind ?_)
  show Parses _ ([h.a0, h.a1, h.a2, h.a3] ++ ([hi8 h.port, lo8 h.port] ++ [])) _
  refine Parses.bytes_bind rfl ?_
  simp only [List.append_nil]
  refine Parses.u16_bind (Parses.guard_bind rfl ?_)
  exact Parses.pure _

def zeroHost : HostInfo := { proto := 0, a0 := 0, a1 := 0, a2 := 0, a3 := 0, port := 0 }

def knownService (i : BitVec 16) : Bool :=
  i == SearchReqService || i == SearchResService || i == DescrReqService || i == DescrResService ||
  i == ConnReqService || i == ConnResService || i == ConnStateReqService ||
  i == ConnStateResService || i == DiscReqService || i == DiscResService ||
  i == TunnelReqService || i == TunnelResService || i == RoutingIndService ||
  i == RoutingLostService || i == RoutingBusyService

/-- the services whose round trip is proved here (all encodable ones except the two that carry
    description blocks, which `Knx.RoundTripDesc` handles) -/
def Service.okSimple : Service → Bool
  | .searchReq _ | .descrReq _ | .connReq .. | .connStateReq .. | .connStateRes ..
  | .discReq .. | .discRes .. | .tunnelRes .. => true
  | .connRes _ st c => st == 0 || c == zeroHost
  | .tunnelReq _ _ m | .routingInd m => m.ok
  | .unknown i _ => !knownService i
  | .searchRes .. | .descrRes _ | .routingLost .. | .routingBusy .. => false

/-- bytes of the encoding that `knxnet.Unpack` leaves unread: the CRD of a positive connect
    response -/
def unreadTail : Service → Nat
  | .connRes _ st _ => if st == 0 then 4 else 0
  | _ => 0

/-- a body decoder run on the encoded body returns the value, having consumed all but `unreadTail` -/
def BodyRT (v : Service) (body : List Byte) : Prop :=
  ∀ tl, (bodyDecoder v.id).run { vis := body, tail := tl } = .ok (v, body.length - unreadTail v)

theorem bodyRT_simple (v : Service) (h : v.okSimple = true) :
    ∃ body, encBody v = some body ∧ BodyRT v body := by
  cases v with
  | searchReq hh =>
    refine ⟨_, rfl, fun tl => ?_⟩
    have := ((rt_hostInfo hh).bind (g := fun x => (pure (Service.searchReq x) : Dec Service))
      (Parses.pure _)).all tl
    simpa [bodyDecoder, Service.id, unpackSearchReq, SearchReqService, unreadTail] using this
  | descrReq hh =>
    refine ⟨_, rfl, fun tl => ?_⟩
    have := ((rt_hostInfo hh).bind (g := fun x => (pure (Service.descrReq x) : Dec Service))
      (Parses.pure _)).all tl
    simpa [bodyDecoder, Service.id, unpackDescrReq, SearchReqService, SearchResService,
      DescrReqService, unreadTail] using this
  | connReq c t layer =>
    refine ⟨_, rfl, fun tl => ?_⟩
    have : Parses unpackConnReq (encHostInfo c ++ (encHostInfo t ++ [4, 4, layer, 0]))
        (.connReq c t layer) := by
      unfold unpackConnReq
      refine (rt_hostInfo c).bind ((rt_hostInfo t).bind ?_)
      refine Parses.u8_bind (Parses.u8_bind (Parses.u8_bind (Parses.u8_bind ?_)))
      exact Parses.guard_bind rfl (Parses.guard_bind rfl (Parses.pure _))
    have := this.all tl
    simpa [bodyDecoder, Service.id, SearchReqService, SearchResService, DescrReqService,
      DescrResService, ConnReqService, unreadTail, encBody] using this
  | connRes ch st c =>
    simp only [Service.okSimple, Bool.or_eq_true, beq_iff_eq] at h
    by_cases hst : st = 0
    · subst hst
      refine ⟨_, rfl, fun tl => ?_⟩
      have : Parses unpackConnRes ([ch, 0] ++ encHostInfo c) (.connRes ch 0 c) := by
        unfold unpackConnRes
        refine Parses.u8_bind (Parses.u8_bind ?_)
        simp only [beq_self_eq_true, ↓reduceIte]
        have := (rt_hostInfo c).bind (g := fun x => (pure (Service.connRes ch 0 x) : Dec Service))
          (Parses.pure _)
        simpa using this
      have := this [4, 4, 0, 0] tl
      simp only [bodyDecoder, Service.id, SearchReqService, SearchResService, DescrReqService,
        DescrResService, ConnReqService, ConnResService, unreadTail, beq_self_eq_true, ↓reduceIte]
      simp only [List.append_assoc] at this ⊢
      have e1 : ((518 : BitVec 16) == 513) = false := by decide
      have e2 : ((518 : BitVec 16) == 514) = false := by decide
      have e3 : ((518 : BitVec 16) == 515) = false := by decide
      have e4 : ((518 : BitVec 16) == 516) = false := by decide
      have e5 : ((518 : BitVec 16) == 517) = false := by decide
      simp only [e1, e2, e3, e4, e5, Bool.false_eq_true, ↓reduceIte]
      rw [this]
      simp [encHostInfo, encU16]
    · have hc : c = zeroHost := by
        cases h with
        | inl h => exact absurd h hst
        | inr h => exact h
      subst hc
      have hst' : ¬ st = 0#8 := hst
      refine ⟨[ch, st], by simp [encBody, hst'], fun tl => ?_⟩
      have : Parses unpackConnRes [ch, st] (.connRes ch st zeroHost) := by
        unfold unpackConnRes
        refine Parses.u8_bind (Parses.u8_bind ?_)
        have : (st == 0) = false := by simpa using hst
        simp only [this, Bool.false_eq_true, ↓reduceIte]
        exact Parses.pure _
      have := this.all tl
      simpa [bodyDecoder, Service.id, SearchReqService, SearchResService, DescrReqService,
        DescrResService, ConnReqService, ConnResService, unreadTail, hst'] using this
  | connStateReq ch st c =>
    refine ⟨_, rfl, fun tl => ?_⟩
    have : Parses unpackConnStateReq ([ch, st] ++ encHostInfo c) (.connStateReq ch st c) := by
      unfold unpackConnStateReq
      refine Parses.u8_bind (Parses.u8_bind ?_)
      have := (rt_hostInfo c).bind (g := fun x => (pure (Service.connStateReq ch st x) : Dec Service))
        (Parses.pure _)
      simpa using this
    have := this.all tl
    simpa [bodyDecoder, Service.id, SearchReqService, SearchResService, DescrReqService,
      DescrResService, ConnReqService, ConnResService, ConnStateReqService, unreadTail, encBody] using this
  | connStateRes ch st =>
    refine ⟨_, rfl, fun tl => ?_⟩
    have : Parses unpackConnStateRes [ch, st] (.connStateRes ch st) := by
      unfold unpackConnStateRes
      exact Parses.u8_bind (Parses.u8_bind (Parses.pure _))
    have := this.all tl
    simpa [bodyDecoder, Service.id, SearchReqService, SearchResService, DescrReqService,
      DescrResService, ConnReqService, ConnResService, ConnStateReqService, ConnStateResService,
      unreadTail, encBody] using this
  | discReq ch st c =>
    refine ⟨_, rfl, fun tl => ?_⟩
    have : Parses unpackDiscReq ([ch, st] ++ encHostInfo c) (.discReq ch st c) := by
      unfold unpackDiscReq
      refine Parses.u8_bind (Parses.u8_bind ?_)
      have := (rt_hostInfo c).bind (g := fun x => (pure (Service.discReq ch st x) : Dec Service))
        (Parses.pure _)
      simpa using this
    have := this.all tl
    simpa [bodyDecoder, Service.id, SearchReqService, SearchResService, DescrReqService,
      DescrResService, ConnReqService, ConnResService, ConnStateReqService, ConnStateResService,
      DiscReqService, unreadTail, encBody] using this
  | discRes ch st =>
    refine ⟨_, rfl, fun tl => ?_⟩
    have : Parses unpackDiscRes [ch, st] (.discRes ch st) := by
      unfold unpackDiscRes
      exact Parses.u8_bind (Parses.u8_bind (Parses.pure _))
    have := this.all tl
    simpa [bodyDecoder, Service.id, SearchReqService, SearchResService, DescrReqService,
      DescrResService, ConnReqService, ConnResService, ConnStateReqService, ConnStateResService,
      DiscReqService, DiscResService, unreadTail, encBody] using this
  | tunnelReq ch sq m =>
    refine ⟨_, rfl, fun tl => ?_⟩
    have : ParsesAll unpackTunnelReq ([4, ch, sq, 0] ++ encCemi m) (.tunnelReq ch sq m) := by
      unfold unpackTunnelReq
      refine Parses.u8_bindAll (Parses.u8_bindAll (Parses.u8_bindAll (Parses.u8_bindAll ?_)))
      refine Parses.guard_bindAll rfl ?_
      exact (rt_cemi m h).bind_pure (Service.tunnelReq ch sq)
    have := this tl
    simpa [bodyDecoder, Service.id, SearchReqService, SearchResService, DescrReqService,
      DescrResService, ConnReqService, ConnResService, ConnStateReqService, ConnStateResService,
      DiscReqService, DiscResService, TunnelReqService, unreadTail, encBody] using this
  | tunnelRes ch sq st =>
    refine ⟨_, rfl, fun tl => ?_⟩
    have : Parses unpackTunnelRes [4, ch, sq, st] (.tunnelRes ch sq st) := by
      unfold unpackTunnelRes
      refine Parses.u8_bind (Parses.u8_bind (Parses.u8_bind (Parses.u8_bind ?_)))
      exact Parses.guard_bind rfl (Parses.pure _)
    have := this.all tl
    simpa [bodyDecoder, Service.id, SearchReqService, SearchResService, DescrReqService,
      DescrResService, ConnReqService, ConnResService, ConnStateReqService, ConnStateResService,
      DiscReqService, DiscResService, TunnelReqService, TunnelResService, unreadTail, encBody] using this
  | routingInd m =>
    refine ⟨_, rfl, fun tl => ?_⟩
    have : ParsesAll unpackRoutingInd (encCemi m) (.routingInd m) := by
      unfold unpackRoutingInd
      exact (rt_cemi m h).bind_pure Service.routingInd
    have := this tl
    simpa [bodyDecoder, Service.id, SearchReqService, SearchResService, DescrReqService,
      DescrResService, ConnReqService, ConnResService, ConnStateReqService, ConnStateResService,
      DiscReqService, DiscResService, TunnelReqService, TunnelResService, RoutingIndService,
      unreadTail, encBody] using this
  | unknown i d =>
    refine ⟨_, rfl, fun tl => ?_⟩
    simp only [Service.okSimple, knownService, Bool.not_eq_true', Bool.or_eq_false_iff] at h
    obtain ⟨⟨⟨⟨⟨⟨⟨⟨⟨⟨⟨⟨⟨⟨h1, h2⟩, h3⟩, h4⟩, h5⟩, h6⟩, h7⟩, h8⟩, h9⟩, h10⟩, h11⟩, h12⟩, h13⟩, h14⟩, h15⟩ := h
    have := (ParsesAll.rest d).bind_pure (Service.unknown i) tl
    simpa [bodyDecoder, Service.id, h1, h2, h3, h4, h5, h6, h7, h8, h9, h10, h11, h12, h13, h14, h15,
      unreadTail] using this
  | searchRes _ _ _ => simp [Service.okSimple] at h
  | descrRes _ => simp [Service.okSimple] at h
  | routingLost _ _ => simp [Service.okSimple] at h
  | routingBusy _ _ _ => simp [Service.okSimple] at h

theorem rt_header (i t : BitVec 16) : Parses unpackHeader ([6, 16] ++ encU16 i ++ encU16 t) (i, t) := by
  unfold unpackHeader encU16
  refine Parses.u8_bind (Parses.u8_bind (Parses.u16_bind (Parses.u16_bind ?_)))
  exact Parses.guard_bind rfl (Parses.guard_bind rfl (Parses.pure _))

/-- a frame whose body round-trips through its body decoder round-trips through `knxnet.Unpack` -/
theorem rt_frame_of_body (v : Service) (body : List Byte) (sz : Nat)
    (hb : encBody v = some body) (hs : sizeBody v = some sz) (hrt : BodyRT v body)
    (hlen : unreadTail v ≤ body.length) :
    ∃ frame, encFrame v = some frame ∧
      ∀ tl, unpackService.run { vis := frame, tail := tl } = .ok (v, frame.length - unreadTail v) := by
  refine ⟨[6, 16] ++ encU16 v.id ++ encU16 (BitVec.ofNat 16 (sz + 6)) ++ body, ?_, fun tl => ?_⟩
  · simp [encFrame, hb, hs]
  · unfold unpackService
    have := Parses.bind_run (g := fun p : BitVec 16 × BitVec 16 => bodyDecoder p.1)
      (rt_header v.id (BitVec.ofNat 16 (sz + 6))) (hrt tl)
    rw [this]
    simp only [encU16, List.length_append, List.length_cons, List.length_nil, R.ok.injEq,
      Prod.mk.injEq, true_and]
    omega

end Knx
