/-
  Knx/Tunnel.lean — `knx/tunnel.go` as a timed transition system.

  One goroutine kind = one small process; one step = one channel operation / select arm / socket
  send.  Virtual time in ms.  The state holds, besides the connection fields, the *processes* that
  exist: the Send that owns the sequence mutex, parked acknowledgement goroutines
  (`handleTunnelRes`), heartbeat workers (`performHeartbeat`/`requestConnState`), parked
  connection-state responses (`handleConnStateRes`), parked inbound deliveries (`pushInbound`).

  `applyIn` is the reaction to one input (an application call or a frame from the socket) run to
  quiescence; `fire` is the expiry of the earliest armed timer.  `run` is the deterministic
  schedule the harness drives the real client along (inputs at given instants, timers urgent).
-/
import Knx.Basic

namespace Knx.Tun

structure Cfg where
  R : Nat          -- resend interval
  T : Nat          -- response timeout
  H : Nat          -- heartbeat interval
  tcp : Bool
  deriving DecidableEq, Repr, Inhabited

/-- frames on the wire (payloads are telegram numbers) -/
inductive Fr where
  | creq
  | cres (ch st : Byte)
  | csreq (ch : Byte)
  | csres (ch st : Byte)
  | dreq (ch : Byte)
  | dres (ch : Byte)
  | treq (ch seq : Byte) (pid : Nat)
  | tres (ch seq st : Byte)
  | other
  deriving DecidableEq, Repr, Inhabited

/-- result of a `Send` -/
inductive Ret where
  | ok | timeout | rejected | terminated | sockerr
  deriving DecidableEq, Repr, Inhabited

inductive Obs where
  | tx (t : Nat) (f : Fr)
  | ret (t : Nat) (pid : Nat) (r : Ret)
  | got (t : Nat) (pid : Option Nat)      -- a non-blocking read of Inbound: a telegram or nothing
  | gotClosed (t : Nat)
  | closed (t : Nat)                       -- a Close call returned
  | undelivered (t : Nat)                  -- nobody was receiving from the socket
  | skipped (t : Nat)                      -- a Close while another Close is still waiting (not driven)
  deriving DecidableEq, Repr, Inhabited

/-- the Send inside `requestTunnel`'s select loop -/
structure Snd where
  pid : Nat
  ch : Byte
  seq : Byte
  nextTick : Nat
  deadline : Nat
  deriving DecidableEq, Repr, Inhabited

/-- a goroutine of `handleTunnelRes` offering an acknowledgement -/
structure Ack where
  ch : Byte
  seq : Byte
  st : Byte
  expiry : Nat
  deriving DecidableEq, Repr, Inhabited

/-- a heartbeat worker inside `requestConnState` -/
structure Wk where
  ch : Byte
  nextTick : Nat
  deadline : Nat
  deriving DecidableEq, Repr, Inhabited

/-- a goroutine of `handleConnStateRes` offering a status -/
structure HbRes where
  st : Byte
  expiry : Nat
  deriving DecidableEq, Repr, Inhabited

inductive Phase where
  | proc (hbNext : Nat) (inSeq : Byte)        -- inside process()
  | reconn (nextTick deadline : Nat)          -- inside requestConn() called from serve()
  | lockWait (newCh : Byte)                   -- requestConn() got its response and waits for seqMu
  | dead                                       -- serve() has returned
  deriving DecidableEq, Repr, Inhabited

structure St where
  ch : Byte
  outSeq : Byte
  phase : Phase
  snd : Option Snd := none
  acks : List Ack := []
  wks : List Wk := []
  hbres : List HbRes := []
  parked : List Nat := []        -- pushInbound goroutines, FIFO
  done : Bool := false           -- close(conn.done) happened
  closers : Nat := 0             -- Close calls waiting for serve to exit
  closeDone : Bool := false      -- the once.Do body has finished
  sockOpen : Bool := true
  sockFail : Bool := false
  deriving DecidableEq, Repr, Inhabited

/-- application / network inputs -/
inductive In where
  | send (pid : Nat)
  | rx (f : Fr)
  | read
  | close
  | sockclose
  | sockfail (b : Bool)
  | tick                     -- nothing happens (time passes up to here)
  deriving DecidableEq, Repr, Inhabited

def init (cfg : Cfg) (ch : Byte) : St :=
  { ch, outSeq := 0, phase := .proc cfg.H 0 }

/-- `sock.Send`: succeeds and is observed unless the socket is closed or failing -/
def sockSend (s : St) (t : Nat) (f : Fr) : Bool × List Obs :=
  if s.sockOpen && !s.sockFail then (true, [.tx t f]) else (false, [])

/-- serve() returns: deferred closes of ack and inbound; a pending Send sees the closed channel;
    parked goroutines die in their recovered panics; waiting Close calls finish -/
def serveExit (s : St) (t : Nat) : St × List Obs :=
  let o1 := match s.snd with
    | some x => [Obs.ret t x.pid .terminated]
    | none => []
  let s := { s with phase := .dead, snd := none, acks := [], parked := [], wks := [], hbres := [] }
  if s.closers > 0 then
    ({ s with closers := 0, closeDone := true, sockOpen := false },
     o1 ++ List.replicate s.closers (.closed t))
  else (s, o1)

/-- serve() calls requestConn() after a failed heartbeat or a disconnect request -/
def startReconn (cfg : Cfg) (s : St) (t : Nat) : St × List Obs :=
  let (ok, o) := sockSend s t .creq
  if ok then ({ s with phase := .reconn (t + cfg.R) (t + cfg.T) }, o)
  else let (s', o') := serveExit s t; (s', o ++ o')

/-- process() returns: `close(heartbeat)` ends every worker and parked status -/
def procExit (cfg : Cfg) (s : St) (t : Nat) (reconnect : Bool) : St × List Obs :=
  let s := { s with wks := [], hbres := [] }
  if reconnect then startReconn cfg s t else serveExit s t

/-- process() is (re-)entered: its select sees `done` at once when Close has been called -/
def procEnter (cfg : Cfg) (s : St) (t : Nat) : St × List Obs :=
  if s.done then serveExit s t else ({ s with phase := .proc (t + cfg.H) 0 }, [])

/-- the waiting Send receives an acknowledgement from `conn.ack` -/
def sndTakes (s : St) (x : Snd) (a : Ack) (t : Nat) : St × List Obs :=
  if a.ch ≠ x.ch then (s, [])                       -- accepted for an earlier connection
  else if a.seq ≠ s.outSeq then (s, [])             -- mismatching sequence number
  else
    let s := { s with outSeq := s.outSeq + 1, snd := none }
    (s, [.ret t x.pid (if a.st = 0 then .ok else .rejected)])

/-- a Send that has just entered its select loop drains the parked acknowledgements in FIFO order
    until one completes it -/
def drainAcks (s : St) (t : Nat) : Nat → St × List Obs
  | 0 => (s, [])
  | fuel + 1 =>
    match s.snd, s.acks with
    | some x, a :: rest =>
      let (s', o) := sndTakes { s with acks := rest } x a t
      let (s'', o') := drainAcks s' t fuel
      (s'', o ++ o')
    | _, _ => (s, [])

/-- a heartbeat worker obtained a status (or the timeout / a send error): failure makes
    process() return `errHeartbeatFailed` when it is listening -/
def wkResult (cfg : Cfg) (s : St) (t : Nat) (okStatus : Bool) : St × List Obs :=
  if okStatus then (s, [])
  else match s.phase with
    | .proc _ _ => if s.done then (s, []) else procExit cfg s t true
    | _ => (s, [])

def isBusy (st : Byte) : Bool := st == 0x24 || st == 0x25

/-- the reaction to a frame read from the socket's inbound channel -/
def onFrame (cfg : Cfg) (s : St) (t : Nat) (f : Fr) : St × List Obs :=
  match s.phase with
  | .dead => (s, [.undelivered t])
  | .reconn _ _ =>
    match f with
    | .cres ch st =>
      if st = 0 then
        -- `conn.channel = res.Channel`, then `seqMu.Lock()`: waits while a Send holds the mutex
        match s.snd with
        | some _ => ({ s with ch := ch, phase := .lockWait ch }, [])
        | none => procEnter cfg { s with ch := ch, outSeq := 0 } t
      else if isBusy st then (s, [])
      else serveExit s t
    | _ => (s, [])
  | .lockWait _ => (s, [.undelivered t])
  | .proc hbNext inSeq =>
    match f with
    | .dreq ch =>
      if ch ≠ s.ch then (s, []) else
      let (_, o) := sockSend s t (.dres ch)
      let (s', o') := procExit cfg s t true
      (s', o ++ o')
    | .dres ch => if ch ≠ s.ch then (s, []) else procExit cfg s t false
    | .treq ch seq pid =>
      if ch ≠ s.ch then (s, []) else
      if cfg.tcp then ({ s with parked := s.parked ++ [pid] }, []) else
      if seq = inSeq then
        let s := { s with phase := .proc hbNext (inSeq + 1), parked := s.parked ++ [pid] }
        (s, (sockSend s t (.tres s.ch seq 0)).2)
      else if seq = inSeq - 1 then (s, (sockSend s t (.tres s.ch seq 0)).2)
      else (s, [])
    | .tres ch seq st =>
      if ch ≠ s.ch then (s, []) else
      if s.done then (s, []) else
      let a : Ack := { ch, seq, st, expiry := t + cfg.R }
      match s.snd with
      | some x => sndTakes s x a t
      | none => ({ s with acks := s.acks ++ [a] }, [])
    | .csres ch st =>
      if ch ≠ s.ch then (s, []) else
      if s.done then (s, []) else
      match s.wks with
      | _ :: rest => wkResult cfg { s with wks := rest } t (st = 0)
      | [] => ({ s with hbres := s.hbres ++ [{ st, expiry := t + cfg.R }] }, [])
    | _ => (s, [])

/-- reaction to one input at time `t` -/
def applyIn (cfg : Cfg) (s : St) (t : Nat) : In → St × List Obs
  | .send pid =>
    match s.snd with
    | some _ => (s, [])      -- a second concurrent Send would wait for the mutex: not scripted
    | none =>
      let seq := if cfg.tcp then 0 else s.outSeq
      let (ok, o) := sockSend s t (.treq s.ch seq pid)
      if !ok then (s, [.ret t pid .sockerr])
      else if cfg.tcp then (s, o ++ [.ret t pid .ok])
      else if s.phase = .dead then (s, o ++ [.ret t pid .terminated])
      else
        let x : Snd := { pid, ch := s.ch, seq, nextTick := t + cfg.R, deadline := t + cfg.T }
        let (s', o') := drainAcks { s with snd := some x } t (s.acks.length + 1)
        (s', o ++ o')
  | .rx f => if s.sockOpen then onFrame cfg s t f else (s, [.undelivered t])
  | .read =>
    match s.parked with
    | p :: rest => ({ s with parked := rest }, [.got t (some p)])
    | [] => if s.phase = .dead then (s, [.gotClosed t]) else (s, [.got t none])
  | .close =>
    if s.closeDone then (s, [.closed t])
    else if s.done then (s, [.skipped t])
    else
      let (_, o) := sockSend s t (.dreq s.ch)
      let s := { s with done := true, acks := [], hbres := [], closers := 1 }
      match s.phase with
      | .proc _ _ =>
        let (s', o') := procExit cfg s t false
        (s', o ++ o')
      | .dead => let (s', o') := serveExit s t; (s', o ++ o')
      | .reconn _ _ | .lockWait _ => (s, o)
  | .sockclose =>
    let s := { s with sockOpen := false }
    match s.phase with
    | .proc _ _ => procExit cfg s t false
    | .reconn _ _ => serveExit s t
    | .lockWait _ | .dead => (s, [])
  | .sockfail b => ({ s with sockFail := b }, [])
  | .tick => (s, [])

/-! ### timers -/

def minOpt (a b : Option Nat) : Option Nat :=
  match a, b with
  | some x, some y => some (if x ≤ y then x else y)
  | some x, none => some x
  | none, b => b

def listMin (l : List Nat) : Option Nat := l.foldl (fun acc x => minOpt acc (some x)) none

/-- the earliest armed deadline -/
def nextTimer (s : St) : Option Nat :=
  let t1 := match s.snd with | some x => some (if x.nextTick ≤ x.deadline then x.nextTick else x.deadline) | none => none
  let t2 := listMin (s.acks.map (·.expiry))
  let t3 := listMin (s.wks.map fun w => if w.nextTick ≤ w.deadline then w.nextTick else w.deadline)
  let t4 := listMin (s.hbres.map (·.expiry))
  let t5 := match s.phase with
    | .proc hb _ => some hb
    | .reconn a b => some (if a ≤ b then a else b)
    | .lockWait _ | .dead => none
  minOpt t1 (minOpt t2 (minOpt t3 (minOpt t4 t5)))

/-- the first worker that is due at `t`, with the others in order -/
def splitDueWk (t : Nat) : List Wk → Option (Wk × List Wk × List Wk)
  | [] => none
  | w :: rest =>
    if w.nextTick ≤ t ∨ w.deadline ≤ t then some (w, [], rest)
    else match splitDueWk t rest with
      | some (x, pre, post) => some (x, w :: pre, post)
      | none => none

/-- fire one timer that is due at time `t` (priority only orders non-interfering processes) -/
def fire (cfg : Cfg) (s : St) (t : Nat) : St × List Obs :=
  -- parked goroutines whose offer expires
  if s.acks.any (·.expiry ≤ t) then ({ s with acks := s.acks.filter (fun a => !(a.expiry ≤ t)) }, [])
  else if s.hbres.any (·.expiry ≤ t) then ({ s with hbres := s.hbres.filter (fun a => !(a.expiry ≤ t)) }, [])
  else
  -- the Send: response timeout, or resend tick
  match (match s.snd with | some x => if x.deadline ≤ t ∨ x.nextTick ≤ t then some x else none | none => none) with
  | some x =>
    if x.deadline ≤ t then ({ s with snd := none }, [.ret t x.pid .timeout])
    else
      let (ok, o) := sockSend s t (.treq x.ch x.seq x.pid)
      if ok then ({ s with snd := some { x with nextTick := x.nextTick + cfg.R } }, o)
      else ({ s with snd := none }, [.ret t x.pid .sockerr])
  | none =>
  -- heartbeat workers
  match splitDueWk t s.wks with
  | some (w, pre, post) =>
    if w.deadline ≤ t then wkResult cfg { s with wks := pre ++ post } t false
    else
      let (ok, o) := sockSend s t (.csreq w.ch)
      if ok then ({ s with wks := pre ++ { w with nextTick := w.nextTick + cfg.R } :: post }, o)
      else let (s', o') := wkResult cfg { s with wks := pre ++ post } t false; (s', o ++ o')
  | none =>
  match s.phase with
  | .proc hb inSeq =>
    if hb ≤ t then
      -- heartbeat ticker: `go performHeartbeat`
      let s := { s with phase := .proc (hb + cfg.H) inSeq }
      let (ok, o) := sockSend s t (.csreq s.ch)
      if !ok then let (s', o') := wkResult cfg s t false; (s', o ++ o')
      else
        match s.hbres with
        | r :: rest => let (s', o') := wkResult cfg { s with hbres := rest } t (r.st = 0); (s', o ++ o')
        | [] => ({ s with wks := s.wks ++ [{ ch := s.ch, nextTick := t + cfg.R, deadline := t + cfg.T }] }, o)
    else (s, [])
  | .reconn tick dl =>
    if dl ≤ t then serveExit s t
    else if tick ≤ t then
      let (ok, o) := sockSend s t .creq
      if ok then ({ s with phase := .reconn (tick + cfg.R) dl }, o)
      else let (s', o') := serveExit s t; (s', o ++ o')
    else (s, [])
  | .lockWait _ | .dead => (s, [])

/-- requestConn() obtains the sequence mutex as soon as no Send holds it -/
def settle (cfg : Cfg) (r : St × List Obs) (t : Nat) : St × List Obs :=
  match r.1.phase, r.1.snd with
  | .lockWait _, none =>
    let (s', o) := procEnter cfg { r.1 with outSeq := 0 } t
    (s', r.2 ++ o)
  | _, _ => r

/-- labels of the transition system: an input at time `t`, or the expiry of a timer at time `t` -/
inductive Lbl where
  | inp (t : Nat) (i : In)
  | timer (t : Nat)
  deriving DecidableEq, Repr, Inhabited

def stepL (cfg : Cfg) (s : St) : Lbl → St × List Obs
  | .inp t i => settle cfg (applyIn cfg s t i) t
  | .timer t => settle cfg (fire cfg s t) t

/-- let time pass up to (not including) `limit`, firing every timer on the way -/
def advance (cfg : Cfg) (limit : Nat) : Nat → St → St × List Obs
  | 0, s => (s, [])
  | fuel + 1, s =>
    match nextTimer s with
    | some t =>
      if t < limit then
        let (s', o) := stepL cfg s (.timer t)
        let (s'', o') := advance cfg limit fuel s'
        (s'', o ++ o')
      else (s, [])
    | none => (s, [])

/-- the schedule of the harness: inputs at their instants, timers urgent in between -/
def run (cfg : Cfg) (fuel : Nat) : St → List (Nat × In) → List Obs
  | s, [] => (advance cfg 0 0 s).2
  | s, (t, i) :: rest =>
    let (s1, o1) := advance cfg t fuel s
    let (s2, o2) := stepL cfg s1 (.inp t i)
    o1 ++ o2 ++ run cfg fuel s2 rest

end Knx.Tun
