/-
  Knx/Finite.lean — kernel-checked exhaustive sweeps over `[0, 2^k)` with logarithmic recursion
  depth (a flat `∀ n : Fin 65536` runs out of kernel recursion depth).
-/
namespace Knx

/-- `p` holds on every `n` with `lo ≤ n < lo + 2^k` -/
def allBelow (p : Nat → Bool) : Nat → Nat → Bool
  | 0, lo => p lo
  | k + 1, lo => allBelow p k lo && allBelow p k (lo + 2 ^ k)

theorem allBelow_spec (p : Nat → Bool) : ∀ k lo, allBelow p k lo = true →
    ∀ n, lo ≤ n → n < lo + 2 ^ k → p n = true := by
  intro k
  induction k with
  | zero =>
    intro lo h n h1 h2
    simp only [allBelow] at h
    have : n = lo := by simp at h2; omega
    subst this; exact h
  | succ k ih =>
    intro lo h n h1 h2
    simp only [allBelow, Bool.and_eq_true] at h
    by_cases hn : n < lo + 2 ^ k
    · exact ih lo h.1 n h1 hn
    · exact ih (lo + 2 ^ k) h.2 n (by omega) (by rw [Nat.pow_succ] at h2; omega)

theorem forall_bv16 (p : BitVec 16 → Bool) (h : allBelow (fun n => p (BitVec.ofNat 16 n)) 16 0 = true) :
    ∀ a : BitVec 16, p a = true := by
  intro a
  have := allBelow_spec _ 16 0 h a.toNat (Nat.zero_le _) (by have := a.isLt; simpa using this)
  simpa using this

end Knx
