/-
  Knx/StopAndWait.lean — the KNXnet/IP tunnelling exchange in the abstract: one sender, one
  receiver, two channels that lose, duplicate and reorder datagrams, sequence numbers modulo 256.

  Every datagram carries a ghost absolute index (which exchange it belongs to); the protocol only
  ever looks at the index modulo 256.  `life`: a datagram of exchange `i` is no longer delivered
  once the sender has completed exchange `i + 254` (the network's lifetime assumption).
  The same system describes client → gateway (sender = client's Send, receiver = gateway, bus =
  the KNX bus) and gateway → client (sender = gateway, receiver = the client's handleTunnelReq,
  bus = the client's Inbound).
-/
namespace Knx.SW

structure St where
  C : Nat                 -- exchanges completed by the sender (= its sequence counter, unbounded ghost)
  opn : Bool              -- exchange C is in progress (a request for it may be (re)transmitted)
  G : Nat                 -- telegrams accepted by the receiver (= its expected number, ghost)
  reqs : List Nat         -- requests in flight, by ghost index
  acks : List Nat         -- acknowledgements in flight, by ghost index of the exchange they acknowledge
  bus : List Nat          -- what the receiver passed on, in order (telegram k has payload k)
  succ : List Nat         -- exchanges the sender completed successfully, in order
  deriving DecidableEq, Repr, Inhabited

def init : St := { C := 0, opn := false, G := 0, reqs := [], acks := [], bus := [], succ := [] }

inductive Lbl where
  | start                   -- the sender begins exchange C (a Send is called / the gateway has a telegram)
  | emit                    -- (re)transmission of the request of the open exchange
  | deliverReq (k : Nat)    -- the k-th request in flight reaches the receiver (and stays in flight: duplication)
  | dropReq (k : Nat)       -- … is lost
  | deliverAck (k : Nat)    -- the k-th acknowledgement in flight reaches the sender
  | dropAck (k : Nat)
  | abandon                 -- the sender gives the exchange up WITHOUT advancing its counter (response timeout)
  deriving DecidableEq, Repr, Inhabited

def M : Nat := 256

/-- the receiver's rule, on wire numbers: the expected number is accepted and acknowledged, the
    previous one acknowledged again, anything else ignored -/
def recv (s : St) (i : Nat) : St :=
  if i % M = s.G % M then { s with G := s.G + 1, bus := s.bus ++ [i], acks := s.acks ++ [i] }
  else if i % M = (s.G + M - 1) % M then { s with acks := s.acks ++ [i] }
  else s

/-- the sender's rule for an acknowledgement: only the number of the open exchange completes it -/
def ackIn (s : St) (j : Nat) : St :=
  if s.opn ∧ j % M = s.C % M then { s with C := s.C + 1, opn := false, succ := s.succ ++ [s.C] }
  else s

def step (s : St) : Lbl → St
  | .start => if s.opn then s else { s with opn := true }
  | .emit => if s.opn then { s with reqs := s.reqs ++ [s.C] } else s
  | .deliverReq k =>
    match s.reqs[k]? with
    | some i => if i + 254 ≤ s.C then s else recv s i     -- lifetime
    | none => s
  | .dropReq k => { s with reqs := s.reqs.eraseIdx k }
  | .deliverAck k =>
    match s.acks[k]? with
    | some j => if j + 254 ≤ s.C then s else ackIn s j
    | none => s
  | .dropAck k => { s with acks := s.acks.eraseIdx k }
  | .abandon => { s with opn := false }

def run (s : St) (ls : List Lbl) : St := ls.foldl step s

/-- the inductive invariant of the timeout-free system -/
structure Inv (s : St) : Prop where
  cg : s.C ≤ s.G
  gc : s.G ≤ s.C + 1
  ahead : s.G = s.C + 1 → s.opn = true
  reqs : ∀ i ∈ s.reqs, i ≤ s.C ∧ (i = s.C → s.opn = true)
  acks : ∀ j ∈ s.acks, j < s.G
  bus : s.bus = List.range s.G
  succ : s.succ = List.range s.C

end Knx.SW
