/-
  Knx/Buf.lean — the `Pack` methods as what they are in Go: procedures that WRITE INTO a caller's
  buffer (`buffer []byte`), statement by statement - indexed stores, `|=` / `&=` on a stored octet,
  `copy`, sub-slices handed to callees (`buffer[off:]`), `util.PackSome` advancing an offset by what
  each item reports.  A `Packer` maps the buffer's old content to its new content, or to `none` when
  an index is out of range (a panic).  Nothing here says what ends up in the buffer: that is
  `Knx.Enc` (the byte lists) and the theorems of Props.C15 connecting the two.
-/
import Knx.Enc

namespace Knx.Buf

abbrev Buf := List Byte
abbrev Packer := Buf → Option Buf

/-- `buffer[i] = v` -/
def setAt (i : Nat) (v : Byte) : Packer := fun b => if i < b.length then some (b.set i v) else none

/-- `buffer[i] op= …` : read-modify-write of one octet -/
def modAt (i : Nat) (f : Byte → Byte) : Packer := fun b =>
  match b[i]? with
  | some x => some (b.set i (f x))
  | none => none

/-- `copy(buffer, src)`: never panics, copies as much as fits -/
def copyTo (src : List Byte) : Packer := fun b => some (src.take b.length ++ b.drop src.length)

/-- a callee working on `buffer[off:]` (slicing beyond the length panics) -/
def sub (off : Nat) (p : Packer) : Packer := fun b =>
  if off ≤ b.length then (p (b.drop off)).map (b.take off ++ ·) else none

/-- one statement after the other -/
def seq (p q : Packer) : Packer := fun b => (p b).bind q

infixl:60 " ;; " => seq

/-- `util.Pack(buffer, uint16)`: low octet first, as the source does -/
def put16 (x : BitVec 16) : Packer := setAt 1 (lo8 x) ;; setAt 0 (hi8 x)

/-- an argument of `util.PackSome`: writes into the slice it is given and reports how far to advance -/
abbrev Item := Buf → Option (Buf × Nat)

def iU8 (v : Byte) : Item := fun b => (setAt 0 v b).map (·, 1)
def iU16 (x : BitVec 16) : Item := fun b => (put16 x b).map (·, 2)
/-- a `[]byte` argument: `uint(copy(buffer, input))` -/
def iBytes (src : List Byte) : Item := fun b => (copyTo src b).map (·, min b.length src.length)
/-- a `Packable` argument: `input.Pack(buffer); return input.Size()` -/
def iPk (p : Packer) (size : Nat) : Item := fun b => (p b).map (·, size)

/-- `util.PackSome(buffer, inputs...)` from a running offset -/
def packSome : List Item → Nat → Packer
  | [], _, b => some b
  | it :: rest, off, b =>
    if off ≤ b.length then
      match it (b.drop off) with
      | some (b', n) => packSome rest (off + n) (b.take off ++ b')
      | none => none
    else none

/-! ### the procedures -/

/-- `Info.Pack` -/
def packInfo (info : List Byte) : Packer :=
  let l := if info.length > 255 then 255 else info.length
  setAt 0 (BitVec.ofNat 8 l) ;; sub 1 (copyTo (info.take l))

def tpciOr (numbered : Bool) (seq : Byte) : Packer :=
  if numbered then modAt 1 (· ||| (0x40 ||| ((seq &&& 15) <<< 2))) else some

/-- `AppData.Pack` / `ControlData.Pack` -/
def packTPDU : TPDU → Packer
  | .app numbered seq cmd data =>
    let dl := appDataLength data
    setAt 0 (BitVec.ofNat 8 dl) ;; setAt 1 ((cmd >>> 2) &&& 3) ;; tpciOr numbered seq ;;
    setAt 2 0 ;; sub 2 (copyTo (if data.length > dl then data.take dl else data)) ;;
    modAt 2 (· &&& 63) ;; modAt 2 (· ||| ((cmd &&& 3) <<< 6))
  | .ctl numbered seq cmd =>
    setAt 0 0 ;; setAt 1 (0x80 ||| (cmd &&& 3)) ;; tpciOr numbered seq

/-- `LData.Pack` -/
def packLData (l : LData) : Packer :=
  packSome [iPk (packInfo l.info) (sizeInfo l.info), iU8 l.ctrl1, iU8 l.ctrl2, iU16 l.src, iU16 l.dst,
            iPk (packTPDU l.tpdu) (sizeTPDU l.tpdu)] 0

def packCemiBody : Cemi → Packer
  | .ldataReq l | .ldataCon l | .ldataInd l => packLData l
  | .lrawReq d | .lrawCon d | .lrawInd d | .lbusmon d | .unsupported _ d => copyTo d

/-- `cemi.Pack` -/
def packCemi (m : Cemi) : Packer := packSome [iU8 m.code, iPk (packCemiBody m) (sizeCemiBody m)] 0

/-- `HostInfo.Pack` -/
def packHostInfo (h : HostInfo) : Packer :=
  packSome [iU8 8, iU8 h.proto, iBytes [h.a0, h.a1, h.a2, h.a3], iU16 h.port] 0

/-- `DeviceInformationBlock.Pack` (the friendly name is first encoded into a fresh 30-octet array,
    the hardware address copied into a fresh 6-octet array) -/
def packDevInfo (d : DevInfo) : Packer :=
  packSome [iU8 54, iU8 d.ty, iU8 d.medium, iU8 d.status, iU16 d.source, iU16 d.project,
            iBytes (fit 6 d.serial), iBytes (fit 4 d.mcast), iBytes (fit 6 d.hw), iBytes (encName d.name)] 0

/-- the loop of `SupportedServicesDIB.Pack`: `f.Pack(buffer[offset:]); offset += f.Size()` -/
def packFamilies : List (Byte × Byte) → Nat → Packer
  | [], _ => some
  | f :: fs, off => sub off (packSome [iU8 f.1, iU8 f.2] 0) ;; packFamilies fs (off + 2)

/-- `SupportedServicesDIB.Pack` -/
def packSvcDIB (d : SvcDIB) : Packer :=
  packSome [iU8 (BitVec.ofNat 8 (sizeSvcDIB d)), iU8 d.ty] 0 ;; packFamilies d.families 2

/-- the `Pack` method of each service type -/
def packBody : Service → Option Packer
  | .searchReq h | .descrReq h => some (packHostInfo h)
  | .searchRes c dev svc =>
    some (packSome [iPk (packHostInfo c) 8, iPk (packDevInfo dev) 54, iPk (packSvcDIB svc) (sizeSvcDIB svc)] 0)
  | .descrRes b => some (packSome [iPk (packDevInfo b.dev) 54, iPk (packSvcDIB b.svc) (sizeSvcDIB b.svc)] 0)
  | .connReq c t layer =>
    some (packSome [iPk (packHostInfo c) 8, iPk (packHostInfo t) 8] 0 ;;
          sub 16 (setAt 0 4 ;; setAt 1 4 ;; setAt 2 layer ;; setAt 3 0))
  | .connRes ch st c =>
    some (if st == 0 then packSome [iU8 ch, iU8 0, iPk (packHostInfo c) 8, iBytes [4, 4, 0, 0]] 0
          else packSome [iU8 ch, iU8 st] 0)
  | .connStateReq ch st c | .discReq ch st c => some (setAt 0 ch ;; setAt 1 st ;; sub 2 (packHostInfo c))
  | .connStateRes ch st | .discRes ch st => some (setAt 0 ch ;; setAt 1 st)
  | .tunnelReq ch sq m => some (setAt 0 4 ;; setAt 1 ch ;; setAt 2 sq ;; setAt 3 0 ;; sub 4 (packCemi m))
  | .tunnelRes ch sq st => some (setAt 0 4 ;; setAt 1 ch ;; setAt 2 sq ;; setAt 3 st)
  | .routingInd m => some (packCemi m)
  | .routingLost .. | .routingBusy .. => none
  | .unknown _ d => some (copyTo d)

/-- `knxnet.Pack(buffer, srv)` -/
def packFrame (v : Service) : Option Packer :=
  match packBody v, sizeBody v with
  | some p, some sz =>
    some (setAt 0 6 ;; setAt 1 16 ;; sub 2 (put16 v.id) ;; sub 4 (put16 (BitVec.ofNat 16 (sz + 6))) ;; sub 6 p)
  | _, _ => none

/-! ### generic facts about procedures -/

/-- `p` writes exactly `e` at the front of every buffer that has room for it, leaves everything behind
    it as it was, and does not panic - whatever the buffer held before -/
def Writes (p : Packer) (e : List Byte) : Prop :=
  ∀ b : Buf, e.length ≤ b.length → p b = some (e ++ b.drop e.length)

def ItemWrites (it : Item) (e : List Byte) : Prop :=
  ∀ b : Buf, e.length ≤ b.length → it b = some (e ++ b.drop e.length, e.length)

theorem Writes.nil : Writes some [] := by intro b _; simp

theorem Writes.copy (src : List Byte) : Writes (copyTo src) src := by
  intro b h
  simp [copyTo, List.take_of_length_le h]

theorem Writes.set0 (v : Byte) : Writes (setAt 0 v) [v] := by
  intro b h
  cases b with
  | nil => simp at h
  | cons x t => simp [setAt]

/-- statements that rewrite the front `e1` region into `e2` compose: used for `|=` / `&=` -/
theorem Writes.seq_sub {p q : Packer} {e1 e2 : List Byte} (hp : Writes p e1) (hq : Writes q e2) :
    Writes (p ;; sub e1.length q) (e1 ++ e2) := by
  intro b h
  simp only [List.length_append] at h
  have h1 : e1.length ≤ b.length := by omega
  simp only [seq, hp b h1, Option.bind_some, sub, List.length_append, List.length_drop]
  have h2 : e1.length ≤ e1.length + (b.length - e1.length) := by omega
  simp only [h2, if_true, List.drop_left', List.take_left']
  have h3 : e2.length ≤ (b.drop e1.length).length := by simp; omega
  rw [hq _ h3]
  simp [List.drop_drop]

theorem Writes.congr {p : Packer} {e e' : List Byte} (h : Writes p e) (he : e = e') : Writes p e' := he ▸ h

theorem ItemWrites.u8 (v : Byte) : ItemWrites (iU8 v) [v] := by
  intro b h
  simp only [iU8, Writes.set0 v b h]; rfl

theorem Writes.u16 (x : BitVec 16) : Writes (Buf.put16 x) (encU16 x) := by
  intro b h
  match b, h with
  | b0 :: b1 :: t, _ => simp [Buf.put16, seq, setAt, encU16]

theorem ItemWrites.u16 (x : BitVec 16) : ItemWrites (iU16 x) (encU16 x) := by
  intro b h
  simp only [iU16, Writes.u16 x b h]; rfl

theorem ItemWrites.bytes (src : List Byte) : ItemWrites (iBytes src) src := by
  intro b h
  simp only [iBytes, Writes.copy src b h, Option.map_some, Nat.min_eq_right h]

theorem ItemWrites.pk {p : Packer} {e : List Byte} {size : Nat} (hp : Writes p e) (hs : e.length = size) :
    ItemWrites (iPk p size) e := by
  intro b h
  simp only [iPk, hp b h, Option.map_some, hs]

/-- item by item: `items[k]` writes `es[k]` -/
inductive AllWrite : List Item → List (List Byte) → Prop
  | nil : AllWrite [] []
  | cons {it : Item} {e : List Byte} {its : List Item} {es : List (List Byte)} :
      ItemWrites it e → AllWrite its es → AllWrite (it :: its) (e :: es)

/-- `util.PackSome`: if every item writes its bytes, the call writes their concatenation at the offset -/
theorem packSome_at : ∀ (items : List Item) (es : List (List Byte)), AllWrite items es →
    ∀ (off : Nat) (b : Buf), off + es.flatten.length ≤ b.length →
      packSome items off b = some (b.take off ++ es.flatten ++ b.drop (off + es.flatten.length)) := by
  intro items es hfa
  induction hfa with
  | nil => intro off b _; simp [packSome]
  | @cons it e its es' hit _ ih =>
    intro off b h
    simp only [List.flatten_cons, List.length_append] at h ⊢
    have h1 : off ≤ b.length := by omega
    have h2 : e.length ≤ (b.drop off).length := by simp; omega
    simp only [packSome, h1, if_true, hit _ h2]
    have hlen : (b.take off ++ (e ++ (b.drop off).drop e.length)).length = b.length := by
      simp [List.length_take, List.length_drop]; omega
    rw [ih (off + e.length) _ (by rw [hlen]; omega)]
    have ht : (b.take off ++ (e ++ (b.drop off).drop e.length)).take (off + e.length) = b.take off ++ e := by
      rw [← List.append_assoc]
      have : (b.take off ++ e).length = off + e.length := by simp [List.length_take]; omega
      rw [List.take_left' this]
    have hd : (b.take off ++ (e ++ (b.drop off).drop e.length)).drop (off + e.length + es'.flatten.length)
        = b.drop (off + (e.length + es'.flatten.length)) := by
      rw [← List.append_assoc]
      have : (b.take off ++ e).length = off + e.length := by simp [List.length_take]; omega
      rw [List.drop_append, List.drop_eq_nil_of_le (by omega), List.nil_append, this,
        List.drop_drop, List.drop_drop]
      congr 1; omega
    rw [ht, hd]
    simp [List.append_assoc]

theorem Writes.some {items : List Item} {es : List (List Byte)} (h : AllWrite items es) :
    Writes (Buf.packSome items 0) es.flatten := by
  intro b hb
  have := packSome_at items es h 0 b (by omega)
  simpa using this

end Knx.Buf
