/-
  Knx/InboundQueue.lean — `knx/inbound.go`, the queue between the serve loop and the application
  (Tunnel.pushInbound / Router.pushInbound since fix dc79db5), as a transition system over every
  interleaving of the three parties: the serve loop pushing, the draining goroutine, the reader.

  `push` runs under the queue's mutex, so it is one atomic step; the drainer's "lock, look, take or
  stop, unlock" is one atomic step (`take`); its blocking send is a separate step (`hand`) that can
  only happen when the application receives.  Ghost fields record what was pushed and what the
  application has received, in order.
-/
namespace Knx.IQ

structure St where
  pending : List Nat := []        -- q.pending
  draining : Bool := false        -- q.draining: a drain goroutine exists
  holding : Option Nat := none    -- the message the drainer has taken and is sending
  pushed : List Nat := []         -- ghost: everything pushed, in order
  delivered : List Nat := []      -- ghost: everything the application received, in order
  deriving DecidableEq, Repr, Inhabited

inductive Lbl where
  | push (m : Nat) (readerReady : Bool)  -- the serve loop pushes; the non-blocking send succeeds iff a reader waits
  | take                                 -- the drainer: lock; stop if nothing is pending, else take the head; unlock
  | hand                                 -- the drainer's blocking send completes: the application received
  deriving DecidableEq, Repr, Inhabited

def step (s : St) : Lbl → St
  | .push m ready =>
    let s := { s with pushed := s.pushed ++ [m] }
    if !s.draining then
      if ready then { s with delivered := s.delivered ++ [m] }           -- handed over directly
      else { s with draining := true, pending := s.pending ++ [m] }     -- go q.drain(out); append
    else { s with pending := s.pending ++ [m] }
  | .take =>
    if s.draining && s.holding.isNone then
      match s.pending with
      | [] => { s with draining := false }
      | m :: rest => { s with holding := some m, pending := rest }
    else s
  | .hand =>
    match s.holding with
    | some m => { s with holding := none, delivered := s.delivered ++ [m] }
    | none => s

def run (s : St) (ls : List Lbl) : St := ls.foldl step s

/-- what has been received, what the drainer holds, and what is queued make up, in this order,
    exactly what was pushed; and without a drainer nothing is held or queued -/
structure Inv (s : St) : Prop where
  order : s.delivered ++ s.holding.toList ++ s.pending = s.pushed
  idle : s.draining = false → s.holding = none ∧ s.pending = []

end Knx.IQ
