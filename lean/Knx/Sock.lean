/-
  Knx/Sock.lean — `knx/knxnet/socket.go`: the TCP receiver's framing (`serveTCPSocket`: peek 6,
  header check, read total-length bytes, decode, drop on error, stop on a bad header) and the UDP
  receiver (`serveUDPSocket`: one reused 1024-byte array).
-/
import Knx.Knxnet

namespace Knx.Sock

/-- the receiver between two reads: bytes buffered but not yet consumed, and whether it has stopped -/
structure Rx where
  buf : List Byte := []
  dead : Bool := false
  deriving DecidableEq, Repr, Inhabited

/-- `UnpackHeader(connBuffer.Peek(6))`: the announced total length, if the header is acceptable -/
def headerOf (buf : List Byte) : Option Nat :=
  match unpackHeader.run { vis := buf.take 6 } with
  | .ok ((_, totalLen), _) => some totalLen.toNat
  | _ => none

/-- `Unpack(buffer[:len])` of one complete frame; an error drops the frame -/
def decodeFrame (frame : List Byte) : Option Service :=
  match unpackService.run { vis := frame } with
  | .ok (v, _) => some v
  | _ => none

/-- take complete frames off the front of the buffer, as long as there are any -/
def pump : Nat → Rx → Rx × List Service
  | 0, rx => (rx, [])
  | fuel + 1, rx =>
    if rx.dead then (rx, []) else
    if rx.buf.length < 6 then (rx, []) else
    match headerOf rx.buf with
    | some n =>
      if n < 6 then ({ rx with dead := true }, [])
      else if rx.buf.length < n then (rx, [])
      else
        let r := pump fuel { rx with buf := rx.buf.drop n }
        (r.1, (decodeFrame (rx.buf.take n)).toList ++ r.2)
    | none => ({ rx with dead := true }, [])

/-- the receiver runs until it blocks (or stops) -/
def settle (rx : Rx) : Rx × List Service := pump (rx.buf.length + 1) rx

/-- a segment arrives -/
def feed (rx : Rx) (chunk : List Byte) : Rx × List Service :=
  settle { rx with buf := rx.buf ++ chunk }

/-- a whole sequence of segments -/
def feedAll : Rx → List (List Byte) → Rx × List Service
  | rx, [] => (rx, [])
  | rx, c :: cs =>
    let r1 := feed rx c
    let r2 := feedAll r1.1 cs
    (r2.1, r1.2 ++ r2.2)

/-- the UDP receiver: every datagram is decoded from the front of one reused array; what an earlier,
    longer datagram left behind lies behind the slice's length -/
def udpStep (arr : List Byte) (dgram : List Byte) : List Byte × Option Service :=
  let arr' := dgram ++ arr.drop dgram.length
  if dgram.isEmpty then (arr', none) else
  match unpackService.run { vis := dgram, tail := arr.drop dgram.length } with
  | .ok (v, _) => (arr', some v)
  | _ => (arr', none)

def udpAll : List Byte → List (List Byte) → List Service
  | _, [] => []
  | arr, d :: ds =>
    let r := udpStep arr d
    r.2.toList ++ udpAll r.1 ds

/-! ### `knx.DescribeTunnel` / `knx.Discover`: a function of what arrives, and when -/

/-- a datagram that reaches the call's socket `at` ms after the request was sent -/
structure Arrival where
  t : Nat
  data : List Byte
  deriving DecidableEq, Repr, Inhabited

def isDescrRes : Service → Bool
  | .descrRes _ => true
  | _ => false

def isSearchRes : Service → Bool
  | .searchRes .. => true
  | _ => false

/-- what the socket's receiver surfaces before the timeout, in arrival order (the list is in
    arrival order; the reused array is the receiver's) -/
def surfaced (timeout : Nat) (arr : List Arrival) : List Service :=
  udpAll (List.replicate 1024 0) ((arr.filter (·.t < timeout)).map (·.data))

/-- `DescribeTunnel`: the first description response before the timeout, else nothing -/
def describe (timeout : Nat) (arr : List Arrival) : Option Service :=
  (surfaced timeout arr).find? isDescrRes

/-- `Discover`: all search responses before the timeout, in order -/
def discover (timeout : Nat) (arr : List Arrival) : List Service :=
  (surfaced timeout arr).filter isSearchRes

/-- when the calls return (ms after the request): at the first matching response, or at the timeout -/
def describeReturns (timeout : Nat) (arr : List Arrival) : Nat :=
  match (arr.filter (·.t < timeout)).find? (fun a => (udpStep [] a.data).2.any isDescrRes) with
  | some a => a.t
  | none => timeout

def discoverReturns (timeout : Nat) (_arr : List Arrival) : Nat := timeout

end Knx.Sock
