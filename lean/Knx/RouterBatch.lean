/-
  Knx/RouterBatch.lean — a batch of resends in which the socket refuses particular telegrams.

  `Router.resendLost` pops the last min(k, retained) messages off the retained list and hands them to
  `sendMultiple`, which sends each through `Router.Send`: a write the socket refuses is logged and
  the loop goes on with the next message; only successful transmissions are retained again.  With no
  post-send pause the whole batch leaves in one instant.  This is the idle, pause-free router with a
  per-telegram failure set - what the scripts of stream C14f exercise (`failpid <pid> <0|1>`).
-/
import Knx.RouterText

namespace Knx.RtrF
open Knx.Rtr (Obs pushRetain Cfg)
open Knx.Tun (words sortObs)

structure St where
  retained : List Nat := []
  fails : List Nat := []
  deriving DecidableEq, Repr, Inhabited

/-- `sendMultiple` over a batch: (retained afterwards, telegrams that left the socket in order) -/
def resendBatch (cap : Nat) (fails : List Nat) : List Nat → List Nat → List Nat → List Nat × List Nat
  | [], r, sent => (r, sent)
  | p :: ps, r, sent =>
    if fails.contains p then resendBatch cap fails ps r sent
    else resendBatch cap fails ps (pushRetain cap r p) (sent ++ [p])

inductive In where
  | send (pid : Nat)
  | rlost (k : Nat)
  | failpid (pid : Nat) (b : Bool)
  | tick
  deriving DecidableEq, Repr, Inhabited

def step (cap : Nat) (s : St) (t : Nat) : In → St × List Obs
  | .send pid =>
    if s.fails.contains pid then (s, [.ret t pid false])
    else ({ s with retained := pushRetain cap s.retained pid }, [.tx t pid, .ret t pid true])
  | .rlost k =>
    let n := min k s.retained.length
    let batch := s.retained.drop (s.retained.length - n)
    let (r, sent) := resendBatch cap s.fails batch (s.retained.take (s.retained.length - n)) []
    ({ s with retained := r }, sent.map (.tx t ·))
  | .failpid pid b => ({ s with fails := if b then pid :: s.fails else s.fails.filter (· != pid) }, [])
  | .tick => (s, [])

def run (cap : Nat) : St → List (Nat × In) → List Obs
  | _, [] => []
  | s, (t, i) :: rest => let (s', o) := step cap s t i; o ++ run cap s' rest

def parseEvent (toks : List String) : Option (Nat × In) :=
  match toks with
  | at_ :: rest => do
    let t ← (at_.drop 1).toString.toNat?
    match rest with
    | ["send", p] => do pure (t, .send (← p.toNat?))
    | ["rx", "rlost", k] => do pure (t, .rlost (← k.toNat?))
    | ["failpid", p, b] => do pure (t, .failpid (← p.toNat?) (b == "1"))
    | ["end"] => pure (t, .tick)
    | _ => none
  | [] => none

/-- a script line `rtr 0 <retain> : events` that uses `failpid` (pause-free, idle client) -/
def runScript (line : String) : Option String := do
  let parts := line.splitOn ":"
  let head ← parts.head?
  let evs := ":".intercalate (parts.drop 1)
  match words head with
  | ["rtr", "0", r] =>
    let cfg : Cfg := { pause := 0, retain := ← r.toNat? }
    let ins ← ((evs.splitOn ";").map words).filter (· ≠ []) |>.mapM parseEvent
    let obs := run cfg.cap {} ins
    let sorted := sortObs (obs.map fun o => (o.time, o.text))
    pure (" ; ".intercalate (sorted.map (·.2)))
  | _ => none

end Knx.RtrF
