/-
  Knx/Dpt.lean — knx/dpt: one codec per shape (formats.go helpers and the per-type Pack/Unpack
  bodies), decoders at Go-slice level (length guard, then indexing that could panic).
-/
import Knx.Basic
import Knx.Float
import Knx.DptShape

namespace Knx.Dpt
open Knx Knx.Fl

/-- a datapoint value, by representation -/
inductive DVal where
  | bool (b : Bool)
  | u8 (x : BitVec 8) | i8 (x : BitVec 8)
  | u16 (x : BitVec 16) | i16 (x : BitVec 16)
  | u32 (x : BitVec 32) | i32 (x : BitVec 32)
  | f32 (bits : BitVec 32)       -- IEEE pass-through (14.xxx)
  | flt (x : F32)                -- a computed float32
  | str (cps : List Nat)         -- a Go string as code points
  | bytes (b : List Byte)        -- a Go string as raw bytes (28.001)
  | time (wd h m s : BitVec 8)
  | date (y : BitVec 16) (m d : BitVec 8)
  | rgb (r g b : BitVec 8)
  | xyY (x y : BitVec 16) (yb : BitVec 8) (cv bv : Bool)
  | rgbw (r g b w : BitVec 8) (rv gv bv wv : Bool)
  deriving DecidableEq, Repr, Inhabited

/-- big-endian 32-bit value (`binary.BigEndian.Uint32`) -/
def be32 (a b c d : Byte) : BitVec 32 :=
  BitVec.ofNat 32 (a.toNat * 16777216 + b.toNat * 65536 + c.toNat * 256 + d.toNat)

def Lit.f32 (l : Lit) : F32 := F32.ofLit l.num l.den

/-! ### formats.go -/

def c001 : F32 := F32.ofLit 1 100          -- 0.01
def c255 : F32 := F32.ofLit 255 100        -- 2.55
def cHalf : F32 := F32.ofLit 1 2
def f16Max : F32 := F32.ofLit 67043328 100    -- 670433.28 = 2046 * 2^15 / 100
def f16Min : F32 := F32.ofLit (-67043328) 100

def minInt64 : Int := -9223372036854775808

/-- `int64(math.Round(float64(f) * 100))`; the conversion of NaN / out-of-range is what amd64 does -/
def scaledRound (f : F32) (k : Nat) : Int :=
  match f with
  | .fin q => Dy.roundHalfAway (toF64 (q.mul (Dy.ofInt k)))
  | _ => minInt64

/-- the mantissa-reduction loop of `packF16` (after the fix): smallest `exp` with the rounded
    mantissa in [-2048, 2047] -/
def f16Loop (value : Int) : Nat → Nat → Int → Nat × Int
  | 0, exp, mant => (exp, mant)
  | fuel + 1, exp, mant =>
    if mant > 2047 ∨ mant < -2048 then
      let exp' := exp + 1
      f16Loop value fuel exp' ((value + 2 ^ (exp' - 1)) / 2 ^ exp')
    else (exp, mant)

/-- `packF16` -/
def packF16 (f : F32) : List Byte :=
  let f := if F32.lt f16Max f then f16Max else if F32.lt f f16Min then f16Min else f
  let value := scaledRound f 100
  let (exp, sm) := f16Loop value 64 0 value
  let b1 : Byte := (BitVec.ofNat 8 (exp % 16)) <<< 3
  let neg := decide (sm < 0)
  let mant : Nat := (if neg then sm + 2048 else sm).toNat
  let b1 := if neg then b1 ||| 0x80 else b1
  [0, b1 ||| (BitVec.ofNat 8 (mant / 256) &&& 7), BitVec.ofNat 8 (mant % 256)]

/-- `unpackF16` -/
def unpackF16 (data : List Byte) : R F32 :=
  if data.length ≠ 3 then .err else
  match data[1]?, data[2]? with
  | some b1, some b2 =>
    let m0 : Int := ((b1 &&& 7).toNat * 256 + b2.toNat : Nat)
    let m : Int := if (b1 &&& 128) = 128 then m0 - 2048 else m0
    let e := ((b1 >>> 3) &&& 15).toNat
    .ok ((c001.mul (F32.ofInt m)).mul (F32.ofInt (2 ^ e : Nat)))
  | _, _ => .panic

/-- float → uint8 conversion of a value already known to be in range; NaN gives 0 on amd64 -/
def toU8 (f : F32) : Byte :=
  match f with
  | .fin q => BitVec.ofInt 8 (Dy.trunc q)
  | _ => 0

/-- `roundV16(f, scale)` -/
def roundV16 (f : F32) (k : Nat) : BitVec 16 :=
  match f with
  | .fin q =>
    let v := Dy.roundHalfAway (toF64 (q.mul (Dy.ofInt k)))
    if v ≥ 32767 then 32767 else if v ≤ -32768 then BitVec.ofInt 16 (-32768) else BitVec.ofInt 16 v
  | .inf false => 32767
  | .inf true => BitVec.ofInt 16 (-32768)
  | .nan => 0

def i16ToInt (x : BitVec 16) : Int := x.toInt

/-! ### calendar (what `time.Date` normalisation amounts to in `DPT_11001.IsValid`) -/

def isLeap (y : Nat) : Bool := (y % 4 == 0 && y % 100 != 0) || y % 400 == 0

def daysIn (y m : Nat) : Nat :=
  if m == 2 then (if isLeap y then 29 else 28)
  else if m == 4 || m == 6 || m == 9 || m == 11 then 30 else 31

/-- `DPT_11001.IsValid` -/
def dateValid (y m d : Nat) : Bool :=
  decide (1990 ≤ y) && decide (y ≤ 2089) && decide (1 ≤ m) && decide (m ≤ 12) && decide (1 ≤ d) &&
    decide (d ≤ daysIn y m)

/-- `DPT_10001.IsValid` -/
def timeValid (wd h m s : BitVec 8) : Bool :=
  decide (wd.toNat ≤ 7) && decide (h.toNat ≤ 23) && decide (m.toNat ≤ 59) && decide (s.toNat ≤ 59)

/-! ### decoders -/

/-- the field logic of `DPT_11001.Unpack` after masking: year > 99 is rejected, the all-zero
    payload stands for 1990-01-01, years 90..99 are 19xx, 0..89 are 20xx, then `IsValid` -/
def decodeDateFields (d0 m0 y0 : Nat) : R DVal :=
  if y0 > 99 then .err else
  let z := decide (y0 = 0 ∧ m0 = 0 ∧ d0 = 0)
  let y1 := if z then 90 else y0
  let m := if z then 1 else m0
  let d := if z then 1 else d0
  let y := if y1 ≥ 90 then y1 + 1900 else y1 + 2000
  if dateValid y m d then .ok (.date (BitVec.ofNat 16 y) (BitVec.ofNat 8 m) (BitVec.ofNat 8 d)) else .err

def byteAt (data : List Byte) (i : Nat) : R Byte :=
  match data[i]? with
  | some b => .ok b
  | none => .panic

/-- the 14-character string loops of 16.000 / 16.001 -/
def strLoop (mask : Byte) : List Byte → List Nat
  | [] => []
  | b :: t => if (b &&& mask) = 0 then [] else (b &&& mask).toNat :: strLoop mask t

def decode (s : Shape) (data : List Byte) : R DVal :=
  match s with
  | .b1 => if data.length ≠ 1 then .err else do
      let b ← byteAt data 0
      pure (.bool ((b &&& 1) == 1))
  | .u8 => if data.length ≠ 2 then .err else do
      let b ← byteAt data 1
      pure (.u8 b)
  | .v8 => if data.length ≠ 2 then .err else do
      let b ← byteAt data 1
      pure (.i8 b)
  | .u16 => if data.length ≠ 3 then .err else do
      let a ← byteAt data 1; let b ← byteAt data 2
      pure (.u16 (be16 a b))
  | .v16 => if data.length ≠ 3 then .err else do
      let a ← byteAt data 1; let b ← byteAt data 2
      pure (.i16 (be16 a b))
  | .u32 => if data.length ≠ 5 then .err else do
      let a ← byteAt data 1; let b ← byteAt data 2; let c ← byteAt data 3; let d ← byteAt data 4
      pure (.u32 (be32 a b c d))
  | .v32 => if data.length ≠ 5 then .err else do
      let a ← byteAt data 1; let b ← byteAt data 2; let c ← byteAt data 3; let d ← byteAt data 4
      pure (.i32 (be32 a b c d))
  | .f32 => if data.length ≠ 5 then .err else do
      let a ← byteAt data 1; let b ← byteAt data 2; let c ← byteAt data 3; let d ← byteAt data 4
      pure (.f32 (be32 a b c d))
  | .f16 _ _ _ _ unLo unHi => do
      let v ← unpackF16 data
      if F32.lt v unLo.f32 || F32.lt unHi.f32 v then .err else pure (.flt v)
  | .scaled => if data.length ≠ 2 then .err else do
      let b ← byteAt data 1
      pure (.flt ((F32.ofInt b.toNat).div c255))
  | .angle => if data.length ≠ 2 then .err else do
      let b ← byteAt data 1
      pure (.flt (((F32.ofInt b.toNat).mul (F32.ofInt 360)).div (F32.ofInt 255)))
  | .scene17 => if data.length ≠ 2 then .err else do
      let b ← byteAt data 1
      pure (.u8 (if b.toNat ≤ 63 then b else 63))
  | .scene18 => if data.length ≠ 2 then .err else do
      let b ← byteAt data 1
      pure (.u8 (if b.toNat ≤ 63 ∨ (b.toNat ≥ 128 ∧ b.toNat ≤ 191) then b else 63))
  | .v16scaled k => if data.length ≠ 3 then .err else do
      let a ← byteAt data 1; let b ← byteAt data 2
      pure (.flt ((F32.ofInt (i16ToInt (be16 a b))).div (F32.ofInt k)))
  | .time => if data.length ≠ 4 then .err else do
      let b1 ← byteAt data 1; let b2 ← byteAt data 2; let b3 ← byteAt data 3
      let wd := b1 >>> 5; let h := b1 &&& 0x1F; let m := b2 &&& 0x3F; let sec := b3 &&& 0x3F
      if timeValid wd h m sec then pure (.time wd h m sec) else .err
  | .date => if data.length ≠ 4 then .err else do
      let b1 ← byteAt data 1; let b2 ← byteAt data 2; let b3 ← byteAt data 3
      decodeDateFields (b1 &&& 0x1F).toNat (b2 &&& 0xF).toNat (b3 &&& 0x7F).toNat
  | .strAscii => if data.length ≠ 15 then .err else pure (.str (strLoop 0x7F (data.drop 1)))
  | .strLatin1 => if data.length ≠ 15 then .err else pure (.str (strLoop 0xFF (data.drop 1)))
  | .varstr => if data.length < 2 then .err else
      -- `data[1 : len(data)-1]`
      pure (.bytes ((data.drop 1).take (data.length - 2)))
  | .rgb => if data.length ≠ 4 then .err else do
      let r ← byteAt data 1; let g ← byteAt data 2; let b ← byteAt data 3
      pure (.rgb r g b)
  | .xyY => if data.length ≠ 7 then .err else do
      let v ← byteAt data 6
      if v.toNat > 15 then .err else
      let x1 ← byteAt data 1; let x2 ← byteAt data 2; let y1 ← byteAt data 3; let y2 ← byteAt data 4
      let yb ← byteAt data 5
      pure (.xyY (be16 x1 x2) (be16 y1 y2) yb ((v &&& 1) != 0) (((v >>> 1) &&& 1) != 0))
  | .rgbw => if data.length ≠ 7 then .err else do
      let v ← byteAt data 6
      if v.toNat > 15 then .err else
      let r ← byteAt data 1; let g ← byteAt data 2; let b ← byteAt data 3; let w ← byteAt data 4
      -- unpackB4(data[6], &whiteValid, &blueValid, &greenValid, &redValid)
      pure (.rgbw r g b w (((v >>> 3) &&& 1) != 0) (((v >>> 2) &&& 1) != 0) (((v >>> 1) &&& 1) != 0)
        ((v &&& 1) != 0))
  | .unknown _ => .err

/-! ### encoders -/

def b2n (b : Bool) : Nat := if b then 1 else 0

def bytes32 (x : BitVec 32) : List Byte :=
  [BitVec.ofNat 8 (x.toNat / 16777216), BitVec.ofNat 8 (x.toNat / 65536 % 256),
   BitVec.ofNat 8 (x.toNat / 256 % 256), BitVec.ofNat 8 (x.toNat % 256)]

/-- one character of the 16.xxx encoders -/
def strChar (limit : Nat) (c : Nat) : Byte := if c > limit then 0x20 else BitVec.ofNat 8 c

/-- `Pack()`; `none` when the value's representation does not belong to the shape -/
def encode (s : Shape) (v : DVal) : Option (List Byte) :=
  match s, v with
  | .b1, .bool b => some [BitVec.ofNat 8 (b2n b)]
  | .u8, .u8 x => some [0, x]
  | .v8, .i8 x => some [0, x]
  | .u16, .u16 x => some [0, hi8 x, lo8 x]
  | .v16, .i16 x => some [0, hi8 x, lo8 x]
  | .u32, .u32 x => some (0 :: bytes32 x)
  | .v32, .i32 x => some (0 :: bytes32 x)
  | .f32, .f32 x => some (0 :: bytes32 x)
  | .f16 lo loVal hi hiVal _ _, .flt d =>
    some (if F32.le d lo.f32 then packF16 loVal.f32
          else if F32.le hi.f32 d then packF16 hiVal.f32 else packF16 d)
  | .scaled, .flt d =>
    some (if F32.le d F32.zero then [0, 0] else if F32.le (F32.ofInt 100) d then [0, 255]
          else [0, toU8 ((d.mul c255).add cHalf)])
  | .angle, .flt d =>
    some (if F32.le d F32.zero then [0, 0] else if F32.le (F32.ofInt 360) d then [0, 255]
          else [0, toU8 (((d.mul (F32.ofInt 255)).div (F32.ofInt 360)).add cHalf)])
  | .scene17, .u8 x => some [0, if x.toNat > 63 then 63 else x]
  | .scene18, .u8 x => some [0, if x.toNat ≤ 63 ∨ (x.toNat ≥ 128 ∧ x.toNat ≤ 191) then x else 63]
  | .v16scaled k, .flt d => let x := roundV16 d k; some [0, hi8 x, lo8 x]
  | .time, .time wd h m sec =>
    some (if timeValid wd h m sec then [0, (wd <<< 5) ||| (h &&& 0x1F), m, sec] else [0, 0, 0, 0])
  | .date, .date y m d =>
    some (if y.toNat ≥ 1990 ∧ y.toNat ≤ 2089 ∧ dateValid y.toNat m.toNat d.toNat = true then
            [0, d &&& 0x1F, m &&& 0xF,
              (BitVec.ofNat 8 (if y.toNat < 2000 then y.toNat - 1900 else y.toNat - 2000)) &&& 0x7F]
          else [0, 0, 0, 0])
  | .strAscii, .str cps =>
    let cs := (cps.take 14).map (strChar 127)
    some (0 :: cs ++ List.replicate (14 - cs.length) 0)
  | .strLatin1, .str cps =>
    let cs := (cps.take 14).map (strChar 255)
    some (0 :: cs ++ List.replicate (14 - cs.length) 0)
  | .varstr, .bytes b => some (0 :: b ++ [0])
  | .rgb, .rgb r g b => some [0, r, g, b]
  | .xyY, .xyY x y yb cv bv =>
    some [0, hi8 x, lo8 x, hi8 y, lo8 y, yb, BitVec.ofNat 8 (b2n cv + 2 * b2n bv)]
  | .rgbw, .rgbw r g b w rv gv bv wv =>
    some [0, r, g, b, w, 0, BitVec.ofNat 8 (b2n wv + 2 * b2n bv + 4 * b2n gv + 8 * b2n rv)]
  | _, _ => none

/-- fixed payload length of a shape (`none` for the variable-length string) -/
def fixedLen : Shape → Option Nat
  | .b1 => some 1
  | .u8 | .v8 | .scaled | .angle | .scene17 | .scene18 => some 2
  | .u16 | .v16 | .f16 .. | .v16scaled _ => some 3
  | .u32 | .v32 | .f32 => some 5
  | .time | .date | .rgb => some 4
  | .strAscii | .strLatin1 => some 15
  | .xyY | .rgbw => some 7
  | .varstr | .unknown _ => none

end Knx.Dpt
