/-
  Knx/TunnelLemmas.lean — reachability and the basic invariant of the tunnel transition system.
-/
import Knx.Tunnel

namespace Knx.Tun

/-- states reachable from a fresh connection by ANY sequence of labels (inputs at any times,
    timer expiries at any times — a superset of what real executions can do) -/
inductive Reach (cfg : Cfg) (ch : Byte) : St → Prop where
  | init : Reach cfg ch (init cfg ch)
  | step (s : St) (l : Lbl) : Reach cfg ch s → Reach cfg ch (stepL cfg s l).1

/-- the observations of a label sequence -/
def runL (cfg : Cfg) (s : St) : List Lbl → St × List Obs
  | [] => (s, [])
  | l :: ls =>
    let (s', o) := stepL cfg s l
    let (s'', o') := runL cfg s' ls
    (s'', o ++ o')

theorem reach_runL (cfg : Cfg) (ch : Byte) (s : St) (h : Reach cfg ch s) (ls : List Lbl) :
    Reach cfg ch (runL cfg s ls).1 := by
  induction ls generalizing s with
  | nil => exact h
  | cons l ls ih => exact ih _ (Reach.step s l h)

end Knx.Tun
