/-
  Knx/Text.lean — the canonical token syntax of the line protocol (printer and parser) for the
  wire-level values.  The Go harness prints / parses exactly the same syntax.
-/
import Knx.Enc

namespace Knx.Text

def hexDigit (n : Nat) : Char :=
  if n < 10 then Char.ofNat (48 + n) else Char.ofNat (87 + n)

def hexByte (b : Byte) : String :=
  String.ofList [hexDigit (b.toNat / 16), hexDigit (b.toNat % 16)]

def hex (l : List Byte) : String :=
  if l.isEmpty then "-" else String.join (l.map hexByte)

def unhexDigit (c : Char) : Option Nat :=
  if '0' ≤ c ∧ c ≤ '9' then some (c.toNat - 48)
  else if 'a' ≤ c ∧ c ≤ 'f' then some (c.toNat - 87)
  else none

def unhexList : List Char → Option (List Byte)
  | [] => some []
  | a :: b :: t => do
    let x ← unhexDigit a
    let y ← unhexDigit b
    let r ← unhexList t
    pure (BitVec.ofNat 8 (x * 16 + y) :: r)
  | _ => none

def unhex (s : String) : Option (List Byte) :=
  if s == "-" then some [] else unhexList s.toList

abbrev P (α : Type) := List String → Option (α × List String)

def tok : P String
  | [] => none
  | t :: r => some (t, r)

def nat : P Nat
  | [] => none
  | t :: r => t.toNat?.map (·, r)

def byte : P Byte := fun ts => (nat ts).bind fun (n, r) => if n < 256 then some (BitVec.ofNat 8 n, r) else none
def word : P (BitVec 16) := fun ts => (nat ts).bind fun (n, r) => if n < 65536 then some (BitVec.ofNat 16 n, r) else none
def bool : P Bool := fun ts => (nat ts).bind fun (n, r) => if n == 0 then some (false, r) else if n == 1 then some (true, r) else none
def bytes : P (List Byte)
  | [] => none
  | t :: r => (unhex t).map (·, r)

def b2s (b : Byte) : String := toString b.toNat
def w2s (w : BitVec 16) : String := toString w.toNat
def bool2s (b : Bool) : String := if b then "1" else "0"

/-! printers -/

def hostInfo (h : HostInfo) : List String :=
  ["H", b2s h.proto, b2s h.a0, b2s h.a1, b2s h.a2, b2s h.a3, w2s h.port]

def tpdu : TPDU → List String
  | .app n s c d => ["App", bool2s n, b2s s, b2s c, hex d]
  | .ctl n s c => ["Ctl", bool2s n, b2s s, b2s c]

def ldata (l : LData) : List String :=
  [hex l.info, b2s l.ctrl1, b2s l.ctrl2, w2s l.src, w2s l.dst] ++ tpdu l.tpdu

def cemi : Cemi → List String
  | .ldataReq l => "LDataReq" :: ldata l
  | .ldataCon l => "LDataCon" :: ldata l
  | .ldataInd l => "LDataInd" :: ldata l
  | .lrawReq d => ["LRawReq", hex d]
  | .lrawCon d => ["LRawCon", hex d]
  | .lrawInd d => ["LRawInd", hex d]
  | .lbusmon d => ["LBusmon", hex d]
  | .unsupported c d => ["Unsup", b2s c, hex d]

def name (n : List Nat) : String :=
  if n.isEmpty then "-" else ",".intercalate (n.map toString)

def devInfo (d : DevInfo) : List String :=
  ["Dev", b2s d.ty, b2s d.medium, b2s d.status, w2s d.source, w2s d.project,
   hex d.serial, hex d.mcast, hex d.hw, name d.name]

def svcDIB (d : SvcDIB) : List String :=
  ["Svc", b2s d.ty, toString d.families.length] ++ d.families.flatMap fun f => [b2s f.1, b2s f.2]

def descBlock (b : DescBlock) : List String :=
  devInfo b.dev ++ svcDIB b.svc ++ [toString b.unknown.length] ++
    b.unknown.flatMap fun u => [b2s u.1, hex u.2]

def service : Service → List String
  | .searchReq h => "SearchReq" :: hostInfo h
  | .searchRes c d s => "SearchRes" :: hostInfo c ++ devInfo d ++ svcDIB s
  | .descrReq h => "DescrReq" :: hostInfo h
  | .descrRes b => "DescrRes" :: descBlock b
  | .connReq c t l => "ConnReq" :: hostInfo c ++ hostInfo t ++ [b2s l]
  | .connRes ch st c => ["ConnRes", b2s ch, b2s st] ++ hostInfo c
  | .connStateReq ch st c => ["ConnStateReq", b2s ch, b2s st] ++ hostInfo c
  | .connStateRes ch st => ["ConnStateRes", b2s ch, b2s st]
  | .discReq ch st c => ["DiscReq", b2s ch, b2s st] ++ hostInfo c
  | .discRes ch st => ["DiscRes", b2s ch, b2s st]
  | .tunnelReq ch sq m => ["TunnelReq", b2s ch, b2s sq] ++ cemi m
  | .tunnelRes ch sq st => ["TunnelRes", b2s ch, b2s sq, b2s st]
  | .routingInd m => "RoutingInd" :: cemi m
  | .routingLost st c => ["RoutingLost", b2s st, w2s c]
  | .routingBusy st w c => ["RoutingBusy", b2s st, w2s w, w2s c]
  | .unknown i d => ["Unknown", w2s i, hex d]

/-! parsers -/

def pHostInfo : P HostInfo := fun ts => do
  let (t, r) ← tok ts
  if t != "H" then none
  let (proto, r) ← byte r
  let (a0, r) ← byte r
  let (a1, r) ← byte r
  let (a2, r) ← byte r
  let (a3, r) ← byte r
  let (port, r) ← word r
  pure ({ proto, a0, a1, a2, a3, port }, r)

def pTPDU : P TPDU := fun ts => do
  let (t, r) ← tok ts
  let (n, r) ← bool r
  let (s, r) ← byte r
  let (c, r) ← byte r
  if t == "App" then
    let (d, r) ← bytes r
    pure (.app n s c d, r)
  else if t == "Ctl" then pure (.ctl n s c, r)
  else none

def pLData : P LData := fun ts => do
  let (info, r) ← bytes ts
  let (ctrl1, r) ← byte r
  let (ctrl2, r) ← byte r
  let (src, r) ← word r
  let (dst, r) ← word r
  let (t, r) ← pTPDU r
  pure ({ info, ctrl1, ctrl2, src, dst, tpdu := t }, r)

def pCemi : P Cemi := fun ts => do
  let (t, r) ← tok ts
  match t with
  | "LDataReq" => let (l, r) ← pLData r; pure (.ldataReq l, r)
  | "LDataCon" => let (l, r) ← pLData r; pure (.ldataCon l, r)
  | "LDataInd" => let (l, r) ← pLData r; pure (.ldataInd l, r)
  | "LRawReq" => let (d, r) ← bytes r; pure (.lrawReq d, r)
  | "LRawCon" => let (d, r) ← bytes r; pure (.lrawCon d, r)
  | "LRawInd" => let (d, r) ← bytes r; pure (.lrawInd d, r)
  | "LBusmon" => let (d, r) ← bytes r; pure (.lbusmon d, r)
  | "Unsup" => let (c, r) ← byte r; let (d, r) ← bytes r; pure (.unsupported c d, r)
  | _ => none

def pName : P (List Nat)
  | [] => none
  | t :: r =>
    if t == "-" then some ([], r)
    else ((t.splitOn ",").mapM String.toNat?).map (·, r)

def pDevInfo : P DevInfo := fun ts => do
  let (t, r) ← tok ts
  if t != "Dev" then none
  let (ty, r) ← byte r
  let (medium, r) ← byte r
  let (status, r) ← byte r
  let (source, r) ← word r
  let (project, r) ← word r
  let (serial, r) ← bytes r
  let (mcast, r) ← bytes r
  let (hw, r) ← bytes r
  let (nm, r) ← pName r
  pure ({ ty, medium, status, source, project, serial, mcast, hw, name := nm }, r)

def pRepeat {α} (p : P α) : Nat → P (List α)
  | 0 => fun ts => some ([], ts)
  | k + 1 => fun ts => do
    let (a, r) ← p ts
    let (l, r) ← pRepeat p k r
    pure (a :: l, r)

def pSvcDIB : P SvcDIB := fun ts => do
  let (t, r) ← tok ts
  if t != "Svc" then none
  let (ty, r) ← byte r
  let (k, r) ← nat r
  let (fams, r) ← pRepeat (fun ts => do let (a, r) ← byte ts; let (b, r) ← byte r; pure ((a, b), r)) k r
  pure ({ ty, families := fams }, r)

def pDescBlock : P DescBlock := fun ts => do
  let (dev, r) ← pDevInfo ts
  let (svc, r) ← pSvcDIB r
  let (k, r) ← nat r
  let (unknown, r) ← pRepeat (fun ts => do let (a, r) ← byte ts; let (b, r) ← bytes r; pure ((a, b), r)) k r
  pure ({ dev, svc, unknown }, r)

def pService : P Service := fun ts => do
  let (t, r) ← tok ts
  match t with
  | "SearchReq" => let (h, r) ← pHostInfo r; pure (.searchReq h, r)
  | "SearchRes" =>
    let (c, r) ← pHostInfo r; let (d, r) ← pDevInfo r; let (s, r) ← pSvcDIB r
    pure (.searchRes c d s, r)
  | "DescrReq" => let (h, r) ← pHostInfo r; pure (.descrReq h, r)
  | "DescrRes" => let (b, r) ← pDescBlock r; pure (.descrRes b, r)
  | "ConnReq" =>
    let (c, r) ← pHostInfo r; let (t, r) ← pHostInfo r; let (l, r) ← byte r
    pure (.connReq c t l, r)
  | "ConnRes" =>
    let (ch, r) ← byte r; let (st, r) ← byte r; let (c, r) ← pHostInfo r
    pure (.connRes ch st c, r)
  | "ConnStateReq" =>
    let (ch, r) ← byte r; let (st, r) ← byte r; let (c, r) ← pHostInfo r
    pure (.connStateReq ch st c, r)
  | "ConnStateRes" => let (ch, r) ← byte r; let (st, r) ← byte r; pure (.connStateRes ch st, r)
  | "DiscReq" =>
    let (ch, r) ← byte r; let (st, r) ← byte r; let (c, r) ← pHostInfo r
    pure (.discReq ch st c, r)
  | "DiscRes" => let (ch, r) ← byte r; let (st, r) ← byte r; pure (.discRes ch st, r)
  | "TunnelReq" =>
    let (ch, r) ← byte r; let (sq, r) ← byte r; let (m, r) ← pCemi r
    pure (.tunnelReq ch sq m, r)
  | "TunnelRes" =>
    let (ch, r) ← byte r; let (sq, r) ← byte r; let (st, r) ← byte r
    pure (.tunnelRes ch sq st, r)
  | "RoutingInd" => let (m, r) ← pCemi r; pure (.routingInd m, r)
  | "RoutingLost" => let (st, r) ← byte r; let (c, r) ← word r; pure (.routingLost st c, r)
  | "RoutingBusy" =>
    let (st, r) ← byte r; let (w, r) ← word r; let (c, r) ← word r
    pure (.routingBusy st w c, r)
  | "Unknown" => let (i, r) ← word r; let (d, r) ← bytes r; pure (.unknown i d, r)
  | _ => none

end Knx.Text
