/-
  Knx/CloseOnce.lean — several goroutines calling Tunnel.Close at once.

  Tunnel.Close is

      conn.once.Do(func() { conn.requestDisc(); close(conn.done); conn.wait.Wait(); conn.sock.Close() })

  sync.Once (trusted, Go's documented contract): the first caller runs the function, every caller
  that arrives while it runs blocks until it has returned, every later caller returns at once.
  The model is an interleaving transition system: one program counter per closer, the state of the
  Once (fresh / running with its owner and the number of body statements executed / done) and what
  the body has done so far.  A schedule is any list of goroutine numbers; a blocked goroutine that
  is scheduled does nothing.
-/
namespace Knx.Once

inductive Pc where
  | start | body | waiting | returned
  deriving DecidableEq, Repr

inductive OnceSt where
  | fresh
  | running (owner : Nat) (k : Nat)   -- k statements of the body executed (0..3)
  | done
  deriving DecidableEq, Repr

structure St where
  pcs : List Pc
  once : OnceSt
  dreqs : Nat          -- disconnect requests handed to the socket
  doneClosed : Bool    -- close(conn.done) executed
  joined : Bool        -- conn.wait.Wait() returned (the serve goroutine has ended)
  sockClosed : Bool
  deriving Repr

def init (n : Nat) : St :=
  { pcs := List.replicate n .start, once := .fresh, dreqs := 0, doneClosed := false, joined := false, sockClosed := false }

/-- goroutine `i` is scheduled -/
def step (s : St) (i : Nat) : St :=
  match s.pcs[i]? with
  | none => s
  | some .start =>
    match s.once with
    | .fresh => { s with pcs := s.pcs.set i .body, once := .running i 0 }
    | .running _ _ => { s with pcs := s.pcs.set i .waiting }
    | .done => { s with pcs := s.pcs.set i .returned }
  | some .body =>
    match s.once with
    | .running o k =>
      if o = i then
        match k with
        | 0 => { s with once := .running o 1, dreqs := s.dreqs + 1 }      -- conn.requestDisc()
        | 1 => { s with once := .running o 2, doneClosed := true }         -- close(conn.done)
        | 2 => { s with once := .running o 3, joined := true }             -- conn.wait.Wait()
        | _ => { s with once := .done, sockClosed := true, pcs := s.pcs.set i .returned }  -- conn.sock.Close()
      else s
    | _ => s
  | some .waiting =>
    match s.once with
    | .done => { s with pcs := s.pcs.set i .returned }
    | _ => s
  | some .returned => s

def run (s : St) (sched : List Nat) : St := sched.foldl step s

/-- what the body has done, read off the Once -/
def progressOf : OnceSt → Nat
  | .fresh => 0
  | .running _ k => k
  | .done => 4

structure SInv (s : St) : Prop where
  dreqs : s.dreqs = if progressOf s.once ≥ 1 then 1 else 0
  doneC : s.doneClosed = decide (progressOf s.once ≥ 2)
  joined : s.joined = decide (progressOf s.once ≥ 3)
  sock : s.sockClosed = decide (progressOf s.once ≥ 4)
  kle : ∀ o k, s.once = OnceSt.running o k → k ≤ 3 ∧ s.pcs[o]? = some Pc.body
  fresh : s.once = OnceSt.fresh → ∀ (i : Nat) (pc : Pc), s.pcs[i]? = some pc → pc = Pc.start
  body : ∀ (i : Nat), s.pcs[i]? = some Pc.body → ∃ k, s.once = OnceSt.running i k
  ret : ∀ (i : Nat), s.pcs[i]? = some Pc.returned → s.once = OnceSt.done

theorem inv_init (n : Nat) : SInv (init n) := by
  refine ⟨rfl, rfl, rfl, rfl, ?_, ?_, ?_, ?_⟩
  · intro o k h; simp [init] at h
  · intro _ i pc h
    simp only [init, List.getElem?_replicate] at h
    split at h <;> simp_all
  · intro i h
    simp only [init, List.getElem?_replicate] at h
    split at h <;> simp_all
  · intro i h
    simp only [init, List.getElem?_replicate] at h
    split at h <;> simp_all

theorem getElem?_set_cases {l : List Pc} {i j : Nat} {a b : Pc} (h : (l.set i a)[j]? = some b) :
    (j = i ∧ b = a ∧ i < l.length) ∨ (j ≠ i ∧ l[j]? = some b) := by
  rw [List.getElem?_set] at h
  split at h
  · rename_i hij
    split at h
    · left; simp_all
    · simp at h
  · right; rename_i hij; exact ⟨fun e => hij e.symm, h⟩

theorem inv_step (s : St) (i : Nat) (h : SInv s) : SInv (step s i) := by
  obtain ⟨pcs, once, dreqs, doneClosed, joined, sockClosed⟩ := s
  obtain ⟨hd, hdc, hj, hs, hk, hf, hb, hr⟩ := h
  simp only at hd hdc hj hs hk hf hb hr
  unfold step
  simp only
  cases hpc : pcs[i]? with
  | none => exact ⟨hd, hdc, hj, hs, hk, hf, hb, hr⟩
  | some pc =>
    have hlt : i < pcs.length := by
      rcases Nat.lt_or_ge i pcs.length with h | h
      · exact h
      · rw [List.getElem?_eq_none h] at hpc; cases hpc
    cases pc with
    | start =>
      cases once with
      | fresh =>
        refine ⟨hd, hdc, hj, hs, ?_, ?_, ?_, ?_⟩
        · intro o k e
          simp only [OnceSt.running.injEq] at e
          obtain ⟨rfl, rfl⟩ := e
          exact ⟨by omega, by simp [hlt]⟩
        · intro e; cases e
        · intro j hj'
          rcases getElem?_set_cases hj' with ⟨rfl, _, _⟩ | ⟨_, hj''⟩
          · exact ⟨0, rfl⟩
          · have := hf rfl j _ hj''; cases this
        · intro j hj'
          rcases getElem?_set_cases hj' with ⟨_, e, _⟩ | ⟨_, hj''⟩
          · cases e
          · have := hf rfl j _ hj''; cases this
      | running o k =>
        have ho := hk o k rfl
        refine ⟨hd, hdc, hj, hs, ?_, ?_, ?_, ?_⟩
        · intro o' k' e
          simp only [OnceSt.running.injEq] at e
          obtain ⟨rfl, rfl⟩ := e
          refine ⟨ho.1, ?_⟩
          have hne : i ≠ o := by
            intro e; subst e; rw [hpc] at ho; simp at ho
          rw [List.getElem?_set_ne hne]; exact ho.2
        · intro e; cases e
        · intro j hj'
          rcases getElem?_set_cases hj' with ⟨_, e, _⟩ | ⟨_, hj''⟩
          · cases e
          · exact hb j hj''
        · intro j hj'
          rcases getElem?_set_cases hj' with ⟨_, e, _⟩ | ⟨_, hj''⟩
          · cases e
          · exact hr j hj''
      | done =>
        refine ⟨hd, hdc, hj, hs, ?_, ?_, ?_, ?_⟩
        · intro o k e; cases e
        · intro e; cases e
        · intro j hj'
          rcases getElem?_set_cases hj' with ⟨_, e, _⟩ | ⟨_, hj''⟩
          · cases e
          · exact hb j hj''
        · intro _ _; rfl
    | body =>
      obtain ⟨k0, hk0⟩ := hb i hpc
      subst hk0
      have ho := hk i k0 rfl
      simp only [if_true]
      have hb' : ∀ k', ∀ j, pcs[j]? = some Pc.body → ∃ k, OnceSt.running i k' = OnceSt.running j k := by
        intro k' j hj'
        obtain ⟨k, e⟩ := hb j hj'
        simp only [OnceSt.running.injEq] at e
        exact ⟨k', by rw [e.1]⟩
      match k0, ho, hd, hdc, hj, hs with
      | 0, ho, hd, hdc, hj, hs =>
        simp only [progressOf] at hd hdc hj hs ⊢
        refine ⟨by simp [progressOf, hd], by simp [progressOf, hdc], by simp [progressOf, hj], by simp [progressOf, hs], ?_, ?_, hb' _, fun j hj' => by have := hr j hj'; cases this⟩
        · intro o k e
          simp only [OnceSt.running.injEq] at e
          obtain ⟨rfl, rfl⟩ := e
          exact ⟨by omega, ho.2⟩
        · intro e; cases e
      | 1, ho, hd, hdc, hj, hs =>
        simp only [progressOf] at hd hdc hj hs ⊢
        refine ⟨by simp [progressOf, hd], by simp [progressOf], by simp [progressOf, hj], by simp [progressOf, hs], ?_, ?_, hb' _, fun j hj' => by have := hr j hj'; cases this⟩
        · intro o k e
          simp only [OnceSt.running.injEq] at e
          obtain ⟨rfl, rfl⟩ := e
          exact ⟨by omega, ho.2⟩
        · intro e; cases e
      | 2, ho, hd, hdc, hj, hs =>
        simp only [progressOf] at hd hdc hj hs ⊢
        refine ⟨by simp [progressOf, hd], by simp [progressOf, hdc], by simp [progressOf], by simp [progressOf, hs], ?_, ?_, hb' _, fun j hj' => by have := hr j hj'; cases this⟩
        · intro o k e
          simp only [OnceSt.running.injEq] at e
          obtain ⟨rfl, rfl⟩ := e
          exact ⟨by omega, ho.2⟩
        · intro e; cases e
      | k + 3, ho, hd, hdc, hj, hs =>
        have hk3 : k = 0 := by have := ho.1; omega
        subst hk3
        simp only [progressOf] at hd hdc hj hs ⊢
        refine ⟨by simp [progressOf, hd], by simp [progressOf, hdc], by simp [progressOf, hj], by simp [progressOf], ?_, ?_, ?_, ?_⟩
        · intro o k e; cases e
        · intro e; cases e
        · intro j hj'
          rcases getElem?_set_cases hj' with ⟨_, e, _⟩ | ⟨hne, hj''⟩
          · cases e
          · obtain ⟨k, e⟩ := hb j hj''
            simp only [OnceSt.running.injEq] at e
            exact absurd e.1.symm hne
        · intro _ _; rfl
    | waiting =>
      cases once with
      | fresh => exact ⟨hd, hdc, hj, hs, hk, hf, hb, hr⟩
      | running o k => exact ⟨hd, hdc, hj, hs, hk, hf, hb, hr⟩
      | done =>
        refine ⟨hd, hdc, hj, hs, ?_, ?_, ?_, ?_⟩
        · intro o k e; cases e
        · intro e; cases e
        · intro j hj'
          rcases getElem?_set_cases hj' with ⟨_, e, _⟩ | ⟨_, hj''⟩
          · cases e
          · exact hb j hj''
        · intro _ _; rfl
    | returned => exact ⟨hd, hdc, hj, hs, hk, hf, hb, hr⟩

theorem inv_run (sched : List Nat) : ∀ (s : St), SInv s → SInv (run s sched) := by
  induction sched with
  | nil => intro s h; exact h
  | cons i rest ih => intro s h; exact ih _ (inv_step s i h)

theorem step_length (s : St) (i : Nat) : (step s i).pcs.length = s.pcs.length := by
  unfold step
  repeat' split
  all_goals simp

theorem run_length (sched : List Nat) : ∀ (s : St), (run s sched).pcs.length = s.pcs.length := by
  induction sched with
  | nil => intro s; rfl
  | cons i rest ih => intro s; exact (ih _).trans (step_length s i)

/-- how much is left to do: strictly smaller after every step that changes anything -/
def rank : Pc → Nat
  | .start => 2 | .waiting => 1 | .body => 1 | .returned => 0

def measure (s : St) : Nat := (s.pcs.map rank).sum + (4 - progressOf s.once)

theorem sum_map_set (l : List Pc) (i : Nat) (a b : Pc) (h : l[i]? = some a) :
    ((l.set i b).map rank).sum + rank a = (l.map rank).sum + rank b := by
  induction l generalizing i with
  | nil => simp at h
  | cons x xs ih =>
    cases i with
    | zero =>
      simp only [List.getElem?_cons_zero, Option.some.injEq] at h
      subst h
      simp only [List.set_cons_zero, List.map_cons, List.sum_cons]; omega
    | succ j =>
      simp only [List.getElem?_cons_succ] at h
      have := ih j h
      simp only [List.set_cons_succ, List.map_cons, List.sum_cons]; omega

/-- a scheduled goroutine either is blocked / finished (nothing changes) or makes progress -/
theorem step_progress (s : St) (i : Nat) (h : SInv s) : step s i = s ∨ measure (step s i) < measure s := by
  obtain ⟨pcs, once, dreqs, doneClosed, joined, sockClosed⟩ := s
  have hk := h.kle
  simp only at hk
  unfold step
  simp only
  cases hpc : pcs[i]? with
  | none => left; rfl
  | some pc =>
    cases pc with
    | start =>
      right
      cases once with
      | fresh =>
        have := sum_map_set pcs i .start .body hpc
        simp only [measure, progressOf, rank] at this ⊢; omega
      | running o k =>
        have := sum_map_set pcs i .start .waiting hpc
        simp only [measure, progressOf, rank] at this ⊢; omega
      | done =>
        have := sum_map_set pcs i .start .returned hpc
        simp only [measure, progressOf, rank] at this ⊢; omega
    | body =>
      cases once with
      | fresh => left; rfl
      | done => left; rfl
      | running o k =>
        by_cases ho : o = i
        · right
          have hk3 := (hk o k rfl).1
          simp only [ho, if_true]
          match k, hk3 with
          | 0, _ => simp only [measure, progressOf]; omega
          | 1, _ => simp only [measure, progressOf]; omega
          | 2, _ => simp only [measure, progressOf]; omega
          | k + 3, hk3 =>
            have := sum_map_set pcs i .body .returned hpc
            simp only [measure, progressOf, rank] at this ⊢; omega
        · left; simp only [ho, if_false]
    | waiting =>
      cases once with
      | fresh => left; rfl
      | running o k => left; rfl
      | done =>
        right
        have := sum_map_set pcs i .waiting .returned hpc
        simp only [measure, progressOf, rank] at this ⊢; omega
    | returned => left; rfl

/-- no deadlock: unless every closer has returned, some goroutine can make a step that changes the
    state (and by `step_progress` lowers the measure) -/
theorem no_deadlock (s : St) (h : SInv s) (hn : s.pcs ≠ []) :
    (∀ (i : Nat) (pc : Pc), s.pcs[i]? = some pc → pc = Pc.returned) ∨ ∃ i, i < s.pcs.length ∧ step s i ≠ s := by
  obtain ⟨pcs, once, dreqs, doneClosed, joined, sockClosed⟩ := s
  obtain ⟨hd, hdc, hj, hs, hk, hf, hb, hr⟩ := h
  simp only at hd hdc hj hs hk hf hb hr hn ⊢
  cases once with
  | fresh =>
    right
    cases pcs with
    | nil => exact absurd rfl hn
    | cons x xs =>
      have hx : x = Pc.start := hf rfl 0 x (by simp)
      subst hx
      refine ⟨0, by simp, ?_⟩
      unfold step
      simp only [List.getElem?_cons_zero]
      intro e
      have := congrArg St.once e
      simp at this
  | running o k =>
    right
    have ho := hk o k rfl
    have hlt : o < pcs.length := by
      rcases Nat.lt_or_ge o pcs.length with h | h
      · exact h
      · rw [List.getElem?_eq_none h] at ho; simp at ho
    refine ⟨o, hlt, ?_⟩
    unfold step
    simp only [ho.2, if_true]
    intro e
    have e1 := congrArg St.once e
    match k, ho with
    | 0, _ => simp at e1
    | 1, _ => simp at e1
    | 2, _ => simp at e1
    | k + 3, _ => simp at e1
  | done =>
    by_cases hall : ∀ (i : Nat) (pc : Pc), pcs[i]? = some pc → pc = Pc.returned
    · left; exact hall
    · right
      have ⟨i, hi⟩ : ∃ i, ¬ ∀ pc, pcs[i]? = some pc → pc = Pc.returned := Classical.not_forall.mp hall
      have ⟨pc, hpc⟩ : ∃ pc, ¬ (pcs[i]? = some pc → pc = Pc.returned) := Classical.not_forall.mp hi
      have hget : pcs[i]? = some pc := Classical.byContradiction fun hc => hpc (fun h' => absurd h' hc)
      have hne : pc ≠ Pc.returned := fun e => hpc (fun _ => e)
      have hlt : i < pcs.length := by
        rcases Nat.lt_or_ge i pcs.length with h | h
        · exact h
        · rw [List.getElem?_eq_none h] at hget; cases hget
      refine ⟨i, hlt, ?_⟩
      unfold step
      simp only [hget]
      cases pc with
      | start =>
        intro e
        have := congrArg (fun s => s.pcs[i]?) e
        simp only [List.getElem?_set_self hlt, hget, Option.some.injEq] at this
        cases this
      | body =>
        obtain ⟨k, e⟩ := hb i hget
        cases e
      | waiting =>
        intro e
        have := congrArg (fun s => s.pcs[i]?) e
        simp only [List.getElem?_set_self hlt, hget, Option.some.injEq] at this
        cases this
      | returned => exact absurd rfl hne

end Knx.Once
