/-
  Knx/AddressLemmas.lean — helper lemmas for C18: decimal rendering vs `atoi`, `splitOn` vs joining.
-/
import Knx.Address
import Knx.Finite

namespace Knx.Addr

theorem digitsVal_append (l : Str) (c : Nat) : digitsVal (l ++ [c]) = digitsVal l * 10 + (c - 48) := by
  simp [digitsVal, List.foldl_append]

theorem render_lt10 (n : Nat) (h : n < 10) : render n = [48 + n] := by
  rw [render]; simp [h]

theorem render_ge10 (n : Nat) (h : ¬ n < 10) : render n = render (n / 10) ++ [48 + n % 10] := by
  rw [render]; simp [h]

/-- a rendered number consists of digits only, is not empty, and denotes the number -/
theorem render_spec (n : Nat) :
    (render n).all isDigit = true ∧ render n ≠ [] ∧ digitsVal (render n) = n := by
  induction n using Nat.strongRecOn with
  | _ n ih =>
    by_cases h : n < 10
    · rw [render_lt10 n h]
      refine ⟨?_, by simp, ?_⟩
      · simp only [List.all_cons, List.all_nil, Bool.and_true, isDigit, Bool.and_eq_true,
          decide_eq_true_eq]; omega
      · simp [digitsVal]
    · rw [render_ge10 n h]
      obtain ⟨h1, _, h3⟩ := ih (n / 10) (by omega)
      refine ⟨?_, by simp, ?_⟩
      · simp only [List.all_append, h1, List.all_cons, List.all_nil, Bool.and_true, Bool.true_and,
          isDigit, Bool.and_eq_true, decide_eq_true_eq]; omega
      · rw [digitsVal_append, h3]; omega

theorem mem_render_isDigit (n c : Nat) (h : c ∈ render n) : isDigit c = true := by
  have := (render_spec n).1
  rw [List.all_eq_true] at this
  exact this c h

/-- `atoi` reads back what `%d` wrote -/
theorem atoi_render (n : Nat) (hn : n ≤ 9223372036854775807) : atoi (render n) = some (n : Int) := by
  obtain ⟨h1, h2, h3⟩ := render_spec n
  rcases hr : render n with _ | ⟨c, t⟩
  · exact absurd hr h2
  · have hc : isDigit c = true := mem_render_isDigit n c (by rw [hr]; simp)
    simp only [isDigit, Bool.and_eq_true, decide_eq_true_eq] at hc
    have h45 : c ≠ 45 := by omega
    have h43 : c ≠ 43 := by omega
    rw [hr] at h1 h3
    have e1 : isNeg (c :: t) = false := by
      unfold isNeg; split
      · rename_i heq; simp only [List.cons.injEq] at heq; exact absurd heq.1 h45
      · rfl
    have e2 : stripSign (c :: t) = c :: t := by
      unfold stripSign; split
      · rename_i heq; simp only [List.cons.injEq] at heq; exact absurd heq.1 h45
      · rename_i heq; simp only [List.cons.injEq] at heq; exact absurd heq.1 h43
      · rfl
    unfold atoi
    simp only [e1, e2, h1, h3, List.isEmpty_cons, Bool.not_true, Bool.or_false, Bool.false_eq_true,
      ↓reduceIte, hn]

theorem splitOn_no_sep (sep : Nat) (a : Str) (h : sep ∉ a) : splitOn sep a = [a] := by
  induction a with
  | nil => rfl
  | cons c t ih =>
    simp only [List.mem_cons, not_or] at h
    have hc : c ≠ sep := fun e => h.1 e.symm
    simp only [splitOn, hc, ↓reduceIte, ih h.2]

theorem splitOn_append_sep (sep : Nat) (a rest : Str) (h : sep ∉ a) :
    splitOn sep (a ++ sep :: rest) = a :: splitOn sep rest := by
  induction a with
  | nil => simp [splitOn]
  | cons c t ih =>
    simp only [List.mem_cons, not_or] at h
    have hc : c ≠ sep := fun e => h.1 e.symm
    simp only [List.cons_append, splitOn, hc, ↓reduceIte, ih h.2]

theorem sep_not_in_render (sep n : Nat) (hs : isDigit sep = false) : sep ∉ render n := by
  intro h
  have := mem_render_isDigit n sep h
  rw [hs] at this; cases this

/-- splitting a joined list of separator-free pieces gives the pieces back -/
theorem splitOn_joinWith (sep : Nat) (l : List Str) (hne : l ≠ []) (h : ∀ a ∈ l, sep ∉ a) :
    splitOn sep (joinWith sep l) = l := by
  induction l with
  | nil => exact absurd rfl hne
  | cons a r ih =>
    rcases r with _ | ⟨b, r'⟩
    · simp only [joinWith]; exact splitOn_no_sep sep a (h a (by simp))
    · simp only [joinWith]
      rw [splitOn_append_sep sep a _ (h a (by simp))]
      rw [ih (by simp) (fun x hx => h x (by simp only [List.mem_cons] at hx ⊢; exact Or.inr hx))]

end Knx.Addr
