/-
  Knx/Knxnet.lean — `knx/knxnet`: service types and the Go-level decoders
  (`HostInfo.Unpack`, the control / tunnelling / routing services, the description blocks,
  `UnpackHeader`, `knxnet.Unpack`).
-/
import Knx.Cemi

namespace Knx

/-- `knxnet.HostInfo` -/
structure HostInfo where
  proto : Byte
  a0 : Byte
  a1 : Byte
  a2 : Byte
  a3 : Byte
  port : BitVec 16
  deriving DecidableEq, Repr, Inhabited

/-- `knxnet.DeviceInformationBlock`; `name` is the friendly name as code points,
    `hw` the hardware address (6 bytes after decoding, any length before encoding). -/
structure DevInfo where
  ty : Byte
  medium : Byte
  status : Byte
  source : BitVec 16
  project : BitVec 16
  serial : List Byte
  mcast : List Byte
  hw : List Byte
  name : List Nat
  deriving DecidableEq, Repr, Inhabited

/-- `knxnet.SupportedServicesDIB`; a family is (type, version). -/
structure SvcDIB where
  ty : Byte
  families : List (Byte × Byte)
  deriving DecidableEq, Repr, Inhabited

/-- `knxnet.DescriptionBlock`; unknown blocks are (type, data). -/
structure DescBlock where
  dev : DevInfo
  svc : SvcDIB
  unknown : List (Byte × List Byte)
  deriving DecidableEq, Repr, Inhabited

def DevInfo.zero : DevInfo :=
  { ty := 0, medium := 0, status := 0, source := 0, project := 0,
    serial := List.replicate 6 0, mcast := List.replicate 4 0, hw := [], name := [] }
def SvcDIB.zero : SvcDIB := { ty := 0, families := [] }
def DescBlock.zero : DescBlock := { dev := .zero, svc := .zero, unknown := [] }

inductive Service where
  | searchReq (h : HostInfo)
  | searchRes (ctrl : HostInfo) (dev : DevInfo) (svc : SvcDIB)
  | descrReq (h : HostInfo)
  | descrRes (b : DescBlock)
  | connReq (ctrl tun : HostInfo) (layer : Byte)
  | connRes (ch status : Byte) (ctrl : HostInfo)
  | connStateReq (ch status : Byte) (ctrl : HostInfo)
  | connStateRes (ch status : Byte)
  | discReq (ch status : Byte) (ctrl : HostInfo)
  | discRes (ch status : Byte)
  | tunnelReq (ch seq : Byte) (m : Cemi)
  | tunnelRes (ch seq status : Byte)
  | routingInd (m : Cemi)
  | routingLost (status : Byte) (count : BitVec 16)
  | routingBusy (status : Byte) (wait ctrl : BitVec 16)
  | unknown (id : BitVec 16) (d : List Byte)
  deriving DecidableEq, Repr, Inhabited

def SearchReqService : BitVec 16 := 0x0201
def SearchResService : BitVec 16 := 0x0202
def DescrReqService : BitVec 16 := 0x0203
def DescrResService : BitVec 16 := 0x0204
def ConnReqService : BitVec 16 := 0x0205
def ConnResService : BitVec 16 := 0x0206
def ConnStateReqService : BitVec 16 := 0x0207
def ConnStateResService : BitVec 16 := 0x0208
def DiscReqService : BitVec 16 := 0x0209
def DiscResService : BitVec 16 := 0x020a
def TunnelReqService : BitVec 16 := 0x0420
def TunnelResService : BitVec 16 := 0x0421
def RoutingIndService : BitVec 16 := 0x0530
def RoutingLostService : BitVec 16 := 0x0531
def RoutingBusyService : BitVec 16 := 0x0532

/-- `Service.Service()` -/
def Service.id : Service → BitVec 16
  | .searchReq _ => SearchReqService
  | .searchRes .. => SearchResService
  | .descrReq _ => DescrReqService
  | .descrRes _ => DescrResService
  | .connReq .. => ConnReqService
  | .connRes .. => ConnResService
  | .connStateReq .. => ConnStateReqService
  | .connStateRes .. => ConnStateResService
  | .discReq .. => DiscReqService
  | .discRes .. => DiscResService
  | .tunnelReq .. => TunnelReqService
  | .tunnelRes .. => TunnelResService
  | .routingInd _ => RoutingIndService
  | .routingLost .. => RoutingLostService
  | .routingBusy .. => RoutingBusyService
  | .unknown i _ => i

/-! ### decoders -/

/-- `HostInfo.Unpack` -/
def unpackHostInfo : Dec HostInfo := do
  let length ← unpackU8
  let proto ← unpackU8
  let addr ← unpackBytes 4
  let port ← unpackU16
  Dec.guard (length == 8)
  match addr with
  | [a0, a1, a2, a3] => pure { proto, a0, a1, a2, a3, port }
  | _ => Dec.fail

/-- `ConnReq.Unpack` -/
def unpackConnReq : Dec Service := do
  let ctrl ← unpackHostInfo
  let tun ← unpackHostInfo
  let length ← unpackU8
  let connType ← unpackU8
  let layer ← unpackU8
  let _reserved ← unpackU8
  Dec.guard (length == 4)
  Dec.guard (connType == 4)
  pure (.connReq ctrl tun layer)

/-- `ConnRes.Unpack` (after the fix): channel, status, and the control endpoint when status is 0;
    the CRD that follows is not read. -/
def unpackConnRes : Dec Service := do
  let ch ← unpackU8
  let status ← unpackU8
  if status == 0 then do
    let ctrl ← unpackHostInfo
    pure (.connRes ch status ctrl)
  else
    pure (.connRes ch status { proto := 0, a0 := 0, a1 := 0, a2 := 0, a3 := 0, port := 0 })

def unpackConnStateReq : Dec Service := do
  let ch ← unpackU8
  let st ← unpackU8
  let ctrl ← unpackHostInfo
  pure (.connStateReq ch st ctrl)

def unpackConnStateRes : Dec Service := do
  let ch ← unpackU8
  let st ← unpackU8
  pure (.connStateRes ch st)

def unpackDiscReq : Dec Service := do
  let ch ← unpackU8
  let st ← unpackU8
  let ctrl ← unpackHostInfo
  pure (.discReq ch st ctrl)

def unpackDiscRes : Dec Service := do
  let ch ← unpackU8
  let st ← unpackU8
  pure (.discRes ch st)

/-- `TunnelReq.Unpack` -/
def unpackTunnelReq : Dec Service := do
  let length ← unpackU8
  let ch ← unpackU8
  let seq ← unpackU8
  let _reserved ← unpackU8
  Dec.guard (length == 4)
  let m ← unpackCemi
  pure (.tunnelReq ch seq m)

/-- `TunnelRes.Unpack` -/
def unpackTunnelRes : Dec Service := do
  let length ← unpackU8
  let ch ← unpackU8
  let seq ← unpackU8
  let st ← unpackU8
  Dec.guard (length == 4)
  pure (.tunnelRes ch seq st)

def unpackRoutingInd : Dec Service := do
  let m ← unpackCemi
  pure (.routingInd m)

def unpackRoutingLost : Dec Service := do
  let _length ← unpackU8
  let st ← unpackU8
  let count ← unpackU16
  pure (.routingLost st count)

def unpackRoutingBusy : Dec Service := do
  let _length ← unpackU8
  let st ← unpackU8
  let wait ← unpackU16
  let ctrl ← unpackU16
  pure (.routingBusy st wait ctrl)

/-- `DeviceInformationBlock.Unpack` -/
def unpackDevInfo : Dec DevInfo := do
  let length ← unpackU8
  let ty ← unpackU8
  let medium ← unpackU8
  let status ← unpackU8
  let source ← unpackU16
  let project ← unpackU16
  let serial ← unpackBytes 6
  let mcast ← unpackBytes 4
  let hw ← unpackBytes 6
  let name ← unpackString 30
  Dec.guard (length == 54)
  pure { ty, medium, status, source, project, serial, mcast, hw, name }

/-- `ServiceFamily.Unpack` -/
def unpackFamily : Dec (Byte × Byte) := do
  let ty ← unpackU8
  let ver ← unpackU8
  pure (ty, ver)

/-- the `for n < uint(length)` loop of `SupportedServicesDIB.Unpack`, starting with the families
    the receiver already holds (`append` never resets them) -/
def familiesLoop (length : Nat) : Nat → Nat → List (Byte × Byte) → GoSlice → R (List (Byte × Byte) × Nat)
  | 0, _, _, _ => .hang
  | fuel + 1, n, acc, s =>
    if n < length then
      match s.from n with
      | .ok s' =>
        match unpackFamily.run s' with
        | .ok (f, nn) => familiesLoop length fuel (n + nn) (acc ++ [f]) s
        | .err => .err
        | .panic => .panic
        | .hang => .hang
      | _ => .panic
    else .ok (acc, n)

/-- the two header octets every DIB starts with: `UnpackSome(data, &length, &ty)` -/
def unpackDibHeader : Dec (Byte × Byte) := do
  let length ← unpackU8
  let ty ← unpackU8
  pure (length, ty)

/-- `SupportedServicesDIB.Unpack` on a receiver that already holds `prev` families -/
def unpackSvcDIB (prev : List (Byte × Byte)) : Dec SvcDIB := ⟨fun s =>
  match unpackDibHeader.run s with
  | .ok ((length, ty), n) =>
    match familiesLoop length.toNat (s.len + 1) n prev s with
    | .ok (fams, n') =>
      if length.toNat ≠ (2 + 2 * fams.length) % 256 then .err
      else .ok ({ ty, families := fams }, n')
    | .err => .err
    | .panic => .panic
    | .hang => .hang
  | .err => .err
  | .panic => .panic
  | .hang => .hang⟩

/-- `UnknownDescriptionBlock.Unpack`: copies everything -/
def unpackUnknownDIB : Dec (List Byte) := unpackRest

/-- the loop of `DescriptionBlock.Unpack` (after the fix) -/
def descLoop : Nat → Nat → DescBlock → GoSlice → R (DescBlock × Nat)
  | 0, _, _, _ => .hang
  | fuel + 1, n, di, s =>
    if n < s.len then
      match s.from n with
      | .ok s' =>
        match unpackDibHeader.run s' with
        | .ok ((length, ty), _) =>
          if length.toNat < 2 ∨ n + length.toNat > s.len then .err else
          if ty == 0x01 then
            match s.slice n (n + length.toNat) with
            | .ok sub =>
              match unpackDevInfo.run sub with
              | .ok (d, _) => descLoop fuel (n + length.toNat) { di with dev := d } s
              | .err => .err
              | .panic => .panic
              | .hang => .hang
            | _ => .panic
          else if ty == 0x02 then
            match s.slice n (n + length.toNat) with
            | .ok sub =>
              match (unpackSvcDIB di.svc.families).run sub with
              | .ok (d, _) => descLoop fuel (n + length.toNat) { di with svc := d } s
              | .err => .err
              | .panic => .panic
              | .hang => .hang
            | _ => .panic
          else if ty == 0x03 ∨ ty == 0x04 ∨ ty == 0x05 ∨ ty == 0xfe then
            if length.toNat > 2 then
              match s.slice (n + 2) (n + length.toNat) with
              | .ok sub =>
                match unpackUnknownDIB.run sub with
                | .ok (d, _) =>
                  descLoop fuel (n + length.toNat) { di with unknown := di.unknown ++ [(ty, d)] } s
                | .err => .err
                | .panic => .panic
                | .hang => .hang
              | _ => .panic
            else descLoop fuel (n + length.toNat) di s
          else descLoop fuel (n + length.toNat) di s
        | .err => .err
        | .panic => .panic
        | .hang => .hang
      | _ => .panic
    else .ok (di, n)

/-- `DescriptionBlock.Unpack` -/
def unpackDescBlock : Dec DescBlock := ⟨fun s => descLoop (s.len + 1) 0 .zero s⟩

def unpackDescrRes : Dec Service := do
  let b ← unpackDescBlock
  pure (.descrRes b)

/-- `SearchRes.Unpack` -/
def unpackSearchRes : Dec Service := do
  let ctrl ← unpackHostInfo
  let dev ← unpackDevInfo
  let svc ← unpackSvcDIB []
  pure (.searchRes ctrl dev svc)

def unpackSearchReq : Dec Service := do
  let h ← unpackHostInfo
  pure (.searchReq h)

def unpackDescrReq : Dec Service := do
  let h ← unpackHostInfo
  pure (.descrReq h)

/-- `UnpackHeader`: header length, version, service id, total length; then the two checks. -/
def unpackHeader : Dec (BitVec 16 × BitVec 16) := do
  let headerLen ← unpackU8
  let version ← unpackU8
  let srvID ← unpackU16
  let totalLen ← unpackU16
  Dec.guard (headerLen == 6)
  Dec.guard (version == 16)
  pure (srvID, totalLen)

/-- the `switch srvID` of `knxnet.Unpack` -/
def bodyDecoder (srvID : BitVec 16) : Dec Service :=
  if srvID == SearchReqService then unpackSearchReq
  else if srvID == SearchResService then unpackSearchRes
  else if srvID == DescrReqService then unpackDescrReq
  else if srvID == DescrResService then unpackDescrRes
  else if srvID == ConnReqService then unpackConnReq
  else if srvID == ConnResService then unpackConnRes
  else if srvID == ConnStateReqService then unpackConnStateReq
  else if srvID == ConnStateResService then unpackConnStateRes
  else if srvID == DiscReqService then unpackDiscReq
  else if srvID == DiscResService then unpackDiscRes
  else if srvID == TunnelReqService then unpackTunnelReq
  else if srvID == TunnelResService then unpackTunnelRes
  else if srvID == RoutingIndService then unpackRoutingInd
  else if srvID == RoutingLostService then unpackRoutingLost
  else if srvID == RoutingBusyService then unpackRoutingBusy
  else (do let d ← unpackRest; pure (.unknown srvID d))

/-- `knxnet.Unpack` -/
def unpackService : Dec Service := do
  let (srvID, _totalLen) ← unpackHeader
  bodyDecoder srvID

end Knx
