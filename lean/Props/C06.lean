/-
  Props/C06.lean — C06: a datapoint value read from the bus and written back never drifts.

  `Stable s`: for EVERY payload the shape's decoder accepts, re-encoding the decoded value gives a
  payload the decoder accepts and that decodes to exactly the same value.
  `Exact s canon`: moreover the re-encoded payload is `canon` of the original (the bits the
  decoder ignores zeroed / the documented replacement applied).
-/
import Knx.DptLemmas
import Knx.Gen.Dpt

namespace Props.C06
open Knx Knx.Dpt Knx.Fl

def Stable (s : Shape) : Prop :=
  ∀ data v, decode s data = .ok v → ∃ bs, encode s v = some bs ∧ decode s bs = .ok v

def Exact (s : Shape) (canon : List Byte → List Byte) : Prop :=
  ∀ data v, decode s data = .ok v → encode s v = some (canon data)

/-! ### integer, bit-field, IEEE and structure formats — structural proofs, all payloads -/

theorem b1_exact : Exact .b1 (fun d => d.map (· &&& 1)) ∧ Stable .b1 := by
  have key : ∀ b : Byte, BitVec.ofNat 8 (b2n ((b &&& 1) == 1)) = b &&& 1 ∧
      (((BitVec.ofNat 8 (b2n ((b &&& 1) == 1))) &&& 1) == 1) = ((b &&& 1) == 1) := by decide
  constructor
  · intro data v h
    simp only [decode] at h
    split at h
    · cases h
    · rename_i hl
      simp only [ne_eq, Decidable.not_not] at hl
      rcases data with _ | ⟨b, _ | ⟨c, t⟩⟩ <;> simp at hl
      simp only [byteAt, List.getElem?_cons_zero, R.bind_ok, R.pure_eq, R.ok.injEq] at h
      subst h
      simp only [encode, List.map_cons, List.map_nil, Option.some.injEq, List.cons.injEq, and_true]
      exact (key b).1
  · intro data v h
    simp only [decode] at h
    split at h
    · cases h
    · rename_i hl
      simp only [ne_eq, Decidable.not_not] at hl
      rcases data with _ | ⟨b, _ | ⟨c, t⟩⟩ <;> simp at hl
      simp only [byteAt, List.getElem?_cons_zero, R.bind_ok, R.pure_eq, R.ok.injEq] at h
      subst h
      refine ⟨_, rfl, ?_⟩
      simp only [decode, List.length_cons, List.length_nil, ne_eq, not_true_eq_false, ↓reduceIte, byteAt,
        List.getElem?_cons_zero, R.bind_ok, R.pure_eq, R.ok.injEq, DVal.bool.injEq]
      exact (key b).2

/-- zero the leading octet (the decoder ignores it) -/
def zeroFirst : List Byte → List Byte
  | [] => []
  | _ :: t => 0 :: t

macro "fixed_shape_tac" : tactic => `(tactic| (
  constructor
  · intro data v h
    simp only [decode] at h
    split at h
    · cases h
    · rename_i hl
      simp only [ne_eq, Decidable.not_not] at hl
      rcases data with _ | ⟨a, _ | ⟨b, _ | ⟨c, _ | ⟨d, _ | ⟨e, _ | ⟨f, t⟩⟩⟩⟩⟩⟩ <;> simp at hl
      simp [byteAt] at h
      subst h; simp [encode, zeroFirst, bytes32_be32]
  · intro data v h
    simp only [decode] at h
    split at h
    · cases h
    · rename_i hl
      simp only [ne_eq, Decidable.not_not] at hl
      rcases data with _ | ⟨a, _ | ⟨b, _ | ⟨c, _ | ⟨d, _ | ⟨e, _ | ⟨f, t⟩⟩⟩⟩⟩⟩ <;> simp at hl
      simp [byteAt] at h
      subst h
      refine ⟨_, rfl, ?_⟩
      simp [decode, byteAt, bytes32_be32]))

theorem u8_exact : Exact .u8 zeroFirst ∧ Stable .u8 := by fixed_shape_tac
theorem v8_exact : Exact .v8 zeroFirst ∧ Stable .v8 := by fixed_shape_tac
theorem u16_exact : Exact .u16 zeroFirst ∧ Stable .u16 := by fixed_shape_tac
theorem v16_exact : Exact .v16 zeroFirst ∧ Stable .v16 := by fixed_shape_tac
theorem u32_exact : Exact .u32 zeroFirst ∧ Stable .u32 := by fixed_shape_tac
theorem v32_exact : Exact .v32 zeroFirst ∧ Stable .v32 := by fixed_shape_tac
/-- IEEE-754 single precision (all 81 types 14.xxx): every bit pattern, NaNs and infinities included -/
theorem f32_exact : Exact .f32 zeroFirst ∧ Stable .f32 := by fixed_shape_tac
theorem rgb_exact : Exact .rgb zeroFirst ∧ Stable .rgb := by fixed_shape_tac

/-- scene number: values above 63 are documented as replaced by 63 -/
theorem scene17_stable : Stable .scene17 := by
  intro data v h
  simp only [decode] at h
  split at h
  · cases h
  · rename_i hl
    simp only [ne_eq, Decidable.not_not] at hl
    rcases data with _ | ⟨a, _ | ⟨b, _ | ⟨c, t⟩⟩⟩ <;> simp at hl
    simp [byteAt] at h
    subst h
    have key : ∀ b : Byte, let x := (if b.toNat ≤ 63 then b else 63)
        (if (if x.toNat > 63 then (63 : Byte) else x).toNat ≤ 63 then (if x.toNat > 63 then (63 : Byte) else x) else 63) = x := by
      decide
    refine ⟨_, rfl, ?_⟩
    simp only [decode, List.length_cons, List.length_nil, ne_eq, not_true_eq_false, ↓reduceIte, byteAt,
      List.getElem?_cons_succ, List.getElem?_cons_zero, R.bind_ok, R.pure_eq, R.ok.injEq, DVal.u8.injEq]
    exact key b

theorem scene18_stable : Stable .scene18 := by
  intro data v h
  simp only [decode] at h
  split at h
  · cases h
  · rename_i hl
    simp only [ne_eq, Decidable.not_not] at hl
    rcases data with _ | ⟨a, _ | ⟨b, _ | ⟨c, t⟩⟩⟩ <;> simp at hl
    simp [byteAt] at h
    subst h
    have key : ∀ b : Byte,
        let ok := fun (y : Byte) => y.toNat ≤ 63 ∨ (y.toNat ≥ 128 ∧ y.toNat ≤ 191)
        let x : Byte := if ok b then b else 63
        (if ok (if ok x then x else 63) then (if ok x then x else 63) else (63 : Byte)) = x := by decide
    refine ⟨_, rfl, ?_⟩
    simp only [decode, List.length_cons, List.length_nil, ne_eq, not_true_eq_false, ↓reduceIte, byteAt,
      List.getElem?_cons_succ, List.getElem?_cons_zero, R.bind_ok, R.pure_eq, R.ok.injEq, DVal.u8.injEq]
    exact key b

/-- time of day: weekday/hour octet recomposed, reserved bits of minutes/seconds dropped -/
theorem time_stable : Stable .time := by
  intro data v h
  simp only [decode] at h
  split at h
  · cases h
  · rename_i hl
    simp only [ne_eq, Decidable.not_not] at hl
    rcases data with _ | ⟨a, _ | ⟨b, _ | ⟨c, _ | ⟨d, _ | ⟨e, t⟩⟩⟩⟩⟩ <;> simp at hl
    simp [byteAt] at h
    split at h
    · rename_i hv
      simp only [R.pure_eq, R.ok.injEq] at h
      subst h
      have k1 : ∀ b : Byte, ((b >>> 5) <<< 5 ||| ((b &&& 0x1F) &&& 0x1F)) = b ∧
          (b &&& 0x3F) &&& 0x3F = b &&& 0x3F := by decide
      refine ⟨_, rfl, ?_⟩
      simp only [hv, ↓reduceIte, decode, List.length_cons, List.length_nil, ne_eq, not_true_eq_false,
        byteAt, List.getElem?_cons_succ, List.getElem?_cons_zero, R.bind_ok, R.pure_eq]
      have e1 : (b >>> 5 <<< 5 ||| b &&& 31#8 &&& 31) = b := (k1 b).1
      have e2 : (c &&& 63#8 &&& 63) = c &&& 63#8 := (k1 c).2
      have e3 : (d &&& 63#8 &&& 63) = d &&& 63#8 := (k1 d).2
      rw [e1, e2, e3]
      exact if_pos hv
    · cases h

/-- variable-length string: the bytes between the leading octet and the terminator -/
theorem varstr_stable : Stable .varstr := by
  have enc_dec : ∀ b : List Byte, decode .varstr (0 :: b ++ [0]) = .ok (.bytes b) := by
    intro b
    simp only [decode, List.cons_append, List.length_cons, List.length_append, List.length_nil]
    rw [if_neg (by omega)]
    simp only [R.pure_eq, R.ok.injEq, DVal.bytes.injEq, List.drop_succ_cons, List.drop_zero]
    rw [show b.length + (0 + 1) + 1 - 2 = b.length by omega, List.take_left]
  intro data v h
  simp only [decode] at h
  split at h
  · cases h
  · simp only [R.pure_eq, R.ok.injEq] at h
    subst h
    exact ⟨_, rfl, enc_dec _⟩

/-! ### the float-valued formats -/

/-- 5.001 and 5.003: all 256 octets, by kernel evaluation of the float model -/
theorem scaled_stable : Stable .scaled := by
  have sweep : ∀ b : Byte, (match decode .scaled [0, b] with
      | .ok v => (match encode .scaled v with
          | some bs => decide (decode .scaled bs = .ok v)
          | none => false)
      | _ => false) = true := by decide +kernel
  intro data v h
  have h' := h
  simp only [decode] at h
  split at h
  · cases h
  · rename_i hl
    simp only [ne_eq, Decidable.not_not] at hl
    rcases data with _ | ⟨a, _ | ⟨b, _ | ⟨c, t⟩⟩⟩ <;> simp at hl
    have e : decode .scaled [a, b] = decode .scaled [0, b] := by simp [decode, byteAt]
    have sb := sweep b
    rw [← e, h'] at sb
    simp only at sb
    split at sb
    · rename_i bs hbs
      exact ⟨bs, hbs, by simpa using sb⟩
    · cases sb

theorem angle_stable : Stable .angle := by
  have sweep : ∀ b : Byte, (match decode .angle [0, b] with
      | .ok v => (match encode .angle v with
          | some bs => decide (decode .angle bs = .ok v)
          | none => false)
      | _ => false) = true := by decide +kernel
  intro data v h
  have h' := h
  simp only [decode] at h
  split at h
  · cases h
  · rename_i hl
    simp only [ne_eq, Decidable.not_not] at hl
    rcases data with _ | ⟨a, _ | ⟨b, _ | ⟨c, t⟩⟩⟩ <;> simp at hl
    have e : decode .angle [a, b] = decode .angle [0, b] := by simp [decode, byteAt]
    have sb := sweep b
    rw [← e, h'] at sb
    simp only at sb
    split at sb
    · rename_i bs hbs
      exact ⟨bs, hbs, by simpa using sb⟩
    · cases sb

/-! ### colour structures, date, 14-character strings — all payloads -/

/-- 242.600 xyY colour: two 16-bit coordinates, brightness, two validity bits -/
theorem xyY_stable : Stable .xyY := by
  intro data v h
  simp only [decode] at h
  split at h
  · cases h
  · rename_i hl
    simp only [ne_eq, Decidable.not_not] at hl
    rcases data with _ | ⟨a, _ | ⟨b, _ | ⟨c, _ | ⟨d, _ | ⟨e, _ | ⟨f, _ | ⟨g, _ | ⟨x, t⟩⟩⟩⟩⟩⟩⟩⟩ <;> simp at hl
    simp [byteAt] at h
    split at h
    · cases h
    · simp only [R.pure_eq, R.ok.injEq] at h
      subst h
      refine ⟨_, rfl, ?_⟩
      generalize (g &&& 1#8 != 0#8) = cv
      generalize (g >>> 1 &&& 1#8 != 0#8) = bv
      cases cv <;> cases bv <;> simp [decode, byteAt, b2n]

/-- 251.600 RGBW colour: four channels, four validity bits -/
theorem rgbw_stable : Stable .rgbw := by
  intro data v h
  simp only [decode] at h
  split at h
  · cases h
  · rename_i hl
    simp only [ne_eq, Decidable.not_not] at hl
    rcases data with _ | ⟨a, _ | ⟨b, _ | ⟨c, _ | ⟨d, _ | ⟨e, _ | ⟨f, _ | ⟨g, _ | ⟨x, t⟩⟩⟩⟩⟩⟩⟩⟩ <;> simp at hl
    simp [byteAt] at h
    split at h
    · cases h
    · simp only [R.pure_eq, R.ok.injEq] at h
      subst h
      refine ⟨_, rfl, ?_⟩
      generalize (g &&& 1#8 != 0#8) = wv
      generalize (g >>> 1 &&& 1#8 != 0#8) = bv
      generalize (g >>> 2 &&& 1#8 != 0#8) = gv
      generalize (g >>> 3 &&& 1#8 != 0#8) = rv
      cases wv <;> cases bv <;> cases gv <;> cases rv <;> simp [decode, byteAt, b2n]

theorem dateValid_bounds (y m d : Nat) (h : dateValid y m d = true) :
    1990 ≤ y ∧ y ≤ 2089 ∧ 1 ≤ m ∧ m ≤ 12 ∧ 1 ≤ d ∧ d ≤ 31 := by
  simp only [dateValid, Bool.and_eq_true, decide_eq_true_eq] at h
  obtain ⟨⟨⟨⟨⟨h1, h2⟩, h3⟩, h4⟩, h5⟩, h6⟩ := h
  have : daysIn y m ≤ 31 := by
    unfold daysIn
    split
    · split <;> omega
    · split <;> omega
  omega

/-- a valid date written as (day, month, two-digit year) is read back as itself -/
theorem date_fields_roundtrip (y m d : Nat) (hv : dateValid y m d = true) :
    decodeDateFields d m (if y < 2000 then y - 1900 else y - 2000)
      = .ok (.date (BitVec.ofNat 16 y) (BitVec.ofNat 8 m) (BitVec.ofNat 8 d)) := by
  obtain ⟨h1, h2, h3, h4, h5, h6⟩ := dateValid_bounds y m d hv
  unfold decodeDateFields
  by_cases hy : y < 2000
  · simp only [hy, if_true]
    have e : ¬ (y - 1900 > 99) := by omega
    have z : decide (y - 1900 = 0 ∧ m = 0 ∧ d = 0) = false := by simp; omega
    simp only [e, if_false, z, Bool.false_eq_true]
    have e2 : y - 1900 ≥ 90 := by omega
    simp only [e2, if_true]
    have e3 : y - 1900 + 1900 = y := by omega
    rw [e3, if_pos hv]
  · simp only [hy, if_false]
    have e : ¬ (y - 2000 > 99) := by omega
    have z : decide (y - 2000 = 0 ∧ m = 0 ∧ d = 0) = false := by simp; omega
    simp only [e, if_false, z, Bool.false_eq_true]
    have e2 : ¬ (y - 2000 ≥ 90) := by omega
    simp only [e2, if_false]
    have e3 : y - 2000 + 2000 = y := by omega
    rw [e3, if_pos hv]

theorem mask_small : (∀ d, d < 32 → ((BitVec.ofNat 8 d : Byte) &&& 0x1F).toNat = d) ∧
    (∀ m, m < 16 → ((BitVec.ofNat 8 m : Byte) &&& 0xF).toNat = m) ∧
    (∀ y, y < 128 → ((BitVec.ofNat 8 y : Byte) &&& 0x7F).toNat = y) := by decide

theorem ite_ok {c : Prop} [Decidable c] {a v : DVal} (h : (if c then R.ok a else R.err) = R.ok v) : c ∧ a = v := by
  split at h
  · rename_i hc; exact ⟨hc, by simpa using h⟩
  · cases h

/-- what the date decoder yields is always a valid calendar date in 1990..2089 -/
theorem decodeDateFields_valid (d0 m0 y0 : Nat) (v : DVal) (h : decodeDateFields d0 m0 y0 = .ok v) :
    ∃ y m d, dateValid y m d = true ∧ v = .date (BitVec.ofNat 16 y) (BitVec.ofNat 8 m) (BitVec.ofNat 8 d) := by
  unfold decodeDateFields at h
  by_cases hy : y0 > 99
  · rw [if_pos hy] at h; cases h
  · rw [if_neg hy] at h
    dsimp only at h
    obtain ⟨hv, rfl⟩ := ite_ok h
    exact ⟨_, _, _, hv, rfl⟩

/-- 11.001 date: every payload the decoder accepts (two-digit year window, the all-zero payload, the
    calendar check) re-encodes to a payload that decodes to the same date -/
theorem date_stable : Stable .date := by
  intro data v h
  simp only [decode] at h
  split at h
  · cases h
  · rename_i hl
    simp only [ne_eq, Decidable.not_not] at hl
    rcases data with _ | ⟨a, _ | ⟨b, _ | ⟨c, _ | ⟨d, _ | ⟨e, t⟩⟩⟩⟩⟩ <;> simp at hl
    simp only [byteAt, List.getElem?_cons_succ, List.getElem?_cons_zero, R.bind_ok] at h
    obtain ⟨y, m, dd, hv, rfl⟩ := decodeDateFields_valid _ _ _ _ h
    obtain ⟨h1, h2, h3, h4, h5, h6⟩ := dateValid_bounds y m dd hv
    have ty : (BitVec.ofNat 16 y).toNat = y := by simp [BitVec.toNat_ofNat]; omega
    have tm : (BitVec.ofNat 8 m : Byte).toNat = m := by simp [BitVec.toNat_ofNat]; omega
    have td : (BitVec.ofNat 8 dd : Byte).toNat = dd := by simp [BitVec.toNat_ofNat]; omega
    have hcond : (BitVec.ofNat 16 y).toNat ≥ 1990 ∧ (BitVec.ofNat 16 y).toNat ≤ 2089 ∧
        dateValid (BitVec.ofNat 16 y).toNat (BitVec.ofNat 8 m : Byte).toNat (BitVec.ofNat 8 dd : Byte).toNat = true := by
      rw [ty, tm, td]; exact ⟨h1, h2, hv⟩
    refine ⟨[0, BitVec.ofNat 8 dd &&& 0x1F, BitVec.ofNat 8 m &&& 0xF,
      BitVec.ofNat 8 (if y < 2000 then y - 1900 else y - 2000) &&& 0x7F], ?_, ?_⟩
    · simp only [encode, ty, tm, td]
      rw [if_pos ⟨h1, h2, hv⟩]
    simp only [decode, List.length_cons, List.length_nil, ne_eq, not_true_eq_false, ↓reduceIte, byteAt,
      List.getElem?_cons_succ, List.getElem?_cons_zero, R.bind_ok]
    have yy : (if y < 2000 then y - 1900 else y - 2000) < 128 := by split <;> omega
    simp only [BitVec.and_assoc, BitVec.and_self]
    rw [mask_small.1 dd (by omega), mask_small.2.1 m (by omega), mask_small.2.2 _ yy]
    exact date_fields_roundtrip y m dd hv

/-- the character loop of the 14-character strings survives its own encoding: characters are non-zero
    and within the mask, so they are written back as they are and read again as they are; the padding
    zeros end the loop where it ended before -/
theorem strLoop_roundtrip (mask : Byte) (limit : Nat) (hm : mask.toNat = limit)
    (hmm : ∀ b : Byte, (b &&& mask) &&& mask = b &&& mask) (hz : (0 : Byte) &&& mask = 0) :
    ∀ (l : List Byte) (k : Nat),
      strLoop mask ((strLoop mask l).map (strChar limit) ++ List.replicate k 0) = strLoop mask l := by
  intro l
  induction l with
  | nil =>
    intro k
    simp only [strLoop, List.map_nil, List.nil_append]
    cases k with
    | zero => rfl
    | succ k => simp [List.replicate_succ, strLoop, hz]
  | cons b t ih =>
    intro k
    by_cases hb : (b &&& mask) = 0
    · simp only [strLoop, hb, if_true, List.map_nil, List.nil_append]
      cases k with
      | zero => rfl
      | succ k => simp [List.replicate_succ, strLoop, hz]
    · have hle : (b &&& mask).toNat ≤ limit := by
        rw [← hm, BitVec.toNat_and]
        exact Nat.and_le_right
      have hc : strChar limit (b &&& mask).toNat = b &&& mask := by
        simp only [strChar, Nat.not_lt.mpr hle, if_false, BitVec.ofNat_toNat, BitVec.setWidth_eq]
      simp only [strLoop, hb, if_false, List.map_cons, List.cons_append, hc, hmm, ih k]

theorem strLoop_length (mask : Byte) : ∀ l : List Byte, (strLoop mask l).length ≤ l.length := by
  intro l
  induction l with
  | nil => simp [strLoop]
  | cons b t ih =>
    simp only [strLoop]
    split
    · simp
    · simp only [List.length_cons]; omega

theorem str14_stable (s : Shape) (mask : Byte) (limit : Nat)
    (hdec : ∀ data, decode s data = if data.length ≠ 15 then .err else .ok (.str (strLoop mask (data.drop 1))))
    (henc : ∀ cps, encode s (.str cps) =
      some (0 :: (cps.take 14).map (strChar limit) ++ List.replicate (14 - ((cps.take 14).map (strChar limit)).length) 0))
    (hm : mask.toNat = limit) (hmm : ∀ b : Byte, (b &&& mask) &&& mask = b &&& mask) (hz : (0 : Byte) &&& mask = 0) :
    Stable s := by
  intro data v h
  rw [hdec] at h
  split at h
  · cases h
  · rename_i hl
    simp only [ne_eq, Decidable.not_not] at hl
    simp only [R.ok.injEq] at h
    subst h
    have hlen : (strLoop mask (data.drop 1)).length ≤ 14 := by
      have := strLoop_length mask (data.drop 1)
      simp only [List.length_drop, hl] at this; omega
    have htake : (strLoop mask (data.drop 1)).take 14 = strLoop mask (data.drop 1) := List.take_of_length_le hlen
    refine ⟨_, henc _, ?_⟩
    rw [hdec]
    simp only [htake, List.length_cons, List.length_append, List.length_map, List.length_replicate]
    rw [if_neg (by omega)]
    simp only [List.drop_succ_cons, List.drop_zero, List.cons_append]
    rw [strLoop_roundtrip mask limit hm hmm hz]

/-- 16.000 (ASCII, reserved top bit dropped) -/
theorem strAscii_stable : Stable .strAscii :=
  str14_stable .strAscii 0x7F 127 (fun _ => rfl) (fun _ => rfl) rfl (by decide) (by decide)

/-- 16.001 (ISO 8859-1) -/
theorem strLatin1_stable : Stable .strLatin1 :=
  str14_stable .strLatin1 0xFF 255 (fun _ => rfl) (fun _ => rfl) rfl (by decide) (by decide)

/-- which shapes have a Lean stability theorem so far -/
def provedStable : Shape → Bool
  | .b1 | .u8 | .v8 | .u16 | .v16 | .u32 | .v32 | .f32 | .rgb | .scene17 | .scene18 | .time | .varstr
  | .scaled | .angle | .xyY | .rgbw | .date | .strAscii | .strLatin1 => true
  | _ => false

/-- `_partial`: the 16-bit float types (9.xxx, all 65,536 encodings each), 8.003/8.004/8.010,
    the date, the two 14-character strings and the two colour structures are decided by this
    check's exhaustive / structured differential run and its oracle; their Lean stability
    theorems (kernel sweeps over 2^16 encodings, split over modules) are not finished.
    This theorem states how many registered types are covered by the theorems above. -/
theorem coverage_partial :
    (Gen.shapes.filter (fun s => provedStable s.2)).length = 151 ∧ Gen.shapes.length = 174 := by
  decide +kernel

/-- every registered type's Pack / Unpack was recognised as one of the modelled shapes (regenerated
    table): the theorems above speak about the code that is there -/
theorem shapes_recognised :
    Knx.Gen.shapes.all (fun p => match p.2 with | .unknown _ => false | _ => true) = true := by
  decide +kernel

end Props.C06
