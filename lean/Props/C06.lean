/-
  Props/C06.lean — C06: a datapoint value read from the bus and written back never drifts.

  `Stable s`: for EVERY payload the shape's decoder accepts, re-encoding the decoded value gives a
  payload the decoder accepts and that decodes to exactly the same value.
  `Exact s canon`: moreover the re-encoded payload is `canon` of the original (the bits the
  decoder ignores zeroed / the documented replacement applied).
-/
import Knx.DptLemmas
import Knx.Gen.Dpt

namespace Props.C06
open Knx Knx.Dpt Knx.Fl

def Stable (s : Shape) : Prop :=
  ∀ data v, decode s data = .ok v → ∃ bs, encode s v = some bs ∧ decode s bs = .ok v

def Exact (s : Shape) (canon : List Byte → List Byte) : Prop :=
  ∀ data v, decode s data = .ok v → encode s v = some (canon data)

/-! ### integer, bit-field, IEEE and structure formats — structural proofs, all payloads -/

theorem b1_exact : Exact .b1 (fun d => d.map (· &&& 1)) ∧ Stable .b1 := by
  have key : ∀ b : Byte, BitVec.ofNat 8 (b2n ((b &&& 1) == 1)) = b &&& 1 ∧
      (((BitVec.ofNat 8 (b2n ((b &&& 1) == 1))) &&& 1) == 1) = ((b &&& 1) == 1) := by decide
  constructor
  · intro data v h
    simp only [decode] at h
    split at h
    · cases h
    · rename_i hl
      simp only [ne_eq, Decidable.not_not] at hl
      rcases data with _ | ⟨b, _ | ⟨c, t⟩⟩ <;> simp at hl
      simp only [byteAt, List.getElem?_cons_zero, R.bind_ok, R.pure_eq, R.ok.injEq] at h
      subst h
      simp only [encode, List.map_cons, List.map_nil, Option.some.injEq, List.cons.injEq, and_true]
      exact (key b).1
  · intro data v h
    simp only [decode] at h
    split at h
    · cases h
    · rename_i hl
      simp only [ne_eq, Decidable.not_not] at hl
      rcases data with _ | ⟨b, _ | ⟨c, t⟩⟩ <;> simp at hl
      simp only [byteAt, List.getElem?_cons_zero, R.bind_ok, R.pure_eq, R.ok.injEq] at h
      subst h
      refine ⟨_, rfl, ?_⟩
      simp only [decode, List.length_cons, List.length_nil, ne_eq, not_true_eq_false, ↓reduceIte, byteAt,
        List.getElem?_cons_zero, R.bind_ok, R.pure_eq, R.ok.injEq, DVal.bool.injEq]
      exact (key b).2

/-- zero the leading octet (the decoder ignores it) -/
def zeroFirst : List Byte → List Byte
  | [] => []
  | _ :: t => 0 :: t

macro "fixed_shape_tac" : tactic => `(tactic| (
  constructor
  · intro data v h
    simp only [decode] at h
    split at h
    · cases h
    · rename_i hl
      simp only [ne_eq, Decidable.not_not] at hl
      rcases data with _ | ⟨a, _ | ⟨b, _ | ⟨c, _ | ⟨d, _ | ⟨e, _ | ⟨f, t⟩⟩⟩⟩⟩⟩ <;> simp at hl
      simp [byteAt] at h
      subst h; simp [encode, zeroFirst, bytes32_be32]
  · intro data v h
    simp only [decode] at h
    split at h
    · cases h
    · rename_i hl
      simp only [ne_eq, Decidable.not_not] at hl
      rcases data with _ | ⟨a, _ | ⟨b, _ | ⟨c, _ | ⟨d, _ | ⟨e, _ | ⟨f, t⟩⟩⟩⟩⟩⟩ <;> simp at hl
      simp [byteAt] at h
      subst h
      refine ⟨_, rfl, ?_⟩
      simp [decode, byteAt, bytes32_be32]))

theorem u8_exact : Exact .u8 zeroFirst ∧ Stable .u8 := by fixed_shape_tac
theorem v8_exact : Exact .v8 zeroFirst ∧ Stable .v8 := by fixed_shape_tac
theorem u16_exact : Exact .u16 zeroFirst ∧ Stable .u16 := by fixed_shape_tac
theorem v16_exact : Exact .v16 zeroFirst ∧ Stable .v16 := by fixed_shape_tac
theorem u32_exact : Exact .u32 zeroFirst ∧ Stable .u32 := by fixed_shape_tac
theorem v32_exact : Exact .v32 zeroFirst ∧ Stable .v32 := by fixed_shape_tac
/-- IEEE-754 single precision (all 81 types 14.xxx): every bit pattern, NaNs and infinities included -/
theorem f32_exact : Exact .f32 zeroFirst ∧ Stable .f32 := by fixed_shape_tac
theorem rgb_exact : Exact .rgb zeroFirst ∧ Stable .rgb := by fixed_shape_tac

/-- scene number: values above 63 are documented as replaced by 63 -/
theorem scene17_stable : Stable .scene17 := by
  intro data v h
  simp only [decode] at h
  split at h
  · cases h
  · rename_i hl
    simp only [ne_eq, Decidable.not_not] at hl
    rcases data with _ | ⟨a, _ | ⟨b, _ | ⟨c, t⟩⟩⟩ <;> simp at hl
    simp [byteAt] at h
    subst h
    have key : ∀ b : Byte, let x := (if b.toNat ≤ 63 then b else 63)
        (if (if x.toNat > 63 then (63 : Byte) else x).toNat ≤ 63 then (if x.toNat > 63 then (63 : Byte) else x) else 63) = x := by
      decide
    refine ⟨_, rfl, ?_⟩
    simp only [decode, List.length_cons, List.length_nil, ne_eq, not_true_eq_false, ↓reduceIte, byteAt,
      List.getElem?_cons_succ, List.getElem?_cons_zero, R.bind_ok, R.pure_eq, R.ok.injEq, DVal.u8.injEq]
    exact key b

theorem scene18_stable : Stable .scene18 := by
  intro data v h
  simp only [decode] at h
  split at h
  · cases h
  · rename_i hl
    simp only [ne_eq, Decidable.not_not] at hl
    rcases data with _ | ⟨a, _ | ⟨b, _ | ⟨c, t⟩⟩⟩ <;> simp at hl
    simp [byteAt] at h
    subst h
    have key : ∀ b : Byte,
        let ok := fun (y : Byte) => y.toNat ≤ 63 ∨ (y.toNat ≥ 128 ∧ y.toNat ≤ 191)
        let x : Byte := if ok b then b else 63
        (if ok (if ok x then x else 63) then (if ok x then x else 63) else (63 : Byte)) = x := by decide
    refine ⟨_, rfl, ?_⟩
    simp only [decode, List.length_cons, List.length_nil, ne_eq, not_true_eq_false, ↓reduceIte, byteAt,
      List.getElem?_cons_succ, List.getElem?_cons_zero, R.bind_ok, R.pure_eq, R.ok.injEq, DVal.u8.injEq]
    exact key b

/-- time of day: weekday/hour octet recomposed, reserved bits of minutes/seconds dropped -/
theorem time_stable : Stable .time := by
  intro data v h
  simp only [decode] at h
  split at h
  · cases h
  · rename_i hl
    simp only [ne_eq, Decidable.not_not] at hl
    rcases data with _ | ⟨a, _ | ⟨b, _ | ⟨c, _ | ⟨d, _ | ⟨e, t⟩⟩⟩⟩⟩ <;> simp at hl
    simp [byteAt] at h
    split at h
    · rename_i hv
      simp only [R.pure_eq, R.ok.injEq] at h
      subst h
      have k1 : ∀ b : Byte, ((b >>> 5) <<< 5 ||| ((b &&& 0x1F) &&& 0x1F)) = b ∧
          (b &&& 0x3F) &&& 0x3F = b &&& 0x3F := by decide
      refine ⟨_, rfl, ?_⟩
      simp only [hv, ↓reduceIte, decode, List.length_cons, List.length_nil, ne_eq, not_true_eq_false,
        byteAt, List.getElem?_cons_succ, List.getElem?_cons_zero, R.bind_ok, R.pure_eq]
      have e1 : (b >>> 5 <<< 5 ||| b &&& 31#8 &&& 31) = b := (k1 b).1
      have e2 : (c &&& 63#8 &&& 63) = c &&& 63#8 := (k1 c).2
      have e3 : (d &&& 63#8 &&& 63) = d &&& 63#8 := (k1 d).2
      rw [e1, e2, e3]
      exact if_pos hv
    · cases h

/-- variable-length string: the bytes between the leading octet and the terminator -/
theorem varstr_stable : Stable .varstr := by
  have enc_dec : ∀ b : List Byte, decode .varstr (0 :: b ++ [0]) = .ok (.bytes b) := by
    intro b
    simp only [decode, List.cons_append, List.length_cons, List.length_append, List.length_nil]
    rw [if_neg (by omega)]
    simp only [R.pure_eq, R.ok.injEq, DVal.bytes.injEq, List.drop_succ_cons, List.drop_zero]
    rw [show b.length + (0 + 1) + 1 - 2 = b.length by omega, List.take_left]
  intro data v h
  simp only [decode] at h
  split at h
  · cases h
  · simp only [R.pure_eq, R.ok.injEq] at h
    subst h
    exact ⟨_, rfl, enc_dec _⟩

/-! ### the float-valued formats -/

/-- 5.001 and 5.003: all 256 octets, by kernel evaluation of the float model -/
theorem scaled_stable : Stable .scaled := by
  have sweep : ∀ b : Byte, (match decode .scaled [0, b] with
      | .ok v => (match encode .scaled v with
          | some bs => decide (decode .scaled bs = .ok v)
          | none => false)
      | _ => false) = true := by decide +kernel
  intro data v h
  have h' := h
  simp only [decode] at h
  split at h
  · cases h
  · rename_i hl
    simp only [ne_eq, Decidable.not_not] at hl
    rcases data with _ | ⟨a, _ | ⟨b, _ | ⟨c, t⟩⟩⟩ <;> simp at hl
    have e : decode .scaled [a, b] = decode .scaled [0, b] := by simp [decode, byteAt]
    have sb := sweep b
    rw [← e, h'] at sb
    simp only at sb
    split at sb
    · rename_i bs hbs
      exact ⟨bs, hbs, by simpa using sb⟩
    · cases sb

theorem angle_stable : Stable .angle := by
  have sweep : ∀ b : Byte, (match decode .angle [0, b] with
      | .ok v => (match encode .angle v with
          | some bs => decide (decode .angle bs = .ok v)
          | none => false)
      | _ => false) = true := by decide +kernel
  intro data v h
  have h' := h
  simp only [decode] at h
  split at h
  · cases h
  · rename_i hl
    simp only [ne_eq, Decidable.not_not] at hl
    rcases data with _ | ⟨a, _ | ⟨b, _ | ⟨c, t⟩⟩⟩ <;> simp at hl
    have e : decode .angle [a, b] = decode .angle [0, b] := by simp [decode, byteAt]
    have sb := sweep b
    rw [← e, h'] at sb
    simp only at sb
    split at sb
    · rename_i bs hbs
      exact ⟨bs, hbs, by simpa using sb⟩
    · cases sb

/-- which shapes have a Lean stability theorem so far -/
def provedStable : Shape → Bool
  | .b1 | .u8 | .v8 | .u16 | .v16 | .u32 | .v32 | .f32 | .rgb | .scene17 | .scene18 | .time | .varstr
  | .scaled | .angle => true
  | _ => false

/-- `_partial`: the 16-bit float types (9.xxx, all 65,536 encodings each), 8.003/8.004/8.010,
    the date, the two 14-character strings and the two colour structures are decided by this
    check's exhaustive / structured differential run and its oracle; their Lean stability
    theorems (kernel sweeps over 2^16 encodings, split over modules) are not finished.
    This theorem states how many registered types are covered by the theorems above. -/
theorem coverage_partial :
    (Gen.shapes.filter (fun s => provedStable s.2)).length = 146 ∧ Gen.shapes.length = 174 := by
  decide +kernel

/-- every registered type's Pack / Unpack was recognised as one of the modelled shapes (regenerated
    table): the theorems above speak about the code that is there -/
theorem shapes_recognised :
    Knx.Gen.shapes.all (fun p => match p.2 with | .unknown _ => false | _ => true) = true := by
  decide +kernel

end Props.C06
