/-
  Props/C16.lean — C16: sockets deliver each well-formed frame once, in order, however the stream
  is cut.

  The model (`Knx.Sock`) is the receiver's framing logic of `serveTCPSocket` (peek the header, read
  total-length bytes, decode, drop on error, stop on an unacceptable header) and the reused-array
  datagram decoding of `serveUDPSocket`; the kernel's TCP/UDP stack, the goroutine and the channel
  are exercised by the loopback correspondence, not modelled.
-/
import Knx.Sock
import Knx.KnxnetSafe
import Knx.RoundTrip
import Props.C15
import Props.C02
import Props.C01

namespace Props.C16
open Knx Knx.Sock

/-! ### the framing loop does not depend on how much fuel it is given -/

theorem pump_fuel (f : Nat) : ∀ (g : Nat) (rx : Rx), rx.buf.length < f → rx.buf.length < g →
    pump f rx = pump g rx := by
  induction f with
  | zero => intro g rx h; omega
  | succ f ih =>
    intro g rx hf hg
    cases g with
    | zero => omega
    | succ g =>
      unfold pump
      split
      · rfl
      · split
        · rfl
        · split
          · rename_i n hn
            split
            · rfl
            · split
              · rfl
              · have : (rx.buf.drop n).length < f := by simp only [List.length_drop]; omega
                have hg' : (rx.buf.drop n).length < g := by simp only [List.length_drop]; omega
                rw [ih g { rx with buf := rx.buf.drop n } this hg']
          · rfl

/-- one unfolding of the settled receiver -/
theorem settle_dead (buf : List Byte) : settle ⟨buf, true⟩ = (⟨buf, true⟩, []) := by
  unfold settle; rw [pump]; rfl

theorem settle_live (buf : List Byte) :
    settle ⟨buf, false⟩ =
      if buf.length < 6 then (⟨buf, false⟩, []) else
      match headerOf buf with
      | some n =>
        if n < 6 then (⟨buf, true⟩, [])
        else if buf.length < n then (⟨buf, false⟩, [])
        else
          ((settle ⟨buf.drop n, false⟩).1, (decodeFrame (buf.take n)).toList ++ (settle ⟨buf.drop n, false⟩).2)
      | none => (⟨buf, true⟩, []) := by
  unfold settle
  rw [pump]
  simp only [Bool.false_eq_true, ↓reduceIte]
  by_cases h6 : buf.length < 6
  · simp only [h6, ↓reduceIte]
  · simp only [h6, ↓reduceIte]
    cases hh : headerOf buf with
    | none => rfl
    | some n =>
      simp only
      by_cases hn : n < 6
      · simp only [hn, ↓reduceIte]
      · simp only [hn, ↓reduceIte]
        by_cases hl : buf.length < n
        · simp only [hl, ↓reduceIte]
        · simp only [hl, ↓reduceIte]
          rw [pump_fuel buf.length ((buf.drop n).length + 1) ⟨buf.drop n, false⟩
            (by simp only [List.length_drop]; omega) (by simp only [List.length_drop]; omega)]

theorem headerOf_append (b c : List Byte) (h : 6 ≤ b.length) : headerOf (b ++ c) = headerOf b := by
  unfold headerOf
  rw [List.take_append_of_le_length h]

/-- **prefix stability**: letting the receiver run on `b`, then appending `c` and letting it run
    again, is the same as letting it run on `b ++ c` -/
theorem settle_append (k : Nat) : ∀ (buf : List Byte) (dead : Bool) (c : List Byte), buf.length ≤ k →
    settle ⟨buf ++ c, dead⟩ =
      ((settle ⟨(settle ⟨buf, dead⟩).1.buf ++ c, (settle ⟨buf, dead⟩).1.dead⟩).1,
        (settle ⟨buf, dead⟩).2 ++ (settle ⟨(settle ⟨buf, dead⟩).1.buf ++ c, (settle ⟨buf, dead⟩).1.dead⟩).2) := by
  induction k using Nat.strongRecOn with
  | _ k ih =>
    intro buf dead c hk
    cases dead with
    | true => simp only [settle_dead, List.nil_append]
    | false =>
      rw [settle_live buf]
      by_cases h6 : buf.length < 6
      · simp only [h6, ↓reduceIte, List.nil_append]
      · simp only [h6, ↓reduceIte]
        have h6' : 6 ≤ buf.length := by omega
        cases hh : headerOf buf with
        | none =>
          simp only [List.nil_append, settle_dead]
          rw [settle_live (buf ++ c)]
          simp only [List.length_append, headerOf_append _ _ h6', hh]
          rw [if_neg (by omega)]
        | some n =>
          simp only
          by_cases hn : n < 6
          · simp only [hn, ↓reduceIte, List.nil_append, settle_dead]
            rw [settle_live (buf ++ c)]
            simp only [List.length_append, headerOf_append _ _ h6', hh, hn, ↓reduceIte]
            rw [if_neg (by omega)]
          · simp only [hn, ↓reduceIte]
            by_cases hl : buf.length < n
            · simp only [hl, ↓reduceIte, List.nil_append]
            · simp only [hl, ↓reduceIte]
              have hl' : n ≤ buf.length := by omega
              rw [settle_live (buf ++ c)]
              simp only [List.length_append, headerOf_append _ _ h6', hh, hn, ↓reduceIte]
              rw [if_neg (by omega), if_neg (by omega)]
              rw [List.take_append_of_le_length hl', List.drop_append_of_le_length hl']
              have := ih (k - 1) (by omega) (buf.drop n) false c
                (by simp only [List.length_drop]; omega)
              rw [this]
              simp only [List.append_assoc]

/-- after running, the receiver is blocked: running it again does nothing -/
theorem settle_idem (k : Nat) : ∀ (buf : List Byte) (dead : Bool), buf.length ≤ k →
    settle (settle ⟨buf, dead⟩).1 = ((settle ⟨buf, dead⟩).1, []) := by
  induction k using Nat.strongRecOn with
  | _ k ih =>
    intro buf dead hk
    cases dead with
    | true => simp only [settle_dead]
    | false =>
      rw [settle_live buf]
      by_cases h6 : buf.length < 6
      · simp only [h6, ↓reduceIte]; rw [settle_live]; simp only [h6, ↓reduceIte]
      · simp only [h6, ↓reduceIte]
        cases hh : headerOf buf with
        | none => simp only [settle_dead]
        | some n =>
          simp only
          by_cases hn : n < 6
          · simp only [hn, ↓reduceIte, settle_dead]
          · simp only [hn, ↓reduceIte]
            by_cases hl : buf.length < n
            · simp only [hl, ↓reduceIte]
              rw [settle_live]
              simp only [h6, ↓reduceIte, hh, hn, hl]
            · simp only [hl, ↓reduceIte]
              exact ih (k - 1) (by omega) (buf.drop n) false
                (by simp only [List.length_drop]; omega)

/-- a receiver that is blocked (or has stopped) -/
def Blocked (rx : Rx) : Prop := settle rx = (rx, [])

theorem blocked_init : Blocked {} := by
  unfold Blocked; rw [settle_live]; rfl

theorem blocked_feed (rx : Rx) (c : List Byte) : Blocked (feed rx c).1 :=
  settle_idem _ _ _ (Nat.le_refl _)

/-- **C16, segmentation independence**: whatever the cuts — every cut position, one byte at a
    time, any coalescing, empty segments — the services surfaced and the receiver's final state
    are those of the uncut stream -/
theorem segmentation_independent (cs : List (List Byte)) :
    ∀ (rx : Rx), Blocked rx → feedAll rx cs = feed rx cs.flatten := by
  induction cs with
  | nil =>
    intro rx hb
    simp only [feedAll, List.flatten_nil, feed, List.append_nil]
    exact hb.symm
  | cons c cs ih =>
    intro rx hb
    simp only [feedAll, List.flatten_cons]
    rw [ih (feed rx c).1 (blocked_feed rx c)]
    unfold feed
    have := settle_append _ (rx.buf ++ c) rx.dead cs.flatten (Nat.le_refl _)
    simp only [List.append_assoc] at this
    rw [this]

theorem segmentation_independent' (cs ds : List (List Byte)) (h : cs.flatten = ds.flatten) :
    feedAll {} cs = feedAll {} ds := by
  rw [segmentation_independent cs {} blocked_init, segmentation_independent ds {} blocked_init, h]

/-! ### what a stream of well-formed frames yields -/

/-- a frame whose header is acceptable and announces the frame's own length -/
def WF (f : List Byte) : Prop := 6 ≤ f.length ∧ headerOf f = some f.length

theorem settle_frame (f rest : List Byte) (h : WF f) :
    settle ⟨f ++ rest, false⟩ =
      ((settle ⟨rest, false⟩).1, (decodeFrame f).toList ++ (settle ⟨rest, false⟩).2) := by
  rw [settle_live]
  simp only [List.length_append, headerOf_append _ _ h.1, h.2]
  rw [if_neg (by have := h.1; omega), if_neg (by have := h.1; omega), if_neg (by omega)]
  rw [List.take_left', List.drop_left'] <;> rfl

/-- **every frame exactly once, in arrival order**: a stream of well-formed frames, cut in any
    way, surfaces exactly the frames that decode, in order, and leaves the receiver running with
    an empty buffer -/
theorem frames_once_in_order (fs : List (List Byte)) (hwf : ∀ f ∈ fs, WF f)
    (chunks : List (List Byte)) (hc : chunks.flatten = fs.flatten) :
    feedAll {} chunks = (⟨[], false⟩, fs.filterMap decodeFrame) := by
  rw [segmentation_independent chunks {} blocked_init, hc]
  unfold feed
  simp only [List.nil_append]
  clear hc
  induction fs with
  | nil => exact blocked_init
  | cons f fs ih =>
    simp only [List.flatten_cons]
    rw [settle_frame f fs.flatten (hwf f (List.mem_cons_self ..))]
    rw [ih (fun g hg => hwf g (List.mem_cons_of_mem _ hg))]
    cases hdf : decodeFrame f <;> simp [hdf]

/-- the frames `knxnet.Pack` produces are well-formed in that sense -/
theorem encoded_wf (v : Service) (frame : List Byte) (h : encFrame v = some frame)
    (hsz : frame.length < 65536) : WF frame := by
  unfold encFrame at h
  cases hb : encBody v with
  | none => simp [hb] at h
  | some b =>
    cases hs : sizeBody v with
    | none => simp [hb, hs] at h
    | some sz =>
      simp only [hb, hs, Option.some.injEq] at h
      subst h
      have hlen : ([6, 16] ++ encU16 v.id ++ encU16 (BitVec.ofNat 16 (sz + 6)) ++ b).length = b.length + 6 := by
        simp [encU16]
      refine ⟨by omega, ?_⟩
      have hp := rt_header v.id (BitVec.ofNat 16 (sz + 6)) [] []
      unfold headerOf
      have htake : ([6, 16] ++ encU16 v.id ++ encU16 (BitVec.ofNat 16 (sz + 6)) ++ b).take 6 =
          [6, 16] ++ encU16 v.id ++ encU16 (BitVec.ofNat 16 (sz + 6)) := by
        simp [encU16]
      rw [htake]
      simp only [List.append_nil] at hp
      rw [hp]
      simp only [BitVec.toNat_ofNat, Option.some.injEq]
      have := Props.C15.body_size v b hb
      rw [hs] at this
      simp only [Option.some.injEq] at this
      rw [hlen]; omega

/-- frames packed from (canonical) services come out as those services: what the peer sent is what
    `Inbound` yields, once each, in order, for every segmentation (every encodable service type,
    C02's `Service.ok`) -/
theorem sent_services_surface (vs : List Service) (hok : ∀ v ∈ vs, v.ok = true)
    (fs : List (List Byte)) (hfs : vs.map encFrame = fs.map some)
    (hsz : ∀ f ∈ fs, f.length < 65536)
    (chunks : List (List Byte)) (hc : chunks.flatten = fs.flatten) :
    feedAll {} chunks = (⟨[], false⟩, vs) := by
  have hwf : ∀ f ∈ fs, WF f := by
    intro f hf
    obtain ⟨i, hi, rfl⟩ := List.getElem_of_mem hf
    have hlen : vs.length = fs.length := by simpa using congrArg List.length hfs
    have : encFrame (vs[i]'(by omega)) = some fs[i] := by
      have := congrArg (fun l => l[i]?) hfs
      simpa [List.getElem?_map, List.getElem?_eq_getElem hi, List.getElem?_eq_getElem (hlen ▸ hi)] using this
    exact encoded_wf _ _ this (hsz _ hf)
  rw [frames_once_in_order fs hwf chunks hc]
  congr 1
  clear hc hwf hsz
  induction vs generalizing fs with
  | nil => cases fs <;> simp_all
  | cons v vs ih =>
    cases fs with
    | nil => simp at hfs
    | cons f fs =>
      simp only [List.map_cons, List.cons.injEq] at hfs
      obtain ⟨frame, hf, hdec⟩ := Props.C02.frame_encode_decode v (hok v (List.mem_cons_self ..))
      rw [hfs.1] at hf
      cases hf
      have : decodeFrame f = some v := by unfold decodeFrame; rw [hdec []]
      simp only [List.filterMap_cons, this]
      rw [ih (fun w hw => hok w (List.mem_cons_of_mem _ hw)) fs hfs.2]


/-! ### Send: one datagram, exactly the frame

  `TunnelSocket.Send` and `RouterSocket.Send` are `buffer := make([]byte, Size(payload)); Pack(buffer, payload)`
  followed by ONE write of the whole buffer.  With the buffer-writing model of `Pack` (Knx.Buf, Props.C15)
  the bytes handed to the network are exactly the frame. -/

/-- the buffer `Send` hands to the connection's single write -/
def sendBytes (v : Service) : Option (List Byte) :=
  match Knx.Buf.packFrame v, sizeBody v with
  | some p, some sz => p (List.replicate (sz + 6) 0)
  | _, _ => none

theorem packBody_some (v : Service) (e : List Byte) (h : encBody v = some e) : ∃ p, Knx.Buf.packBody v = some p := by
  cases v <;> simp [encBody] at h <;> simp [Knx.Buf.packBody]

theorem send_is_one_frame (v : Service) (frame : List Byte) (h : encFrame v = some frame) :
    sendBytes v = some frame := by
  have h0 := h
  unfold encFrame at h
  cases heb : encBody v with
  | none => simp [heb] at h
  | some eb =>
    have hs := Props.C15.body_size v eb heb
    obtain ⟨pb, hpb⟩ := packBody_some v eb heb
    simp only [heb, hs, Option.some.injEq] at h
    have hlen : frame.length = eb.length + 6 := by subst h; simp [encU16]
    have hpf : ∃ p, Knx.Buf.packFrame v = some p := by simp [Knx.Buf.packFrame, hpb, hs]
    obtain ⟨p, hp⟩ := hpf
    simp only [sendBytes, hp, hs]
    exact (Props.C15.frame_prefill_independent v p frame hp h0 (List.replicate (eb.length + 6) 0)
      (List.replicate (eb.length + 6) 0) (by simp [hlen]) (by simp [hlen])).1


/-- once stopped, the receiver surfaces nothing more (its `Inbound` is closed) -/
theorem stopped_stays (buf c : List Byte) : feed ⟨buf, true⟩ c = (⟨buf ++ c, true⟩, []) :=
  settle_dead _

/-! ### UDP: one datagram, one decode, whatever earlier datagrams left in the array -/

theorem udp_stale_independent (arr : List Byte) (d : List Byte) :
    (udpStep arr d).2 = if d.isEmpty then none else decodeFrame d := by
  unfold udpStep decodeFrame
  by_cases he : d.isEmpty = true
  · simp only [he, ↓reduceIte]
  · simp only [he, Bool.false_eq_true, ↓reduceIte]
    rw [Props.C01.knxnet_prefix_only ⟨d, arr.drop d.length⟩ ⟨d, []⟩ rfl]
    split <;> rfl

/-- every datagram is decoded exactly once, in arrival order, as if it had arrived alone -/
theorem udp_each_once_in_order (ds : List (List Byte)) : ∀ (arr : List Byte),
    udpAll arr ds = ds.filterMap (fun d => if d.isEmpty then none else decodeFrame d) := by
  induction ds with
  | nil => intro arr; rfl
  | cons d ds ih =>
    intro arr
    simp only [udpAll, List.filterMap_cons, udp_stale_independent, ih]
    split
    · rfl
    · cases decodeFrame d <;> rfl

/-! ### non-vacuity: a concrete stream, three different segmentations, one malformed frame inside -/

def fA : List Byte := [6, 16, 4, 33, 0, 10, 4, 7, 3, 0]        -- TunnelRes 7 3 0
def fBad : List Byte := [6, 16, 4, 33, 0, 8, 9, 7]             -- tunnelling ack with a wrong length octet
def fB : List Byte := [6, 16, 2, 8, 0, 8, 250, 0]              -- ConnStateRes 250 0

example : WF fA ∧ WF fBad ∧ WF fB := by unfold WF; decide
example : feedAll {} [fA ++ fBad ++ fB] =
    (⟨[], false⟩, [.tunnelRes 7 3 0, .connStateRes 250 0]) := by decide
example : feedAll {} ((fA ++ fBad ++ fB).map fun b => [b]) = feedAll {} [fA ++ fBad ++ fB] :=
  segmentation_independent' _ _ (by decide)
example : (feedAll {} [[6, 16, 4], [33, 0, 5, 1, 2]]).1.dead = true := by decide

end Props.C16
