/-
  Props/C11.lean — C11: cEMI L_Data frames have the bit layout the KNX specification prescribes.

  `Knx.Spec.Layout` is the independent reference (bit-vector concatenation, MSB first).
  `Knx.Gen.Helpers` is regenerated from knx/cemi/control.go, tpdu.go on every run by the
  expression translator, so the helper theorems are about the expressions the source contains now.
-/
import Knx.RoundTrip
import Knx.Spec.Layout
import Knx.Gen.Helpers

namespace Props.C11
open Knx Knx.Spec

/-! ### the two control octets: the field view and the octet view are inverse -/

theorem ctrl1_fields_roundtrip : ∀ b : Byte, b.getLsbD 6 = false → Ctrl1.byte (Ctrl1.ofByte b) = b := by
  decide

theorem ctrl2_fields_roundtrip : ∀ b : Byte, Ctrl2.byte (Ctrl2.ofByte b) = b := by decide

/-! ### flag constants and constructors/accessors of the source, on their whole 8-bit domain -/

theorem flag_constants :
    Gen.Control1StdFrame = ({ std := true } : Ctrl1).byte ∧
    Gen.Control1NoRepeat = ({ noRepeat := true } : Ctrl1).byte ∧
    Gen.Control1NoSysBroadcast = ({ noSysBroadcast := true } : Ctrl1).byte ∧
    Gen.Control1WantAck = ({ wantAck := true } : Ctrl1).byte ∧
    Gen.Control1HasError = ({ hasError := true } : Ctrl1).byte ∧
    Gen.Control2GroupAddr = ({ group := true } : Ctrl2).byte ∧
    Gen.PrioSystem = 0 ∧ Gen.PrioNormal = 1 ∧ Gen.PrioUrgent = 2 ∧ Gen.PrioLow = 3 ∧
    Gen.GroupValueRead = 0 ∧ Gen.GroupValueResponse = 1 ∧ Gen.GroupValueWrite = 2 := by decide

/-- the priority constructor puts the low two bits of its argument into bits 3..2 and nothing else -/
theorem prio_constructor : ∀ p : Byte,
    Gen.Control1Prio p = ({ prio := p.extractLsb' 0 2 } : Ctrl1).byte := by decide

/-- the hop-count constructor saturates at 7 and puts the count into bits 6..4 -/
theorem hops_constructor : ∀ h : Byte,
    Gen.Control2Hops h = ({ hops := BitVec.ofNat 3 (min h.toNat 7) } : Ctrl2).byte := by decide

/-- the hop-count accessor reads bits 6..4 -/
theorem hops_accessor : ∀ c : Byte, Gen.Hops c = (Ctrl2.ofByte c).hops.setWidth 8 := by decide

/-- … and returns what the constructor encoded -/
theorem hops_accessor_inverts_constructor : ∀ h : Byte,
    Gen.Hops (Gen.Control2Hops h) = BitVec.ofNat 8 (min h.toNat 7) := by decide

/-- the accessor is unaffected by the other fields of the octet -/
theorem hops_accessor_ignores_other_fields : ∀ (c : Byte) (h : Byte),
    h.toNat ≤ 7 → Gen.Hops ((c &&& 0x8F) ||| Gen.Control2Hops h) = h := by decide

theorem group_flag_accessor : ∀ c : Byte, Gen.IsGroupAddr c = (Ctrl2.ofByte c).group := by decide

theorem group_command_test : ∀ a : Byte, Gen.IsGroupCommand a = decide (a.toNat < 3) := by decide

/-! ### the frame -/

theorem hi8_eq (x : BitVec 16) : hi8 x = x.extractLsb' 8 8 := by
  unfold hi8
  apply BitVec.eq_of_toNat_eq
  simp [BitVec.extractLsb'_toNat, Nat.shiftRight_eq_div_pow]

theorem lo8_eq (x : BitVec 16) : lo8 x = x.extractLsb' 0 8 := by
  unfold lo8
  apply BitVec.eq_of_toNat_eq
  simp [BitVec.extractLsb'_toNat]

theorem encU16_eq_spec (x : BitVec 16) : encU16 x = Spec.addr x := by
  simp [encU16, Spec.addr, hi8_eq, lo8_eq]

theorem tpci_data_octet : ∀ (n : Bool) (s c : Fin 16), (n = true ∨ s.val = 0) →
    ((((BitVec.ofNat 8 c.val : Byte) >>> 2) &&& 3) ||| tpciBits n (BitVec.ofNat 8 s.val)) =
      tpciData n (BitVec.ofNat 4 s.val) (BitVec.ofNat 4 c.val) := by decide

theorem apci_data_octet : ∀ (c : Fin 16) (d : Fin 64),
    (((BitVec.ofNat 8 d.val : Byte) &&& 63) ||| (((BitVec.ofNat 8 c.val : Byte) &&& 3) <<< 6)) =
      apciData (BitVec.ofNat 4 c.val) (BitVec.ofNat 6 d.val) := by decide

theorem tpci_control_octet : ∀ (n : Bool) (s : Fin 16) (c : Fin 4), (n = true ∨ s.val = 0) →
    (((0x80 : Byte) ||| ((BitVec.ofNat 8 c.val : Byte) &&& 3)) ||| tpciBits n (BitVec.ofNat 8 s.val)) =
      tpciControl n (BitVec.ofNat 4 s.val) (BitVec.ofNat 2 c.val) := by decide

/-- what `LData.Pack` (behind `cemi.Pack`) writes for an application unit is the specified layout:
    for every message code, additional info of 0..255 bytes, every pair of control octets, all
    addresses, sequence 0..15, APCI 0..15, payload of 1..255 bytes with a 6-bit first byte -/
theorem encode_app_layout (mc : Byte) (info : List Byte) (c1 c2 : Byte) (src dst : BitVec 16)
    (numbered : Bool) (seq cmd d0 : Byte) (ds : List Byte)
    (hi : info.length ≤ 255) (hs : seq.toNat ≤ 15) (hc : cmd.toNat ≤ 15) (hd : d0.toNat < 64)
    (hl : ds.length + 1 ≤ 255) (hn : numbered = true ∨ seq = 0) :
    mc :: encLData (LData.mk info c1 c2 src dst (.app numbered seq cmd (d0 :: ds))) =
      Spec.ldataApp mc info c1 c2 src dst numbered (BitVec.ofNat 4 seq.toNat) (BitVec.ofNat 4 cmd.toNat)
        (BitVec.ofNat 6 d0.toNat) ds := by
  have h1 := tpci_data_octet numbered ⟨seq.toNat, by omega⟩ ⟨cmd.toNat, by omega⟩
    (by cases hn with
        | inl h => exact Or.inl h
        | inr h => exact Or.inr (by simp [h]))
  have h2 := apci_data_octet ⟨cmd.toNat, by omega⟩ ⟨d0.toNat, hd⟩
  simp only [byte_ofNat_toNat] at h1 h2
  have hdl : appDataLength (d0 :: ds) = ds.length + 1 := by
    unfold appDataLength; simp only [List.length_cons]
    rw [if_neg (by omega), if_neg (by omega)]
  simp only [encLData, encInfo, encTPDU, hdl, List.take_succ_cons, List.take_length, h1, h2,
    Spec.ldataApp, encU16_eq_spec]
  rw [if_neg (by omega)]
  simp

/-- … and for a control unit -/
theorem encode_control_layout (mc : Byte) (info : List Byte) (c1 c2 : Byte) (src dst : BitVec 16)
    (numbered : Bool) (seq cmd : Byte)
    (hi : info.length ≤ 255) (hs : seq.toNat ≤ 15) (hc : cmd.toNat ≤ 3)
    (hn : numbered = true ∨ seq = 0) :
    mc :: encLData (LData.mk info c1 c2 src dst (.ctl numbered seq cmd)) =
      Spec.ldataControl mc info c1 c2 src dst numbered (BitVec.ofNat 4 seq.toNat)
        (BitVec.ofNat 2 cmd.toNat) := by
  have h1 := tpci_control_octet numbered ⟨seq.toNat, by omega⟩ ⟨cmd.toNat, by omega⟩
    (by cases hn with
        | inl h => exact Or.inl h
        | inr h => exact Or.inr (by simp [h]))
  simp only [byte_ofNat_toNat] at h1
  simp only [encLData, encInfo, encTPDU, h1, Spec.ldataControl, encU16_eq_spec]
  rw [if_neg (by omega)]
  simp

/-- decoding extracts exactly those fields from any such layout (L_Data.ind shown; req/con are the
    same with their codes) -/
theorem decode_app_layout (info : List Byte) (c1 c2 : Byte) (src dst : BitVec 16)
    (numbered : Bool) (seq cmd d0 : Byte) (ds : List Byte)
    (hi : info.length ≤ 255) (hs : seq.toNat ≤ 15) (hc : cmd.toNat ≤ 15) (hd : d0.toNat < 64)
    (hl : ds.length + 1 ≤ 255) (hn : numbered = true ∨ seq = 0) (tl : List Byte) :
    ∃ n, unpackCemi.run (GoSlice.mk (Spec.ldataApp LDataIndCode info c1 c2 src dst numbered
        (BitVec.ofNat 4 seq.toNat) (BitVec.ofNat 4 cmd.toNat) (BitVec.ofNat 6 d0.toNat) ds) tl) =
      .ok (.ldataInd (LData.mk info c1 c2 src dst (.app numbered seq cmd (d0 :: ds))), n) := by
  rw [← encode_app_layout LDataIndCode info c1 c2 src dst numbered seq cmd d0 ds hi hs hc hd hl hn]
  refine ⟨_, rt_cemi (.ldataInd _) ?_ tl⟩
  simp only [Cemi.ok, LData.ok, TPDU.ok, Bool.and_eq_true, decide_eq_true_eq, Bool.or_eq_true,
    beq_iff_eq, List.length_cons]
  refine ⟨hi, ⟨⟨⟨⟨⟨?_, hs⟩, hc⟩, by omega⟩, by omega⟩, hd⟩⟩
  cases hn with
  | inl h => exact Or.inl h
  | inr h => exact Or.inr h

/-! non-vacuity: a group write of one byte to 1/2/3 from 1.1.1 -/
example : LDataIndCode :: encLData (LData.mk [] 0xbc 0xe0 0x1101 0x0a03 (.app false 0 2 [0x01])) = [0x29, 0x00, 0xbc, 0xe0, 0x11, 0x01, 0x0a, 0x03, 0x01, 0x00, 0x81] := by
  decide

end Props.C11
