/-
  Props/C18.lean — C18: addresses survive formatting and parsing; malformed address text is rejected.

  `Knx.Addr` models `String()` / `New*AddrString` over byte strings (`strings.Split` and
  `strconv.Atoi` work on bytes); the component constructors are the definitions regenerated from
  the source on every run (`Knx.Gen.Helpers`), so the theorems are about today's expressions.
-/
import Knx.AddressLemmas

namespace Props.C18
open Knx Knx.Addr

/-! ### round trip: for every non-zero 16-bit address, `parse (format a) = a` -/

/-- the 16 bit positions, for bit-wise extensionality -/
theorem bit_cases (i : Nat) (h : i < 16) :
    i = 0 ∨ i = 1 ∨ i = 2 ∨ i = 3 ∨ i = 4 ∨ i = 5 ∨ i = 6 ∨ i = 7 ∨ i = 8 ∨ i = 9 ∨ i = 10 ∨
    i = 11 ∨ i = 12 ∨ i = 13 ∨ i = 14 ∨ i = 15 := by omega

/-- recomposing the three printed components gives the address back — for every address, bit by bit -/
theorem group3_recompose (a : BitVec 16) :
    Gen.NewGroupAddr3 (BitVec.setWidth 8 ((a >>> 11) &&& 0x1F)) (BitVec.setWidth 8 ((a >>> 8) &&& 0x7))
      (BitVec.setWidth 8 (a &&& 0xFF)) = a := by
  ext i hi
  simp only [Gen.NewGroupAddr3, BitVec.getElem_or, BitVec.getElem_shiftLeft, BitVec.getElem_setWidth,
    BitVec.getLsbD_setWidth, BitVec.getLsbD_and, BitVec.getLsbD_ushiftRight]
  rcases bit_cases i hi with rfl | rfl | rfl | rfl | rfl | rfl | rfl | rfl | rfl | rfl | rfl | rfl |
    rfl | rfl | rfl | rfl <;> simp <;> rfl

theorem individual3_recompose (a : BitVec 16) :
    Gen.NewIndividualAddr3 (BitVec.setWidth 8 ((a >>> 12) &&& 0xF)) (BitVec.setWidth 8 ((a >>> 8) &&& 0xF))
      (BitVec.setWidth 8 (a &&& 0xFF)) = a := by
  ext i hi
  simp only [Gen.NewIndividualAddr3, BitVec.getElem_or, BitVec.getElem_shiftLeft, BitVec.getElem_setWidth,
    BitVec.getLsbD_setWidth, BitVec.getLsbD_and, BitVec.getLsbD_ushiftRight]
  rcases bit_cases i hi with rfl | rfl | rfl | rfl | rfl | rfl | rfl | rfl | rfl | rfl | rfl | rfl |
    rfl | rfl | rfl | rfl <;> simp <;> rfl

theorem i8_toNat (x : BitVec 16) : i8 (x.toNat : Int) = BitVec.setWidth 8 x := by
  simp [i8, BitVec.ofInt_natCast]

theorem and_toNat_le (x m : BitVec 16) : (x &&& m).toNat ≤ m.toNat := by
  rw [BitVec.toNat_and]; exact Nat.and_le_right

theorem slash_not_digit : isDigit slash = false := by decide
theorem dot_not_digit : isDigit dot = false := by decide

theorem mapM_atoi_render3 (x y z : Nat) (hx : x ≤ 65535) (hy : y ≤ 65535) (hz : z ≤ 65535) :
    [render x, render y, render z].mapM atoi = some [(x : Int), (y : Int), (z : Int)] := by
  simp [List.mapM_cons, atoi_render x (by omega), atoi_render y (by omega), atoi_render z (by omega)]

/-- **round trip, group addresses**: every non-zero address formats to text that parses back to it -/
theorem roundtrip_group (a : BitVec 16) (ha : a ≠ 0) : parseGroup (formatGroup a) = some a := by
  have h1 : ((a >>> 11) &&& 0x1F).toNat ≤ 31 := and_toNat_le _ _
  have h2 : ((a >>> 8) &&& 0x7).toNat ≤ 7 := and_toNat_le _ _
  have h3 : (a &&& 0xFF).toNat ≤ 255 := and_toNat_le _ _
  unfold parseGroup formatGroup
  rw [splitOn_joinWith slash _ (by simp) (by
    intro s hs
    simp only [List.mem_cons, List.not_mem_nil, or_false] at hs
    rcases hs with rfl | rfl | rfl <;> exact sep_not_in_render _ _ slash_not_digit)]
  rw [mapM_atoi_render3 _ _ _ (by omega) (by omega) (by omega)]
  have hc := group3_recompose a
  simp only [← i8_toNat] at hc
  simp only [groupOfNums]
  rw [if_neg (by omega)]
  by_cases hz : ((((a >>> 11) &&& 0x1F).toNat : Int) = 0 ∧ (((a >>> 8) &&& 0x7).toNat : Int) = 0 ∧
      ((a &&& 0xFF).toNat : Int) = 0)
  · exfalso
    obtain ⟨z1, z2, z3⟩ := hz
    rw [z1, z2, z3] at hc
    exact ha (by rw [← hc]; decide)
  · rw [if_neg hz, hc]

/-- **round trip, individual addresses** -/
theorem roundtrip_individual (a : BitVec 16) (ha : a ≠ 0) :
    parseIndividual (formatIndividual a) = some a := by
  have h1 : ((a >>> 12) &&& 0xF).toNat ≤ 15 := and_toNat_le _ _
  have h2 : ((a >>> 8) &&& 0xF).toNat ≤ 15 := and_toNat_le _ _
  have h3 : (a &&& 0xFF).toNat ≤ 255 := and_toNat_le _ _
  unfold parseIndividual formatIndividual
  rw [splitOn_joinWith dot _ (by simp) (by
    intro s hs
    simp only [List.mem_cons, List.not_mem_nil, or_false] at hs
    rcases hs with rfl | rfl | rfl <;> exact sep_not_in_render _ _ dot_not_digit)]
  rw [mapM_atoi_render3 _ _ _ (by omega) (by omega) (by omega)]
  have hc := individual3_recompose a
  simp only [← i8_toNat] at hc
  simp only [individualOfNums]
  rw [if_neg (by omega)]
  by_cases hz : ((((a >>> 12) &&& 0xF).toNat : Int) = 0 ∧ (((a >>> 8) &&& 0xF).toNat : Int) = 0 ∧
      ((a &&& 0xFF).toNat : Int) = 0)
  · exfalso
    obtain ⟨z1, z2, z3⟩ := hz
    rw [z1, z2, z3] at hc
    exact ha (by rw [← hc]; decide)
  · rw [if_neg hz, hc]

/-! ### what is accepted: exactly the one-, two- and three-level forms with components in range -/

/-- the accepted component tuples of the group parser, and the address each yields -/
theorem group_accepts_iff (nums : List Int) (a : BitVec 16) :
    groupOfNums nums = some a ↔
      (∃ x y z, nums = [x, y, z] ∧ 0 ≤ x ∧ x ≤ 31 ∧ 0 ≤ y ∧ y ≤ 7 ∧ 0 ≤ z ∧ z ≤ 255 ∧
        ¬(x = 0 ∧ y = 0 ∧ z = 0) ∧ a = Gen.NewGroupAddr3 (i8 x) (i8 y) (i8 z)) ∨
      (∃ x y, nums = [x, y] ∧ 0 ≤ x ∧ x ≤ 31 ∧ 0 ≤ y ∧ y ≤ 2047 ∧ ¬(x = 0 ∧ y = 0) ∧
        a = Gen.NewGroupAddr2 (i8 x) (i16 y)) ∨
      (∃ x, nums = [x] ∧ 1 ≤ x ∧ x ≤ 65535 ∧ a = i16 x) := by
  constructor
  · intro h
    match nums, h with
    | [x, y, z], h =>
      simp only [groupOfNums] at h
      split at h
      · cases h
      · split at h
        · cases h
        · rename_i hr hz
          refine Or.inl ⟨x, y, z, rfl, ?_⟩
          simp only [Option.some.injEq] at h
          refine ⟨by omega, by omega, by omega, by omega, by omega, by omega, hz, h.symm⟩
    | [x, y], h =>
      simp only [groupOfNums] at h
      split at h
      · cases h
      · split at h
        · cases h
        · rename_i hr hz
          refine Or.inr (Or.inl ⟨x, y, rfl, ?_⟩)
          simp only [Option.some.injEq] at h
          refine ⟨by omega, by omega, by omega, by omega, hz, h.symm⟩
    | [x], h =>
      simp only [groupOfNums] at h
      split at h
      · cases h
      · simp only [Option.some.injEq] at h
        exact Or.inr (Or.inr ⟨x, rfl, by omega, by omega, h.symm⟩)
    | [], h => simp [groupOfNums] at h
    | _ :: _ :: _ :: _ :: _, h => simp [groupOfNums] at h
  · rintro (⟨x, y, z, rfl, h1, h2, h3, h4, h5, h6, hz, rfl⟩ | ⟨x, y, rfl, h1, h2, h3, h4, hz, rfl⟩ |
      ⟨x, rfl, h1, h2, rfl⟩)
    · simp only [groupOfNums]; rw [if_neg (by omega), if_neg hz]
    · simp only [groupOfNums]; rw [if_neg (by omega), if_neg hz]
    · simp only [groupOfNums]; rw [if_neg (by omega)]

theorem individual_accepts_iff (nums : List Int) (a : BitVec 16) :
    individualOfNums nums = some a ↔
      (∃ x y z, nums = [x, y, z] ∧ 0 ≤ x ∧ x ≤ 15 ∧ 0 ≤ y ∧ y ≤ 15 ∧ 0 ≤ z ∧ z ≤ 255 ∧
        ¬(x = 0 ∧ y = 0 ∧ z = 0) ∧ a = Gen.NewIndividualAddr3 (i8 x) (i8 y) (i8 z)) ∨
      (∃ x y, nums = [x, y] ∧ 0 ≤ x ∧ x ≤ 255 ∧ 0 ≤ y ∧ y ≤ 255 ∧ ¬(x = 0 ∧ y = 0) ∧
        a = Gen.NewIndividualAddr2 (i8 x) (i8 y)) ∨
      (∃ x, nums = [x] ∧ 1 ≤ x ∧ x ≤ 65535 ∧ a = i16 x) := by
  constructor
  · intro h
    match nums, h with
    | [x, y, z], h =>
      simp only [individualOfNums] at h
      split at h
      · cases h
      · split at h
        · cases h
        · rename_i hr hz
          refine Or.inl ⟨x, y, z, rfl, ?_⟩
          simp only [Option.some.injEq] at h
          refine ⟨by omega, by omega, by omega, by omega, by omega, by omega, hz, h.symm⟩
    | [x, y], h =>
      simp only [individualOfNums] at h
      split at h
      · cases h
      · split at h
        · cases h
        · rename_i hr hz
          refine Or.inr (Or.inl ⟨x, y, rfl, ?_⟩)
          simp only [Option.some.injEq] at h
          refine ⟨by omega, by omega, by omega, by omega, hz, h.symm⟩
    | [x], h =>
      simp only [individualOfNums] at h
      split at h
      · cases h
      · simp only [Option.some.injEq] at h
        exact Or.inr (Or.inr ⟨x, rfl, by omega, by omega, h.symm⟩)
    | [], h => simp [individualOfNums] at h
    | _ :: _ :: _ :: _ :: _, h => simp [individualOfNums] at h
  · rintro (⟨x, y, z, rfl, h1, h2, h3, h4, h5, h6, hz, rfl⟩ | ⟨x, y, rfl, h1, h2, h3, h4, hz, rfl⟩ |
      ⟨x, rfl, h1, h2, rfl⟩)
    · simp only [individualOfNums]; rw [if_neg (by omega), if_neg hz]
    · simp only [individualOfNums]; rw [if_neg (by omega), if_neg hz]
    · simp only [individualOfNums]; rw [if_neg (by omega)]

/-- text is accepted exactly when it splits at the separator into decimal literals (as `Atoi`
    accepts them) whose values form an accepted tuple -/
theorem parse_group_iff (s : Str) (a : BitVec 16) :
    parseGroup s = some a ↔ ∃ nums, (splitOn slash s).mapM atoi = some nums ∧ groupOfNums nums = some a := by
  unfold parseGroup
  cases h : (splitOn slash s).mapM atoi with
  | none => simp
  | some nums => simp

theorem parse_individual_iff (s : Str) (a : BitVec 16) :
    parseIndividual s = some a ↔
      ∃ nums, (splitOn dot s).mapM atoi = some nums ∧ individualOfNums nums = some a := by
  unfold parseIndividual
  cases h : (splitOn dot s).mapM atoi with
  | none => simp
  | some nums => simp

/-- the literals `Atoi` accepts: an optional sign followed by one or more ASCII digits -/
theorem atoi_accepts_only_literals (l : Str) (v : Int) (h : atoi l = some v) :
    (stripSign l) ≠ [] ∧ (stripSign l).all isDigit = true ∧
      (v = (digitsVal (stripSign l) : Int) ∨ v = -(digitsVal (stripSign l) : Int)) := by
  unfold atoi at h
  simp only at h
  split at h
  · cases h
  · rename_i hc
    simp only [Bool.or_eq_true, Bool.not_eq_eq_eq_not, Bool.not_true, not_or, List.isEmpty_iff,
      Bool.not_eq_false] at hc
    refine ⟨hc.1, hc.2, ?_⟩
    split at h <;> split at h <;> simp_all

theorem empty_component_rejected : atoi [] = none := by decide

/-! ### constructors: each component lands in its documented bit field, bits outside the
    component's width are ignored -/

theorem group3_constructor_fields (a b c : BitVec 8) :
    (Gen.NewGroupAddr3 a b c).extractLsb' 11 5 = a.extractLsb' 0 5 ∧
    (Gen.NewGroupAddr3 a b c).extractLsb' 8 3 = b.extractLsb' 0 3 ∧
    (Gen.NewGroupAddr3 a b c).extractLsb' 0 8 = c := by
  have p1 : ∀ a : BitVec 8, let p := (BitVec.setWidth 16 (a &&& (31 : BitVec 8))) <<< 11
      p.extractLsb' 11 5 = a.extractLsb' 0 5 ∧ p.extractLsb' 8 3 = 0 ∧ p.extractLsb' 0 8 = 0 := by decide
  have p2 : ∀ b : BitVec 8, let p := (BitVec.setWidth 16 (b &&& (7 : BitVec 8))) <<< 8
      p.extractLsb' 11 5 = 0 ∧ p.extractLsb' 8 3 = b.extractLsb' 0 3 ∧ p.extractLsb' 0 8 = 0 := by decide
  have p3 : ∀ c : BitVec 8, let p := BitVec.setWidth 16 c
      p.extractLsb' 11 5 = 0 ∧ p.extractLsb' 8 3 = 0 ∧ p.extractLsb' 0 8 = c := by decide
  obtain ⟨a1, a2, a3⟩ := p1 a
  obtain ⟨b1, b2, b3⟩ := p2 b
  obtain ⟨c1, c2, c3⟩ := p3 c
  simp only [Gen.NewGroupAddr3, BitVec.extractLsb'_or, a1, a2, a3, b1, b2, b3, c1, c2, c3]
  simp

theorem individual3_constructor_fields (a b c : BitVec 8) :
    (Gen.NewIndividualAddr3 a b c).extractLsb' 12 4 = a.extractLsb' 0 4 ∧
    (Gen.NewIndividualAddr3 a b c).extractLsb' 8 4 = b.extractLsb' 0 4 ∧
    (Gen.NewIndividualAddr3 a b c).extractLsb' 0 8 = c := by
  have p1 : ∀ a : BitVec 8, let p := (BitVec.setWidth 16 (a &&& (15 : BitVec 8))) <<< 12
      p.extractLsb' 12 4 = a.extractLsb' 0 4 ∧ p.extractLsb' 8 4 = 0 ∧ p.extractLsb' 0 8 = 0 := by decide
  have p2 : ∀ b : BitVec 8, let p := (BitVec.setWidth 16 (b &&& (15 : BitVec 8))) <<< 8
      p.extractLsb' 12 4 = 0 ∧ p.extractLsb' 8 4 = b.extractLsb' 0 4 ∧ p.extractLsb' 0 8 = 0 := by decide
  have p3 : ∀ c : BitVec 8, let p := BitVec.setWidth 16 c
      p.extractLsb' 12 4 = 0 ∧ p.extractLsb' 8 4 = 0 ∧ p.extractLsb' 0 8 = c := by decide
  obtain ⟨a1, a2, a3⟩ := p1 a
  obtain ⟨b1, b2, b3⟩ := p2 b
  obtain ⟨c1, c2, c3⟩ := p3 c
  simp only [Gen.NewIndividualAddr3, BitVec.extractLsb'_or, a1, a2, a3, b1, b2, b3, c1, c2, c3]
  simp

theorem individual2_constructor_fields (a b : BitVec 8) :
    (Gen.NewIndividualAddr2 a b).extractLsb' 8 8 = a ∧ (Gen.NewIndividualAddr2 a b).extractLsb' 0 8 = b := by
  have p1 : ∀ a : BitVec 8, let p := (BitVec.setWidth 16 a) <<< 8
      p.extractLsb' 8 8 = a ∧ p.extractLsb' 0 8 = 0 := by decide
  have p2 : ∀ b : BitVec 8, let p := BitVec.setWidth 16 b
      p.extractLsb' 8 8 = 0 ∧ p.extractLsb' 0 8 = b := by decide
  obtain ⟨a1, a2⟩ := p1 a
  obtain ⟨b1, b2⟩ := p2 b
  simp only [Gen.NewIndividualAddr2, BitVec.extractLsb'_or, a1, a2, b1, b2]
  simp

theorem group2_constructor_fields (a : BitVec 8) (b : BitVec 16) :
    (Gen.NewGroupAddr2 a b).extractLsb' 11 5 = a.extractLsb' 0 5 ∧
    (Gen.NewGroupAddr2 a b).extractLsb' 0 11 = b.extractLsb' 0 11 := by
  have p1 : ∀ a : BitVec 8, let p := (BitVec.setWidth 16 (a &&& (31 : BitVec 8))) <<< 11
      p.extractLsb' 11 5 = a.extractLsb' 0 5 ∧ p.extractLsb' 0 11 = 0 := by decide
  obtain ⟨a1, a2⟩ := p1 a
  have b1 : (b &&& (2047 : BitVec 16)).extractLsb' 11 5 = 0 := by
    ext i hi
    simp only [BitVec.getElem_extractLsb', BitVec.getLsbD_and]
    have : i = 0 ∨ i = 1 ∨ i = 2 ∨ i = 3 ∨ i = 4 := by omega
    rcases this with rfl | rfl | rfl | rfl | rfl <;> simp <;> rfl
  have b2 : (b &&& (2047 : BitVec 16)).extractLsb' 0 11 = b.extractLsb' 0 11 := by
    ext i hi
    simp only [BitVec.getElem_extractLsb', BitVec.getLsbD_and]
    have : i = 0 ∨ i = 1 ∨ i = 2 ∨ i = 3 ∨ i = 4 ∨ i = 5 ∨ i = 6 ∨ i = 7 ∨ i = 8 ∨ i = 9 ∨ i = 10 := by omega
    rcases this with rfl | rfl | rfl | rfl | rfl | rfl | rfl | rfl | rfl | rfl | rfl <;> simp <;> rfl
  simp only [Gen.NewGroupAddr2, BitVec.extractLsb'_or, a1, a2, b1, b2]
  simp

/-! non-vacuity -/
example : formatGroup 0x0A03 = [49, 47, 50, 47, 51] := by  -- "1/2/3"
  have e1 : ((0x0A03#16 >>> 11) &&& 0x1F).toNat = 1 := by decide
  have e2 : ((0x0A03#16 >>> 8) &&& 0x7).toNat = 2 := by decide
  have e3 : (0x0A03#16 &&& 0xFF).toNat = 3 := by decide
  simp [formatGroup, joinWith, slash, e1, e2, e3, render_lt10]
example : parseGroup (formatGroup 0x0A03) = some 0x0A03 := roundtrip_group _ (by decide)
example : parseGroup [49, 47, 50, 47, 51] = some 0x0A03 := by decide
example : parseGroup [48, 47, 48, 47, 48] = none := by decide     -- "0/0/0"
example : parseGroup [51, 50, 47, 48, 47, 49] = none := by decide -- "32/0/1"
example : parseIndividual [49, 46, 49, 46, 50, 53, 54] = none := by decide -- "1.1.256"

end Props.C18
