/-
  Props/C02.lean — C02: every encodable frame decodes back to exactly the value that was encoded.

  Statements are over the Go-slice level decoders (`Knx.Knxnet`) and the byte lists the `Pack`
  methods write (`Knx.Enc`), for every value satisfying the explicit, decidable encodability
  predicates of `Knx.RoundTrip`, any field values, payloads of any admissible length, and any
  spare capacity behind the datagram.
-/
import Knx.RoundTrip
import Knx.RoundTripDib
import Knx.Gen.Wire

namespace Props.C02
open Knx

/-- cEMI: all eight message kinds.  `Cemi.ok` is: additional info ≤ 255 bytes; TPCI sequence ≤ 15,
    APCI ≤ 15 (control command ≤ 3); an unnumbered unit carries sequence 0 (those bits are
    reserved-zero on the wire); application data 1..255 bytes with a 6-bit first byte; an
    `UnsupportedMessage` code is not one of the seven known codes. -/
theorem cemi_encode_decode (m : Cemi) (h : m.ok = true) (tl : List Byte) :
    unpackCemi.run { vis := encCemi m, tail := tl } = .ok (m, (encCemi m).length) :=
  rt_cemi m h tl

/-- **KNXnet/IP frames of every encodable service type** — search / description requests and
    responses, the connection services, tunnelling and routing frames, unknown services.
    `Service.ok`: the cEMI payload satisfies `Cemi.ok`; a negative connect response carries no
    endpoint; device blocks have their fixed-size fields (6-byte serial, 4-byte multicast address,
    6-byte hardware address) and a Latin-1 name of at most 29 characters without NUL; at most 126
    service families (the length octet); a description response carries its blocks' own type
    codes and no unknown blocks (the encoder emits none).  The decoder accepts the whole encoding,
    except that it leaves the 4-byte CRD of a positive connect response unread (`unreadTail`). -/
theorem frame_encode_decode (v : Service) (h : v.ok = true) :
    ∃ frame, encFrame v = some frame ∧
      ∀ tl, unpackService.run { vis := frame, tail := tl } = .ok (v, frame.length - unreadTail v) := by
  obtain ⟨body, hb, hrt⟩ := bodyRT_all v h
  have hs : ∃ sz, sizeBody v = some sz := by
    cases v <;> simp [sizeBody, Service.ok, Service.okSimple] at h ⊢
  obtain ⟨sz, hs⟩ := hs
  refine rt_frame_of_body v body sz hb hs hrt ?_
  cases v <;> simp only [unreadTail, Nat.zero_le]
  rename_i ch st c
  split
  · rename_i h0
    have : st = 0 := by simpa using h0
    subst this
    simp only [encBody, beq_self_eq_true, ↓reduceIte, Option.some.injEq] at hb
    subst hb
    simp [encHostInfo, encU16]
  · exact Nat.zero_le _

theorem ok_of_okSimple (v : Service) (h : v.okSimple = true) : v.ok = true := by
  cases v <;> first | exact h | simp [Service.okSimple] at h

/-- the earlier statement (services without description blocks), kept as a corollary -/
theorem frame_encode_decode_partial (v : Service) (h : v.okSimple = true) :
    ∃ frame, encFrame v = some frame ∧
      ∀ tl, unpackService.run { vis := frame, tail := tl } = .ok (v, frame.length - unreadTail v) :=
  frame_encode_decode v (ok_of_okSimple v h)

/-- relay stability: a decoded tunnelling / routing frame whose cEMI message is canonical
    (`Cemi.ok`: the only accepted-but-not-canonical messages are unnumbered units with non-zero
    sequence bits, i.e. reserved bits set) re-encodes to a frame that decodes to the same value. -/
theorem relay_stable (s : GoSlice) (v : Service) (n : Nat)
    (_hdec : unpackService.run s = .ok (v, n)) (hv : v.ok = true) :
    ∃ frame, encFrame v = some frame ∧
      ∀ tl, ∃ k, unpackService.run { vis := frame, tail := tl } = .ok (v, k) := by
  obtain ⟨frame, h1, h2⟩ := frame_encode_decode v hv
  exact ⟨frame, h1, fun tl => ⟨_, h2 tl⟩⟩

/-! ### dispatch tables, regenerated from the source on every run -/

def lookup (k : String) (t : List (String × String)) : Option String :=
  (t.find? (·.1 == k)).map (·.2)

/-- every `case X: body = &T{}` of `knxnet.Unpack` names a type whose `Service()` returns `X` -/
theorem service_dispatch_consistent :
    (Gen.unpackDispatch.filter (·.1 != "default")).all
      (fun p => lookup p.2 Gen.serviceOf == some p.1) = true := by decide

/-- every `case X: body = &T{}` of `cemi.Unpack` names a type whose `MessageCode()` returns `X` -/
theorem message_dispatch_consistent :
    (Gen.cemiDispatch.filter (·.1 != "default")).all
      (fun p => lookup p.2 Gen.messageCodeOf == some p.1) = true := by decide

/-- the constants of the source are the constants of the model, and each is dispatched -/
theorem service_constants_match_model :
    Gen.serviceConsts =
      [("ConnReqService", ConnReqService.toNat), ("ConnResService", ConnResService.toNat),
       ("ConnStateReqService", ConnStateReqService.toNat),
       ("ConnStateResService", ConnStateResService.toNat),
       ("DescrReqService", DescrReqService.toNat), ("DescrResService", DescrResService.toNat),
       ("DiscReqService", DiscReqService.toNat), ("DiscResService", DiscResService.toNat),
       ("RoutingBusyService", RoutingBusyService.toNat),
       ("RoutingIndService", RoutingIndService.toNat),
       ("RoutingLostService", RoutingLostService.toNat),
       ("SearchReqService", SearchReqService.toNat), ("SearchResService", SearchResService.toNat),
       ("TunnelReqService", TunnelReqService.toNat), ("TunnelResService", TunnelResService.toNat)] := by decide

theorem message_codes_match_model :
    Gen.messageCodes =
      [("LBusmonIndCode", LBusmonIndCode.toNat), ("LDataConCode", LDataConCode.toNat),
       ("LDataIndCode", LDataIndCode.toNat), ("LDataReqCode", LDataReqCode.toNat),
       ("LRawConCode", LRawConCode.toNat), ("LRawIndCode", LRawIndCode.toNat),
       ("LRawReqCode", LRawReqCode.toNat)] := by decide

/-- the tables are emitted sorted by name (the order of declarations and of switch arms in the source
    carries no meaning) -/
theorem dispatch_tables_match_model :
    Gen.unpackDispatch.map (·.1) =
      ["ConnReqService", "ConnResService", "ConnStateReqService", "ConnStateResService",
       "DescrReqService", "DescrResService", "DiscReqService", "DiscResService",
       "RoutingBusyService", "RoutingIndService", "RoutingLostService", "SearchReqService",
       "SearchResService", "TunnelReqService", "TunnelResService", "default"] ∧
    Gen.cemiDispatch.map (·.1) =
      ["LBusmonIndCode", "LDataConCode", "LDataIndCode", "LDataReqCode", "LRawConCode",
       "LRawIndCode", "LRawReqCode", "default"] := by decide

/-! non-vacuity -/
example : (Service.tunnelReq 7 3 (.ldataInd (LData.mk [] 0xbc 0xe0 0x1101 0x0902
    (.app false 0 2 [0x01])))).okSimple = true := by decide
example : (Service.connRes 9 0 (HostInfo.mk 1 10 0 0 1 3671)).okSimple = true := by decide
example : (Service.descrRes ⟨⟨1, 2, 0, 0x1101, 0, [0, 1, 2, 3, 4, 5], [224, 0, 23, 12], [1, 2, 3, 4, 5, 6], [75, 78, 88]⟩,
    ⟨2, [(2, 1), (4, 1)]⟩, []⟩).ok = true := by decide
example : (Service.searchRes (HostInfo.mk 1 10 0 0 1 3671)
    ⟨1, 2, 0, 0x1101, 0, [0, 1, 2, 3, 4, 5], [224, 0, 23, 12], [1, 2, 3, 4, 5, 6], []⟩ ⟨2, []⟩).ok = true := by decide

end Props.C02
