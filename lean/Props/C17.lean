/-
  Props/C17.lean — C17: inbound telegrams reach the application in the order they were accepted.

  In the transition system `parked` is the queue of `pushInbound` goroutines blocked on the
  Inbound channel, in the order they blocked, and a read takes the head.  The theorem below is
  therefore conditional on the Go runtime waking blocked senders in the order in which they were
  *spawned* — which it does not guarantee (freshly spawned goroutines may reach the channel in any
  order).  The real-time part of this check observes the real scheduler; a reordering there is
  the recorded finding D17.
-/
import Knx.TunnelTrav
import Props.C04

namespace Props.C17
open Knx Knx.Tun

/-- reading `n` times -/
def readN (cfg : Cfg) (s : St) (t : Nat) : Nat → St × List Obs
  | 0 => (s, [])
  | n + 1 =>
    let r := applyIn cfg s t .read
    let r' := readN cfg r.1 t n
    (r'.1, r.2 ++ r'.2)

/-- whatever is parked comes out in queue order, each telegram once, then "nothing" -/
theorem reads_in_queue_order (cfg : Cfg) (t : Nat) :
    ∀ (q : List Nat) (s : St), s.parked = q →
      (readN cfg s t q.length).2 = q.map (fun p => Obs.got t (some p)) ∧
      (readN cfg s t q.length).1.parked = [] := by
  intro q
  induction q with
  | nil => intro s h; exact ⟨rfl, h⟩
  | cons p rest ih =>
    intro s h
    simp only [List.length_cons, readN, Props.C04.read_takes_oldest cfg s t p rest h, List.map_cons,
      List.cons_append, List.nil_append]
    have := ih { s with parked := rest } rfl
    exact ⟨by rw [this.1], this.2⟩

/-- end to end (under the queue-order hypothesis the model embodies): a burst of requests followed
    by enough reads yields exactly the accepted telegrams, in acceptance order -/
theorem burst_then_reads (cfg : Cfg) (hudp : cfg.tcp = false) (t : Nat) (fs : List (Byte × Byte × Nat))
    (s : St) (hb : Nat) (e : Byte) (hp : s.phase = .proc hb e) (hq : s.parked = []) :
    let s' := Props.C04.feed cfg s t fs
    (readN cfg s' t (Props.C04.accepted s.ch e fs).length).2 =
      (Props.C04.accepted s.ch e fs).map (fun p => Obs.got t (some p)) := by
  have h := (Props.C04.stream cfg hudp t fs s hb e hp).1
  rw [hq, List.nil_append] at h
  exact (reads_in_queue_order cfg t _ _ h).1

end Props.C17
