/-
  Props/C17.lean — C17: inbound telegrams reach the application in the order they were accepted.

  In the tunnel's transition system `parked` is the delivery queue and a read takes its head.
  That the queue of the code really is first-in first-out on EVERY interleaving of the serve
  loop, the draining goroutine and the application is the second half of this file
  (`Knx.IQ`, the model of knx/inbound.go as it is since fix dc79db5; before it every parked
  telegram had its own goroutine and bursts arrived permuted - found by this check's real-time
  stream, repaired, recorded as fixed).
-/
import Knx.TunnelTrav
import Knx.InboundQueue
import Props.C04

namespace Props.C17
open Knx Knx.Tun

/-- reading `n` times -/
def readN (cfg : Cfg) (s : St) (t : Nat) : Nat → St × List Obs
  | 0 => (s, [])
  | n + 1 =>
    let r := applyIn cfg s t .read
    let r' := readN cfg r.1 t n
    (r'.1, r.2 ++ r'.2)

/-- whatever is parked comes out in queue order, each telegram once, then "nothing" -/
theorem reads_in_queue_order (cfg : Cfg) (t : Nat) :
    ∀ (q : List Nat) (s : St), s.parked = q →
      (readN cfg s t q.length).2 = q.map (fun p => Obs.got t (some p)) ∧
      (readN cfg s t q.length).1.parked = [] := by
  intro q
  induction q with
  | nil => intro s h; exact ⟨rfl, h⟩
  | cons p rest ih =>
    intro s h
    simp only [List.length_cons, readN, Props.C04.read_takes_oldest cfg s t p rest h, List.map_cons,
      List.cons_append, List.nil_append]
    have := ih { s with parked := rest } rfl
    exact ⟨by rw [this.1], this.2⟩

/-- end to end (under the queue-order hypothesis the model embodies): a burst of requests followed
    by enough reads yields exactly the accepted telegrams, in acceptance order -/
theorem burst_then_reads (cfg : Cfg) (hudp : cfg.tcp = false) (t : Nat) (fs : List (Byte × Byte × Nat))
    (s : St) (hb : Nat) (e : Byte) (hp : s.phase = .proc hb e) (hq : s.parked = []) :
    let s' := Props.C04.feed cfg s t fs
    (readN cfg s' t (Props.C04.accepted s.ch e fs).length).2 =
      (Props.C04.accepted s.ch e fs).map (fun p => Obs.got t (some p)) := by
  have h := (Props.C04.stream cfg hudp t fs s hb e hp).1
  rw [hq, List.nil_append] at h
  exact (reads_in_queue_order cfg t _ _ h).1

/-! ### the queue of knx/inbound.go on every interleaving -/

namespace Queue
open Knx.IQ

theorem inv_init : Inv {} := ⟨rfl, fun _ => ⟨rfl, rfl⟩⟩

/-- every step of every party preserves the invariant -/
theorem inv_step (s : Knx.IQ.St) (l : Knx.IQ.Lbl) (h : Inv s) : Inv (Knx.IQ.step s l) := by
  obtain ⟨ho, hi⟩ := h
  cases l with
  | push m ready =>
    simp only [Knx.IQ.step]
    cases hd : s.draining with
    | false =>
      obtain ⟨hh, hp⟩ := hi hd
      cases ready with
      | true =>
        refine ⟨?_, fun _ => ⟨hh, hp⟩⟩
        simp only [Bool.not_false, ↓reduceIte, hh, hp, Option.toList_none, List.append_nil] at ho ⊢
        rw [← ho]
      | false =>
        refine ⟨?_, fun hc => by simp at hc⟩
        simp only [Bool.not_false, ↓reduceIte, Bool.false_eq_true, hh, hp, Option.toList_none, List.append_nil,
          List.nil_append] at ho ⊢
        rw [← ho]
    | true =>
      refine ⟨?_, fun hc => by simp [hd] at hc⟩
      simp only [Bool.not_true, Bool.false_eq_true, ↓reduceIte]
      rw [← ho]; simp only [List.append_assoc]
  | take =>
    simp only [Knx.IQ.step]
    split
    · rename_i hc
      simp only [Bool.and_eq_true, Option.isNone_iff_eq_none] at hc
      cases hp : s.pending with
      | nil =>
        simp only
        refine ⟨?_, fun _ => ⟨hc.2, rfl⟩⟩
        simpa [hp] using ho
      | cons m rest =>
        simp only
        refine ⟨?_, fun hcc => by simp [hc.1] at hcc⟩
        simp only [hc.2, hp, Option.toList_none, List.append_nil, Option.toList_some] at ho ⊢
        rw [← ho]; simp
    · exact ⟨ho, hi⟩
  | hand =>
    simp only [Knx.IQ.step]
    cases hh : s.holding with
    | none => simp only; exact ⟨by simpa [hh] using ho, fun hc => by simpa [hh] using hi hc⟩
    | some m =>
      refine ⟨?_, fun hc => ?_⟩
      · simp only [hh, Option.toList_some, Option.toList_none, List.append_nil] at ho ⊢
        rw [← ho]; try simp
      · have := (hi hc).1; rw [hh] at this; cases this

/-- **first in, first out, each once, on every interleaving**: whatever the order in which the
    serve loop pushes, the drainer takes and hands over and the application receives, what the
    application has received is a prefix of what was pushed - no telegram twice, none skipped,
    none out of order - and what is still on its way follows in the same order -/
theorem fifo (ls : List Knx.IQ.Lbl) :
    ∃ rest, (Knx.IQ.run {} ls).pushed = (Knx.IQ.run {} ls).delivered ++ rest ∧
      rest = (Knx.IQ.run {} ls).holding.toList ++ (Knx.IQ.run {} ls).pending := by
  have hinv : ∀ (ls : List Knx.IQ.Lbl) (s : Knx.IQ.St), Inv s → Inv (Knx.IQ.run s ls) := by
    intro ls
    induction ls with
    | nil => intro s h; exact h
    | cons l ls ih => intro s h; exact ih _ (inv_step s l h)
  have h := hinv ls {} inv_init
  exact ⟨_, by rw [← h.order, List.append_assoc], rfl⟩

/-- when the drainer has stopped everything pushed has been received, in order -/
theorem drained (ls : List Knx.IQ.Lbl) (h : (Knx.IQ.run {} ls).draining = false) :
    (Knx.IQ.run {} ls).delivered = (Knx.IQ.run {} ls).pushed := by
  have hinv : ∀ (ls : List Knx.IQ.Lbl) (s : Knx.IQ.St), Inv s → Inv (Knx.IQ.run s ls) := by
    intro ls
    induction ls with
    | nil => intro s h; exact h
    | cons l ls ih => intro s h; exact ih _ (inv_step s l h)
  have hi := hinv ls {} inv_init
  obtain ⟨hh, hp⟩ := hi.idle h
  have := hi.order
  rw [hh, hp] at this
  simpa using this

/-! non-vacuity: a burst while nobody receives, then the reads -/
example : (Knx.IQ.run {} [.push 0 true, .push 1 false, .push 2 false, .take, .push 3 false, .hand, .take, .hand,
    .take, .hand, .take, .hand, .take]).delivered = [0, 1, 2, 3] := by decide

end Queue

end Props.C17
