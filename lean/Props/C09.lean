/-
  Props/C09.lean — C09: heartbeat detects a dead or lost connection and reconnects cleanly.
  Step laws of the transition system of `Knx.Tunnel` (`process` / `serve` / `requestConn` /
  `performHeartbeat`), for every state and every frame.
-/
import Knx.TunnelTrav

namespace Props.C09
open Knx Knx.Tun

def sockOk (s : St) : Prop := s.sockOpen = true ∧ s.sockFail = false

theorem sockSend_ok (s : St) (t : Nat) (f : Fr) (h : sockOk s) : sockSend s t f = (true, [.tx t f]) := by
  simp [sockSend, h.1, h.2]

/-- which frames carry a channel, and which -/
def chanOf : Fr → Option Byte
  | .csres c _ | .dreq c | .dres c | .treq c _ _ | .tres c _ _ => some c
  | _ => none

/-- frames for a foreign channel never trigger anything: all five channel-carrying kinds leave the
    connected client's state unchanged and make it emit nothing -/
theorem foreign_channel_inert (cfg : Cfg) (s : St) (t hb : Nat) (e c : Byte) (f : Fr)
    (hp : s.phase = .proc hb e) (hc : chanOf f = some c) (hne : c ≠ s.ch) :
    onFrame cfg s t f = (s, []) := by
  cases f <;> simp only [chanOf, reduceCtorEq, Option.some.injEq] at hc <;> subst hc <;>
    simp [onFrame, hp, hne]

/-- the heartbeat tick (nothing else due): one connection-state request for the CURRENT channel,
    a worker that will repeat it every resend interval until the response timeout, next tick one
    heartbeat interval later -/
theorem heartbeat_emitted (cfg : Cfg) (s : St) (t hb : Nat) (e : Byte) (hp : s.phase = .proc hb e)
    (ha : s.acks.any (·.expiry ≤ t) = false) (hh : s.hbres = []) (hs : s.snd = none)
    (hw : splitDueWk t s.wks = none) (hdue : hb ≤ t) (hk : sockOk s) :
    fire cfg s t =
      ({ s with phase := .proc (hb + cfg.H) e,
                wks := s.wks ++ [{ ch := s.ch, nextTick := t + cfg.R, deadline := t + cfg.T }] },
       [.tx t (.csreq s.ch)]) := by
  unfold fire
  simp [ha, hh, hs, hw, hp, hdue, sockSend, hk.1, hk.2]

/-- a waiting heartbeat succeeds only on status 0: a response for the current channel with status
    0 just ends the worker; any other status ends process() and starts a reconnect -/
theorem heartbeat_answer (cfg : Cfg) (s : St) (t hb : Nat) (e st : Byte) (w : Wk) (rest : List Wk)
    (hp : s.phase = .proc hb e) (hw : s.wks = w :: rest) (hd : s.done = false) :
    onFrame cfg s t (.csres s.ch st) =
      if st = 0 then ({ s with wks := rest }, [])
      else procExit cfg { s with wks := rest } t true := by
  by_cases h0 : st = 0 <;> simp [onFrame, hp, hw, hd, wkResult, h0]

/-- a heartbeat that reaches its response timeout unanswered fails the same way -/
theorem heartbeat_timeout (cfg : Cfg) (s : St) (t hb : Nat) (e : Byte) (hp : s.phase = .proc hb e)
    (hd : s.done = false) : wkResult cfg s t false = procExit cfg s t true := by
  simp [wkResult, hp, hd]

/-- leaving process() for a reconnect: every heartbeat worker and parked status dies, one connect
    request goes out, resend ticks and the response timeout are armed -/
theorem reconnect_started (cfg : Cfg) (s : St) (t : Nat) (hk : sockOk s) :
    procExit cfg s t true =
      ({ s with wks := [], hbres := [], phase := .reconn (t + cfg.R) (t + cfg.T) }, [.tx t .creq]) := by
  simp [procExit, startReconn, sockSend, hk.1, hk.2]

/-- a disconnect request for the current channel is answered with a disconnect response and leads
    to the same reconnect -/
theorem disconnect_request (cfg : Cfg) (s : St) (t hb : Nat) (e : Byte) (hp : s.phase = .proc hb e)
    (hk : sockOk s) :
    onFrame cfg s t (.dreq s.ch) =
      ({ s with wks := [], hbres := [], phase := .reconn (t + cfg.R) (t + cfg.T) },
       [.tx t (.dres s.ch), .tx t .creq]) := by
  simp [onFrame, hp, sockSend_ok s t _ hk, reconnect_started cfg s t hk]

/-- a successful reconnect: the newly assigned channel is used from now on, both sequence counters
    restart at 0, the heartbeat interval restarts -/
theorem epoch_reset (cfg : Cfg) (s : St) (t a b : Nat) (ch' : Byte) (hp : s.phase = .reconn a b)
    (hs : s.snd = none) (hd : s.done = false) :
    onFrame cfg s t (.cres ch' 0) =
      ({ s with ch := ch', outSeq := 0, phase := .proc (t + cfg.H) 0 }, []) := by
  simp [onFrame, hp, hs, procEnter, hd]

/-- busy answers are tolerated; any other refusal terminates the tunnel -/
theorem reconnect_busy (cfg : Cfg) (s : St) (t a b : Nat) (ch' st : Byte) (hp : s.phase = .reconn a b)
    (hb : st = 0x24 ∨ st = 0x25) : onFrame cfg s t (.cres ch' st) = (s, []) := by
  rcases hb with rfl | rfl <;> simp [onFrame, hp, isBusy]

theorem reconnect_refused (cfg : Cfg) (s : St) (t a b : Nat) (ch' st : Byte) (hp : s.phase = .reconn a b)
    (h0 : st ≠ 0) (hb : isBusy st = false) : onFrame cfg s t (.cres ch' st) = serveExit s t := by
  have h0' : ¬ st = 0#8 := h0
  simp [onFrame, hp, h0', hb]

theorem reconnect_unanswered (cfg : Cfg) (s : St) (t a b : Nat) (hp : s.phase = .reconn a b)
    (ha : s.acks.any (·.expiry ≤ t) = false) (hh : s.hbres.any (·.expiry ≤ t) = false) (hs : s.snd = none)
    (hw : s.wks = []) (hdl : b ≤ t) : fire cfg s t = serveExit s t := by
  unfold fire
  simp [ha, hh, hs, hw, splitDueWk, hp, hdl]

/-- a disconnect response for the current channel terminates the tunnel -/
theorem disconnect_response (cfg : Cfg) (s : St) (t hb : Nat) (e : Byte) (hp : s.phase = .proc hb e) :
    onFrame cfg s t (.dres s.ch) = serveExit { s with wks := [], hbres := [] } t := by
  simp [onFrame, hp, procExit]

/-- termination: Inbound is closed (nothing parked survives), a pending Send fails, and every later
    Send fails — it never reports success -/
theorem terminated_state (s : St) (t : Nat) :
    (serveExit s t).1.phase = .dead ∧ (serveExit s t).1.parked = [] ∧ (serveExit s t).1.snd = none ∧
      (∀ x, s.snd = some x → .ret t x.pid .terminated ∈ (serveExit s t).2) := by
  unfold serveExit
  simp only
  split <;> (refine ⟨rfl, rfl, rfl, fun x hx => ?_⟩; simp [hx])

theorem send_after_termination (cfg : Cfg) (s : St) (t pid : Nat) (hp : s.phase = .dead) (hs : s.snd = none)
    (hudp : cfg.tcp = false) :
    ∀ o ∈ (applyIn cfg s t (.send pid)).2, o ≠ .ret t pid .ok := by
  simp only [applyIn, hs, hudp, Bool.false_eq_true, ↓reduceIte, hp]
  unfold sockSend
  split <;> simp

theorem read_after_termination (cfg : Cfg) (s : St) (t : Nat) (hp : s.phase = .dead) (hq : s.parked = []) :
    applyIn cfg s t .read = (s, [.gotClosed t]) := by
  simp [applyIn, hq, hp]

end Props.C09
