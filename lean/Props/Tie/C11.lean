/-
  Props/Tie/C11.lean - written by tools/source_tie.py, do not edit.

  Source tie of C11.  The model behind this property was written by hand against one particular text of
  the declarations in
    knx/cemi/ldata.go,
    knx/cemi/tpdu.go,
    knx/cemi/control.go,
    knx/cemi/cemi.go,
    knx/cemi/address.go.
  `Knx.Gen.Source` holds the fingerprints of every declaration of those files as they are in the working
  tree now (regenerated on every run), `Knx.Reviewed` the fingerprints of the text the model was reviewed
  against (`./check baseline`).  When this obligation no longer checks, code the model stands for was
  edited: the check then falls back to the recorded facts and runs the escalated search for a failing
  input (DESIGN.md 12.10).  A comment or layout change does not alter a fingerprint.
-/
import Knx.Gen.Source
import Knx.Reviewed

namespace Props.C11

theorem model_reviewed_against_source :
    [
     Knx.Gen.Source.knx_cemi_ldata, Knx.Gen.Source.knx_cemi_tpdu, Knx.Gen.Source.knx_cemi_control,
     Knx.Gen.Source.knx_cemi_cemi, Knx.Gen.Source.knx_cemi_address, Knx.Gen.Source.dir_knx_cemi
    ] = [
     Knx.Reviewed.knx_cemi_ldata, Knx.Reviewed.knx_cemi_tpdu, Knx.Reviewed.knx_cemi_control,
     Knx.Reviewed.knx_cemi_cemi, Knx.Reviewed.knx_cemi_address, Knx.Reviewed.dir_knx_cemi
    ] := by decide +kernel

end Props.C11
