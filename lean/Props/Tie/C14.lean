/-
  Props/Tie/C14.lean - written by tools/source_tie.py, do not edit.

  Source tie of C14.  The model behind this property was written by hand against one particular text of
  the declarations in
    knx/router.go,
    knx/inbound.go.
  `Knx.Gen.Source` holds the fingerprints of every declaration of those files as they are in the working
  tree now (regenerated on every run), `Knx.Reviewed` the fingerprints of the text the model was reviewed
  against (`./check baseline`).  When this obligation no longer checks, code the model stands for was
  edited: the check then falls back to the recorded facts and runs the escalated search for a failing
  input (DESIGN.md 12.10).  A comment or layout change does not alter a fingerprint.
-/
import Knx.Gen.Source
import Knx.Reviewed

namespace Props.C14

theorem model_reviewed_against_source :
    [
     Knx.Gen.Source.knx_router, Knx.Gen.Source.knx_inbound, Knx.Gen.Source.dir_knx
    ] = [
     Knx.Reviewed.knx_router, Knx.Reviewed.knx_inbound, Knx.Reviewed.dir_knx
    ] := by decide +kernel

end Props.C14
