/-
  Props/Tie/C01.lean - written by tools/source_tie.py, do not edit.

  Source tie of C01.  The model behind this property was written by hand against one particular text of
  the declarations in
    knx/knxnet/proto.go,
    knx/knxnet/control.go,
    knx/knxnet/dib.go,
    knx/knxnet/tunnel.go,
    knx/knxnet/router.go,
    knx/knxnet/hpai.go,
    knx/knxnet/search.go,
    knx/knxnet/description.go,
    knx/knxnet/socket.go,
    knx/cemi/cemi.go,
    knx/cemi/ldata.go,
    knx/cemi/tpdu.go,
    knx/cemi/lraw.go,
    knx/cemi/lbusmon.go,
    knx/util/unpack.go.
  `Knx.Gen.Source` holds the fingerprints of every declaration of those files as they are in the working
  tree now (regenerated on every run), `Knx.Reviewed` the fingerprints of the text the model was reviewed
  against (`./check baseline`).  When this obligation no longer checks, code the model stands for was
  edited: the check then falls back to the recorded facts and runs the escalated search for a failing
  input (DESIGN.md 12.10).  A comment or layout change does not alter a fingerprint.
-/
import Knx.Gen.Source
import Knx.Reviewed

namespace Props.C01

theorem model_reviewed_against_source :
    [
     Knx.Gen.Source.knx_knxnet_proto, Knx.Gen.Source.knx_knxnet_control, Knx.Gen.Source.knx_knxnet_dib,
     Knx.Gen.Source.knx_knxnet_tunnel, Knx.Gen.Source.knx_knxnet_router, Knx.Gen.Source.knx_knxnet_hpai,
     Knx.Gen.Source.knx_knxnet_search, Knx.Gen.Source.knx_knxnet_description,
     Knx.Gen.Source.knx_knxnet_socket, Knx.Gen.Source.knx_cemi_cemi, Knx.Gen.Source.knx_cemi_ldata,
     Knx.Gen.Source.knx_cemi_tpdu, Knx.Gen.Source.knx_cemi_lraw, Knx.Gen.Source.knx_cemi_lbusmon,
     Knx.Gen.Source.knx_util_unpack, Knx.Gen.Source.dir_knx_knxnet, Knx.Gen.Source.dir_knx_cemi,
     Knx.Gen.Source.dir_knx_util
    ] = [
     Knx.Reviewed.knx_knxnet_proto, Knx.Reviewed.knx_knxnet_control, Knx.Reviewed.knx_knxnet_dib,
     Knx.Reviewed.knx_knxnet_tunnel, Knx.Reviewed.knx_knxnet_router, Knx.Reviewed.knx_knxnet_hpai,
     Knx.Reviewed.knx_knxnet_search, Knx.Reviewed.knx_knxnet_description, Knx.Reviewed.knx_knxnet_socket,
     Knx.Reviewed.knx_cemi_cemi, Knx.Reviewed.knx_cemi_ldata, Knx.Reviewed.knx_cemi_tpdu,
     Knx.Reviewed.knx_cemi_lraw, Knx.Reviewed.knx_cemi_lbusmon, Knx.Reviewed.knx_util_unpack,
     Knx.Reviewed.dir_knx_knxnet, Knx.Reviewed.dir_knx_cemi, Knx.Reviewed.dir_knx_util
    ] := by decide +kernel

end Props.C01
