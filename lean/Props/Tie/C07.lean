/-
  Props/Tie/C07.lean - written by tools/source_tie.py, do not edit.

  Source tie of C07.  The model behind this property was written by hand against one particular text of
  the declarations in
    knx/dpt/formats.go,
    knx/dpt/types_5.go,
    knx/dpt/types_8.go,
    knx/dpt/types_9.go,
    knx/dpt/types_10.go,
    knx/dpt/types_11.go,
    knx/dpt/types_16.go,
    knx/dpt/types_17.go,
    knx/dpt/types_18.go,
    knx/dpt/types_28.go.
  `Knx.Gen.Source` holds the fingerprints of every declaration of those files as they are in the working
  tree now (regenerated on every run), `Knx.Reviewed` the fingerprints of the text the model was reviewed
  against (`./check baseline`).  When this obligation no longer checks, code the model stands for was
  edited: the check then falls back to the recorded facts and runs the escalated search for a failing
  input (DESIGN.md 12.10).  A comment or layout change does not alter a fingerprint.
-/
import Knx.Gen.Source
import Knx.Reviewed

namespace Props.C07

theorem model_reviewed_against_source :
    [
     Knx.Gen.Source.knx_dpt_formats, Knx.Gen.Source.knx_dpt_types_5, Knx.Gen.Source.knx_dpt_types_8,
     Knx.Gen.Source.knx_dpt_types_9, Knx.Gen.Source.knx_dpt_types_10, Knx.Gen.Source.knx_dpt_types_11,
     Knx.Gen.Source.knx_dpt_types_16, Knx.Gen.Source.knx_dpt_types_17, Knx.Gen.Source.knx_dpt_types_18,
     Knx.Gen.Source.knx_dpt_types_28, Knx.Gen.Source.dir_knx_dpt
    ] = [
     Knx.Reviewed.knx_dpt_formats, Knx.Reviewed.knx_dpt_types_5, Knx.Reviewed.knx_dpt_types_8,
     Knx.Reviewed.knx_dpt_types_9, Knx.Reviewed.knx_dpt_types_10, Knx.Reviewed.knx_dpt_types_11,
     Knx.Reviewed.knx_dpt_types_16, Knx.Reviewed.knx_dpt_types_17, Knx.Reviewed.knx_dpt_types_18,
     Knx.Reviewed.knx_dpt_types_28, Knx.Reviewed.dir_knx_dpt
    ] := by decide +kernel

end Props.C07
