/-
  Props/Tie/C20.lean - written by tools/source_tie.py, do not edit.

  Source tie of C20.  The model behind this property was written by hand against one particular text of
  the declarations in
    knx/describe.go,
    knx/discover.go,
    knx/knxnet/search.go,
    knx/knxnet/description.go,
    knx/knxnet/hpai.go,
    knx/knxnet/socket.go.
  `Knx.Gen.Source` holds the fingerprints of every declaration of those files as they are in the working
  tree now (regenerated on every run), `Knx.Reviewed` the fingerprints of the text the model was reviewed
  against (`./check baseline`).  When this obligation no longer checks, code the model stands for was
  edited: the check then falls back to the recorded facts and runs the escalated search for a failing
  input (DESIGN.md 12.10).  A comment or layout change does not alter a fingerprint.
-/
import Knx.Gen.Source
import Knx.Reviewed

namespace Props.C20

theorem model_reviewed_against_source :
    [
     Knx.Gen.Source.knx_describe, Knx.Gen.Source.knx_discover, Knx.Gen.Source.knx_knxnet_search,
     Knx.Gen.Source.knx_knxnet_description, Knx.Gen.Source.knx_knxnet_hpai,
     Knx.Gen.Source.knx_knxnet_socket, Knx.Gen.Source.dir_knx, Knx.Gen.Source.dir_knx_knxnet
    ] = [
     Knx.Reviewed.knx_describe, Knx.Reviewed.knx_discover, Knx.Reviewed.knx_knxnet_search,
     Knx.Reviewed.knx_knxnet_description, Knx.Reviewed.knx_knxnet_hpai, Knx.Reviewed.knx_knxnet_socket,
     Knx.Reviewed.dir_knx, Knx.Reviewed.dir_knx_knxnet
    ] := by decide +kernel

end Props.C20
