/-
  Props/C20.lean — C20: describe / discover calls are time-bounded and return only matching
  responses.

  `Knx.Sock.describe` / `discover` are `knx.DescribeTunnel` / `knx.Discover` as functions of the
  arrival history (which datagram reaches the call's socket how many ms after the request): the
  socket's receiver decodes every datagram (reused array, C16), the call's loop selects between
  the receiver's channel and ONE timer armed before the loop.  Real time, the kernel's UDP stack
  and the scheduler are exercised by the loopback correspondence, not modelled.
-/
import Knx.Sock
import Props.C16

namespace Props.C20
open Knx Knx.Sock

/-- the services a history surfaces are the datagrams that arrive before the timeout, each
    decoded on its own (what earlier datagrams left in the receiver's array is irrelevant) -/
theorem surfaced_eq (T : Nat) (arr : List Arrival) :
    surfaced T arr =
      ((arr.filter (·.t < T)).map (·.data)).filterMap (fun d => if d.isEmpty then none else decodeFrame d) :=
  Props.C16.udp_each_once_in_order _ _

/-! ### time bound -/

/-- **time-bounded, whatever arrives**: the describe call returns at its timeout at the latest —
    for every arrival history, including floods of other frames and malformed datagrams -/
theorem describe_returns_by_timeout (T : Nat) (arr : List Arrival) : describeReturns T arr ≤ T := by
  unfold describeReturns
  split
  · rename_i a h
    have := List.mem_of_find?_eq_some h
    simp only [List.mem_filter, decide_eq_true_eq] at this
    omega
  · exact Nat.le_refl _

theorem discover_returns_at_timeout (T : Nat) (arr : List Arrival) : discoverReturns T arr = T := rfl

/-- nothing that arrives at or after the timeout has any influence on the result -/
theorem late_arrivals_ignored (T : Nat) (arr late : List Arrival) (h : ∀ a ∈ late, T ≤ a.t) :
    describe T (arr ++ late) = describe T arr ∧ discover T (arr ++ late) = discover T arr := by
  have : (arr ++ late).filter (·.t < T) = arr.filter (·.t < T) := by
    rw [List.filter_append]
    have : late.filter (·.t < T) = [] := by
      rw [List.filter_eq_nil_iff]
      intro a ha
      have := h a ha
      simp only [decide_eq_true_eq]; omega
    rw [this, List.append_nil]
  unfold describe discover surfaced
  rw [this]
  exact ⟨rfl, rfl⟩

/-! ### only matching responses -/

/-- a describe result is a description response, decoded from a datagram that arrived before the
    timeout, and no datagram before it decoded to a description response: the FIRST one -/
theorem describe_is_first_match (T : Nat) (arr : List Arrival) (v : Service)
    (h : describe T arr = some v) :
    isDescrRes v = true ∧
    ∃ pre post, surfaced T arr = pre ++ v :: post ∧ ∀ w ∈ pre, isDescrRes w = false := by
  unfold describe at h
  refine ⟨List.find?_some h, ?_⟩
  obtain ⟨pre, post, heq, hpre⟩ := List.find?_eq_some_iff_append.mp h |>.2
  exact ⟨pre, post, heq, fun w hw => by simpa using hpre w hw⟩

/-- no result means no description response arrived in time -/
theorem describe_none_iff (T : Nat) (arr : List Arrival) :
    describe T arr = none ↔ ∀ w ∈ surfaced T arr, isDescrRes w = false := by
  unfold describe
  rw [List.find?_eq_none]
  constructor <;> intro h w hw <;> simpa using h w hw

/-- frames of other types (and datagrams that do not decode) can be removed from, or added to,
    the history without changing either result: "whatever else arrives on the socket" -/
theorem describe_ignores_others (T : Nat) (arr : List Arrival) :
    describe T arr = ((surfaced T arr).filter isDescrRes).head? := by
  unfold describe
  exact (List.head?_filter ..).symm

/-- **discovery returns exactly the search responses received until the timeout, each once and in
    arrival order**: the result is the subsequence of the surfaced services that are search
    responses — nothing else, nothing dropped, nothing twice, order kept -/
theorem discover_exact (T : Nat) (arr : List Arrival) :
    discover T arr = (surfaced T arr).filter isSearchRes ∧
    (discover T arr).Sublist (surfaced T arr) ∧
    (∀ v ∈ discover T arr, isSearchRes v = true) ∧
    (∀ v, isSearchRes v = true → (discover T arr).count v = (surfaced T arr).count v) := by
  refine ⟨rfl, List.filter_sublist, fun v hv => (List.mem_filter.mp hv).2, fun v hv => ?_⟩
  unfold discover
  rw [List.count_filter hv]

/-- discovery distributes over the history: what one more arrival adds is that arrival's search
    response, at the end -/
theorem discover_snoc (T : Nat) (arr : List Arrival) (a : Arrival) :
    discover T (arr ++ [a]) =
      discover T arr ++
        (if a.t < T then
          ((if a.data.isEmpty then none else decodeFrame a.data).toList.filter isSearchRes) else []) := by
  unfold discover
  rw [surfaced_eq, surfaced_eq, List.filter_append, List.map_append, List.filterMap_append, List.filter_append]
  congr 1
  by_cases h : a.t < T
  · simp only [h, decide_true, List.filter_cons_of_pos, List.filter_nil, List.map_cons, List.map_nil, ↓reduceIte]
    simp only [List.filterMap_cons, List.filterMap_nil]
    cases hd : (if a.data.isEmpty then none else decodeFrame a.data) <;> simp [hd]
  · simp [h]

/-! ### non-vacuity: a concrete history -/

def dRes : List Byte :=
  [6, 16, 2, 4, 0, 0x3e, 0x36, 1, 2, 0, 0x11, 0x01, 0, 0, 0, 0, 0, 0, 0, 0, 224, 0, 23, 12, 0, 0, 0, 0, 0, 0,
   0x41, 0, 0, 0, 0, 0, 0, 0, 0, 0, 0, 0, 0, 0, 0, 0, 0, 0, 0, 0, 0, 0, 0, 0, 0, 0, 0, 0, 0, 0, 2, 2]

def hist : List Arrival :=
  [⟨3, [6, 16, 2, 8, 0, 8, 250, 0]⟩, ⟨5, [1, 2, 3]⟩, ⟨9, dRes⟩, ⟨12, dRes⟩, ⟨700, dRes⟩]

example : (describe 100 hist).isSome = true ∧ describeReturns 100 hist = 9 := by decide +kernel
example : describe 8 hist = none ∧ describeReturns 8 hist = 8 := by decide +kernel
example : discover 100 hist = [] := by decide +kernel

end Props.C20
