/-
  Props/C10.lean — C10: Close always ends the tunnel.

  Proved on the transition system (every label sequence): Close is idempotent and never undone;
  the disconnect request is sent by the first Close only; Close returns at once when process() is
  running, and at the latest when the reconnect attempt in progress ends (its response timeout);
  after Close has returned the socket is closed, Inbound is closed and Send fails.
  PARTIAL (Go-runtime facts no executable model exhibits): freedom from data races and the exit
  of every goroutine are checked by the harness (synctest's leak detection on every script, the
  race detector in the thorough tier), not proved.
-/
import Knx.TunnelTrav
import Knx.CloseOnce
import Knx.Gen.Client

namespace Props.C10
open Knx Knx.Tun

def sockOk (s : St) : Prop := s.sockOpen = true ∧ s.sockFail = false

/-- first Close while process() runs: one disconnect request for the current channel, serve()
    exits in the same instant, Close returns, socket closed, Inbound closed, pending Send fails -/
theorem close_while_connected (cfg : Cfg) (s : St) (t hb : Nat) (e : Byte) (hp : s.phase = .proc hb e)
    (hd : s.done = false) (hc : s.closeDone = false) (hk : sockOk s) :
    (applyIn cfg s t .close).1.closeDone = true ∧ (applyIn cfg s t .close).1.sockOpen = false ∧
    (applyIn cfg s t .close).1.phase = .dead ∧ (applyIn cfg s t .close).1.parked = [] ∧
    (applyIn cfg s t .close).1.snd = none ∧
    Obs.tx t (.dreq s.ch) ∈ (applyIn cfg s t .close).2 ∧ Obs.closed t ∈ (applyIn cfg s t .close).2 := by
  simp [applyIn, hd, hc, hp, sockSend, hk.1, hk.2, procExit, serveExit]

/-- Close during a reconnect attempt: the request is sent, `done` is set, and Close waits -/
theorem close_while_reconnecting (cfg : Cfg) (s : St) (t a b : Nat) (hp : s.phase = .reconn a b)
    (hd : s.done = false) (hc : s.closeDone = false) :
    (applyIn cfg s t .close).1.done = true ∧ (applyIn cfg s t .close).1.closers = 1 ∧
    (applyIn cfg s t .close).1.phase = .reconn a b := by
  simp [applyIn, hd, hc, hp]

/-- … until the attempt ends: at its response timeout serve() exits and every waiting Close returns -/
theorem waiting_close_returns_at_deadline (cfg : Cfg) (s : St) (t a b : Nat) (hp : s.phase = .reconn a b)
    (ha : s.acks.any (·.expiry ≤ t) = false) (hh : s.hbres.any (·.expiry ≤ t) = false) (hs : s.snd = none)
    (hw : s.wks = []) (hdl : b ≤ t) (hc : s.closers > 0) :
    (fire cfg s t).1.closeDone = true ∧ (fire cfg s t).1.sockOpen = false ∧ Obs.closed t ∈ (fire cfg s t).2 := by
  unfold fire
  simp only [ha, hh, hs, hw, splitDueWk, hp, hdl, Bool.false_eq_true, ↓reduceIte, serveExit, hc]
  refine ⟨trivial, trivial, ?_⟩
  have : s.closers = (s.closers - 1) + 1 := by omega
  rw [this, List.replicate_succ]; simp

/-- … or, when the reconnect succeeds, process() is entered, sees `done` and exits at once -/
theorem waiting_close_returns_on_reconnect (cfg : Cfg) (s : St) (t : Nat) (hd : s.done = true)
    (hc : s.closers > 0) :
    (procEnter cfg s t).1.closeDone = true ∧ (procEnter cfg s t).1.phase = .dead ∧
      Obs.closed t ∈ (procEnter cfg s t).2 := by
  simp only [procEnter, hd, ↓reduceIte, serveExit, hc]
  refine ⟨trivial, trivial, ?_⟩
  have : s.closers = (s.closers - 1) + 1 := by omega
  rw [this, List.replicate_succ]; simp

/-- Close is idempotent: after it has returned once, any further Close returns at once, sends
    nothing and changes nothing -/
theorem close_idempotent (cfg : Cfg) (s : St) (t : Nat) (h : s.closeDone = true) :
    applyIn cfg s t .close = (s, [.closed t]) := by
  simp [applyIn, h]

/-- at most one disconnect request: only a Close that finds `done` unset transmits one, and it sets
    `done`, which is never cleared (`done_monotone`, every label) -/
theorem later_close_sends_nothing (cfg : Cfg) (s : St) (t : Nat) (h : s.done = true) :
    ∀ o ∈ (applyIn cfg s t .close).2, isTx o = false := by
  simp only [applyIn]
  split
  · simp [isTx]
  · simp [h, isTx]

theorem done_never_cleared (cfg : Cfg) (s : St) (ls : List Lbl) (h : s.done = true) :
    (runL cfg s ls).1.done = true := by
  induction ls generalizing s with
  | nil => exact h
  | cons l ls ih => simp only [runL]; exact ih _ (done_monotone cfg s l h)

/-- after Close has returned: Send returns an error at once (it never blocks, never succeeds) -/
theorem send_after_close (cfg : Cfg) (s : St) (t pid : Nat) (hs : s.snd = none) (hk : s.sockOpen = false) :
    applyIn cfg s t (.send pid) = (s, [.ret t pid .sockerr]) := by
  simp [applyIn, hs, hk]

/-- … and Inbound is closed -/
theorem inbound_closed_after_close (cfg : Cfg) (s : St) (t : Nat) (hp : s.phase = .dead) (hq : s.parked = []) :
    applyIn cfg s t .read = (s, [.gotClosed t]) := by
  simp [applyIn, hq, hp]

/-- no model process survives termination: no pending Send, no parked acknowledgement or delivery,
    no heartbeat worker -/
theorem nothing_survives (s : St) (t : Nat) :
    let s' := (serveExit s t).1
    s'.snd = none ∧ s'.acks = [] ∧ s'.parked = [] ∧ s'.wks = [] ∧ s'.hbres = [] := by
  unfold serveExit
  simp only
  split <;> exact ⟨rfl, rfl, rfl, rfl, rfl⟩

/-! ### 1..n goroutines calling Close at the same time (every interleaving)

  `Knx.Once` models Close as `once.Do(body)` with the body's four statements as separate steps and one
  program counter per closer; a schedule is ANY list of goroutine numbers.  (The virtual-time harness
  cannot drive goroutines that block on sync.Once; these theorems cover them, the real-time streams
  C10rt / C10live observe the real code.) -/
namespace Closers
open Knx.Once

/-- however many goroutines call Close and however they interleave: at most one disconnect request -/
theorem at_most_one_disconnect (n : Nat) (sched : List Nat) : (run (init n) sched).dreqs ≤ 1 := by
  have h := (inv_run sched _ (inv_init n)).dreqs
  rw [h]; split <;> omega

/-- as soon as ANY Close call has returned, exactly one disconnect request has been sent, `done` is
    closed, the serve goroutine has been joined and the socket is closed - also for the callers that
    only waited for the first one -/
theorem returned_means_closed (n : Nat) (sched : List Nat) (i : Nat)
    (h : (run (init n) sched).pcs[i]? = some Pc.returned) :
    let s := run (init n) sched
    s.dreqs = 1 ∧ s.doneClosed = true ∧ s.joined = true ∧ s.sockClosed = true := by
  have inv := inv_run sched _ (inv_init n)
  have hd := inv.ret i h
  refine ⟨?_, ?_, ?_, ?_⟩
  · rw [inv.dreqs, hd]; rfl
  · rw [inv.doneC, hd]; rfl
  · rw [inv.joined, hd]; rfl
  · rw [inv.sock, hd]; rfl

/-- Close never deadlocks: in every reachable state either all callers have returned or some caller
    can take a step that changes the state -/
theorem closers_never_deadlock (n : Nat) (hn : n > 0) (sched : List Nat) :
    let s := run (init n) sched
    (∀ (i : Nat) (pc : Pc), s.pcs[i]? = some pc → pc = Pc.returned) ∨ ∃ i, i < n ∧ step s i ≠ s := by
  have inv := inv_run sched _ (inv_init n)
  have hl : (run (init n) sched).pcs.length = n := by rw [run_length]; simp [Once.init]
  have hne : (run (init n) sched).pcs ≠ [] := by
    intro e; rw [e] at hl; simp at hl; omega
  rcases no_deadlock _ inv hne with h | ⟨i, hi, hs⟩
  · exact Or.inl h
  · exact Or.inr ⟨i, by omega, hs⟩

/-- ... and every step that changes the state lowers a measure that starts at 2n+4: all Close calls
    have returned after at most 2n+4 effective steps, whatever the schedule -/
theorem closers_make_progress (n : Nat) (sched : List Nat) (i : Nat) :
    let s := run (init n) sched
    step s i = s ∨ measure (step s i) < measure s :=
  step_progress _ i (inv_run sched _ (inv_init n))

theorem measure_init (n : Nat) : measure (init n) = 2 * n + 4 := by
  simp only [Once.measure, Once.init, progressOf]
  induction n with
  | zero => rfl
  | succ k ih =>
    simp only [List.replicate_succ, List.map_cons, List.sum_cons, rank] at ih ⊢
    omega

/-- non-vacuity: three closers, one schedule in which the second and third arrive while the first is
    inside the body: all return, one disconnect request -/
example : (run (init 3) [0, 1, 0, 2, 0, 0, 0, 1, 2]).pcs = [.returned, .returned, .returned]
    ∧ (run (init 3) [0, 1, 0, 2, 0, 0, 0, 1, 2]).dreqs = 1 := by decide

end Closers

/-! ### The shutdown path as it stands in the source

`Knx.Gen.tunnelExit` and `Knx.Gen.tunnelCloseBody` are regenerated from knx/tunnel.go on every run
(extract/client.go): the statements the worker executes when it ends and the statements of the first
`Close`, in execution order.  The closers model above takes `joined` ("wait.Wait() returned") to mean
"the worker has ended and has closed Inbound and ack"; that reading is sound only if the worker's
`wait.Done()` comes after both `close` calls - before fix f8aa47d it came first (deferred last, run
first) and `Close` could return with `Inbound` still open. -/
namespace Shutdown
open Knx

/-- after the first `k` statements: `a` executed implies `b` executed -/
def impliesAt (l : List String) (a b : String) (k : Nat) : Bool :=
  !(l.take k).contains a || (l.take k).contains b

/-- at every point of the execution `a` executed implies `b` executed -/
def always (l : List String) (a b : String) : Bool :=
  (List.range (l.length + 1)).all (impliesAt l a b)

/-- at every point of the worker's exit: if `wait.Done()` has run - so that `Close` may return - then
    Inbound has been closed -/
theorem inbound_closed_before_close_is_released :
    always Gen.tunnelExit "done" "close inbound" = true := by decide

/-- ... and the acknowledgement channel too (pending and later Sends fail) -/
theorem ack_closed_before_close_is_released :
    always Gen.tunnelExit "done" "close ack" = true := by decide

/-- the worker releases Close, and does each of the three things once (a second close or a second
    Done panics) -/
theorem worker_exit_each_once :
    Gen.tunnelExit.count "done" = 1 ∧ Gen.tunnelExit.count "close inbound" = 1
      ∧ Gen.tunnelExit.count "close ack" = 1 := by decide

/-- Close tells the worker to stop before it waits for it (else it waits forever) -/
theorem close_signals_before_it_waits :
    always Gen.tunnelCloseBody "wait" "close done" = true := by decide

/-- the disconnect request is handed to the socket before the socket is closed -/
theorem disconnect_requested_before_socket_closed :
    always Gen.tunnelCloseBody "sock.Close" "requestDisc" = true := by decide

/-- the four statements the closers model steps through (`Knx.Once.step`, k = 0..3) are all there,
    once each -/
theorem close_body_each_once :
    Gen.tunnelCloseBody.count "requestDisc" = 1 ∧ Gen.tunnelCloseBody.count "close done" = 1
      ∧ Gen.tunnelCloseBody.count "wait" = 1 ∧ Gen.tunnelCloseBody.count "sock.Close" = 1 := by decide

/-- the order before fix f8aa47d does not pass: `always` is not vacuous -/
example : always ["done", "close inbound", "close ack"] "done" "close inbound" = false := by decide

end Shutdown


end Props.C10
