/-
  Props/C15.lean — C15: encoders write exactly the size they report.

  `size*` transliterate the Go `Size()` methods, `enc*` what the `Pack` methods write
  (`Knx.Enc`).  The theorems hold for *every* value, including oversize variable parts of any
  length: no encodability hypothesis.
  (Prefill-independence and "no byte beyond the size is touched" are facts about writing into an
  existing buffer; they are decided by this check's correspondence/oracle run with three
  prefills and guard bytes — the Lean statement for them, over a buffer-writing model, is
  `_partial` work in progress.)
-/
import Knx.Enc
import Knx.Buf

namespace Props.C15
open Knx

theorem info_size (info : List Byte) : (encInfo info).length = sizeInfo info := by
  unfold encInfo sizeInfo
  split
  · simp only [List.length_cons, List.length_take]; omega
  · simp only [List.length_cons]; omega

theorem tpdu_size (t : TPDU) : (encTPDU t).length = sizeTPDU t := by
  cases t with
  | ctl n s c => rfl
  | app n s c data =>
    simp only [encTPDU, sizeTPDU]
    have hl : (data.take (appDataLength data)).length = min (appDataLength data) data.length :=
      List.length_take
    have hdl : appDataLength data = if data.length > 255 then 255 else if data.length < 1 then 1
        else data.length := rfl
    rcases hd : data.take (appDataLength data) with _ | ⟨d0, ds⟩
    · rw [hd] at hl
      simp only [List.length_nil, List.length_cons] at hl ⊢
      by_cases h1 : data.length > 255
      · rw [if_pos h1] at hdl; omega
      · rw [if_neg h1] at hdl
        by_cases h2 : data.length < 1
        · rw [if_pos h2] at hdl; omega
        · rw [if_neg h2] at hdl; omega
    · rw [hd] at hl
      simp only [List.length_cons] at hl ⊢
      by_cases h1 : data.length > 255
      · rw [if_pos h1] at hdl; omega
      · rw [if_neg h1] at hdl
        by_cases h2 : data.length < 1
        · rw [if_pos h2] at hdl; omega
        · rw [if_neg h2] at hdl; omega

theorem ldata_size (l : LData) : (encLData l).length = sizeLData l := by
  simp only [encLData, sizeLData, List.length_append, info_size, tpdu_size, encU16,
    List.length_cons, List.length_nil]

theorem cemi_size (m : Cemi) : (encCemi m).length = sizeCemi m := by
  cases m <;> simp [encCemi, sizeCemi, encCemiBody, sizeCemiBody, ldata_size] <;> omega

theorem name_size (n : List Nat) : (encName n).length = 30 := by
  unfold encName
  split
  · simp only
    split
    · simp only [List.length_append, List.length_take, List.length_map, List.length_cons,
        List.length_nil] at *
      omega
    · simp only [List.length_append, List.length_map, List.length_replicate] at *
      omega
  · simp

theorem fit_size (n : Nat) (l : List Byte) : (fit n l).length = n := by
  simp only [fit, List.length_append, List.length_take, List.length_replicate]; omega

theorem devinfo_size (d : DevInfo) : (encDevInfo d).length = 54 := by
  simp [encDevInfo, encU16, fit_size, name_size]

theorem flatMap_pair_length (l : List (Byte × Byte)) :
    (l.flatMap (fun f => [f.1, f.2])).length = 2 * l.length := by
  induction l with
  | nil => rfl
  | cons a t ih => simp only [List.flatMap_cons, List.length_append, ih, List.length_cons,
      List.length_nil]; omega

theorem svcdib_size (d : SvcDIB) : (encSvcDIB d).length = sizeSvcDIB d := by
  simp only [encSvcDIB, sizeSvcDIB, List.length_append, List.length_cons, List.length_nil,
    flatMap_pair_length]

theorem hostinfo_size (h : HostInfo) : (encHostInfo h).length = 8 := rfl

/-! ### Writing into an existing buffer (Knx.Buf: the `Pack` procedures statement by statement)

  `Writes p e`: for EVERY buffer with room for `e` - whatever it held before - procedure `p` does not
  panic, leaves exactly `e` at the front and does not touch a byte behind it. -/
section buffer
open Knx.Buf

theorem info_buffer (info : List Byte) : Writes (packInfo info) (encInfo info) := by
  intro b hb
  unfold packInfo encInfo at *
  cases b with
  | nil => split at hb <;> simp at hb
  | cons b0 t =>
    by_cases h : info.length > 255
    · simp only [h, if_true, List.length_cons, List.length_take] at hb ⊢
      have ht : min 255 info.length ≤ t.length := by omega
      simp [seq, setAt, sub, copyTo, List.take_of_length_le (l := List.take 255 info) (by simp; omega)]
    · simp only [h, if_false, List.length_cons] at hb ⊢
      have ht : info.length ≤ t.length := by omega
      have hl : List.take info.length info = info := List.take_length
      simp [seq, setAt, sub, copyTo, hl, List.take_of_length_le ht]

theorem tpci_or_zero (x : Byte) : x ||| 0 = x := by simp

theorem two_le (b : Buf) (h : 2 ≤ b.length) : ∃ b0 b1 rest, b = b0 :: b1 :: rest := by
  match b, h with
  | b0 :: b1 :: rest, _ => exact ⟨b0, b1, rest, rfl⟩

theorem three_le (b : Buf) (h : 3 ≤ b.length) : ∃ b0 b1 b2 rest, b = b0 :: b1 :: b2 :: rest := by
  match b, h with
  | b0 :: b1 :: b2 :: rest, _ => exact ⟨b0, b1, b2, rest, rfl⟩

theorem tpdu_buffer (t : TPDU) : Writes (packTPDU t) (encTPDU t) := by
  intro b hb
  cases t with
  | ctl numbered sq cmd =>
    obtain ⟨b0, b1, rest, rfl⟩ := two_le b hb
    cases numbered <;> simp [packTPDU, encTPDU, tpciOr, tpciBits, seq, setAt, modAt]
  | app numbered sq cmd data =>
    have hsz := tpdu_size (.app numbered sq cmd data)
    rw [hsz] at hb
    simp only [sizeTPDU] at hb
    simp only [packTPDU, encTPDU]
    have hdl : 1 ≤ appDataLength data := by unfold appDataLength; split <;> (try split) <;> omega
    have hsrc : (if data.length > appDataLength data then data.take (appDataLength data) else data)
        = data.take (appDataLength data) := by
      split
      · rfl
      · exact (List.take_of_length_le (by omega)).symm
    have hlen : (data.take (appDataLength data)).length ≤ appDataLength data := by
      simp [List.length_take]; omega
    have hone : data.take (appDataLength data) = [] → appDataLength data = 1 := by
      intro hd
      rcases data with _ | ⟨x, xs⟩
      · rfl
      · rw [List.take_cons (by omega)] at hd; cases hd
    rw [hsrc]
    generalize appDataLength data = dl at *
    obtain ⟨b0, b1, b2, rest, rfl⟩ := three_le b (by omega)
    simp only [List.length_cons] at hb
    rcases hd : data.take dl with _ | ⟨d0, ds⟩
    · have h1 := hone hd
      subst h1
      cases numbered <;>
        simp [tpciOr, tpciBits, seq, setAt, modAt, sub, copyTo]
    · have hds : ds.length ≤ rest.length := by
        rw [hd] at hlen
        simp only [List.length_cons] at hlen; omega
      cases numbered <;>
        simp [tpciOr, tpciBits, seq, setAt, modAt, sub, copyTo, List.take_of_length_le hds]

theorem ldata_buffer (l : LData) : Writes (packLData l) (encLData l) := by
  have h : AllWrite
      [iPk (packInfo l.info) (sizeInfo l.info), iU8 l.ctrl1, iU8 l.ctrl2, iU16 l.src, iU16 l.dst,
       iPk (packTPDU l.tpdu) (sizeTPDU l.tpdu)]
      [encInfo l.info, [l.ctrl1], [l.ctrl2], encU16 l.src, encU16 l.dst, encTPDU l.tpdu] :=
    .cons (.pk (info_buffer _) (info_size _)) (.cons (.u8 _) (.cons (.u8 _) (.cons (.u16 _) (.cons (.u16 _)
      (.cons (.pk (tpdu_buffer _) (tpdu_size _)) .nil)))))
  exact (Writes.some h).congr (by simp [encLData])

theorem cemi_body_buffer (m : Cemi) : Writes (packCemiBody m) (encCemiBody m) := by
  cases m <;> first | exact ldata_buffer _ | exact Writes.copy _

theorem cemi_body_size (m : Cemi) : (encCemiBody m).length = sizeCemiBody m := by
  cases m <;> simp [encCemiBody, sizeCemiBody, ldata_size]

theorem cemi_buffer (m : Cemi) : Writes (packCemi m) (encCemi m) := by
  have h : AllWrite [iU8 m.code, iPk (packCemiBody m) (sizeCemiBody m)] [[m.code], encCemiBody m] :=
    .cons (.u8 _) (.cons (.pk (cemi_body_buffer m) (cemi_body_size m)) .nil)
  exact (Writes.some h).congr (by simp [encCemi])

theorem hostinfo_buffer (h : HostInfo) : Writes (packHostInfo h) (encHostInfo h) := by
  have hw : AllWrite [iU8 8, iU8 h.proto, iBytes [h.a0, h.a1, h.a2, h.a3], iU16 h.port]
      [[8], [h.proto], [h.a0, h.a1, h.a2, h.a3], encU16 h.port] :=
    .cons (.u8 _) (.cons (.u8 _) (.cons (.bytes _) (.cons (.u16 _) .nil)))
  exact (Writes.some hw).congr (by simp [encHostInfo])

theorem devinfo_buffer (d : DevInfo) : Writes (packDevInfo d) (encDevInfo d) := by
  have hw : AllWrite
      [iU8 54, iU8 d.ty, iU8 d.medium, iU8 d.status, iU16 d.source, iU16 d.project,
       iBytes (fit 6 d.serial), iBytes (fit 4 d.mcast), iBytes (fit 6 d.hw), iBytes (encName d.name)]
      [[54], [d.ty], [d.medium], [d.status], encU16 d.source, encU16 d.project,
       fit 6 d.serial, fit 4 d.mcast, fit 6 d.hw, encName d.name] :=
    .cons (.u8 _) (.cons (.u8 _) (.cons (.u8 _) (.cons (.u8 _) (.cons (.u16 _) (.cons (.u16 _)
      (.cons (.bytes _) (.cons (.bytes _) (.cons (.bytes _) (.cons (.bytes _) .nil)))))))))
  exact (Writes.some hw).congr (by simp [encDevInfo])

theorem pair_at (x y : Byte) (b : Buf) (h : 2 ≤ b.length) :
    Buf.packSome [iU8 x, iU8 y] 0 b = some (x :: y :: b.drop 2) := by
  have hw : AllWrite [iU8 x, iU8 y] [[x], [y]] := .cons (.u8 _) (.cons (.u8 _) .nil)
  have := Writes.some hw b (by simpa using h)
  simpa using this

theorem splice_take (pre mid post : List Byte) (n : Nat) (h : (pre ++ mid).length = n) :
    (pre ++ (mid ++ post)).take n = pre ++ mid := by
  rw [← List.append_assoc, List.take_left' h]

theorem splice_drop (pre mid post : List Byte) (n k : Nat) (h : (pre ++ mid).length = n) :
    (pre ++ (mid ++ post)).drop (n + k) = post.drop k := by
  rw [← List.append_assoc, List.drop_append, List.drop_eq_nil_of_le (by omega), List.nil_append, h]
  congr 1; omega

/-- the family loop, from any offset: everything before the offset and behind the families is left alone -/
theorem families_buffer : ∀ (fs : List (Byte × Byte)) (off : Nat) (b : Buf),
    off + 2 * fs.length ≤ b.length →
      packFamilies fs off b = some (b.take off ++ fs.flatMap (fun f => [f.1, f.2]) ++ b.drop (off + 2 * fs.length)) := by
  intro fs
  induction fs with
  | nil => intro off b _; simp [packFamilies]
  | cons f fs ih =>
    intro off b h
    simp only [List.length_cons] at h
    have hoff : off ≤ b.length := by omega
    have h2 := pair_at f.1 f.2 (b.drop off) (by simp; omega)
    simp only [packFamilies, seq, sub, hoff, if_true, h2, Option.map_some, Option.bind_some]
    have hpre : (b.take off ++ [f.1, f.2]).length = off + 2 := by simp [List.length_take]; omega
    have hform : b.take off ++ f.1 :: f.2 :: (b.drop off).drop 2
        = b.take off ++ ([f.1, f.2] ++ (b.drop off).drop 2) := by simp
    have hlen : (b.take off ++ f.1 :: f.2 :: (b.drop off).drop 2).length = b.length := by
      simp [List.length_take, List.length_drop]; omega
    rw [ih (off + 2) _ (by rw [hlen]; omega), hform, splice_take _ _ _ _ hpre, splice_drop _ _ _ _ _ hpre]
    simp only [List.drop_drop, List.flatMap_cons, List.append_assoc, List.length_cons]
    have e : off + 2 + 2 * fs.length = off + 2 * (fs.length + 1) := by omega
    rw [e]

theorem svcdib_buffer (d : SvcDIB) : Writes (packSvcDIB d) (encSvcDIB d) := by
  intro b hb
  have hsz := svcdib_size d
  rw [hsz] at hb
  simp only [sizeSvcDIB] at hb
  have h2 := pair_at (BitVec.ofNat 8 (sizeSvcDIB d)) d.ty b (by omega)
  simp only [packSvcDIB, seq, h2, Option.bind_some]
  have hlen : (BitVec.ofNat 8 (sizeSvcDIB d) :: d.ty :: b.drop 2).length = b.length := by
    simp [List.length_drop]; omega
  rw [families_buffer d.families 2 _ (by rw [hlen]; omega)]
  simp only [encSvcDIB, List.length_append, List.length_cons, List.length_nil, flatMap_pair_length,
    List.take_succ_cons, List.take_zero, List.drop_succ_cons, List.drop_drop, List.cons_append,
    List.nil_append, List.append_assoc]
  have e : 2 + 2 * d.families.length = (2 * d.families.length) + 1 + 1 := by omega
  rw [e, List.drop_succ_cons, List.drop_succ_cons, List.drop_drop]
  have e2 : 2 + 2 * d.families.length = 2 * d.families.length + 1 + 1 := by omega
  first | rfl | rw [e2] | (congr 5; omega)

end buffer

/-- every service `Pack` writes exactly `Size()` bytes -/
theorem body_size (v : Service) (b : List Byte) (h : encBody v = some b) :
    sizeBody v = some b.length := by
  cases v <;> simp only [encBody, Option.some.injEq] at h <;> try subst h
  all_goals
    simp [sizeBody, hostinfo_size, devinfo_size, svcdib_size, cemi_size, List.length_append]
  all_goals first
    | omega
    | (split <;> simp [hostinfo_size])
    | skip
  all_goals cases h

/-- the frame header's total-length field equals body size + 6 and equals the datagram length,
    whenever that fits the 16-bit field -/
theorem header_length (v : Service) (frame : List Byte) (h : encFrame v = some frame) :
    ∃ sz, sizeBody v = some sz ∧ frame.length = sz + 6 ∧
      (sz + 6 < 65536 → (be16 (frame.getD 4 0) (frame.getD 5 0)).toNat = frame.length) := by
  unfold encFrame at h
  cases hb : encBody v with
  | none => simp [hb] at h
  | some b =>
    have hs := body_size v b hb
    simp only [hb, hs, Option.some.injEq] at h
    subst h
    refine ⟨b.length, hs, (by simp [encU16]), fun hlt => ?_⟩
    simp only [encU16, List.cons_append, List.nil_append, List.getD_cons_succ, List.getD_cons_zero,
      be16_hi_lo, List.length_cons, BitVec.toNat_ofNat]
    omega

section buffer2
open Knx.Buf

theorem four_at (x0 x1 x2 x3 : Byte) : Writes (setAt 0 x0 ;; setAt 1 x1 ;; setAt 2 x2 ;; setAt 3 x3) [x0, x1, x2, x3] := by
  intro b hb
  match b, hb with
  | b0 :: b1 :: b2 :: b3 :: rest, _ => simp [seq, setAt]

theorem two_at (x0 x1 : Byte) : Writes (setAt 0 x0 ;; setAt 1 x1) [x0, x1] := by
  intro b hb
  obtain ⟨b0, b1, rest, rfl⟩ := two_le b hb
  simp [seq, setAt]

/-- `p ;; sub n q` where `p` writes `n` bytes -/
theorem Writes.then {p q : Packer} {e1 e2 : List Byte} {n : Nat} (hp : Writes p e1) (hn : e1.length = n)
    (hq : Writes q e2) : Writes (p ;; sub n q) (e1 ++ e2) := hn ▸ Writes.seq_sub hp hq

/-- every service `Pack` method: for every buffer with room, the bytes `Knx.Enc` lists, nothing else touched -/
theorem body_buffer (v : Service) (p : Packer) (e : List Byte) (hp : packBody v = some p) (he : encBody v = some e) :
    Writes p e := by
  cases v with
  | searchReq h =>
    simp only [packBody, encBody, Option.some.injEq] at hp he; subst hp he; exact hostinfo_buffer h
  | descrReq h =>
    simp only [packBody, encBody, Option.some.injEq] at hp he; subst hp he; exact hostinfo_buffer h
  | searchRes c dev svc =>
    simp only [packBody, encBody, Option.some.injEq] at hp he; subst hp he
    have hw : AllWrite [iPk (packHostInfo c) 8, iPk (packDevInfo dev) 54, iPk (packSvcDIB svc) (sizeSvcDIB svc)]
        [encHostInfo c, encDevInfo dev, encSvcDIB svc] :=
      .cons (.pk (hostinfo_buffer _) (hostinfo_size _)) (.cons (.pk (devinfo_buffer _) (devinfo_size _))
        (.cons (.pk (svcdib_buffer _) (svcdib_size _)) .nil))
    exact (Writes.some hw).congr (by simp)
  | descrRes b =>
    simp only [packBody, encBody, Option.some.injEq] at hp he; subst hp he
    have hw : AllWrite [iPk (packDevInfo b.dev) 54, iPk (packSvcDIB b.svc) (sizeSvcDIB b.svc)]
        [encDevInfo b.dev, encSvcDIB b.svc] :=
      .cons (.pk (devinfo_buffer _) (devinfo_size _)) (.cons (.pk (svcdib_buffer _) (svcdib_size _)) .nil)
    exact (Writes.some hw).congr (by simp)
  | connReq c t layer =>
    simp only [packBody, encBody, Option.some.injEq] at hp he; subst hp he
    have hw : AllWrite [iPk (packHostInfo c) 8, iPk (packHostInfo t) 8] [encHostInfo c, encHostInfo t] :=
      .cons (.pk (hostinfo_buffer _) (hostinfo_size _)) (.cons (.pk (hostinfo_buffer _) (hostinfo_size _)) .nil)
    have h1 : Writes (Buf.packSome [iPk (packHostInfo c) 8, iPk (packHostInfo t) 8] 0) (encHostInfo c ++ encHostInfo t) :=
      (Writes.some hw).congr (by simp)
    exact (Writes.then h1 (by simp [hostinfo_size]) (four_at 4 4 layer 0)).congr (by simp)
  | connRes ch st c =>
    simp only [packBody, encBody, Option.some.injEq] at hp he; subst hp he
    by_cases hst : (st == 0) = true
    · simp only [hst, if_true]
      have hw : AllWrite [iU8 ch, iU8 0, iPk (packHostInfo c) 8, iBytes [4, 4, 0, 0]]
          [[ch], [0], encHostInfo c, [4, 4, 0, 0]] :=
        .cons (.u8 _) (.cons (.u8 _) (.cons (.pk (hostinfo_buffer _) (hostinfo_size _)) (.cons (.bytes _) .nil)))
      exact (Writes.some hw).congr (by simp)
    · simp only [hst, if_false]
      have hw : AllWrite [iU8 ch, iU8 st] [[ch], [st]] := .cons (.u8 _) (.cons (.u8 _) .nil)
      exact (Writes.some hw).congr (by simp)
  | connStateReq ch st c =>
    simp only [packBody, encBody, Option.some.injEq] at hp he; subst hp he
    exact (Writes.then (two_at ch st) rfl (hostinfo_buffer c)).congr (by simp)
  | discReq ch st c =>
    simp only [packBody, encBody, Option.some.injEq] at hp he; subst hp he
    exact (Writes.then (two_at ch st) rfl (hostinfo_buffer c)).congr (by simp)
  | connStateRes ch st =>
    simp only [packBody, encBody, Option.some.injEq] at hp he; subst hp he; exact two_at ch st
  | discRes ch st =>
    simp only [packBody, encBody, Option.some.injEq] at hp he; subst hp he; exact two_at ch st
  | tunnelReq ch sq m =>
    simp only [packBody, encBody, Option.some.injEq] at hp he; subst hp he
    exact (Writes.then (four_at 4 ch sq 0) rfl (cemi_buffer m)).congr (by simp)
  | tunnelRes ch sq st =>
    simp only [packBody, encBody, Option.some.injEq] at hp he; subst hp he; exact four_at 4 ch sq st
  | routingInd m =>
    simp only [packBody, encBody, Option.some.injEq] at hp he; subst hp he; exact cemi_buffer m
  | routingLost _ _ => simp [packBody] at hp
  | routingBusy _ _ => simp [packBody] at hp
  | unknown id d =>
    simp only [packBody, encBody, Option.some.injEq] at hp he; subst hp he; exact Writes.copy d

/-- `knxnet.Pack`: for EVERY buffer with room for the frame - whatever it held before - the call does
    not panic, the first `len(frame)` bytes are the frame (so they do not depend on the old content),
    and every byte behind them keeps its value -/
theorem frame_buffer (v : Service) (p : Packer) (frame : List Byte) (hp : packFrame v = some p)
    (he : encFrame v = some frame) : Writes p frame := by
  unfold packFrame at hp
  unfold encFrame at he
  cases hpb : packBody v with
  | none => simp [hpb] at hp
  | some pb =>
    cases heb : encBody v with
    | none => simp [heb] at he
    | some eb =>
      have hs := body_size v eb heb
      simp only [hpb, hs, Option.some.injEq] at hp
      simp only [heb, hs, Option.some.injEq] at he
      subst hp he
      have hb := body_buffer v pb eb hpb heb
      have h01 : Writes (setAt 0 6 ;; setAt 1 16) [6, 16] := two_at 6 16
      have h2 := Writes.then (n := 2) h01 rfl (Writes.u16 v.id)
      have h4 := Writes.then (n := 4) h2 (by simp [encU16]) (Writes.u16 (BitVec.ofNat 16 (eb.length + 6)))
      have h6 := Writes.then (n := 6) h4 (by simp [encU16]) hb
      exact h6.congr (by simp [List.append_assoc])

/-- the same for a cEMI message on its own -/
theorem cemi_frame_buffer (m : Cemi) : Writes (packCemi m) (encCemi m) := cemi_buffer m

/-- prefill independence, stated outright: two buffers of exactly the frame's size end up identical -/
theorem frame_prefill_independent (v : Service) (p : Packer) (frame : List Byte) (hp : packFrame v = some p)
    (he : encFrame v = some frame) (b b' : Buf) (hb : b.length = frame.length) (hb' : b'.length = frame.length) :
    p b = some frame ∧ p b' = some frame := by
  have h := frame_buffer v p frame hp he
  constructor
  · have := h b (by omega); rw [this, List.drop_eq_nil_of_le (by omega)]; simp
  · have := h b' (by omega); rw [this, List.drop_eq_nil_of_le (by omega)]; simp

/-- guard bytes: whatever follows the frame's room in a longer buffer is still there afterwards -/
theorem frame_guard_untouched (v : Service) (p : Packer) (frame : List Byte) (hp : packFrame v = some p)
    (he : encFrame v = some frame) (b guard : Buf) (hb : b.length = frame.length) :
    p (b ++ guard) = some (frame ++ guard) := by
  have h := frame_buffer v p frame hp he (b ++ guard) (by simp; omega)
  rw [h, ← hb, List.drop_left]

/-- non-vacuity: a tunnelling request into a 0xFF-filled buffer with two guard bytes -/
example : (packFrame (.tunnelRes 7 3 0)).bind (fun p => p (List.replicate 12 0xFF))
    = some [6, 16, 4, 0x21, 0, 10, 4, 7, 3, 0, 0xFF, 0xFF] := by decide

end buffer2

/-- variable parts longer than their protocol field are truncated to the field limit -/
theorem info_truncated (info : List Byte) (h : info.length > 255) :
    encInfo info = 255 :: info.take 255 := by simp [encInfo, h]

theorem appdata_truncated (n : Bool) (s c : Byte) (data : List Byte) (h : data.length > 255) :
    (encTPDU (.app n s c data)).length = 257 ∧ (encTPDU (.app n s c data)).head? = some 255 := by
  have hl : appDataLength data = 255 := by simp [appDataLength, h]
  have hs := tpdu_size (.app n s c data)
  simp only [sizeTPDU, hl] at hs
  refine ⟨hs, ?_⟩
  simp only [encTPDU, hl]
  split <;> rfl

theorem name_truncated (n : List Nat) (hl : n.length ≥ 30) (hlat : n.all (· < 256) = true) :
    encName n = (n.map (BitVec.ofNat 8)).take 29 ++ [0] := by
  simp [encName, hlat, hl]

theorem name_not_latin1 (n : List Nat) (h : n.all (· < 256) = false) :
    encName n = List.replicate 30 0 := by
  simp [encName, h]

/-! non-vacuity -/
example : encFrame (.tunnelRes 7 3 0) = some [6, 16, 4, 0x21, 0, 10, 4, 7, 3, 0] := by decide
example (l : List Byte) (h : l.length = 300) : sizeInfo l = 256 := by simp [sizeInfo, h]

end Props.C15
