/-
  Props/C15.lean — C15: encoders write exactly the size they report.

  `size*` transliterate the Go `Size()` methods, `enc*` what the `Pack` methods write
  (`Knx.Enc`).  The theorems hold for *every* value, including oversize variable parts of any
  length: no encodability hypothesis.
  (Prefill-independence and "no byte beyond the size is touched" are facts about writing into an
  existing buffer; they are decided by this check's correspondence/oracle run with three
  prefills and guard bytes — the Lean statement for them, over a buffer-writing model, is
  `_partial` work in progress.)
-/
import Knx.Enc

namespace Props.C15
open Knx

theorem info_size (info : List Byte) : (encInfo info).length = sizeInfo info := by
  unfold encInfo sizeInfo
  split
  · simp only [List.length_cons, List.length_take]; omega
  · simp only [List.length_cons]; omega

theorem tpdu_size (t : TPDU) : (encTPDU t).length = sizeTPDU t := by
  cases t with
  | ctl n s c => rfl
  | app n s c data =>
    simp only [encTPDU, sizeTPDU]
    have hl : (data.take (appDataLength data)).length = min (appDataLength data) data.length :=
      List.length_take
    have hdl : appDataLength data = if data.length > 255 then 255 else if data.length < 1 then 1
        else data.length := rfl
    rcases hd : data.take (appDataLength data) with _ | ⟨d0, ds⟩
    · rw [hd] at hl
      simp only [List.length_nil, List.length_cons] at hl ⊢
      by_cases h1 : data.length > 255
      · rw [if_pos h1] at hdl; omega
      · rw [if_neg h1] at hdl
        by_cases h2 : data.length < 1
        · rw [if_pos h2] at hdl; omega
        · rw [if_neg h2] at hdl; omega
    · rw [hd] at hl
      simp only [List.length_cons] at hl ⊢
      by_cases h1 : data.length > 255
      · rw [if_pos h1] at hdl; omega
      · rw [if_neg h1] at hdl
        by_cases h2 : data.length < 1
        · rw [if_pos h2] at hdl; omega
        · rw [if_neg h2] at hdl; omega

theorem ldata_size (l : LData) : (encLData l).length = sizeLData l := by
  simp only [encLData, sizeLData, List.length_append, info_size, tpdu_size, encU16,
    List.length_cons, List.length_nil]

theorem cemi_size (m : Cemi) : (encCemi m).length = sizeCemi m := by
  cases m <;> simp [encCemi, sizeCemi, encCemiBody, sizeCemiBody, ldata_size] <;> omega

theorem name_size (n : List Nat) : (encName n).length = 30 := by
  unfold encName
  split
  · simp only
    split
    · simp only [List.length_append, List.length_take, List.length_map, List.length_cons,
        List.length_nil] at *
      omega
    · simp only [List.length_append, List.length_map, List.length_replicate] at *
      omega
  · simp

theorem fit_size (n : Nat) (l : List Byte) : (fit n l).length = n := by
  simp only [fit, List.length_append, List.length_take, List.length_replicate]; omega

theorem devinfo_size (d : DevInfo) : (encDevInfo d).length = 54 := by
  simp [encDevInfo, encU16, fit_size, name_size]

theorem flatMap_pair_length (l : List (Byte × Byte)) :
    (l.flatMap (fun f => [f.1, f.2])).length = 2 * l.length := by
  induction l with
  | nil => rfl
  | cons a t ih => simp only [List.flatMap_cons, List.length_append, ih, List.length_cons,
      List.length_nil]; omega

theorem svcdib_size (d : SvcDIB) : (encSvcDIB d).length = sizeSvcDIB d := by
  simp only [encSvcDIB, sizeSvcDIB, List.length_append, List.length_cons, List.length_nil,
    flatMap_pair_length]

theorem hostinfo_size (h : HostInfo) : (encHostInfo h).length = 8 := rfl

/-- every service `Pack` writes exactly `Size()` bytes -/
theorem body_size (v : Service) (b : List Byte) (h : encBody v = some b) :
    sizeBody v = some b.length := by
  cases v <;> simp only [encBody, Option.some.injEq] at h <;> try subst h
  all_goals
    simp [sizeBody, hostinfo_size, devinfo_size, svcdib_size, cemi_size, List.length_append]
  all_goals first
    | omega
    | (split <;> simp [hostinfo_size])
    | skip
  all_goals cases h

/-- the frame header's total-length field equals body size + 6 and equals the datagram length,
    whenever that fits the 16-bit field -/
theorem header_length (v : Service) (frame : List Byte) (h : encFrame v = some frame) :
    ∃ sz, sizeBody v = some sz ∧ frame.length = sz + 6 ∧
      (sz + 6 < 65536 → (be16 (frame.getD 4 0) (frame.getD 5 0)).toNat = frame.length) := by
  unfold encFrame at h
  cases hb : encBody v with
  | none => simp [hb] at h
  | some b =>
    have hs := body_size v b hb
    simp only [hb, hs, Option.some.injEq] at h
    subst h
    refine ⟨b.length, hs, (by simp [encU16]), fun hlt => ?_⟩
    simp only [encU16, List.cons_append, List.nil_append, List.getD_cons_succ, List.getD_cons_zero,
      be16_hi_lo, List.length_cons, BitVec.toNat_ofNat]
    omega

/-- variable parts longer than their protocol field are truncated to the field limit -/
theorem info_truncated (info : List Byte) (h : info.length > 255) :
    encInfo info = 255 :: info.take 255 := by simp [encInfo, h]

theorem appdata_truncated (n : Bool) (s c : Byte) (data : List Byte) (h : data.length > 255) :
    (encTPDU (.app n s c data)).length = 257 ∧ (encTPDU (.app n s c data)).head? = some 255 := by
  have hl : appDataLength data = 255 := by simp [appDataLength, h]
  have hs := tpdu_size (.app n s c data)
  simp only [sizeTPDU, hl] at hs
  refine ⟨hs, ?_⟩
  simp only [encTPDU, hl]
  split <;> rfl

theorem name_truncated (n : List Nat) (hl : n.length ≥ 30) (hlat : n.all (· < 256) = true) :
    encName n = (n.map (BitVec.ofNat 8)).take 29 ++ [0] := by
  simp [encName, hlat, hl]

theorem name_not_latin1 (n : List Nat) (h : n.all (· < 256) = false) :
    encName n = List.replicate 30 0 := by
  simp [encName, h]

/-! non-vacuity -/
example : encFrame (.tunnelRes 7 3 0) = some [6, 16, 4, 0x21, 0, 10, 4, 7, 3, 0] := by decide
example (l : List Byte) (h : l.length = 300) : sizeInfo l = 256 := by simp [sizeInfo, h]

end Props.C15
