/-
  Props/C13.lean — C13: the router client paces its transmissions and backs off when told the
  router is busy.

  In `Knx.Router` the send lock is either free or held until a scheduled release (`heldUntil`):
  by a successful transmission for the post-send pause, by the serve loop for the back-off time.
  Every transmission happens inside `grant`, i.e. under the lock.
-/
import Knx.Router

namespace Props.C13
open Knx Knx.Rtr

def isTx : Obs → Bool
  | .tx _ _ => true
  | _ => false

/-- while the lock is held nobody is granted it: nothing is transmitted, the queue only grows -/
theorem grant_while_held (cfg : Cfg) (fuel : Nat) (s : St) (t u : Nat) (h : s.heldUntil = some u) :
    grant cfg fuel s t = (s, []) := by
  cases fuel with
  | zero => rfl
  | succ n => simp [grant, h]

/-- a successful transmission keeps the lock for the whole post-send pause -/
theorem transmit_holds_lock (cfg : Cfg) (s : St) (t pid : Nat) (hp : cfg.pause > 0)
    (hk : s.sockOpen = true ∧ s.sockFail = false) :
    (transmit cfg s t pid).1.heldUntil = some (t + cfg.pause) ∧ (transmit cfg s t pid).2.1 = [.tx t pid] := by
  simp [transmit, hk.1, hk.2, hp]

/-- a failed transmission releases the lock at once and retains nothing -/
theorem transmit_failure (cfg : Cfg) (s : St) (t pid : Nat) (hk : ¬ (s.sockOpen = true ∧ s.sockFail = false)) :
    transmit cfg s t pid = (s, [], false) := by
  unfold transmit
  split
  · rename_i h; simp only [Bool.and_eq_true, Bool.not_eq_eq_eq_not, Bool.not_true] at h; exact absurd h hk
  · rfl

/-- **pacing / back-off**: from the moment the lock is held until its scheduled release `u`, no
    label at a time `t < u` — any number of Sends, busy / lost / routing indications, reads, timer
    expiries — makes a routing indication leave the client, and the release stays scheduled -/
theorem silent_while_held (cfg : Cfg) (s : St) (u : Nat) (h : s.heldUntil = some u) (l : Lbl)
    (ht : match l with | .inp t _ => t < u | .timer t => t < u) :
    (stepL cfg s l).1.heldUntil = some u ∧ ∀ o ∈ (stepL cfg s l).2, isTx o = false := by
  cases l with
  | timer t =>
    simp only at ht
    simp only [stepL, fire, h]
    rw [if_neg (by omega)]
    simp only [settle]
    split <;> simp [h]
  | inp t i =>
    cases i <;> simp only [stepL, applyIn]
    case send pid =>
      rw [grant_while_held cfg _ _ t u (by simpa using h)]
      simp only [settle]; split <;> simp [h]
    case rind pid =>
      split <;> (simp only [settle]; split <;> simp [h, isTx])
    case rbusy w =>
      split
      · simp only [settle]; split <;> simp [h, isTx]
      · rw [grant_while_held cfg _ _ t u (by simpa using h)]
        simp only [settle]; split <;> simp [h]
    case rlost k =>
      split
      · simp only [settle]; split <;> simp [h, isTx]
      · rw [grant_while_held cfg _ _ t u (by simpa using h)]
        simp only [settle]; split <;> simp [h]
    case read =>
      split
      · simp only [settle]; split <;> simp [h, isTx]
      · split <;> (simp only [settle]; split <;> simp [h, isTx])
    case close => simp only [settle]; split <;> simp [h]
    case sockfail b => simp only [settle]; split <;> simp [h]
    case tick => simp only [settle]; split <;> simp [h]

/-- the serve loop, once granted the lock for a busy indication, holds it for the announced time
    (as capped by the caller at 50 ms): with `silent_while_held`, silence for at least that long -/
theorem busy_takes_lock (cfg : Cfg) (s : St) (t w : Nat) (rest : List Waiter) (fuel : Nat)
    (hf : s.heldUntil = none) (hw : s.waiters = .busy w :: rest) :
    (grant cfg (fuel + 2) s t).1.heldUntil = some (t + w) ∧ (grant cfg (fuel + 2) s t).2 = [] := by
  simp [grant, hf, hw]

/-- the back-off never exceeds the client's 50 ms maximum -/
theorem backoff_capped (announced rnd : Nat) : min maxWait (announced + rnd) ≤ 50 := by
  simp only [maxWait]; omega

/-- transmission resumes: when the release time has come the lock is handed to the first waiter;
    a waiting Send then transmits and returns -/
theorem release_resumes (cfg : Cfg) (s : St) (t u pid : Nat) (rest : List Waiter)
    (h : s.heldUntil = some u) (hu : u ≤ t) (hw : s.waiters = .send pid :: rest) :
    ∃ ok, Obs.ret t pid ok ∈ (fire cfg s t).2 := by
  simp only [fire, h, hu, ↓reduceIte]
  have : fuelOf { s with heldUntil := none } = (fuelOf { s with heldUntil := none } - 1) + 1 := by
    simp only [fuelOf]; omega
  rw [this]
  simp only [grant, hw]
  refine ⟨(transmit cfg { s with heldUntil := none, waiters := rest } t pid).2.2, ?_⟩
  simp

/-- the lock is never held without a scheduled release (it is represented by the release time), so
    a held lock cannot deadlock the client: `release_resumes` applies at the latest then -/
theorem held_lock_has_release (s : St) (h : s.heldUntil ≠ none) : ∃ u, s.heldUntil = some u := by
  cases hs : s.heldUntil with
  | none => exact absurd hs h
  | some u => exact ⟨u, rfl⟩

/-! ### the same facts over whole executions (any label sequence with non-decreasing times) -/

def lblTime : Lbl → Nat
  | .inp t _ => t
  | .timer t => t

def txTime : Obs → Option Nat
  | .tx t _ => some t
  | _ => none

/-- a whole execution: the labels one after the other -/
def execL (cfg : Cfg) : St → List Lbl → St × List Obs
  | s, [] => (s, [])
  | s, l :: ls =>
    let r := stepL cfg s l
    let r' := execL cfg r.1 ls
    (r'.1, r.2 ++ r'.2)

/-- label times never go back, starting from `n` -/
def timesFrom : Nat → List Lbl → Prop
  | _, [] => True
  | n, l :: ls => n ≤ lblTime l ∧ timesFrom (lblTime l) ls

theorem transmit_tx_time (cfg : Cfg) (s : St) (t pid : Nat) :
    ∀ o ∈ (transmit cfg s t pid).2.1, txTime o = some t := by
  unfold transmit
  split <;> simp [txTime]

/-- everything `grant` transmits carries the time of the grant; with a positive pause it transmits
    at most once, and then holds the lock until `t + pause` -/
theorem grant_tx (cfg : Cfg) (t : Nat) : ∀ (fuel : Nat) (s : St),
    (∀ o ∈ (grant cfg fuel s t).2, isTx o = true → txTime o = some t) ∧
    (cfg.pause > 0 → (∃ o ∈ (grant cfg fuel s t).2, isTx o = true) →
      (grant cfg fuel s t).1.heldUntil = some (t + cfg.pause)) := by
  intro fuel
  induction fuel with
  | zero => intro s; simp [grant]
  | succ fuel ih =>
    intro s
    obtain ⟨held, ws, sb, rt, pk, so, sf, ic⟩ := s
    unfold grant
    cases held with
    | some u => simp
    | none =>
      cases ws with
      | nil => simp
      | cons w rest =>
        simp only
        cases w with
        | send pid =>
          simp only
          by_cases hk : (so && !sf) = true
          · by_cases hp : cfg.pause > 0
            · have htr : transmit cfg ⟨none, rest, sb, rt, pk, so, sf, ic⟩ t pid =
                  (⟨some (t + cfg.pause), rest, sb, pushRetain cfg.cap rt pid, pk, so, sf, ic⟩, [.tx t pid], true) := by
                simp [transmit, hk, hp]
              rw [htr]
              simp only
              rw [grant_while_held cfg fuel _ t (t + cfg.pause) rfl]
              refine ⟨?_, fun _ _ => rfl⟩
              intro o ho hx
              simp only [List.append_nil, List.mem_append, List.mem_cons, List.not_mem_nil, or_false] at ho
              rcases ho with rfl | rfl
              · rfl
              · simp [isTx] at hx
            · have hp0 : cfg.pause = 0 := by omega
              have htr : transmit cfg ⟨none, rest, sb, rt, pk, so, sf, ic⟩ t pid =
                  (⟨none, rest, sb, pushRetain cfg.cap rt pid, pk, so, sf, ic⟩, [.tx t pid], true) := by
                simp [transmit, hk, hp0]
              rw [htr]
              simp only
              refine ⟨?_, fun h => absurd h hp⟩
              intro o ho hx
              simp only [List.mem_append, List.mem_cons, List.not_mem_nil, or_false] at ho
              rcases ho with (rfl | rfl) | ho
              · rfl
              · simp [isTx] at hx
              · exact (ih _).1 o ho hx
          · have hf : transmit cfg ⟨none, rest, sb, rt, pk, so, sf, ic⟩ t pid = (⟨none, rest, sb, rt, pk, so, sf, ic⟩, [], false) := by
              simp only [transmit]
              rw [if_neg hk]
            rw [hf]
            simp only [List.nil_append]
            refine ⟨?_, ?_⟩
            · intro o ho hx
              simp only [List.cons_append, List.nil_append, List.mem_cons] at ho
              rcases ho with rfl | ho
              · simp [isTx] at hx
              · exact (ih _).1 o ho hx
            · intro hp ⟨o, ho, hx⟩
              simp only [List.cons_append, List.nil_append, List.mem_cons] at ho
              rcases ho with rfl | ho
              · simp [isTx] at hx
              · exact (ih _).2 hp ⟨o, ho, hx⟩
        | resend pid more =>
          simp only
          by_cases hk : (so && !sf) = true
          · by_cases hp : cfg.pause > 0
            · have htr : transmit cfg ⟨none, rest, sb, rt, pk, so, sf, ic⟩ t pid =
                  (⟨some (t + cfg.pause), rest, sb, pushRetain cfg.cap rt pid, pk, so, sf, ic⟩, [.tx t pid], true) := by
                simp [transmit, hk, hp]
              rw [htr]
              simp only
              cases more with
              | nil =>
                simp only
                rw [grant_while_held cfg fuel _ t (t + cfg.pause) rfl]
                refine ⟨?_, fun _ _ => rfl⟩
                intro o ho _
                simp only [List.append_nil, List.mem_cons, List.not_mem_nil, or_false] at ho
                subst ho; rfl
              | cons p ps =>
                simp only
                rw [grant_while_held cfg fuel _ t (t + cfg.pause) rfl]
                refine ⟨?_, fun _ _ => rfl⟩
                intro o ho _
                simp only [List.append_nil, List.mem_cons, List.not_mem_nil, or_false] at ho
                subst ho; rfl
            · have hp0 : cfg.pause = 0 := by omega
              have htr : transmit cfg ⟨none, rest, sb, rt, pk, so, sf, ic⟩ t pid =
                  (⟨none, rest, sb, pushRetain cfg.cap rt pid, pk, so, sf, ic⟩, [.tx t pid], true) := by
                simp [transmit, hk, hp0]
              rw [htr]
              simp only
              refine ⟨?_, fun h => absurd h hp⟩
              intro o ho hx
              simp only [List.mem_append, List.mem_cons, List.not_mem_nil, or_false] at ho
              rcases ho with rfl | ho
              · rfl
              · exact (ih _).1 o ho hx
          · have hf : transmit cfg ⟨none, rest, sb, rt, pk, so, sf, ic⟩ t pid = (⟨none, rest, sb, rt, pk, so, sf, ic⟩, [], false) := by
              simp only [transmit]
              rw [if_neg hk]
            rw [hf]
            simp only [List.nil_append]
            exact ih _
        | busy w =>
          simp only
          rw [grant_while_held cfg fuel _ t (t + w) rfl]
          simp
        | lost k =>
          simp only
          exact ih _

theorem settle_held (r : St × List Obs) : (settle r).1.heldUntil = r.1.heldUntil := by
  unfold settle; split <;> rfl

theorem settle_obs (r : St × List Obs) : (settle r).2 = r.2 := by
  unfold settle; split <;> rfl

/-- one step: whatever is transmitted carries the step's time; with a positive pause a step that
    transmits leaves the lock held until that time plus the pause -/
theorem step_tx (cfg : Cfg) (s : St) (l : Lbl) :
    (∀ o ∈ (stepL cfg s l).2, isTx o = true → txTime o = some (lblTime l)) ∧
    (cfg.pause > 0 → (∃ o ∈ (stepL cfg s l).2, isTx o = true) →
      (stepL cfg s l).1.heldUntil = some (lblTime l + cfg.pause)) := by
  have none_case : ∀ (r : St × List Obs), (∀ o ∈ r.2, isTx o = false) →
      (∀ o ∈ (settle r).2, isTx o = true → txTime o = some (lblTime l)) ∧
      (cfg.pause > 0 → (∃ o ∈ (settle r).2, isTx o = true) →
        (settle r).1.heldUntil = some (lblTime l + cfg.pause)) := by
    intro r h
    rw [settle_obs]
    refine ⟨fun o ho hx => ?_, fun _ ⟨o, ho, hx⟩ => ?_⟩ <;> (have := h o ho; simp [this] at hx)
  have grant_case : ∀ (fuel : Nat) (s' : St) (t : Nat), lblTime l = t →
      (∀ o ∈ (settle (grant cfg fuel s' t)).2, isTx o = true → txTime o = some (lblTime l)) ∧
      (cfg.pause > 0 → (∃ o ∈ (settle (grant cfg fuel s' t)).2, isTx o = true) →
        (settle (grant cfg fuel s' t)).1.heldUntil = some (lblTime l + cfg.pause)) := by
    intro fuel s' t ht
    rw [settle_obs, settle_held, ht]
    exact grant_tx cfg t fuel s'
  cases l with
  | timer t =>
    simp only [stepL, fire]
    cases hh : s.heldUntil with
    | none => exact none_case _ (by simp)
    | some u =>
      simp only
      split
      · exact grant_case _ _ t rfl
      · exact none_case _ (by simp)
  | inp t i =>
    cases i <;> simp only [stepL, applyIn]
    case send pid => exact grant_case _ _ t rfl
    case rind pid => split <;> exact none_case _ (by simp [isTx])
    case rbusy w =>
      split
      · exact none_case _ (by simp [isTx])
      · exact grant_case _ _ t rfl
    case rlost k =>
      split
      · exact none_case _ (by simp [isTx])
      · exact grant_case _ _ t rfl
    case read =>
      split
      · exact none_case _ (by simp [isTx])
      · split <;> exact none_case _ (by simp [isTx])
    case close => exact none_case _ (by simp)
    case sockfail b => exact none_case _ (by simp)
    case tick => exact none_case _ (by simp)

/-- a held lock stays held until its release time has come -/
theorem hold_kept_or_due (cfg : Cfg) (s : St) (u : Nat) (h : s.heldUntil = some u) (l : Lbl) :
    (stepL cfg s l).1.heldUntil = some u ∨ u ≤ lblTime l := by
  by_cases ht : lblTime l < u
  · left
    exact (silent_while_held cfg s u h l (by cases l <;> simpa [lblTime] using ht)).1
  · right; omega

/-- **the lock's promise over a whole execution**: once the lock is held until `u`, no label
    sequence whose times never go back makes a routing indication leave the client before `u` —
    whatever the Sends, busy / lost indications, reads and timer expiries, in any number -/
theorem no_tx_before_release (cfg : Cfg) : ∀ (ls : List Lbl) (s : St) (u n : Nat),
    s.heldUntil = some u → timesFrom n ls →
    ∀ o ∈ (execL cfg s ls).2, isTx o = true → ∃ t, txTime o = some t ∧ u ≤ t := by
  intro ls
  induction ls with
  | nil => intro s u n _ _ o ho; simp [execL] at ho
  | cons l ls ih =>
    intro s u n h ht o ho hx
    simp only [execL, List.mem_append] at ho
    obtain ⟨htl, htrest⟩ := ht
    rcases ho with ho | ho
    · -- transmitted by this very step: then the step's time is not before u
      have hnow := (step_tx cfg s l).1 o ho hx
      refine ⟨lblTime l, hnow, ?_⟩
      by_cases hlt : lblTime l < u
      · have := (silent_while_held cfg s u h l (by cases l <;> simpa [lblTime] using hlt)).2 o ho
        simp [this] at hx
      · omega
    · -- transmitted later
      rcases hold_kept_or_due cfg s u h l with hk | hdue
      · exact ih _ u (lblTime l) hk htrest o ho hx
      · -- the release time has passed: every later step's time is at least `u`
        have key : ∀ (ls : List Lbl) (s' : St) (m : Nat), u ≤ m → timesFrom m ls →
            ∀ o ∈ (execL cfg s' ls).2, isTx o = true → ∃ t, txTime o = some t ∧ u ≤ t := by
          intro ls
          induction ls with
          | nil => intro s' m _ _ o ho; simp [execL] at ho
          | cons l' ls' ih' =>
            intro s' m hm ht' o ho hx
            simp only [execL, List.mem_append] at ho
            obtain ⟨h1, h2⟩ := ht'
            rcases ho with ho | ho
            · exact ⟨lblTime l', (step_tx cfg s' l').1 o ho hx, by omega⟩
            · exact ih' _ (lblTime l') (by omega) h2 o ho hx
        exact key ls _ (lblTime l) hdue htrest o ho hx

/-- **pacing over a whole execution**: after a transmission at time `t`, nothing is transmitted
    before `t + pause`, however many Sends are pending and whatever arrives -/
theorem pacing_global (cfg : Cfg) (hp : cfg.pause > 0) (s : St) (l : Lbl) (ls : List Lbl)
    (htx : ∃ o ∈ (stepL cfg s l).2, isTx o = true) (ht : timesFrom (lblTime l) ls) :
    ∀ o ∈ (execL cfg (stepL cfg s l).1 ls).2, isTx o = true →
      ∃ t, txTime o = some t ∧ lblTime l + cfg.pause ≤ t :=
  no_tx_before_release cfg ls _ _ _ ((step_tx cfg s l).2 hp htx) ht

/-- **back-off over a whole execution**: once the serve loop has been granted the lock for a busy
    indication at time `t` with effective wait `w` (announced + random part, capped at 50 ms),
    nothing is transmitted before `t + w` -/
theorem backoff_global (cfg : Cfg) (s : St) (t w : Nat) (rest : List Waiter) (fuel : Nat) (ls : List Lbl)
    (hf : s.heldUntil = none) (hw : s.waiters = .busy w :: rest) (ht : timesFrom t ls) :
    ∀ o ∈ (execL cfg (grant cfg (fuel + 2) s t).1 ls).2, isTx o = true →
      ∃ t', txTime o = some t' ∧ t + w ≤ t' :=
  no_tx_before_release cfg ls _ _ _ (busy_takes_lock cfg s t w rest fuel hf hw).1 ht

/-! non-vacuity: a Send, a second Send during the pause, the pause timer -/
example : ((execL { pause := 20, retain := 4 } {} [.inp 0 (.send 1), .inp 5 (.send 2), .timer 20]).2.filter isTx) =
    [.tx 0 1, .tx 20 2] := by decide

end Props.C13
