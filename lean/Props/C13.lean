/-
  Props/C13.lean — C13: the router client paces its transmissions and backs off when told the
  router is busy.

  In `Knx.Router` the send lock is either free or held until a scheduled release (`heldUntil`):
  by a successful transmission for the post-send pause, by the serve loop for the back-off time.
  Every transmission happens inside `grant`, i.e. under the lock.
-/
import Knx.Router

namespace Props.C13
open Knx Knx.Rtr

def isTx : Obs → Bool
  | .tx _ _ => true
  | _ => false

/-- while the lock is held nobody is granted it: nothing is transmitted, the queue only grows -/
theorem grant_while_held (cfg : Cfg) (fuel : Nat) (s : St) (t u : Nat) (h : s.heldUntil = some u) :
    grant cfg fuel s t = (s, []) := by
  cases fuel with
  | zero => rfl
  | succ n => simp [grant, h]

/-- a successful transmission keeps the lock for the whole post-send pause -/
theorem transmit_holds_lock (cfg : Cfg) (s : St) (t pid : Nat) (hp : cfg.pause > 0)
    (hk : s.sockOpen = true ∧ s.sockFail = false) :
    (transmit cfg s t pid).1.heldUntil = some (t + cfg.pause) ∧ (transmit cfg s t pid).2.1 = [.tx t pid] := by
  simp [transmit, hk.1, hk.2, hp]

/-- a failed transmission releases the lock at once and retains nothing -/
theorem transmit_failure (cfg : Cfg) (s : St) (t pid : Nat) (hk : ¬ (s.sockOpen = true ∧ s.sockFail = false)) :
    transmit cfg s t pid = (s, [], false) := by
  unfold transmit
  split
  · rename_i h; simp only [Bool.and_eq_true, Bool.not_eq_eq_eq_not, Bool.not_true] at h; exact absurd h hk
  · rfl

/-- **pacing / back-off**: from the moment the lock is held until its scheduled release `u`, no
    label at a time `t < u` — any number of Sends, busy / lost / routing indications, reads, timer
    expiries — makes a routing indication leave the client, and the release stays scheduled -/
theorem silent_while_held (cfg : Cfg) (s : St) (u : Nat) (h : s.heldUntil = some u) (l : Lbl)
    (ht : match l with | .inp t _ => t < u | .timer t => t < u) :
    (stepL cfg s l).1.heldUntil = some u ∧ ∀ o ∈ (stepL cfg s l).2, isTx o = false := by
  cases l with
  | timer t =>
    simp only at ht
    simp only [stepL, fire, h]
    rw [if_neg (by omega)]
    simp only [settle]
    split <;> simp [h]
  | inp t i =>
    cases i <;> simp only [stepL, applyIn]
    case send pid =>
      rw [grant_while_held cfg _ _ t u (by simpa using h)]
      simp only [settle]; split <;> simp [h]
    case rind pid =>
      split <;> (simp only [settle]; split <;> simp [h, isTx])
    case rbusy w =>
      split
      · simp only [settle]; split <;> simp [h, isTx]
      · rw [grant_while_held cfg _ _ t u (by simpa using h)]
        simp only [settle]; split <;> simp [h]
    case rlost k =>
      split
      · simp only [settle]; split <;> simp [h, isTx]
      · rw [grant_while_held cfg _ _ t u (by simpa using h)]
        simp only [settle]; split <;> simp [h]
    case read =>
      split
      · simp only [settle]; split <;> simp [h, isTx]
      · split <;> (simp only [settle]; split <;> simp [h, isTx])
    case close => simp only [settle]; split <;> simp [h]
    case sockfail b => simp only [settle]; split <;> simp [h]
    case tick => simp only [settle]; split <;> simp [h]

/-- the serve loop, once granted the lock for a busy indication, holds it for the announced time
    (as capped by the caller at 50 ms): with `silent_while_held`, silence for at least that long -/
theorem busy_takes_lock (cfg : Cfg) (s : St) (t w : Nat) (rest : List Waiter) (fuel : Nat)
    (hf : s.heldUntil = none) (hw : s.waiters = .busy w :: rest) :
    (grant cfg (fuel + 2) s t).1.heldUntil = some (t + w) ∧ (grant cfg (fuel + 2) s t).2 = [] := by
  simp [grant, hf, hw]

/-- the back-off never exceeds the client's 50 ms maximum -/
theorem backoff_capped (announced rnd : Nat) : min maxWait (announced + rnd) ≤ 50 := by
  simp only [maxWait]; omega

/-- transmission resumes: when the release time has come the lock is handed to the first waiter;
    a waiting Send then transmits and returns -/
theorem release_resumes (cfg : Cfg) (s : St) (t u pid : Nat) (rest : List Waiter)
    (h : s.heldUntil = some u) (hu : u ≤ t) (hw : s.waiters = .send pid :: rest) :
    ∃ ok, Obs.ret t pid ok ∈ (fire cfg s t).2 := by
  simp only [fire, h, hu, ↓reduceIte]
  have : fuelOf { s with heldUntil := none } = (fuelOf { s with heldUntil := none } - 1) + 1 := by
    simp only [fuelOf]; omega
  rw [this]
  simp only [grant, hw]
  refine ⟨(transmit cfg { s with heldUntil := none, waiters := rest } t pid).2.2, ?_⟩
  simp

/-- the lock is never held without a scheduled release (it is represented by the release time), so
    a held lock cannot deadlock the client: `release_resumes` applies at the latest then -/
theorem held_lock_has_release (s : St) (h : s.heldUntil ≠ none) : ∃ u, s.heldUntil = some u := by
  cases hs : s.heldUntil with
  | none => exact absurd hs h
  | some u => exact ⟨u, rfl⟩

end Props.C13
