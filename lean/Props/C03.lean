/-
  Props/C03.lean — C03: the tunnel sender is stop-and-wait.

  Theorems are about the transition system of `Knx.Tunnel` (any label sequence: inputs and timer
  expiries at arbitrary times, any acknowledgement stream).  `s.snd` is the Send that owns the
  sequence mutex; a second Send cannot enter `requestTunnel` until it is `none` (the mutex —
  trusted Go runtime — is what the model's `Option` stands for).
-/
import Knx.TunnelLemmas

namespace Props.C03
open Knx Knx.Tun

def sockOk (s : St) : Prop := s.sockOpen = true ∧ s.sockFail = false

theorem sockSend_ok (s : St) (t : Nat) (f : Fr) (h : sockOk s) : sockSend s t f = (true, [.tx t f]) := by
  simp [sockSend, h.1, h.2]

/-! ### one request at a time -/

/-- while a Send is pending, another Send transmits nothing and changes nothing -/
theorem no_second_request (cfg : Cfg) (s : St) (t pid : Nat) (x : Snd) (h : s.snd = some x) :
    applyIn cfg s t (.send pid) = (s, []) := by
  simp [applyIn, h]

/-- a new Send (UDP, socket usable, no acknowledgement parked) transmits one request carrying the
    connection's channel and the current sequence number, arms the resend tick one interval and
    the deadline one response timeout later -/
theorem send_starts (cfg : Cfg) (s : St) (t pid : Nat) (hudp : cfg.tcp = false) (hs : s.snd = none)
    (hk : sockOk s) (ha : s.acks = []) (hp : s.phase ≠ .dead) :
    applyIn cfg s t (.send pid) =
      ({ s with snd := some { pid, ch := s.ch, seq := s.outSeq, nextTick := t + cfg.R, deadline := t + cfg.T } },
       [.tx t (.treq s.ch s.outSeq pid)]) := by
  simp [applyIn, hs, hudp, sockSend_ok s t _ hk, hp, ha, drainAcks]

/-- on a TCP tunnel every Send transmits exactly one request and returns at once -/
theorem tcp_send (cfg : Cfg) (s : St) (t pid : Nat) (htcp : cfg.tcp = true) (hs : s.snd = none) (hk : sockOk s) :
    applyIn cfg s t (.send pid) = (s, [.tx t (.treq s.ch 0 pid), .ret t pid .ok]) := by
  simp [applyIn, hs, htcp, sockSend_ok s t _ hk]

/-! ### retransmission and timeout -/

/-- when nothing else expires at `t`: a due resend tick before the deadline retransmits exactly
    the first transmission (same channel, number, telegram) and re-arms the tick one interval on -/
theorem resend_identical_periodic (cfg : Cfg) (s : St) (t : Nat) (x : Snd) (hs : s.snd = some x)
    (ha : s.acks.any (·.expiry ≤ t) = false) (hh : s.hbres.any (·.expiry ≤ t) = false)
    (htick : x.nextTick ≤ t) (hdl : ¬ x.deadline ≤ t) (hk : sockOk s) :
    fire cfg s t =
      ({ s with snd := some { x with nextTick := x.nextTick + cfg.R } }, [.tx t (.treq x.ch x.seq x.pid)]) := by
  unfold fire
  simp [ha, hh, hs, htick, hdl, sockSend_ok s t _ hk]

/-- at the deadline the Send returns the timeout error; the sequence number is NOT advanced -/
theorem timeout_returns (cfg : Cfg) (s : St) (t : Nat) (x : Snd) (hs : s.snd = some x)
    (ha : s.acks.any (·.expiry ≤ t) = false) (hh : s.hbres.any (·.expiry ≤ t) = false)
    (hdl : x.deadline ≤ t) :
    fire cfg s t = ({ s with snd := none }, [.ret t x.pid .timeout]) := by
  unfold fire
  simp [ha, hh, hs, hdl]

/-! ### acknowledgements -/

/-- the rule of the waiting Send for one acknowledgement it receives: another channel or another
    number → ignored (state unchanged); matching → the counter advances by one and the Send
    returns success for status 0, an error otherwise -/
theorem ack_rule (s : St) (x : Snd) (a : Ack) (t : Nat) :
    sndTakes s x a t =
      if a.ch ≠ x.ch ∨ a.seq ≠ s.outSeq then (s, [])
      else ({ s with outSeq := s.outSeq + 1, snd := none },
            [.ret t x.pid (if a.st = 0 then .ok else .rejected)]) := by
  unfold sndTakes
  by_cases h1 : a.ch = x.ch <;> by_cases h2 : a.seq = s.outSeq <;> simp [h1, h2]

/-- an acknowledgement arriving from the gateway while a Send waits is judged at once by that rule;
    one for a foreign channel never reaches the Send -/
theorem ack_arrival (cfg : Cfg) (s : St) (t hb : Nat) (e c q st : Byte) (x : Snd)
    (hp : s.phase = .proc hb e) (hs : s.snd = some x) (hd : s.done = false) :
    onFrame cfg s t (.tres c q st) =
      if c ≠ s.ch then (s, []) else sndTakes s x { ch := c, seq := q, st := st, expiry := t + cfg.R } t := by
  unfold onFrame
  by_cases h1 : c = s.ch <;> simp [hp, hs, hd, h1]

/-- without a waiting Send the acknowledgement is parked for one resend interval -/
theorem ack_parks (cfg : Cfg) (s : St) (t hb : Nat) (e c q st : Byte)
    (hp : s.phase = .proc hb e) (hs : s.snd = none) (hd : s.done = false) (hc : c = s.ch) :
    onFrame cfg s t (.tres c q st) =
      ({ s with acks := s.acks ++ [{ ch := c, seq := q, st := st, expiry := t + cfg.R }] }, []) := by
  unfold onFrame
  simp [hp, hs, hd, hc]

/-- a parked acknowledgement is dropped when its interval is over -/
theorem ack_expires (cfg : Cfg) (s : St) (t : Nat) (h : s.acks.any (·.expiry ≤ t) = true) :
    fire cfg s t = ({ s with acks := s.acks.filter (fun a => !(a.expiry ≤ t)) }, []) := by
  unfold fire; simp [h]

/-! ### the sequence-number invariant, for every reachable state -/

/-- the pending Send carries the current counter value and a channel that was current when it
    started; on TCP there never is a pending Send -/
def SeqInv (cfg : Cfg) (s : St) : Prop :=
  ∀ x, s.snd = some x → cfg.tcp = false ∧ x.seq = s.outSeq

theorem serveExit_snd (s : St) (t : Nat) : (serveExit s t).1.snd = none := by
  unfold serveExit; simp only; split <;> rfl

theorem startReconn_snd (cfg : Cfg) (s : St) (t : Nat) :
    ((startReconn cfg s t).1.snd = s.snd ∧ (startReconn cfg s t).1.outSeq = s.outSeq) ∨
      (startReconn cfg s t).1.snd = none := by
  unfold startReconn; simp only; split
  · left; exact ⟨rfl, rfl⟩
  · right; exact serveExit_snd _ t

theorem procExit_snd (cfg : Cfg) (s : St) (t : Nat) (b : Bool) :
    ((procExit cfg s t b).1.snd = s.snd ∧ (procExit cfg s t b).1.outSeq = s.outSeq) ∨
      (procExit cfg s t b).1.snd = none := by
  unfold procExit; simp only; split
  · exact startReconn_snd cfg _ t
  · right; exact serveExit_snd _ t

theorem procEnter_snd (cfg : Cfg) (s : St) (t : Nat) :
    ((procEnter cfg s t).1.snd = s.snd ∧ (procEnter cfg s t).1.outSeq = s.outSeq) ∨
      (procEnter cfg s t).1.snd = none := by
  unfold procEnter; split
  · right; exact serveExit_snd _ t
  · left; exact ⟨rfl, rfl⟩

theorem wkResult_snd (cfg : Cfg) (s : St) (t : Nat) (b : Bool) :
    ((wkResult cfg s t b).1.snd = s.snd ∧ (wkResult cfg s t b).1.outSeq = s.outSeq) ∨
      (wkResult cfg s t b).1.snd = none := by
  unfold wkResult; split
  · left; exact ⟨rfl, rfl⟩
  · split
    · split
      · left; exact ⟨rfl, rfl⟩
      · exact procExit_snd cfg s t true
    · left; exact ⟨rfl, rfl⟩

theorem sndTakes_snd (s : St) (x : Snd) (a : Ack) (t : Nat) (hs : s.snd = some x) :
    ((sndTakes s x a t).1.snd = some x ∧ (sndTakes s x a t).1.outSeq = s.outSeq) ∨
      (sndTakes s x a t).1.snd = none := by
  rw [ack_rule]; split
  · left; exact ⟨hs, rfl⟩
  · right; rfl

/-- relation kept by every piece of the reaction: the pending Send and the counter are untouched,
    or there is no pending Send afterwards -/
def Keeps (s s' : St) : Prop := (s'.snd = s.snd ∧ s'.outSeq = s.outSeq) ∨ s'.snd = none

theorem drainAcks_keeps (t : Nat) : ∀ (fuel : Nat) (s : St), Keeps s (drainAcks s t fuel).1 := by
  intro fuel
  induction fuel with
  | zero => intro s; left; exact ⟨rfl, rfl⟩
  | succ n ih =>
    intro s
    unfold drainAcks
    split
    · rename_i x a rest hsnd hacks
      simp only
      have h1 := sndTakes_snd { s with acks := rest } x a t hsnd
      have h2 := ih (sndTakes { s with acks := rest } x a t).1
      rcases h1 with ⟨e1, e2⟩ | e1
      · rcases h2 with ⟨f1, f2⟩ | f1
        · left; exact ⟨by rw [f1, e1, hsnd], by rw [f2, e2]⟩
        · right; exact f1
      · rcases h2 with ⟨f1, _⟩ | f1
        · right; rw [f1, e1]
        · right; exact f1
    · left; exact ⟨rfl, rfl⟩

/-- the weaker relation the invariant needs: the pending Send's number and the counter are
    untouched (its tick may move), or there is no pending Send afterwards -/
def KeepsW (s s' : St) : Prop :=
  (s'.snd.map Snd.seq = s.snd.map Snd.seq ∧ s'.outSeq = s.outSeq) ∨ s'.snd = none

theorem Keeps.weak {s s' : St} (h : Keeps s s') : KeepsW s s' := by
  rcases h with ⟨e1, e2⟩ | e1
  · left; exact ⟨by rw [e1], e2⟩
  · right; exact e1

theorem KeepsW.refl (s : St) : KeepsW s s := Or.inl ⟨rfl, rfl⟩

theorem KeepsW.trans {a b c : St} (h1 : KeepsW a b) (h2 : KeepsW b c) : KeepsW a c := by
  rcases h1 with ⟨e1, e2⟩ | e1
  · rcases h2 with ⟨f1, f2⟩ | f1
    · left; exact ⟨by rw [f1, e1], by rw [f2, e2]⟩
    · right; exact f1
  · rcases h2 with ⟨f1, _⟩ | f1
    · right
      rw [e1] at f1
      cases hc : c.snd with
      | none => rfl
      | some y => rw [hc] at f1; simp at f1
    · right; exact f1

theorem onFrame_keeps (cfg : Cfg) (s : St) (t : Nat) (f : Fr) : KeepsW s (onFrame cfg s t f).1 := by
  unfold onFrame
  split
  · exact KeepsW.refl s
  · -- reconnecting
    split
    · split
      · split
        · exact KeepsW.refl _
        · rename_i hs
          refine KeepsW.trans (b := { s with ch := _, outSeq := 0 }) (Or.inr hs) (Keeps.weak (procEnter_snd cfg _ t))
      · split
        · exact KeepsW.refl s
        · right; exact serveExit_snd s t
    · exact KeepsW.refl s
  · exact KeepsW.refl s
  · -- process()
    split
    · split
      · exact KeepsW.refl s
      · exact Keeps.weak (procExit_snd cfg s t true)
    · split
      · exact KeepsW.refl s
      · exact Keeps.weak (procExit_snd cfg s t false)
    · split
      · exact KeepsW.refl s
      · split
        · exact KeepsW.refl _
        · split
          · exact KeepsW.refl _
          · split <;> exact KeepsW.refl _
    · split
      · exact KeepsW.refl s
      · split
        · exact KeepsW.refl s
        · split
          · rename_i x hs
            rcases sndTakes_snd s x _ t hs with ⟨e1, e2⟩ | e1
            · left; exact ⟨by rw [e1, hs], e2⟩
            · right; exact e1
          · exact KeepsW.refl _
    · split
      · exact KeepsW.refl s
      · split
        · exact KeepsW.refl s
        · split
          · exact Keeps.weak (wkResult_snd cfg { s with wks := _ } t _)
          · exact KeepsW.refl _
    · exact KeepsW.refl s

theorem fire_keeps (cfg : Cfg) (s : St) (t : Nat) : KeepsW s (fire cfg s t).1 := by
  unfold fire
  split
  · exact KeepsW.refl _
  · split
    · exact KeepsW.refl _
    · split
      · split
        · right; rfl
        · simp only
          split
          · -- resend: the Send stays, only its next tick moves
            rename_i x hx _ _
            have hsx : s.snd = some x := by
              cases hs : s.snd with
              | none => simp [hs] at hx
              | some y =>
                simp only [hs] at hx
                split at hx
                · simpa using hx
                · cases hx
            left; exact ⟨by simp [hsx], rfl⟩
          · right; rfl
      · split
        · split
          · exact Keeps.weak (wkResult_snd cfg { s with wks := _ } t false)
          · simp only
            split
            · exact KeepsW.refl _
            · exact Keeps.weak (wkResult_snd cfg { s with wks := _ } t false)
        · split
          · split
            · simp only
              split
              · exact Keeps.weak (wkResult_snd cfg { s with phase := _ } t false)
              · split
                · exact Keeps.weak (wkResult_snd cfg { s with phase := _, hbres := _ } t _)
                · exact KeepsW.refl _
            · exact KeepsW.refl s
          · split
            · right; exact serveExit_snd s t
            · split
              · simp only
                split
                · exact KeepsW.refl _
                · right; exact serveExit_snd s t
              · exact KeepsW.refl s
          · exact KeepsW.refl s
          · exact KeepsW.refl s

theorem settle_keeps (cfg : Cfg) (r : St × List Obs) (t : Nat) : KeepsW r.1 (settle cfg r t).1 := by
  unfold settle
  split
  · rename_i hsn
    refine KeepsW.trans (b := { r.1 with outSeq := 0 }) (Or.inr hsn) (Keeps.weak (procEnter_snd cfg _ t))
  · exact KeepsW.refl _

theorem applyIn_keeps_nonsend (cfg : Cfg) (s : St) (t : Nat) (i : In) (hi : ∀ p, i ≠ .send p) :
    KeepsW s (applyIn cfg s t i).1 := by
  cases i with
  | send p => exact absurd rfl (hi p)
  | rx f =>
    simp only [applyIn]
    split
    · exact onFrame_keeps cfg s t f
    · exact KeepsW.refl s
  | read =>
    simp only [applyIn]
    split
    · exact KeepsW.refl _
    · split <;> exact KeepsW.refl s
  | close =>
    simp only [applyIn]
    split
    · exact KeepsW.refl s
    · split
      · exact KeepsW.refl s
      · split
        · exact Keeps.weak (procExit_snd cfg { s with done := true, acks := [], hbres := [], closers := 1 } t false)
        · right; exact serveExit_snd _ t
        · exact KeepsW.refl _
        · exact KeepsW.refl _
  | sockclose =>
    simp only [applyIn]
    split
    · exact Keeps.weak (procExit_snd cfg { s with sockOpen := false } t false)
    · right; exact serveExit_snd _ t
    · exact KeepsW.refl _
    · exact KeepsW.refl _
  | sockfail b => exact KeepsW.refl _
  | tick => exact KeepsW.refl s

theorem seqInv_of_keeps (cfg : Cfg) (s s' : St) (h : SeqInv cfg s) (k : KeepsW s s') : SeqInv cfg s' := by
  intro x' hx'
  rcases k with ⟨e1, e2⟩ | e1
  · rw [hx'] at e1
    cases hs : s.snd with
    | none => rw [hs] at e1; simp at e1
    | some x =>
      rw [hs] at e1
      simp only [Option.map_some, Option.some.injEq] at e1
      have := h x hs
      exact ⟨this.1, by rw [e1, this.2, e2]⟩
  · rw [hx'] at e1; cases e1

theorem seqInv_send (cfg : Cfg) (s : St) (t pid : Nat) (h : SeqInv cfg s) :
    SeqInv cfg (applyIn cfg s t (.send pid)).1 := by
  cases hs : s.snd with
  | some x => simp only [applyIn, hs]; exact h
  | none =>
    by_cases htcp : cfg.tcp = true
    · simp only [applyIn, hs, htcp, ↓reduceIte]
      split <;> exact h
    · have hudp : cfg.tcp = false := by simpa using htcp
      simp only [applyIn, hs, hudp, Bool.false_eq_true, ↓reduceIte]
      split
      · exact h
      · split
        · exact h
        · -- a new pending Send with number = counter, then the parked acknowledgements
          refine seqInv_of_keeps cfg _ _ ?_ (Keeps.weak (drainAcks_keeps t _ _))
          intro x hx
          simp only [Option.some.injEq] at hx
          subst hx
          exact ⟨hudp, rfl⟩

/-- **invariant, every reachable state**: a pending Send exists only on UDP and carries exactly the
    current value of the sequence counter -/
theorem seqInv_reachable (cfg : Cfg) (ch : Byte) (s : St) (h : Reach cfg ch s) : SeqInv cfg s := by
  induction h with
  | init => intro x hx; simp [init] at hx
  | step s l _ ih =>
    cases l with
    | timer t =>
      exact seqInv_of_keeps cfg _ _ ih (KeepsW.trans (fire_keeps cfg s t) (settle_keeps cfg _ t))
    | inp t i =>
      by_cases hi : ∃ p, i = .send p
      · obtain ⟨p, rfl⟩ := hi
        exact seqInv_of_keeps cfg _ _ (seqInv_send cfg s t p ih) (settle_keeps cfg _ t)
      · have hi' : ∀ p, i ≠ .send p := fun p e => hi ⟨p, e⟩
        exact seqInv_of_keeps cfg _ _ ih
          (KeepsW.trans (applyIn_keeps_nonsend cfg s t i hi') (settle_keeps cfg _ t))

/-- consequence (with `ack_rule`): in every reachable state, the acknowledgement that completes the
    pending Send carries that Send's channel and that Send's own sequence number -/
theorem completing_ack_matches (cfg : Cfg) (ch : Byte) (s : St) (h : Reach cfg ch s) (x : Snd) (a : Ack)
    (t : Nat) (hs : s.snd = some x) (hdone : (sndTakes s x a t).1.snd = none) :
    a.ch = x.ch ∧ a.seq = x.seq := by
  have hinv := seqInv_reachable cfg ch s h x hs
  rw [ack_rule] at hdone
  split at hdone
  · rw [hs] at hdone; cases hdone
  · rename_i hc
    simp only [ne_eq, not_or, Decidable.not_not] at hc
    exact ⟨hc.1, by rw [hc.2, hinv.2]⟩

/-- the counter only ever moves by one step forward with a completed exchange, or back to 0 with
    a reconnect: each label leaves it, increments it (and then a Send returned ok/rejected in that
    step), or resets it -/
theorem counter_steps (s : St) (x : Snd) (a : Ack) (t : Nat) :
    (sndTakes s x a t).1.outSeq = s.outSeq ∨
      ((sndTakes s x a t).1.outSeq = s.outSeq + 1 ∧
        ∃ r, (sndTakes s x a t).2 = [.ret t x.pid r] ∧ (r = .ok ∨ r = .rejected)) := by
  rw [ack_rule]
  split
  · left; rfl
  · right
    refine ⟨rfl, _, rfl, ?_⟩
    split
    · left; rfl
    · right; rfl

/-! non-vacuity: a two-label run -/
example : (runL { R := 5000, T := 23000, H := 600000, tcp := false } (init { R := 5000, T := 23000, H := 600000, tcp := false } 7)
    [.inp 1001 (.send 1), .inp 2002 (.rx (.tres 7 0 0))]).2 =
    [.tx 1001 (.treq 7 0 1), .ret 2002 1 .ok] := by decide

end Props.C03
