/-
  Props/C14.lean — C14: the router client resends exactly what was lost, bounds its history, and
  shuts down.
-/
import Knx.Router
import Props.C13
import Knx.RouterBatch

namespace Props.C14
open Knx Knx.Rtr

theorem cap_pos (cfg : Cfg) : 0 < cfg.cap := by
  unfold Cfg.cap; split <;> omega

/-- a configured retain count of 0 means 32 -/
theorem default_cap (p : Nat) : ({ pause := p, retain := 0 } : Cfg).cap = 32 := rfl

/-- retaining never exceeds the cap, and keeps the most recent messages in order -/
theorem pushRetain_length (cap : Nat) (l : List Nat) (m : Nat) (hc : 0 < cap) (hl : l.length ≤ cap) :
    (pushRetain cap l m).length ≤ cap ∧ (pushRetain cap l m).getLast? = some m := by
  unfold pushRetain
  simp only [List.length_drop, List.length_append, List.length_cons, List.length_nil]
  refine ⟨by omega, ?_⟩
  rw [List.getLast?_drop]
  simp only [List.length_append, List.length_cons, List.length_nil]
  rw [if_neg (by omega)]
  simp

theorem transmit_retained (cfg : Cfg) (s : St) (t pid : Nat) (h : s.retained.length ≤ cfg.cap) :
    (transmit cfg s t pid).1.retained.length ≤ cfg.cap := by
  unfold transmit
  split
  · have := (pushRetain_length cfg.cap s.retained pid (cap_pos cfg) h).1
    simp only
    split <;> exact this
  · exact h

/-- failed transmissions are not retained -/
theorem failed_not_retained (cfg : Cfg) (s : St) (t pid : Nat)
    (hk : ¬ (s.sockOpen = true ∧ s.sockFail = false)) :
    (transmit cfg s t pid).1.retained = s.retained ∧ (transmit cfg s t pid).2.2 = false := by
  rw [Props.C13.transmit_failure cfg s t pid hk]; exact ⟨rfl, rfl⟩

/-- **bounded history**: handing the lock around (any queue of Sends, resends, busy and lost
    handlers) never lets the retained list exceed the cap -/
theorem grant_bound (cfg : Cfg) (t : Nat) : ∀ (fuel : Nat) (s : St), s.retained.length ≤ cfg.cap →
    (grant cfg fuel s t).1.retained.length ≤ cfg.cap := by
  intro fuel
  induction fuel with
  | zero => intro s h; exact h
  | succ n ih =>
    intro s h
    unfold grant
    split
    · rename_i w rest hh hw
      cases w with
      | send pid =>
        simp only
        exact ih _ (transmit_retained cfg _ t pid h)
      | resend pid more =>
        simp only
        apply ih
        have := transmit_retained cfg { s with waiters := rest } t pid h
        cases more <;> exact this
      | busy w => exact ih _ h
      | lost k =>
        simp only
        apply ih
        have hl : (s.retained.take (s.retained.length - min k s.retained.length)).length ≤ cfg.cap := by
          simp only [List.length_take]; omega
        split <;> exact hl
    · exact h

theorem settle_retained (r : St × List Obs) : (settle r).1.retained = r.1.retained := by
  unfold settle; split <;> rfl

/-- … for every label, hence in every reachable state -/
theorem retain_bound_step (cfg : Cfg) (s : St) (l : Lbl) (h : s.retained.length ≤ cfg.cap) :
    (stepL cfg s l).1.retained.length ≤ cfg.cap := by
  cases l with
  | timer t =>
    simp only [stepL, settle_retained, fire]
    split
    · split
      · exact grant_bound cfg t _ _ h
      · exact h
    · exact h
  | inp t i =>
    simp only [stepL, settle_retained]
    cases i <;> simp only [applyIn]
    case send pid => exact grant_bound cfg t _ _ h
    case rind pid => split <;> exact h
    case rbusy w => split; exact h; exact grant_bound cfg t _ _ h
    case rlost k => split; exact h; exact grant_bound cfg t _ _ h
    case read => split; exact h; split <;> exact h
    case close => exact h
    case sockfail b => exact h
    case tick => exact h

def runL (cfg : Cfg) (s : St) : List Lbl → St
  | [] => s
  | l :: ls => runL cfg (stepL cfg s l).1 ls

theorem retain_bound (cfg : Cfg) (ls : List Lbl) : (runL cfg {} ls).retained.length ≤ cfg.cap := by
  have : ∀ (ls : List Lbl) (s : St), s.retained.length ≤ cfg.cap → (runL cfg s ls).retained.length ≤ cfg.cap := by
    intro ls
    induction ls with
    | nil => intro s h; exact h
    | cons l ls ih => intro s h; exact ih _ (retain_bound_step cfg s l h)
  exact this ls {} (Nat.zero_le _)

/-- **resend exactly what was lost** (idle client, socket usable, no pause): a lost indication with
    count `k` makes the client transmit exactly the last `min k n` retained messages, in their
    original order, and nothing else -/
theorem resend_chain (cfg : Cfg) (hp : cfg.pause = 0) (t : Nat) :
    ∀ (msgs : List Nat) (p : Nat) (fuel : Nat) (sb : Bool) (ret parked : List Nat) (ic : Bool),
      fuel ≥ msgs.length + 2 →
      (grant cfg fuel (St.mk none [.resend p msgs] sb ret parked true false ic) t).2 =
        (p :: msgs).map (Obs.tx t) := by
  intro msgs
  induction msgs with
  | nil =>
    intro p fuel sb ret parked ic hf
    obtain ⟨n, rfl⟩ : ∃ n, fuel = n + 2 := ⟨fuel - 2, by simp at hf; omega⟩
    simp [grant, transmit, hp]
  | cons q more ih =>
    intro p fuel sb ret parked ic hf
    obtain ⟨n, rfl⟩ : ∃ n, fuel = n + 1 := ⟨fuel - 1, by simp at hf; omega⟩
    simp only [grant, transmit, hp, Bool.not_false, Bool.and_self, ↓reduceIte,
      Nat.lt_irrefl, List.nil_append, List.map_cons, List.cons_append]
    congr 1
    exact ih q n sb _ parked ic (by simp at hf ⊢; omega)

theorem resend_exact (cfg : Cfg) (hp : cfg.pause = 0) (t k : Nat) (ret parked : List Nat) :
    (applyIn cfg (St.mk none [] false ret parked true false false) t (.rlost k)).2 =
      (ret.drop (ret.length - min k ret.length)).map (Obs.tx t) := by
  simp only [applyIn, Bool.or_self, Bool.false_eq_true, ↓reduceIte, List.nil_append]
  have hfuel : ∀ x : St, x.waiters = [.lost k] → x.retained = ret → fuelOf x = (4 * ret.length + 19) + 1 := by
    intro x h1 h2; simp [fuelOf, h1, h2]; omega
  rw [hfuel _ rfl rfl]
  rw [grant]
  simp only
  cases hm : ret.drop (ret.length - min k ret.length) with
  | nil =>
    simp only [List.map_nil]
    have : 4 * ret.length + 19 = (4 * ret.length + 18) + 1 := by omega
    rw [this]; simp [grant]
  | cons p ps =>
    simp only [List.nil_append]
    have hlen : ps.length + 1 ≤ ret.length := by
      have := congrArg List.length hm
      simp only [List.length_drop, List.length_cons] at this
      omega
    exact resend_chain cfg hp t ps p _ false _ parked false (by omega)

/-- with a pause, the resending goroutine sends the first message and queues for the lock again
    with the rest: one message per pause, still in order -/
theorem resend_step (cfg : Cfg) (s : St) (t p q : Nat) (more rest : List Waiter → List Waiter) (ps : List Nat)
    (fuel : Nat) (hh : s.heldUntil = none) (hw : s.waiters = [.resend p (q :: ps)]) (hpz : cfg.pause > 0)
    (ho : s.sockOpen = true) (hfail : s.sockFail = false) :
    (grant cfg (fuel + 2) s t).2 = [.tx t p] ∧ (grant cfg (fuel + 2) s t).1.waiters = [.resend q ps] ∧
      (grant cfg (fuel + 2) s t).1.heldUntil = some (t + cfg.pause) := by
  simp [grant, hh, hw, transmit, ho, hfail, hpz]

/-- every received routing indication is handed to Inbound exactly once: it is parked at the end of
    the delivery queue, and `read` takes the head -/
theorem inbound_once (cfg : Cfg) (s : St) (t pid : Nat) (h1 : s.inboundClosed = false) (h2 : s.serveBlocked = false) :
    applyIn cfg s t (.rind pid) = ({ s with parked := s.parked ++ [pid] }, []) := by
  simp [applyIn, h1, h2]

theorem read_takes_oldest (cfg : Cfg) (s : St) (t p : Nat) (rest : List Nat) (h : s.parked = p :: rest) :
    applyIn cfg s t .read = ({ s with parked := rest }, [.got t (some p)]) := by
  simp [applyIn, h]

/-- after Close the Inbound channel is closed (as soon as the serve loop is not waiting for the lock) -/
theorem close_closes_inbound (cfg : Cfg) (s : St) (t : Nat) (hb : s.serveBlocked = false) :
    (stepL cfg s (.inp t .close)).1.inboundClosed = true := by
  simp only [stepL, applyIn, settle, hb]
  by_cases h : s.inboundClosed = true <;> simp [h]

theorem read_after_close (cfg : Cfg) (s : St) (t : Nat) (h : s.inboundClosed = true) (hq : s.parked = []) :
    applyIn cfg s t .read = (s, [.gotClosed t]) := by
  simp [applyIn, hq, h]

/-! non-vacuity -/
example : (run { pause := 0, retain := 3 } 100 {} [(1, .send 1), (2, .send 2), (3, .send 3), (4, .send 4), (5, .rlost 2)]) =
    [.tx 1 1, .ret 1 1 true, .tx 2 2, .ret 2 2 true, .tx 3 3, .ret 3 3 true, .tx 4 4, .ret 4 4 true,
     .tx 5 3, .tx 5 4] := by decide

/-! ### with a pause: the lost messages go out one per pause, in order, and nothing else -/

/-- the pause / back-off timers fired one after the other, each at its due time -/
def fireAll (cfg : Cfg) : Nat → St → St × List Obs
  | 0, s => (s, [])
  | fuel + 1, s =>
    match s.heldUntil with
    | some u =>
      let r := stepL cfg s (.timer u)
      let r' := fireAll cfg fuel r.1
      (r'.1, r.2 ++ r'.2)
    | none => (s, [])

/-- the expected transmissions: message after message, one pause apart -/
def paced (pause : Nat) : Nat → List Nat → List Obs
  | _, [] => []
  | t, m :: ms => .tx t m :: paced pause (t + pause) ms

theorem grant_resend_last (cfg : Cfg) (hp : cfg.pause > 0) (m p t : Nat) (sb : Bool) (ret parked : List Nat) (ic : Bool) :
    grant cfg (m + 2) (St.mk none [.resend p []] sb ret parked true false ic) t =
      (St.mk (some (t + cfg.pause)) [] sb (pushRetain cfg.cap ret p) parked true false ic, [.tx t p]) := by
  have hne : cfg.pause ≠ 0 := by omega
  simp [grant, transmit, hp, hne]

theorem grant_resend_more (cfg : Cfg) (hp : cfg.pause > 0) (m p q t : Nat) (more : List Nat) (sb : Bool)
    (ret parked : List Nat) (ic : Bool) :
    grant cfg (m + 2) (St.mk none [.resend p (q :: more)] sb ret parked true false ic) t =
      (St.mk (some (t + cfg.pause)) [.resend q more] sb (pushRetain cfg.cap ret p) parked true false ic, [.tx t p]) := by
  have hne : cfg.pause ≠ 0 := by omega
  simp [grant, transmit, hp, hne]

theorem timer_step_resend (cfg : Cfg) (hp : cfg.pause > 0) (p t : Nat) (more : List Nat) (sb : Bool)
    (ret parked : List Nat) (ic : Bool) :
    stepL cfg (St.mk (some t) [.resend p more] sb ret parked true false ic) (.timer t) =
      (St.mk (some (t + cfg.pause)) (match more with | [] => [] | q :: ps => [.resend q ps]) sb
        (pushRetain cfg.cap ret p) parked true false ic, [.tx t p]) := by
  have hfuel : fuelOf (St.mk none [.resend p more] sb ret parked true false ic) = (4 * ret.length + 18) + 2 := by
    simp [fuelOf]; omega
  simp only [stepL, fire, Nat.le_refl, ↓reduceIte]
  rw [hfuel]
  cases more with
  | nil => rw [grant_resend_last cfg hp]; simp [settle]
  | cons q ps => rw [grant_resend_more cfg hp]; simp [settle]

/-- **resend exactly what was lost, paced**: the resending goroutine is queued for the lock
    (held until `t` by whatever went before); as the timers fire, exactly the lost messages leave
    the client, in their original order, one post-send pause apart - and the lock ends up free -/
theorem resend_paced (cfg : Cfg) (hp : cfg.pause > 0) :
    ∀ (msgs : List Nat) (p t : Nat) (sb : Bool) (ret parked : List Nat) (ic : Bool) (fuel : Nat),
      fuel ≥ msgs.length + 2 →
      (fireAll cfg fuel (St.mk (some t) [.resend p msgs] sb ret parked true false ic)).2 =
        paced cfg.pause t (p :: msgs) ∧
      (fireAll cfg fuel (St.mk (some t) [.resend p msgs] sb ret parked true false ic)).1.heldUntil = none := by
  intro msgs
  induction msgs with
  | nil =>
    intro p t sb ret parked ic fuel hf
    obtain ⟨n, rfl⟩ : ∃ n, fuel = n + 2 := ⟨fuel - 2, by simp at hf; omega⟩
    rw [fireAll]
    simp only [timer_step_resend cfg hp]
    -- the last pause runs out: the lock is released, nobody is waiting
    rw [fireAll]
    have : stepL cfg (St.mk (some (t + cfg.pause)) [] sb (pushRetain cfg.cap ret p) parked true false ic)
        (.timer (t + cfg.pause)) = (St.mk none [] sb (pushRetain cfg.cap ret p) parked true false ic, []) := by
      have hfuel : fuelOf (St.mk none [] sb (pushRetain cfg.cap ret p) parked true false ic) =
          (4 * (pushRetain cfg.cap ret p).length + 15) + 1 := by simp [fuelOf]; omega
      simp only [stepL, fire, Nat.le_refl, ↓reduceIte]
      rw [hfuel]
      simp [grant, settle]
    simp only [this]
    cases n <;> simp [fireAll, paced]
  | cons q more ih =>
    intro p t sb ret parked ic fuel hf
    obtain ⟨n, rfl⟩ : ∃ n, fuel = n + 1 := ⟨fuel - 1, by simp at hf; omega⟩
    rw [fireAll]
    simp only [timer_step_resend cfg hp]
    have := ih q (t + cfg.pause) sb (pushRetain cfg.cap ret p) parked ic n (by simp at hf ⊢; omega)
    refine ⟨?_, this.2⟩
    rw [this.1]
    rfl

example : (fireAll { pause := 20, retain := 8 } 10 (St.mk (some 100) [.resend 7 [8, 9]] false [] [] true false false)).2 =
    [.tx 100 7, .tx 120 8, .tx 140 9] := by decide

/-! ### A batch of resends in which the socket refuses particular telegrams (Knx.RtrF) -/
namespace Batch
open Knx.RtrF

/-- what leaves the socket: the telegrams of the batch the socket accepts, in their original order,
    nothing else - a refused write does not abandon the rest of the batch -/
theorem resend_sent (cap : Nat) (fails : List Nat) : ∀ (batch r sent : List Nat),
    (resendBatch cap fails batch r sent).2 = sent ++ batch.filter (fun p => !fails.contains p) := by
  intro batch
  induction batch with
  | nil => intro r sent; simp [resendBatch]
  | cons p ps ih =>
    intro r sent
    by_cases h : p ∈ fails
    · simp [resendBatch, h, ih]
    · simp [resendBatch, h, ih, List.append_assoc]

/-- what is retained afterwards: what was retained below the batch, then exactly the telegrams that were
    transmitted again (each pushed under the cap); refused ones are not retained -/
theorem resend_retained (cap : Nat) (fails : List Nat) : ∀ (batch r sent : List Nat),
    (resendBatch cap fails batch r sent).1 = (batch.filter (fun p => !fails.contains p)).foldl (pushRetain cap) r := by
  intro batch
  induction batch with
  | nil => intro r sent; simp [resendBatch]
  | cons p ps ih =>
    intro r sent
    by_cases h : p ∈ fails
    · simp [resendBatch, h, ih]
    · simp [resendBatch, h, ih]

/-- a lost indication for `k` messages on the idle client: the transmissions are exactly the accepted
    ones among the last min(k, retained) messages, in order -/
theorem lost_resends_accepted (cap : Nat) (s : RtrF.St) (t k : Nat) :
    (RtrF.step cap s t (.rlost k)).2 =
      ((s.retained.drop (s.retained.length - min k s.retained.length)).filter (fun p => !s.fails.contains p)).map (.tx t ·) := by
  simp only [RtrF.step]
  rw [show (resendBatch cap s.fails (s.retained.drop (s.retained.length - min k s.retained.length))
      (s.retained.take (s.retained.length - min k s.retained.length)) []).2 = _ from resend_sent _ _ _ _ _]
  simp

theorem foldl_pushRetain_length (cap : Nat) (hc : 0 < cap) : ∀ (l r : List Nat), r.length ≤ cap →
    (l.foldl (pushRetain cap) r).length ≤ cap := by
  intro l
  induction l with
  | nil => intro r h; simpa using h
  | cons x xs ih => intro r h; exact ih _ (pushRetain_length cap r x hc h).1

/-- the retained list never exceeds the cap, whatever is sent, lost or refused -/
theorem retained_bounded (cap : Nat) (hc : 0 < cap) (s : RtrF.St) (t : Nat) (i : RtrF.In) (h : s.retained.length ≤ cap) :
    (RtrF.step cap s t i).1.retained.length ≤ cap := by
  cases i with
  | send pid =>
    simp only [RtrF.step]
    split
    · exact h
    · exact (pushRetain_length cap _ _ hc h).1
  | rlost k =>
    simp only [RtrF.step]
    rw [show (resendBatch cap s.fails (s.retained.drop (s.retained.length - min k s.retained.length))
        (s.retained.take (s.retained.length - min k s.retained.length)) []).1 = _ from resend_retained _ _ _ _ _]
    apply foldl_pushRetain_length cap hc
    simp only [List.length_take]; omega
  | failpid pid b => simpa [RtrF.step] using h
  | tick => simpa [RtrF.step] using h

/-- non-vacuity: five messages retained, the middle one of a batch of three refused -/
example : (RtrF.step 8 { retained := [1, 2, 3, 4, 5], fails := [4] } 7 (.rlost 3)) =
    ({ retained := [1, 2, 3, 5], fails := [4] }, [.tx 7 3, .tx 7 5]) := by decide

end Batch


end Props.C14
