/-
  Props/C01.lean — C01: decoding untrusted bytes never panics, hangs or reads past the datagram.

  The model (`Knx.Dec`, `Knx.Cemi`, `Knx.Knxnet`) transliterates every `Unpack` of knx/util,
  knx/cemi and knx/knxnet over Go slices that *have* spare capacity with arbitrary content behind
  their length, with `panic` and `hang` as possible outcomes.  The theorems below quantify over
  every slice: any length (no 1024 bound), any capacity, any content.
-/
import Knx.KnxnetSafe

namespace Props.C01
open Knx

/-- `knxnet.Unpack` terminates without panicking, for every slice. -/
theorem knxnet_total (s : GoSlice) : (unpackService.run s).Returns :=
  safe_unpackService.returns s

/-- … and when it succeeds the consumed length does not exceed the input length. -/
theorem knxnet_consumed_le (s : GoSlice) (v : Service) (n : Nat)
    (h : unpackService.run s = .ok (v, n)) : n ≤ s.len :=
  safe_unpackService.consumed s v n h

/-- The outcome is a function of the visible bytes alone: two slices with the same bytes below
    their length give the same outcome whatever lies behind them in their backing arrays. -/
theorem knxnet_prefix_only (s s' : GoSlice) (h : s.vis = s'.vis) :
    unpackService.run s = unpackService.run s' := by
  rw [safe_unpackService.clip s, safe_unpackService.clip s']
  simp only [GoSlice.clip, h]

/-- the same three facts for `cemi.Unpack` -/
theorem cemi_total (s : GoSlice) : (unpackCemi.run s).Returns :=
  safe_unpackCemi.returns s

theorem cemi_consumed_le (s : GoSlice) (m : Cemi) (n : Nat)
    (h : unpackCemi.run s = .ok (m, n)) : n ≤ s.len :=
  safe_unpackCemi.consumed s m n h

theorem cemi_prefix_only (s s' : GoSlice) (h : s.vis = s'.vis) :
    unpackCemi.run s = unpackCemi.run s' := by
  rw [safe_unpackCemi.clip s, safe_unpackCemi.clip s']
  simp only [GoSlice.clip, h]

/-- every service body decoder reachable from the dispatch switch, for every service identifier
    (the 15 known ones and all others) -/
theorem every_body_decoder_safe (id : BitVec 16) : Safe (bodyDecoder id) :=
  safe_bodyDecoder id

/-- the description-block loop never spins: with the fuel it is given (`len + 1`) it never runs
    out, whatever length octets the blocks carry (a zero-length block is rejected) -/
theorem description_block_terminates (s : GoSlice) : unpackDescBlock.run s ≠ .hang := by
  have := safe_unpackDescBlock.returns s
  intro h; rw [h] at this; exact this

/-! Non-vacuity: the decoder accepts a real tunnelling request, from an exact-capacity slice and
    from a prefix of a garbage-filled array, with the same result; a truncated one is an error;
    the historical panicking inputs are now errors. -/
def sampleFrame : List Byte :=
  [0x06, 0x10, 0x04, 0x20, 0x00, 0x15, 0x04, 0x07, 0x03, 0x00,
   0x29, 0x00, 0xbc, 0xe0, 0x11, 0x01, 0x09, 0x02, 0x01, 0x00, 0x81]

example : unpackService.run { vis := sampleFrame } =
    .ok (.tunnelReq 7 3 (.ldataInd (LData.mk [] 0xbc 0xe0 0x1101 0x0902 (.app false 0 2 [0x01]))), 21) := by
  decide
example : unpackService.run { vis := sampleFrame, tail := List.replicate 40 0xAA } =
    unpackService.run { vis := sampleFrame } := by decide
example : unpackService.run { vis := sampleFrame.take 20, tail := [0x81, 0xAA] } = .err := by decide
example : unpackService.run { vis := [6, 16, 2, 6, 0, 7, 1] } = .err := by decide
example : unpackService.run { vis := [6, 16, 2, 4, 0, 8, 0, 1] } = .err := by decide

end Props.C01
