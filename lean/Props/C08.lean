/-
  Props/C08.lean — C08: datapoint decoding is total and only ever yields in-range values.

  `Knx.Dpt.decode` transliterates each shape's `Unpack` (length guard, then indexing that could
  panic).  `Knx.Gen.shapes` (regenerated each run) says which shape every registered type has;
  the documented ranges are written here by hand, so widening a bound in the source breaks
  `documented_ranges`.
-/
import Knx.Dpt
import Knx.Gen.Dpt

namespace Props.C08
open Knx Knx.Dpt Knx.Fl

/-- decoding never panics (and cannot hang), for every shape and every byte string -/
theorem decodeDateFields_cases (d m y : Nat) :
    decodeDateFields d m y = .err ∨ ∃ yy mm dd, dateValid yy mm dd = true ∧
      decodeDateFields d m y = .ok (.date (BitVec.ofNat 16 yy) (BitVec.ofNat 8 mm) (BitVec.ofNat 8 dd)) := by
  unfold decodeDateFields
  by_cases h99 : y > 99
  · left; rw [if_pos h99]
  · rw [if_neg h99]
    dsimp only
    generalize (if (if decide (y = 0 ∧ m = 0 ∧ d = 0) = true then 90 else y) ≥ 90 then
      (if decide (y = 0 ∧ m = 0 ∧ d = 0) = true then 90 else y) + 1900
      else (if decide (y = 0 ∧ m = 0 ∧ d = 0) = true then 90 else y) + 2000) = Y
    generalize (if decide (y = 0 ∧ m = 0 ∧ d = 0) = true then 1 else m) = M
    generalize (if decide (y = 0 ∧ m = 0 ∧ d = 0) = true then 1 else d) = D
    by_cases hv : dateValid Y M D = true
    · right; exact ⟨Y, M, D, hv, by rw [if_pos hv]⟩
    · left; rw [if_neg hv]

theorem decodeDateFields_returns (d m y : Nat) : (decodeDateFields d m y).Returns := by
  rcases decodeDateFields_cases d m y with h | ⟨_, _, _, _, h⟩ <;> rw [h] <;> trivial

set_option maxRecDepth 4000 in
theorem decode_total (s : Shape) (data : List Byte) : (decode s data).Returns := by
  cases s <;> simp only [decode]
  case unknown => trivial
  case strAscii => split <;> trivial
  case strLatin1 => split <;> trivial
  case varstr => split <;> trivial
  case date =>
    split
    · trivial
    · rename_i h
      simp only [ne_eq, Decidable.not_not] at h
      rcases data with _ | ⟨a, _ | ⟨b, _ | ⟨c, _ | ⟨d, _ | ⟨e, t⟩⟩⟩⟩⟩ <;> simp at h
      simp only [byteAt, List.getElem?_cons_succ, List.getElem?_cons_zero, R.bind_ok]
      exact decodeDateFields_returns _ _ _
  case f16 lo loVal hi hiVal unLo unHi =>
    unfold unpackF16
    split
    · trivial
    · rename_i h
      simp only [ne_eq, Decidable.not_not] at h
      rcases data with _ | ⟨a, _ | ⟨b, _ | ⟨c, _ | ⟨d, t⟩⟩⟩⟩ <;> simp at h
      simp only [List.getElem?_cons_succ, List.getElem?_cons_zero, R.bind_ok]
      repeat' split
      all_goals trivial
  all_goals
    split
    · trivial
    · rename_i h
      simp only [ne_eq, Decidable.not_not] at h
      rcases data with _ | ⟨a, _ | ⟨b, _ | ⟨c, _ | ⟨d, _ | ⟨e, _ | ⟨f, _ | ⟨g, _ | ⟨h', t⟩⟩⟩⟩⟩⟩⟩⟩ <;>
        simp at h
      all_goals
        simp only [byteAt, List.getElem?_cons_succ, List.getElem?_cons_zero, R.bind_ok, R.pure_eq]
        repeat' split
        all_goals trivial

/-- a payload whose length differs from the type's fixed length is rejected -/
theorem wrong_length_rejected (s : Shape) (k : Nat) (data : List Byte)
    (hk : fixedLen s = some k) (hl : data.length ≠ k) : decode s data = .err := by
  cases s <;> simp only [fixedLen, Option.some.injEq, reduceCtorEq] at hk <;> subst hk <;>
    simp only [decode, unpackF16, hl, ne_eq, not_false_eq_true, ↓reduceIte, R.bind_err]
  all_goals rfl

/-- the variable-length string needs room for its leading octet and its terminator -/
theorem varstr_too_short_rejected (data : List Byte) (h : data.length < 2) :
    decode .varstr data = .err := by simp [decode, h]

/-! ### ranges -/

theorem f16_in_declared_range (lo loVal hi hiVal unLo unHi : Lit) (data : List Byte) (v : F32)
    (h : decode (.f16 lo loVal hi hiVal unLo unHi) data = .ok (.flt v)) :
    F32.lt v unLo.f32 = false ∧ F32.lt unHi.f32 v = false := by
  simp only [decode] at h
  cases hu : unpackF16 data with
  | ok w =>
    rw [hu] at h
    simp only [R.bind_ok] at h
    split at h
    · cases h
    · rename_i hc
      simp only [R.pure_eq, R.ok.injEq, DVal.flt.injEq] at h
      subst h
      simp only [Bool.or_eq_true, not_or, Bool.not_eq_true] at hc
      exact hc
  | err => rw [hu] at h; cases h
  | panic => rw [hu] at h; cases h
  | hang => rw [hu] at h; cases h

def lookupShape (ty : String) : Option Shape := (Gen.shapes.find? (·.1 == ty)).map (·.2)

/-- the documented ranges of the range-bearing 16-bit float types, as the source states them today
    (decoder bounds = encoder clamps = encoder clamp values) -/
theorem documented_ranges :
    lookupShape "DPT_9001" = some (.f16 ⟨-273, 1⟩ ⟨-273, 1⟩ ⟨670760, 1⟩ ⟨670760, 1⟩ ⟨-273, 1⟩ ⟨670760, 1⟩) ∧
    lookupShape "DPT_9002" = some (.f16 ⟨-670760, 1⟩ ⟨-670760, 1⟩ ⟨670760, 1⟩ ⟨670760, 1⟩ ⟨-670760, 1⟩ ⟨670760, 1⟩) ∧
    lookupShape "DPT_9004" = some (.f16 ⟨0, 1⟩ ⟨0, 1⟩ ⟨670760, 1⟩ ⟨670760, 1⟩ ⟨0, 1⟩ ⟨670760, 1⟩) ∧
    lookupShape "DPT_9027" = some (.f16 ⟨-4596, 10⟩ ⟨-4596, 10⟩ ⟨670760, 1⟩ ⟨670760, 1⟩ ⟨-4596, 10⟩ ⟨670760, 1⟩) ∧
    lookupShape "DPT_5001" = some .scaled ∧ lookupShape "DPT_5003" = some .angle ∧
    lookupShape "DPT_10001" = some .time ∧ lookupShape "DPT_11001" = some .date ∧
    lookupShape "DPT_17001" = some .scene17 ∧ lookupShape "DPT_18001" = some .scene18 := by
  decide +kernel

def isF16 : Shape → Bool
  | .f16 .. => true
  | _ => false

/-- every 9.xxx type's decoder bounds, encoder thresholds and encoder clamp values coincide, and lie
    within [-670760, 670760] -/
def f16Consistent : Shape → Bool
  | .f16 lo loVal hi hiVal unLo unHi =>
    decide (lo = loVal) && decide (lo = unLo) && decide (hi = hiVal) && decide (hi = unHi) &&
      decide (hi = ⟨670760, 1⟩) && F32.le (F32.ofInt (-670760)) lo.f32 && F32.lt lo.f32 hi.f32
  | _ => true

theorem all_f16_types_consistent :
    Gen.shapes.all (fun s => f16Consistent s.2) = true ∧ (Gen.shapes.filter (fun s => isF16 s.2)).length = 20 := by
  decide +kernel

/-- 5.001 decodes into 0..100 %, 5.003 into 0..360°: all 256 octets (kernel evaluation of the float
    model) -/
theorem scaling_in_range : ∀ b : Byte, ∃ v, decode .scaled [0, b] = .ok (.flt v) ∧
    F32.le F32.zero v = true ∧ F32.le v (F32.ofInt 100) = true := by
  intro b
  have h : ∀ b : Byte, (match decode .scaled [0, b] with
      | .ok (.flt v) => F32.le F32.zero v && F32.le v (F32.ofInt 100)
      | _ => false) = true := by decide +kernel
  have hb := h b
  split at hb
  · rename_i v hv
    simp only [Bool.and_eq_true] at hb
    exact ⟨v, hv, hb.1, hb.2⟩
  · cases hb

theorem angle_in_range : ∀ b : Byte, ∃ v, decode .angle [0, b] = .ok (.flt v) ∧
    F32.le F32.zero v = true ∧ F32.le v (F32.ofInt 360) = true := by
  intro b
  have h : ∀ b : Byte, (match decode .angle [0, b] with
      | .ok (.flt v) => F32.le F32.zero v && F32.le v (F32.ofInt 360)
      | _ => false) = true := by decide +kernel
  have hb := h b
  split at hb
  · rename_i v hv
    simp only [Bool.and_eq_true] at hb
    exact ⟨v, hv, hb.1, hb.2⟩
  · cases hb

/-- a decoded time of day has hour < 24, minutes and seconds < 60 (and a 3-bit weekday) -/
theorem time_in_range (data : List Byte) (wd h m s : BitVec 8)
    (hd : decode .time data = .ok (.time wd h m s)) :
    wd.toNat ≤ 7 ∧ h.toNat ≤ 23 ∧ m.toNat ≤ 59 ∧ s.toNat ≤ 59 := by
  simp only [decode] at hd
  split at hd
  · cases hd
  · rcases data with _ | ⟨a, _ | ⟨b, _ | ⟨c, _ | ⟨d, t⟩⟩⟩⟩ <;> simp [byteAt] at hd
    split at hd
    · rename_i hv
      simp only [R.pure_eq, R.ok.injEq, DVal.time.injEq] at hd
      obtain ⟨rfl, rfl, rfl, rfl⟩ := hd
      simpa [timeValid, and_assoc] using hv
    · cases hd

/-- a decoded date is a calendar date within 1990..2089 -/
theorem date_in_range (data : List Byte) (y : BitVec 16) (m d : BitVec 8)
    (hd : decode .date data = .ok (.date y m d)) :
    ∃ yy mm dd, dateValid yy mm dd = true ∧ y = BitVec.ofNat 16 yy ∧ m = BitVec.ofNat 8 mm ∧
      d = BitVec.ofNat 8 dd := by
  simp only [decode] at hd
  split at hd
  · cases hd
  · rcases data with _ | ⟨a, _ | ⟨b, _ | ⟨c, _ | ⟨e, t⟩⟩⟩⟩ <;> simp [byteAt] at hd
    rcases decodeDateFields_cases (BitVec.toNat b &&& 31) (BitVec.toNat c &&& 15) (BitVec.toNat e &&& 127)
      with h | ⟨yy, mm, dd, hv, h⟩
    · rw [h] at hd; cases hd
    · rw [h] at hd
      simp only [R.ok.injEq, DVal.date.injEq] at hd
      exact ⟨yy, mm, dd, hv, hd.1.symm, hd.2.1.symm, hd.2.2.symm⟩

/-- `dateValid` is what it should be: month 1..12, day within the month (Gregorian leap years),
    year 1990..2089 -/
theorem dateValid_spec (y m d : Nat) : dateValid y m d = true ↔
    1990 ≤ y ∧ y ≤ 2089 ∧ 1 ≤ m ∧ m ≤ 12 ∧ 1 ≤ d ∧ d ≤ daysIn y m := by
  simp [dateValid, and_assoc]

/-- scene numbers stay below 64; scene control within 0..63 or 128..191 -/
theorem scene17_in_range (data : List Byte) (x : BitVec 8) (h : decode .scene17 data = .ok (.u8 x)) :
    x.toNat ≤ 63 := by
  simp only [decode] at h
  split at h
  · cases h
  · rename_i hl
    simp only [ne_eq, Decidable.not_not] at hl
    rcases data with _ | ⟨a, _ | ⟨b, _ | ⟨c, t⟩⟩⟩ <;> simp at hl
    simp only [byteAt, List.getElem?_cons_succ, List.getElem?_cons_zero, R.bind_ok, R.pure_eq,
      R.ok.injEq, DVal.u8.injEq] at h
    subst h
    split
    · assumption
    · decide

theorem scene18_in_range (data : List Byte) (x : BitVec 8) (h : decode .scene18 data = .ok (.u8 x)) :
    x.toNat ≤ 63 ∨ (128 ≤ x.toNat ∧ x.toNat ≤ 191) := by
  simp only [decode] at h
  split at h
  · cases h
  · rename_i hl
    simp only [ne_eq, Decidable.not_not] at hl
    rcases data with _ | ⟨a, _ | ⟨b, _ | ⟨c, t⟩⟩⟩ <;> simp at hl
    simp only [byteAt, List.getElem?_cons_succ, List.getElem?_cons_zero, R.bind_ok, R.pure_eq,
      R.ok.injEq, DVal.u8.injEq] at h
    subst h
    split
    · rename_i hc; omega
    · left; decide

/-- the two bit-field colour types reject populated reserved bits -/
theorem xyY_reserved_bits (a b c d e f g : Byte) (h : g.toNat > 15) :
    decode .xyY [a, b, c, d, e, f, g] = .err := by
  simp [decode, byteAt, h]

theorem rgbw_reserved_bits (a b c d e f g : Byte) (h : g.toNat > 15) :
    decode .rgbw [a, b, c, d, e, f, g] = .err := by
  simp [decode, byteAt, h]

/-! non-vacuity -/
example : decode .date [0, 31, 12, 99] = .ok (.date 1999 12 31) := by decide
example : decode .date [0, 31, 2, 99] = .err := by decide
example : decode .time [0, 0xF7, 59, 59] = .ok (.time 7 23 59 59) := by decide
example : decode .varstr [0] = .err := by decide

/-- every registered type's Pack / Unpack was recognised as one of the modelled shapes (regenerated
    table): the theorems above speak about the code that is there -/
theorem shapes_recognised :
    Knx.Gen.shapes.all (fun p => match p.2 with | .unknown _ => false | _ => true) = true := by
  decide +kernel

end Props.C08
