/-
  Props/C04.lean — C04: the tunnel receiver delivers each in-sequence telegram once and acks
  correctly.

  `Knx.Tun.onFrame` is the reaction of process() to one frame from the socket
  (`handleTunnelReq` for tunnelling requests); `parked` is the FIFO of accepted telegrams not yet
  read by the application (one `pushInbound` goroutine each), `read` takes its head.
-/
import Knx.TunnelLemmas

namespace Props.C04
open Knx Knx.Tun

/-- the rule for one tunnelling request (UDP), for every channel / sequence number / state:
    foreign channel → nothing; expected number → accepted, expectation +1 (mod 256), acknowledged
    with the same channel and number and status 0; the previous number → acknowledged again, not
    accepted again; anything else → neither -/
theorem step_law (cfg : Cfg) (s : St) (t hb : Nat) (inSeq c q : Byte) (p : Nat)
    (hph : s.phase = .proc hb inSeq) (hudp : cfg.tcp = false) :
    onFrame cfg s t (.treq c q p) =
      if c ≠ s.ch then (s, [])
      else if q = inSeq then
        ({ s with phase := .proc hb (inSeq + 1), parked := s.parked ++ [p] },
          if s.sockOpen && !s.sockFail then [.tx t (.tres s.ch q 0)] else [])
      else if q = inSeq - 1 then (s, if s.sockOpen && !s.sockFail then [.tx t (.tres s.ch q 0)] else [])
      else (s, []) := by
  unfold onFrame
  simp only [hph, hudp]
  by_cases h1 : c = s.ch
  · simp only [h1, ne_eq, not_true_eq_false, ↓reduceIte, Bool.false_eq_true]
    by_cases h2 : q = inSeq
    · simp only [h2, ↓reduceIte, sockSend]
      split <;> rfl
    · simp only [h2, ↓reduceIte, sockSend]
      by_cases h3 : q = inSeq - 1
      · simp only [h3, ↓reduceIte]; split <;> rfl
      · simp only [h3, ↓reduceIte]
  · simp only [ne_eq, h1, not_false_eq_true, ↓reduceIte]

/-- on a TCP tunnel every request on the connection's channel is accepted and none is acknowledged -/
theorem step_law_tcp (cfg : Cfg) (s : St) (t hb : Nat) (inSeq c q : Byte) (p : Nat)
    (hph : s.phase = .proc hb inSeq) (htcp : cfg.tcp = true) :
    onFrame cfg s t (.treq c q p) =
      if c ≠ s.ch then (s, []) else ({ s with parked := s.parked ++ [p] }, []) := by
  unfold onFrame
  simp only [hph, htcp]
  by_cases h1 : c = s.ch
  · simp only [h1, ne_eq, not_true_eq_false, ↓reduceIte]
  · simp only [ne_eq, h1, not_false_eq_true, ↓reduceIte]

/-! ### streams: what a whole sequence of requests does -/

/-- the specification: which telegrams of a request stream are accepted, starting with
    expectation `e` on channel `ch` -/
def accepted (ch : Byte) : Byte → List (Byte × Byte × Nat) → List Nat
  | _, [] => []
  | e, (c, q, p) :: rest =>
    if c = ch ∧ q = e then p :: accepted ch (e + 1) rest else accepted ch e rest

/-- … and the expectation afterwards -/
def expectAfter (ch : Byte) : Byte → List (Byte × Byte × Nat) → Byte
  | e, [] => e
  | e, (c, q, _) :: rest => if c = ch ∧ q = e then expectAfter ch (e + 1) rest else expectAfter ch e rest

/-- feeding a stream of requests (arbitrary channels and numbers, any length — the wrap at 256
    is `Byte` arithmetic) to the receiver -/
def feed (cfg : Cfg) (s : St) (t : Nat) : List (Byte × Byte × Nat) → St
  | [] => s
  | (c, q, p) :: rest => feed cfg (onFrame cfg s t (.treq c q p)).1 t rest

theorem stream (cfg : Cfg) (hudp : cfg.tcp = false) (t : Nat) :
    ∀ (fs : List (Byte × Byte × Nat)) (s : St) (hb : Nat) (e : Byte), s.phase = .proc hb e →
      (feed cfg s t fs).parked = s.parked ++ accepted s.ch e fs ∧
      (feed cfg s t fs).phase = .proc hb (expectAfter s.ch e fs) ∧
      (feed cfg s t fs).ch = s.ch := by
  intro fs
  induction fs with
  | nil => intro s hb e h; simp [feed, accepted, expectAfter, h]
  | cons f rest ih =>
    intro s hb e h
    obtain ⟨c, q, p⟩ := f
    simp only [feed, step_law cfg s t hb e c q p h hudp]
    by_cases h1 : c = s.ch
    · by_cases h2 : q = e
      · simp only [h1, h2, ne_eq, not_true_eq_false, ↓reduceIte, accepted, expectAfter, and_self]
        have := ih { s with phase := .proc hb (e + 1), parked := s.parked ++ [p] } hb (e + 1) rfl
        simp only [List.append_assoc, List.cons_append, List.nil_append] at this
        exact this
      · have hacc : accepted s.ch e ((c, q, p) :: rest) = accepted s.ch e rest := by
          simp [accepted, h2]
        have hexp : expectAfter s.ch e ((c, q, p) :: rest) = expectAfter s.ch e rest := by
          simp [expectAfter, h2]
        rw [hacc, hexp]
        simp only [h1, ne_eq, not_true_eq_false, ↓reduceIte, h2]
        split <;> exact ih s hb e h
    · simp only [ne_eq, h1, not_false_eq_true, ↓reduceIte, accepted, expectAfter, false_and]
      exact ih s hb e h

/-- a repetition of the immediately preceding number is never accepted again, and a request that is
    not accepted leaves the acceptance of everything after it unchanged -/
theorem repetition_not_accepted (ch e : Byte) (p : Nat) (rest : List (Byte × Byte × Nat)) :
    accepted ch e ((ch, e - 1, p) :: rest) = accepted ch e rest := by
  have h : e - 1 ≠ e := by revert e; decide
  simp only [accepted, true_and]
  rw [if_neg h]

/-- reading: the application gets the oldest accepted telegram; nothing is lost or invented -/
theorem read_takes_oldest (cfg : Cfg) (s : St) (t : Nat) (p : Nat) (rest : List Nat)
    (h : s.parked = p :: rest) :
    applyIn cfg s t .read = ({ s with parked := rest }, [.got t (some p)]) := by
  simp [applyIn, h]

theorem read_nothing_pending (cfg : Cfg) (s : St) (t : Nat) (h : s.parked = []) (hl : s.phase ≠ .dead) :
    applyIn cfg s t .read = (s, [.got t none]) := by
  simp [applyIn, h, hl]

/-- after a (re)connect the expectation is 0 again -/
theorem expectation_restarts (cfg : Cfg) (s : St) (t : Nat) (h : s.done = false) :
    (procEnter cfg s t).1.phase = .proc (t + cfg.H) 0 := by
  simp [procEnter, h]

/-! non-vacuity -/
example : accepted 7 0 [(7, 0, 1), (7, 0, 1), (7, 1, 2), (9, 2, 3), (7, 3, 4), (7, 2, 5), (7, 1, 6)] = [1, 2, 5] := by
  decide

end Props.C04
