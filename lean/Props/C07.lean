/-
  Props/C07.lean — C07: datapoint encoding is accurate, monotonic, saturating and self-decodable.

  Proved here for every value of the shape's representation (no sampling): fixed length and
  leading zero byte of every encoding; saturation at the bounds for every float-valued shape
  (every float32 input, NaN and infinities included, since the comparison is part of the model);
  self-decodability of the integer, structure and string shapes for ALL field combinations
  (including out-of-range ones).
  `_partial`: accuracy within one quantisation step and monotonicity for all finite float32 inputs,
  and self-decodability of the float-valued encodings, need the monotonicity / error lemmas of the
  rounding function; they are decided by this check's differential run and its oracle (sorted-
  sample monotonicity, accuracy, saturation, decodability on ~10^5 float patterns per run).
-/
import Knx.DptLemmas
import Knx.Gen.Dpt

namespace Props.C07
open Knx Knx.Dpt Knx.Fl

theorem packF16_shape (f : F32) : ∃ b1 b2, packF16 f = [0, b1, b2] := by
  unfold packF16
  exact ⟨_, _, rfl⟩

/-- every encoding has the fixed length of its type and starts with a zero byte (types longer than
    one byte); a one-byte encoding carries its value in the low 6 bits -/
theorem encoding_shape (s : Shape) (v : DVal) (bs : List Byte) (k : Nat)
    (he : encode s v = some bs) (hk : fixedLen s = some k) :
    bs.length = k ∧ (k ≥ 2 → bs.head? = some 0) ∧ (k = 1 → ∃ b, bs = [b] ∧ b.toNat ≤ 63) := by
  cases s <;> cases v <;> simp only [encode, reduceCtorEq, Option.some.injEq] at he <;>
    simp only [fixedLen, Option.some.injEq, reduceCtorEq] at hk <;> subst hk <;> subst he
  case b1.bool b =>
    refine ⟨rfl, by omega, fun _ => ⟨_, rfl, ?_⟩⟩
    cases b <;> decide
  case f16.flt lo loVal hi hiVal unLo unHi d =>
    have h1 := packF16_shape loVal.f32
    have h2 := packF16_shape hiVal.f32
    have h3 := packF16_shape d
    obtain ⟨a1, a2, e1⟩ := h1
    obtain ⟨b1, b2, e2⟩ := h2
    obtain ⟨c1, c2, e3⟩ := h3
    split
    · rw [e1]; exact ⟨rfl, fun _ => rfl, by omega⟩
    · split
      · rw [e2]; exact ⟨rfl, fun _ => rfl, by omega⟩
      · rw [e3]; exact ⟨rfl, fun _ => rfl, by omega⟩
  case strAscii.str cps =>
    refine ⟨?_, fun _ => rfl, by omega⟩
    simp only [List.length_cons, List.length_append, List.length_map, List.length_take, List.length_replicate]
    omega
  case strLatin1.str cps =>
    refine ⟨?_, fun _ => rfl, by omega⟩
    simp only [List.length_cons, List.length_append, List.length_map, List.length_take, List.length_replicate]
    omega
  all_goals
    first
      | exact ⟨rfl, fun _ => rfl, by omega⟩
      | (repeat' split) <;> exact ⟨rfl, fun _ => rfl, by omega⟩
      | (simp only [bytes32]; exact ⟨rfl, fun _ => rfl, by omega⟩)

/-- the variable-length string: one leading zero byte, the bytes, one terminator -/
theorem varstr_shape (b : List Byte) : encode .varstr (.bytes b) = some (0 :: b ++ [0]) := rfl

/-! ### saturation: values at or beyond a bound encode exactly like the bound, for every float32
    input (no wrap-around, no sign change) -/

theorem f16_saturates_high (lo loVal hi hiVal unLo unHi : Lit) (d : F32)
    (h : F32.le hi.f32 d = true) (hlo : F32.le d lo.f32 = false) :
    encode (.f16 lo loVal hi hiVal unLo unHi) (.flt d) = some (packF16 hiVal.f32) := by
  simp [encode, h, hlo]

theorem f16_saturates_low (lo loVal hi hiVal unLo unHi : Lit) (d : F32) (h : F32.le d lo.f32 = true) :
    encode (.f16 lo loVal hi hiVal unLo unHi) (.flt d) = some (packF16 loVal.f32) := by
  simp [encode, h]

/-- the generic 16-bit float never leaves [-670433.28, 670433.28]: beyond it the encoder
    saturates (all 20 types share this helper) -/
theorem packF16_saturates (f : F32) :
    (F32.lt f16Max f = true → packF16 f = packF16 f16Max) ∧
    (F32.lt f16Max f = false → F32.lt f f16Min = true → packF16 f = packF16 f16Min) := by
  have hmax : F32.lt f16Max f16Max = false ∧ F32.lt f16Max f16Min = false ∧ F32.lt f16Min f16Min = false := by
    decide +kernel
  constructor
  · intro h; simp only [packF16, h, ↓reduceIte, hmax.1, Bool.false_eq_true]
    have : F32.lt f16Max f16Min = false := hmax.2.1
    simp [this]
  · intro h1 h2; simp only [packF16, h1, h2, Bool.false_eq_true, ↓reduceIte, hmax.2.1, hmax.2.2]

theorem scaled_saturates (d : F32) :
    (F32.le d F32.zero = true → encode .scaled (.flt d) = some [0, 0]) ∧
    (F32.le d F32.zero = false → F32.le (F32.ofInt 100) d = true → encode .scaled (.flt d) = some [0, 255]) := by
  constructor
  · intro h; simp [encode, h]
  · intro h1 h2; simp [encode, h1, h2]

theorem angle_saturates (d : F32) :
    (F32.le d F32.zero = true → encode .angle (.flt d) = some [0, 0]) ∧
    (F32.le d F32.zero = false → F32.le (F32.ofInt 360) d = true → encode .angle (.flt d) = some [0, 255]) := by
  constructor
  · intro h; simp [encode, h]
  · intro h1 h2; simp [encode, h1, h2]

/-- 8.003 / 8.004 / 8.010: the scaled value is clamped to the int16 range before conversion -/
theorem v16scaled_saturates (k : Nat) (q : Dy) :
    (Dy.roundHalfAway (toF64 (q.mul (Dy.ofInt k))) ≥ 32767 → roundV16 (.fin q) k = 32767) ∧
    (Dy.roundHalfAway (toF64 (q.mul (Dy.ofInt k))) ≤ -32768 → roundV16 (.fin q) k = BitVec.ofInt 16 (-32768)) ∧
    roundV16 (.inf false) k = 32767 ∧ roundV16 (.inf true) k = BitVec.ofInt 16 (-32768) := by
  refine ⟨fun h => ?_, fun h => ?_, rfl, rfl⟩
  · simp [roundV16, h]
  · simp only [roundV16]
    rw [if_neg (by omega), if_pos h]

theorem scene17_saturates (x : BitVec 8) (h : x.toNat > 63) : encode .scene17 (.u8 x) = some [0, 63] := by
  simp [encode, h]

/-! ### self-decodable: every encoding is accepted by the same shape's decoder — all values of the
    integer, structure and string representations, out-of-range field combinations included -/

theorem time_self_decodable (wd h m s : BitVec 8) :
    ∃ bs v, encode .time (.time wd h m s) = some bs ∧ decode .time bs = .ok v := by
  by_cases hv : timeValid wd h m s = true
  · have key : ∀ wd h : BitVec 8, wd.toNat ≤ 7 → h.toNat ≤ 23 →
        (((wd <<< 5) ||| (h &&& 0x1F)) >>> 5) = wd ∧ (((wd <<< 5) ||| (h &&& 0x1F)) &&& 0x1F) = h := by decide
    have k2 : ∀ m : BitVec 8, m.toNat ≤ 59 → m &&& 0x3F = m := by decide
    have hv' := hv
    simp only [timeValid, Bool.and_eq_true, decide_eq_true_eq] at hv'
    obtain ⟨⟨⟨h1, h2⟩, h3⟩, h4⟩ := hv'
    refine ⟨[0, (wd <<< 5) ||| (h &&& 0x1F), m, s], .time wd h m s, by simp [encode, hv], ?_⟩
    simp only [decode, List.length_cons, List.length_nil, ne_eq, not_true_eq_false, ↓reduceIte, byteAt,
      List.getElem?_cons_succ, List.getElem?_cons_zero, R.bind_ok, R.pure_eq]
    have e1 : ((wd <<< 5 ||| h &&& 31) >>> 5) = wd := (key wd h h1 h2).1
    have e2 : ((wd <<< 5 ||| h &&& 31) &&& 31) = h := (key wd h h1 h2).2
    have e3 : m &&& 63 = m := k2 m h3
    have e4 : s &&& 63 = s := k2 s h4
    rw [e1, e2, e3, e4]
    exact if_pos hv
  · refine ⟨[0, 0, 0, 0], .time 0 0 0 0, by simp [encode, hv], by decide⟩

theorem date_invalid_self_decodable (y : BitVec 16) (m d : BitVec 8)
    (h : ¬ (y.toNat ≥ 1990 ∧ y.toNat ≤ 2089 ∧ dateValid y.toNat m.toNat d.toNat = true)) :
    encode .date (.date y m d) = some [0, 0, 0, 0] ∧
      decode .date [0, 0, 0, 0] = .ok (.date 1990 1 1) := by
  refine ⟨?_, ?_⟩
  · simp only [encode]; rw [if_neg h]
  · decide

theorem strAscii_self_decodable (cps : List Nat) :
    ∃ bs, encode .strAscii (.str cps) = some bs ∧ (decode .strAscii bs).isOk = true := by
  refine ⟨_, rfl, ?_⟩
  simp only [decode, List.length_cons, List.length_append, List.length_map, List.length_take,
    List.length_replicate]
  rw [if_neg (by omega)]
  rfl

theorem strLatin1_self_decodable (cps : List Nat) :
    ∃ bs, encode .strLatin1 (.str cps) = some bs ∧ (decode .strLatin1 bs).isOk = true := by
  refine ⟨_, rfl, ?_⟩
  simp only [decode, List.length_cons, List.length_append, List.length_map, List.length_take,
    List.length_replicate]
  rw [if_neg (by omega)]
  rfl

theorem rgbw_self_decodable (r g b w : BitVec 8) (rv gv bv wv : Bool) :
    decode .rgbw [0, r, g, b, w, 0, BitVec.ofNat 8 (b2n wv + 2 * b2n bv + 4 * b2n gv + 8 * b2n rv)] =
      .ok (.rgbw r g b w rv gv bv wv) := by
  cases rv <;> cases gv <;> cases bv <;> cases wv <;> simp [decode, byteAt, b2n] <;> decide

theorem xyY_self_decodable (x y : BitVec 16) (yb : BitVec 8) (cv bv : Bool) :
    decode .xyY [0, hi8 x, lo8 x, hi8 y, lo8 y, yb, BitVec.ofNat 8 (b2n cv + 2 * b2n bv)] =
      .ok (.xyY x y yb cv bv) := by
  cases cv <;> cases bv <;> simp [decode, byteAt, b2n] <;> decide

/-! non-vacuity -/
example : encode .scene17 (.u8 200) = some [0, 63] := by decide
example : encode .time (.time 9 30 70 70) = some [0, 0, 0, 0] := by decide

/-! ### the clamps of the registered types, read from the source on every run -/

def litLe (a b : Lit) : Bool := a.num * b.den ≤ b.num * a.den

/-- every registered 16-bit-float type saturates at the very bound it compares with, and both
    bounds lie inside what the type's own decoder accepts: an out-of-range value is encoded as an
    encoding the same type decodes (regenerated table, all registered types) -/
theorem f16_clamps_within_decoder_range :
    Knx.Gen.shapes.all (fun p =>
      match p.2 with
      | .f16 lo loVal hi hiVal unLo unHi =>
        lo == loVal && hi == hiVal && litLe unLo loVal && litLe hiVal unHi && litLe lo hi
      | _ => true) = true := by decide +kernel

/-- every registered type's Pack / Unpack was recognised as one of the modelled shapes (regenerated
    table): the theorems above speak about the code that is there -/
theorem shapes_recognised :
    Knx.Gen.shapes.all (fun p => match p.2 with | .unknown _ => false | _ => true) = true := by
  decide +kernel

end Props.C07
