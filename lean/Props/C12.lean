/-
  Props/C12.lean — C12: group events map to/from L_Data frames losslessly; only group traffic
  surfaces.
  `Knx.Grp.build` / `Knx.Grp.filter` model buildGroupOutbound / serveGroupInbound with the flag
  constructors regenerated from the source; the frame goes through the encoder and the Go-slice
  level decoder of C01/C02.
-/
import Knx.Groups
import Knx.RoundTrip
import Knx.Spec.Layout

namespace Props.C12
open Knx Knx.Grp Knx.Spec

/-- the outbound frame, whatever the event: destination flagged as a group address, hop count 6,
    low priority, the standard-frame flag exactly when the payload has at most 15 bytes,
    application code = command, payload = the event's payload, addresses as given -/
theorem outbound_frame (ev : Event) :
    (Ctrl2.ofByte (build ev).ctrl2).group = true ∧ (Ctrl2.ofByte (build ev).ctrl2).hops = 6 ∧
    (Ctrl1.ofByte (build ev).ctrl1).prio = 3 ∧
    ((Ctrl1.ofByte (build ev).ctrl1).std = true ↔ ev.data.length ≤ 15) ∧
    (build ev).tpdu = .app false 0 ev.cmd ev.data ∧ (build ev).src = ev.src ∧ (build ev).dst = ev.dst := by
  have h2 : (Ctrl2.ofByte defaultCtrl2).group = true ∧ (Ctrl2.ofByte defaultCtrl2).hops = 6 := by decide
  have h1 : (Ctrl1.ofByte defaultCtrl1).prio = 3 ∧ (Ctrl1.ofByte defaultCtrl1).std = false ∧
      (Ctrl1.ofByte (defaultCtrl1 ||| Gen.Control1StdFrame)).prio = 3 ∧
      (Ctrl1.ofByte (defaultCtrl1 ||| Gen.Control1StdFrame)).std = true := by decide
  refine ⟨h2.1, h2.2, ?_, ?_, rfl, rfl, rfl⟩
  · simp only [build]; split
    · exact h1.2.2.1
    · exact h1.1
  · simp only [build]; split
    · rename_i h; simp [h1.2.2.2, h]
    · rename_i h; simp [h1.2.1, h]

/-- an inbound message becomes a group event exactly when it is an L_Data.ind that targets a group
    address and carries an application unit with a group read / response / write; the event then has
    the same command, source, destination and payload -/
theorem filter_iff (m : Cemi) (ev : Event) :
    filter m = some ev ↔
      ∃ l n s, m = .ldataInd l ∧ (Ctrl2.ofByte l.ctrl2).group = true ∧
        l.tpdu = .app n s ev.cmd ev.data ∧ ev.cmd.toNat < 3 ∧ ev.src = l.src ∧ ev.dst = l.dst := by
  have hg : ∀ c : Byte, Gen.IsGroupAddr c = (Ctrl2.ofByte c).group := by decide
  have hc : ∀ a : Byte, Gen.IsGroupCommand a = decide (a.toNat < 3) := by decide
  constructor
  · intro h
    cases m <;> simp only [filter, reduceCtorEq] at h
    rename_i l
    split at h
    · rename_i hgrp
      split at h
      · rename_i n s cmd data ht
        split at h
        · rename_i hcmd
          simp only [Option.some.injEq] at h
          subst h
          rw [hc] at hcmd
          exact ⟨l, n, s, rfl, by rw [← hg]; exact hgrp, ht, by simpa using hcmd, rfl, rfl⟩
        · cases h
      · cases h
    · cases h
  · rintro ⟨l, n, s, rfl, hgrp, ht, hcmd, hs, hd⟩
    simp only [filter, hg, hgrp, ↓reduceIte, ht, hc, hcmd, decide_true]
    cases ev; simp_all

/-- confirmations, requests, raw and bus-monitor frames never surface -/
theorem other_kinds_never_surface (m : Cemi) (h : ∀ l, m ≠ .ldataInd l) : filter m = none := by
  cases m <;> simp [filter] <;> exact absurd rfl (h _)

/-- what arrives: an empty payload as a single zero byte, only the low six bits of the first byte -/
def norm (ev : Event) : Event :=
  { ev with data := match ev.data with
      | [] => [0]
      | d0 :: ds => (d0 &&& 63) :: ds }

theorem encTPDU_norm (cmd : Byte) (data : List Byte) :
    encTPDU (.app false 0 cmd data) = encTPDU (.app false 0 cmd (norm { cmd, src := 0, dst := 0, data }).data) := by
  have hm : ∀ d : Byte, (d &&& 63) &&& 63 = d &&& 63 := by decide
  cases data with
  | nil => simp [norm, encTPDU, appDataLength]
  | cons d0 ds =>
    have hk : ∃ j, appDataLength (d0 :: ds) = j + 1 ∧ appDataLength ((d0 &&& 63) :: ds) = j + 1 := by
      unfold appDataLength
      simp only [List.length_cons]
      split
      · exact ⟨254, rfl, rfl⟩
      · split
        · omega
        · exact ⟨ds.length, rfl, rfl⟩
    obtain ⟨j, h1, h2⟩ := hk
    simp only [norm, encTPDU, h1, h2, List.take_succ_cons, List.cons.injEq, true_and, and_true]
    have := hm d0
    simp_all

/-- **end to end**: an event sent by one client (read / response / write, any source and
    destination, payload up to 255 bytes) and decoded and filtered by another arrives as `norm ev` -/
theorem end_to_end (ev : Event) (hc : ev.cmd.toNat < 3) (hl : ev.data.length ≤ 255) (tl : List Byte) :
    ∃ m n, unpackCemi.run { vis := encCemi (.ldataInd (build ev)), tail := tl } = .ok (m, n) ∧
      filter m = some (norm ev) := by
  -- the frame written for `ev` is the frame written for the normalised payload …
  have henc : encCemi (.ldataInd (build ev)) =
      encCemi (.ldataInd { build ev with tpdu := .app false 0 ev.cmd (norm ev).data }) := by
    simp only [encCemi, Cemi.code, encCemiBody, encLData, build]
    have := encTPDU_norm ev.cmd ev.data
    simp only [norm] at this ⊢
    rw [this]
  -- … which is an encodable message, so the decoder returns exactly it
  have hok : (Cemi.ldataInd { build ev with tpdu := .app false 0 ev.cmd (norm ev).data }).ok = true := by
    have hm : ∀ d : Byte, (d &&& 63).toNat < 64 := by decide
    cases hd : ev.data with
    | nil =>
      simp only [Cemi.ok, LData.ok, build, TPDU.ok, norm, hd]
      have : ev.cmd.toNat ≤ 15 := by omega
      simp [this]
    | cons d ds =>
      rw [hd] at hl
      simp only [List.length_cons] at hl
      simp only [Cemi.ok, LData.ok, build, TPDU.ok, norm, hd]
      have h1 : ev.cmd.toNat ≤ 15 := by omega
      have h2 := hm d
      simp only [BitVec.toNat_and] at h2
      simp [h1, hl]
      exact h2
  refine ⟨_, _, by rw [henc]; exact rt_cemi _ hok tl, ?_⟩
  rw [filter_iff]
  refine ⟨_, false, 0, rfl, (outbound_frame ev).1, rfl, hc, rfl, rfl⟩

/-- the group Inbound channel closes when the underlying client's does: the forwarder is a
    sequential loop over its input (`for msg := range inbound … close(outbound)`): it forwards the
    filtered messages in order and ends with the input -/
def forward (msgs : List Cemi) : List Event := msgs.filterMap filter

theorem forward_in_order (a b : List Cemi) : forward (a ++ b) = forward a ++ forward b := by
  simp [forward, List.filterMap_append]

/-! non-vacuity -/
example : filter (.ldataInd (build { cmd := 2, src := 0x1101, dst := 0x0a03, data := [1] })) =
    some { cmd := 2, src := 0x1101, dst := 0x0a03, data := [1] } := by decide

end Props.C12
