/-
  Props/C19.lean — C19: the datapoint registry is complete, correctly keyed, and yields
  independent instances.

  `Knx.Gen.registry`, `Knx.Gen.declared`, `Knx.Gen.shapes` are regenerated from knx/dpt on every
  run (the `dptTypes` map literal, every `type DPT_…` declaration, the codec shape recognised
  from each type's Pack/Unpack bodies).
-/
import Knx.Gen.Dpt
import Knx.Registry
import Knx.RegistryChecks

namespace Props.C19
open Knx Knx.Dpt

/-- every map entry has the form `"key": new(T)` -/
theorem registry_entries_are_new_T : Gen.registryOtherEntries = 0 := by decide +kernel

/-- names are `main.sub` with a three-digit sub-number — except the entries listed by value in
    /verif/known_findings.json: the check keeps the property's wording, and this theorem pins the
    exact set of offenders, so any other malformed key breaks it -/
theorem key_format_offenders :
    (Gen.registry.filter (fun e => !keyWellFormed e.2.1)).map (·.1) = ["14.1200"] := by decide +kernel

/-- keys are unique -/
theorem keys_unique : allDistinct (Gen.registry.map (·.2.1)) = true := by decide +kernel

/-- a key yields the datapoint type bearing that number -/
theorem key_names_its_type :
    Gen.registry.all (fun e => e.2.2.2 == typeNameOfKey e.2.1) = true := by decide +kernel

/-- every registry value is a declared type, and every exported datapoint type of the package is
    reachable through the registry -/
theorem registry_values_declared :
    Gen.registry.all (fun e => (Gen.declared.map (·.2)).contains e.2.2.2) = true := by decide +kernel

theorem every_declared_type_registered :
    Gen.declared.all (fun d => (Gen.registry.map (·.2.2.2)).contains d.2) = true := by decide +kernel

theorem count : Gen.registry.length = 174 ∧ Gen.declared.length = 174 := by decide +kernel

/-- every declared type's Pack/Unpack pair was recognised as one of the modelled codec shapes -/
def isUnknown : Shape → Bool
  | .unknown _ => true
  | _ => false

theorem every_type_has_a_modelled_shape :
    Gen.shapes.all (fun s => !isUnknown s.2) = true ∧ Gen.shapes.length = Gen.declared.length := by
  decide +kernel

/-- unknown names are reported as unknown: `Produce` is a lookup in the map -/
def produce (name : String) : Option String := (Gen.registry.find? (·.1 == name)).map (·.2.2.1)

theorem unknown_name (name : String) (h : ∀ e ∈ Gen.registry, e.1 ≠ name) : produce name = none := by
  unfold produce
  rw [List.find?_eq_none.mpr]
  · rfl
  · intro e he; simpa using h e he

/-! ### instances are independent: `Unpack` on one instance changes that instance only, a later
    `Produce` yields a zero value, for every history -/

theorem unpack_changes_only_its_receiver (h : Heap) (i j : Nat) (data : List Byte) (hij : j ≠ i) :
    (h.unpack i data)[j]? = h[j]? := by
  unfold Heap.unpack
  rw [List.getElem?_modify]
  simp [hij.symm]

theorem unpack_keeps_length (h : Heap) (i : Nat) (data : List Byte) :
    (h.unpack i data).length = h.length := by simp [Heap.unpack]

theorem produce_is_fresh_zero (h : Heap) (s : Shape) :
    (h.produce s)[h.length]? = some (s, .zero) ∧ ∀ j, j < h.length → (h.produce s)[j]? = h[j]? := by
  unfold Heap.produce
  constructor
  · simp
  · intro j hj; rw [List.getElem?_append_left hj]

/-- after any history, an instance that no `Unpack` of the history addressed still holds the zero
    value it was produced with -/
theorem untouched_instance_stays_zero (s : Shape) :
    ∀ (ops : List HOp) (h : Heap) (k : Nat), h[k]? = some (s, .zero) →
      (∀ op ∈ ops, ∀ i d, op = .unpack i d → i ≠ k) → (h.run ops)[k]? = some (s, .zero) := by
  intro ops
  induction ops with
  | nil => intro h k hk _; exact hk
  | cons op rest ih =>
    intro h k hk hno
    simp only [Heap.run, List.foldl_cons]
    apply ih
    · cases op with
      | produce s' =>
        simp only [Heap.step, Heap.produce]
        have : k < h.length := by
          rcases Nat.lt_or_ge k h.length with h1 | h1
          · exact h1
          · rw [List.getElem?_eq_none h1] at hk; cases hk
        rw [List.getElem?_append_left this]; exact hk
      | unpack i d =>
        simp only [Heap.step]
        rw [unpack_changes_only_its_receiver h i k d (fun e => hno (.unpack i d) (by simp) i d rfl (e ▸ rfl))]
        exact hk
    · intro op' hop' i d e
      exact hno op' (by simp [hop']) i d e

/-! non-vacuity -/
example : produce "9.001" = some "DPT_9001" := by decide +kernel
example : produce "9.999" = none := by decide +kernel
example : keyWellFormed [57, 46, 48, 48, 49] = true ∧ keyWellFormed [49, 52, 46, 49, 50, 48, 48] = false := by decide

end Props.C19
