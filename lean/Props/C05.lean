/-
  Props/C05.lean — C05: telegrams cross a lossy link exactly once, in order, in both directions.

  `Knx.SW` is the composed system in the abstract (sender, receiver, two channels that lose,
  duplicate and reorder; numbers modulo 256; datagram lifetime below the wrap).  Unbounded number
  of telegrams — the invariant is inductive, nothing is enumerated.

  The theorems hold for histories WITHOUT `abandon` (a sender that gives an exchange up without
  advancing its counter).  The real client does abandon: `requestTunnel` returns the timeout error
  and leaves `seqNumber` unchanged.  `abandon_breaks_it` is the witness, and it is replayed on the
  real client by this check (known finding D18) — the full property is therefore `_partial`.
-/
import Knx.StopAndWait

namespace Props.C05
open Knx.SW

def noAbandon : Lbl → Bool
  | .abandon => false
  | _ => true

theorem mem_eraseIdx {α} (l : List α) (k : Nat) (x : α) (h : x ∈ l.eraseIdx k) : x ∈ l :=
  List.mem_of_mem_eraseIdx h

/-- one step of the timeout-free system preserves the invariant -/
theorem inv_step (s : St) (l : Lbl) (hl : noAbandon l = true) (h : Inv s) : Inv (step s l) := by
  obtain ⟨cg, gc, ahead, reqs, acks, bus, succ⟩ := h
  cases l with
  | abandon => cases hl
  | start =>
    simp only [step]
    split
    · exact ⟨cg, gc, ahead, reqs, acks, bus, succ⟩
    · exact ⟨cg, gc, fun _ => rfl, fun i hi => ⟨(reqs i hi).1, fun _ => rfl⟩, acks, bus, succ⟩
  | emit =>
    simp only [step]
    split
    · rename_i ho
      refine ⟨cg, gc, ahead, ?_, acks, bus, succ⟩
      intro i hi
      simp only [List.mem_append, List.mem_cons, List.not_mem_nil, or_false] at hi
      rcases hi with hi | rfl
      · exact reqs i hi
      · exact ⟨Nat.le_refl _, fun _ => ho⟩
    · exact ⟨cg, gc, ahead, reqs, acks, bus, succ⟩
  | dropReq k =>
    exact ⟨cg, gc, ahead, fun i hi => reqs i (mem_eraseIdx _ _ _ hi), acks, bus, succ⟩
  | dropAck k =>
    exact ⟨cg, gc, ahead, reqs, fun j hj => acks j (mem_eraseIdx _ _ _ hj), bus, succ⟩
  | deliverReq k =>
    simp only [step]
    split
    · rename_i i hk
      have hi := reqs i (List.mem_of_getElem? hk)
      split
      · exact ⟨cg, gc, ahead, reqs, acks, bus, succ⟩
      · rename_i hlife
        unfold recv
        split
        · rename_i hm
          -- the request carries the expected number: it can only be the open exchange
          have hiC : i = s.C := by simp only [M] at hm; omega
          have hG : s.G = s.C := by simp only [M] at hm; omega
          subst hiC
          refine ⟨by simp only; omega, by simp only; omega, fun _ => hi.2 rfl, reqs, ?_, ?_, succ⟩
          · intro j hj
            simp only [List.mem_append, List.mem_cons, List.not_mem_nil, or_false] at hj
            rcases hj with hj | rfl
            · have := acks j hj; simp only; omega
            · simp only; omega
          · simp only [bus, hG, List.range_succ]
        · split
          · rename_i hm1 hm2
            refine ⟨cg, gc, ahead, reqs, ?_, bus, succ⟩
            intro j hj
            simp only [List.mem_append, List.mem_cons, List.not_mem_nil, or_false] at hj
            rcases hj with hj | rfl
            · exact acks j hj
            · show j < s.G
              have h1 := hi.1
              simp only [M] at hm1 hm2
              omega
          · exact ⟨cg, gc, ahead, reqs, acks, bus, succ⟩
    · exact ⟨cg, gc, ahead, reqs, acks, bus, succ⟩
  | deliverAck k =>
    simp only [step]
    split
    · rename_i j hk
      have hj := acks j (List.mem_of_getElem? hk)
      split
      · exact ⟨cg, gc, ahead, reqs, acks, bus, succ⟩
      · rename_i hlife
        unfold ackIn
        split
        · rename_i hm
          have hjC : j = s.C := by have := hm.2; simp only [M] at this; omega
          have hG : s.G = s.C + 1 := by omega
          refine ⟨by simp only; omega, by simp only; omega, fun h => by simp only at h; omega, ?_, acks, bus, ?_⟩
          · intro i hi
            have := reqs i hi
            exact ⟨by simp only; omega, fun h => by simp only at h; omega⟩
          · simp only [succ, List.range_succ]
        · exact ⟨cg, gc, ahead, reqs, acks, bus, succ⟩
    · exact ⟨cg, gc, ahead, reqs, acks, bus, succ⟩

theorem inv_init : Inv init :=
  ⟨Nat.le_refl _, Nat.zero_le _, fun h => by simp [init] at h, fun _ h => by simp [init] at h,
   fun _ h => by simp [init] at h, rfl, rfl⟩

/-- the invariant holds in every state reachable without abandoning an exchange, for every
    interleaving of transmissions, retransmissions, losses, duplicate and reordered deliveries -/
theorem inv_reachable (ls : List Lbl) (h : ls.all noAbandon = true) : Inv (run init ls) := by
  have : ∀ (ls : List Lbl) (s : St), ls.all noAbandon = true → Inv s → Inv (run s ls) := by
    intro ls
    induction ls with
    | nil => intro s _ hs; exact hs
    | cons l ls ih =>
      intro s hall hs
      simp only [List.all_cons, Bool.and_eq_true] at hall
      exact ih _ hall.2 (inv_step s l hall.1 hs)
  exact this ls init h inv_init

/-- **exactly once, in order** (`_partial`: histories without abandoned exchanges): the telegrams
    whose exchange completed successfully are 0,1,…,C-1 in completion order; the receiver passed
    on 0,1,…,G-1, each exactly once and in order, with C ≤ G ≤ C+1 — so every telegram whose Send
    succeeded is on the bus exactly once, in the order the Sends completed, and nothing is on the
    bus twice -/
theorem exactly_once_in_order_partial (ls : List Lbl) (h : ls.all noAbandon = true) :
    let s := run init ls
    s.succ = List.range s.C ∧ s.bus = List.range s.G ∧ s.C ≤ s.G ∧ s.G ≤ s.C + 1 ∧ s.bus.Nodup ∧
      (∀ k ∈ s.succ, k ∈ s.bus) := by
  have hi := inv_reachable ls h
  refine ⟨hi.succ, hi.bus, hi.cg, hi.gc, by rw [hi.bus]; exact List.nodup_range, ?_⟩
  intro k hk
  rw [hi.succ] at hk
  rw [hi.bus]
  simp only [List.mem_range] at hk ⊢
  have := hi.cg
  omega

/-- the same system with the roles swapped gives the other direction: every telegram for which the
    gateway (sender) obtained an acknowledgement was accepted by the client (receiver) exactly once
    and in the gateway's order — the instance of `exactly_once_in_order_partial` with `bus` read
    as the client's Inbound; the client's receiver is the rule `recv` (C04's `step_law`) -/
theorem receiver_rule_is_c04 (s : St) (i : Nat) :
    recv s i =
      if i % 256 = s.G % 256 then { s with G := s.G + 1, bus := s.bus ++ [i], acks := s.acks ++ [i] }
      else if i % 256 = (s.G + 256 - 1) % 256 then { s with acks := s.acks ++ [i] } else s := rfl

/-- **the witness**: with `abandon` (what the client's response timeout does) a Send succeeds whose
    telegram never reaches the bus.  Exchange 0 carries telegram A: delivered, acknowledgement lost,
    the sender gives up; the next Send reuses number 0 for telegram B, the receiver takes it for a
    repetition and acknowledges, the sender reports success: bus = [A], successes = [B's exchange] -/
def witness : List Lbl :=
  [.start, .emit, .deliverReq 0, .dropReq 0, .dropAck 0, .abandon, .start, .emit, .deliverReq 0, .deliverAck 0]

theorem abandon_breaks_it :
    (run init witness).succ = [0] ∧ (run init witness).bus = [0] ∧ (run init witness).G = 1 ∧
      (run init witness).C = 1 ∧
      -- the successful exchange is the SECOND use of number 0, its telegram was never passed on:
      -- the receiver accepted exactly one request, before the abandon
      (run init (witness.take 6)).bus = [0] ∧ (run init (witness.take 6)).succ = [] := by decide

/-! non-vacuity of the invariant's hypotheses: a lossy, duplicating run across two exchanges -/
example : (run init [.start, .emit, .emit, .deliverReq 1, .deliverReq 0, .deliverAck 1, .start, .emit,
    .deliverReq 2, .deliverAck 2]).bus = [0, 1] := by decide +kernel

end Props.C05
