/-
  Driver/Main.lean — line-protocol model driver (`knxdrv`).
  Reads one operation per line on stdin, writes one canonical result line per operation.
  Core-only imports, so it links as a native executable.
-/
import Knx.Text
import Driver.Ops

open Knx Knx.Text

partial def loop (h : IO.FS.Stream) (out : IO.FS.Stream) : IO Unit := do
  let line ← h.getLine
  if line.isEmpty then return ()
  let l := line.trimAscii.toString
  if l.isEmpty || l.startsWith "#" then
    loop h out
  else
    out.putStrLn (Driver.runLine l)
    loop h out

def main : IO Unit := do
  let stdin ← IO.getStdin
  let stdout ← IO.getStdout
  loop stdin stdout
  stdout.flush
