/-
  Driver/GenMain.lean — evaluates the definitions regenerated from the source (`Knx.Gen.Helpers`)
  on operation lines, so that the translation itself is cross-checked against the real functions.
-/
import Knx.Gen.Helpers
import Knx.Address
import Knx.Text
import Knx.DptText
import Knx.Gen.Dpt
import Knx.Registry
import Knx.Groups

open Knx.Gen

def b8 (s : String) : Option (BitVec 8) := s.toNat?.bind fun n => if n < 256 then some (BitVec.ofNat 8 n) else none
def b16 (s : String) : Option (BitVec 16) := s.toNat?.bind fun n => if n < 65536 then some (BitVec.ofNat 16 n) else none
def bs (b : Bool) : String := if b then "1" else "0"

def strOfHex (h : String) : Option Knx.Addr.Str := (Knx.Text.unhex h).map (·.map BitVec.toNat)
def hexOfStr (s : Knx.Addr.Str) : String := Knx.Text.hex (s.map (BitVec.ofNat 8))
def showAddr : Option (BitVec 16) → String
  | some a => "ok " ++ toString a.toNat
  | none => "err"

def shapeOf (ty : String) : Option Knx.Dpt.Shape := (Knx.Gen.shapes.find? (·.1 == ty)).map (·.2)

/-- type name registered under a key (what `Produce` would instantiate) -/
def typeOfKey (k : String) : Option String := (Knx.Gen.registry.find? (·.1 == k)).map (·.2.2.1)

def runDpt (op : String) (args : List String) : Option String :=
  match op, args with
  | "dpu", [ty, h] => do
    let s ← shapeOf ty
    let data ← Knx.Text.unhex h
    match Knx.Dpt.decode s data with
    | .ok v => pure (" ".intercalate ("ok" :: v.toks))
    | .err => pure "err"
    | .panic => pure "panic"
    | .hang => pure "hang"
  | "dpp", ty :: ts => do
    let s ← shapeOf ty
    let v ← Knx.Dpt.parseVal s ts
    match Knx.Dpt.encode s v with
    | some b => pure ("ok " ++ Knx.Text.hex b)
    | none => pure "badval"
  | "produce", [k] =>
    match typeOfKey k with
    | some t => pure ("ok " ++ t)
    | none => pure "unknown"
  | _, _ => none

def parseHOp (t : String) : Option Knx.Dpt.HOp :=
  match t.splitOn ":" with
  | ["N", ty] => (shapeOf ty).map .produce
  | ["U", i, h] => do
    let i ← i.toNat?
    let d ← Knx.Text.unhex h
    pure (.unpack i d)
  | _ => none

def showCell : Knx.Dpt.Shape × Knx.Dpt.Cell → String
  | (s, .zero) => "_".intercalate (Knx.Dpt.zeroVal s).toks
  | (_, .val v) => "_".intercalate v.toks
  | (_, .dirty) => "?"

def runHist (ts : List String) : Option String := do
  let ops ← ts.mapM parseHOp
  let h := Knx.Dpt.Heap.run [] ops
  pure (" ".intercalate (h.map showCell))

/-- the exported flag / priority / command constants as the source declares them (regenerated) -/
def constTable : List (String × Nat) := [
  ("Control1StdFrame", Control1StdFrame.toNat), ("Control1NoRepeat", Control1NoRepeat.toNat),
  ("Control1NoSysBroadcast", Control1NoSysBroadcast.toNat), ("Control1WantAck", Control1WantAck.toNat),
  ("Control1HasError", Control1HasError.toNat), ("Control2GroupAddr", Control2GroupAddr.toNat),
  ("Control2LTEFrame", Control2LTEFrame.toNat), ("PrioSystem", PrioSystem.toNat), ("PrioNormal", PrioNormal.toNat),
  ("PrioUrgent", PrioUrgent.toNat), ("PrioLow", PrioLow.toNat), ("GroupValueRead", GroupValueRead.toNat),
  ("GroupValueResponse", GroupValueResponse.toNat), ("GroupValueWrite", GroupValueWrite.toNat)]

def runGen (line : String) : String :=
  let r : Option String :=
    match line.splitOn " " with
    | ["const", n] => (constTable.find? (·.1 == n)).map (fun p => toString p.2)
    | ["prio", x] => do let x ← b8 x; pure (toString (Control1Prio x).toNat)
    | ["hopsc", x] => do let x ← b8 x; pure (toString (Control2Hops x).toNat)
    | ["hops", x] => do let x ← b8 x; pure (toString (Hops x).toNat)
    | ["isgroup", x] => do let x ← b8 x; pure (bs (IsGroupAddr x))
    | ["isgcmd", x] => do let x ← b8 x; pure (bs (IsGroupCommand x))
    | ["ia3", a, b, c] => do
      let a ← b8 a; let b ← b8 b; let c ← b8 c
      pure (toString (NewIndividualAddr3 a b c).toNat)
    | ["ia2", a, b] => do let a ← b8 a; let b ← b8 b; pure (toString (NewIndividualAddr2 a b).toNat)
    | ["ga3", a, b, c] => do
      let a ← b8 a; let b ← b8 b; let c ← b8 c
      pure (toString (NewGroupAddr3 a b c).toNat)
    | ["ga2", a, b] => do let a ← b8 a; let b ← b16 b; pure (toString (NewGroupAddr2 a b).toNat)
    | ["pg", h] => do let t ← strOfHex h; pure (showAddr (Knx.Addr.parseGroup t))
    | ["pi", h] => do let t ← strOfHex h; pure (showAddr (Knx.Addr.parseIndividual t))
    | ["fg", n] => do let a ← b16 n; pure (hexOfStr (Knx.Addr.formatGroup a))
    | ["fi", n] => do let a ← b16 n; pure (hexOfStr (Knx.Addr.formatIndividual a))
    | "hist" :: ts => runHist ts
    | ["gout", c, sa, da, h] => do
      let c ← b8 c; let sa ← b16 sa; let da ← b16 da; let d ← Knx.Text.unhex h
      pure (" ".intercalate (Knx.Text.ldata (Knx.Grp.build { cmd := c, src := sa, dst := da, data := d })))
    | "gin" :: ts => do
      let (m, rest) ← Knx.Text.pCemi ts
      if !rest.isEmpty then none
      match Knx.Grp.filter m with
      | some ev => pure s!"ev {ev.cmd.toNat} {ev.src.toNat} {ev.dst.toNat} {Knx.Text.hex ev.data}"
      | none => pure "none"
    | op :: args => runDpt op args
    | _ => none
  r.getD "bad-op"

partial def loop (h : IO.FS.Stream) (out : IO.FS.Stream) : IO Unit := do
  let line ← h.getLine
  if line.isEmpty then return ()
  let l := line.trimAscii.toString
  if l.isEmpty || l.startsWith "#" then loop h out
  else
    out.putStrLn (runGen l)
    loop h out

def main : IO Unit := do
  let stdin ← IO.getStdin
  let stdout ← IO.getStdout
  loop stdin stdout
  stdout.flush
