/-
  Driver/Ops.lean — dispatch of protocol lines to model functions.
-/
import Knx.Text
import Knx.TunnelText
import Knx.RouterText
import Knx.Sock
import Knx.CloseOnce
import Knx.RouterBatch
import Knx.Buf

namespace Driver
open Knx Knx.Text

def showDec {α} (r : R (α × Nat)) (pr : α → List String) : String :=
  match r with
  | .ok (a, n) => " ".intercalate ("ok" :: toString n :: pr a)
  | .err => "err"
  | .panic => "panic"
  | .hang => "hang"

/-- pseudo-random tail bytes shared with the Go harness (LCG, bits 16..23) -/
def lcgBytes : Nat → Nat → List Byte
  | 0, _ => []
  | n + 1, x =>
    let x' := (x * 1103515245 + 12345) % 2147483648
    BitVec.ofNat 8 (x' / 65536) :: lcgBytes n x'

/-- tail specification: `-`, `f:<byte>:<n>` (fill) or `l:<seed>:<n>` (LCG) -/
def parseTail (t : String) : Option (List Byte) :=
  if t == "-" then some [] else
  match t.splitOn ":" with
  | ["f", b, n] => do
    let b ← b.toNat?
    let n ← n.toNat?
    pure (List.replicate n (BitVec.ofNat 8 b))
  | ["l", x, n] => do
    let x ← x.toNat?
    let n ← n.toNat?
    pure (lcgBytes n x)
  | _ => none

/-- `dec <vis> <tail>` / `decc <vis> <tail>` / `enc <service…>` / `encc <cemi…>` … -/
def parseArrivals (s : String) : Option (List Knx.Sock.Arrival) :=
  if s == "-" then some [] else
  (s.splitOn "|").mapM fun a =>
    match a.splitOn ":" with
    | [t, h] => do pure { t := ← t.toNat?, data := ← unhex h }
    | _ => none

def runWire (op : String) (args : List String) : Option String :=
  match op, args with
  | "dec", [v, t] => do
    let vis ← unhex v
    let tail ← parseTail t
    pure (showDec (unpackService.run { vis, tail }) service)
  | "decc", [v, t] => do
    let vis ← unhex v
    let tail ← parseTail t
    pure (showDec (unpackCemi.run { vis, tail }) cemi)
  | "enc", ts => do
    let (v, rest) ← pService ts
    if !rest.isEmpty then none
    match encFrame v with
    | some b => pure ("ok " ++ hex b)
    | none => pure "nopack"
  | "encw", spec :: ts => do
    -- the frame written INTO a prefilled buffer (Knx.Buf: the Pack procedures statement by statement)
    let (v, rest) ← pService ts
    if !rest.isEmpty then none
    let buf ← parseTail spec
    match Knx.Buf.packFrame v with
    | some p =>
      match p buf with
      | some b => pure ("ok " ++ hex b)
      | none => pure "panic"
    | none => pure "nopack"
  | "enccw", spec :: ts => do
    let (m, rest) ← pCemi ts
    if !rest.isEmpty then none
    let buf ← parseTail spec
    match Knx.Buf.packCemi m buf with
    | some b => pure ("ok " ++ hex b)
    | none => pure "panic"
  | "encc", ts => do
    let (m, rest) ← pCemi ts
    if !rest.isEmpty then none
    pure ("ok " ++ toString (sizeCemi m) ++ " " ++ hex (encCemi m))
  | "encb", ts => do
    let (v, rest) ← pService ts
    if !rest.isEmpty then none
    match encBody v, sizeBody v with
    | some b, some sz => pure ("ok " ++ toString sz ++ " " ++ hex b)
    | _, _ => pure "nopack"
  | "tcp", [chunks] => do
    let cs ← (chunks.splitOn "|").mapM unhex
    let (rx, out) := Knx.Sock.feedAll {} cs
    let tail := if rx.dead then "closed" else "open"
    pure (" ; ".intercalate (out.map (fun v => " ".intercalate (service v)) ++ [tail]))
  | "udp", [dgrams] => do
    let ds ← (dgrams.splitOn "|").mapM unhex
    let out := Knx.Sock.udpAll (List.replicate 1024 0) ds
    pure (" ; ".intercalate (out.map (fun v => " ".intercalate (service v)) ++ ["end"]))
  | "desc", [t, sc] => do
    let arr ← parseArrivals sc
    match Knx.Sock.describe (← t.toNat?) arr with
    | some v => pure (" ".intercalate (service v))
    | none => pure "none"
  | "disc", [t, sc] => do
    let arr ← parseArrivals sc
    let out := Knx.Sock.discover (← t.toNat?) arr
    pure (" ; ".intercalate (out.map (fun v => " ".intercalate (service v)) ++ ["end"]))
  | _, _ => none

/-- "crt <closers> <senders> <reader> <traffic>": `closers` goroutines call Close together on a usable
    socket.  The model runs them under a round-robin schedule long enough for all to finish (by
    Props.C10.Closers the outcome below is the same for EVERY schedule in which all have returned) -/
def runClosers (args : List String) : Option String := do
  let c ← (← args[0]?).toNat?
  let sched := (List.range 7).flatMap (fun _ => List.range c)
  let s := Knx.Once.run (Knx.Once.init c) sched
  let ret := (s.pcs.filter (· == Knx.Once.Pc.returned)).length
  -- Close calls that had returned at some point of the schedule while `done` was not yet closed / serve not
  -- yet joined (Props.C10.Closers.returned_means_closed: there are none, on any schedule)
  let early := ((List.range (sched.length + 1)).filter fun k =>
    let p := Knx.Once.run (Knx.Once.init c) (sched.take k)
    p.pcs.any (· == Knx.Once.Pc.returned) && !(p.doneClosed && p.joined)).length
  pure s!"dreq={s.dreqs} returned={ret}/{c} early={early} inbound={if s.doneClosed && s.joined then "closed" else "open"} send={if s.sockClosed then "err" else "ok"} second=ok"

def runLine (line : String) : String :=
  match line.splitOn " " with
  | [] => "bad-op"
  | "tun" :: _ => (Knx.Tun.runScript line).getD "bad-op"
  | "rtr" :: _ =>
    -- scripts with per-telegram socket failures run on the batch model (pause-free, idle client)
    if (line.splitOn "failpid").length > 1 then (Knx.RtrF.runScript line).getD "bad-op"
    else (Knx.Rtr.runScript line).getD "bad-op"
  | "crt" :: args => (runClosers args).getD "bad-op"
  | op :: args =>
    match runWire op args with
    | some s => s
    | none => "bad-op"

end Driver
