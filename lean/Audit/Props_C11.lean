import Lean
import Props.C11
open Lean Elab Command in
#eval show CommandElabM Unit from do
  let env ← getEnv
  let some idx := env.getModuleIdx? `Props.C11 | throwError "module not found"
  let mut n : Nat := 0
  for (name, ci) in env.constants.map₁.toList do
    if env.getModuleIdxFor? name == some idx then
      if let .thmInfo _ := ci then
        if name.isInternal then continue
        if !(`Props).isPrefixOf name then continue
        let axs ← collectAxioms name
        let ty ← liftTermElabM (do let f ← Meta.ppExpr ci.type; pure f.pretty)
        let ty1 := (ty.replace "\n" " ")
        let axl := String.intercalate "," (axs.toList.map toString)
        IO.println s!"THEOREM {name} AXIOMS [{axl}] STATEMENT {ty1}"
        n := n + 1
  IO.println s!"THEOREMS {n}"
