// Package ktext prints and parses wire-level values of knx-go in the canonical token syntax of the
// verification line protocol (the Lean side is Knx/Text.lean).
package ktext

import (
	"encoding/hex"
	"fmt"
	"net"
	"strconv"
	"strings"
	"time"

	"github.com/vapourismo/knx-go/knx/cemi"
	"github.com/vapourismo/knx-go/knx/knxnet"
)

// Hex renders bytes as lowercase hex, "-" when empty.
func Hex(b []byte) string {
	if len(b) == 0 {
		return "-"
	}
	return hex.EncodeToString(b)
}

// Unhex parses Hex output.
func Unhex(s string) ([]byte, error) {
	if s == "-" {
		return []byte{}, nil
	}
	return hex.DecodeString(s)
}

func u(n interface{}) string { return fmt.Sprintf("%d", n) }

func b01(b bool) string {
	if b {
		return "1"
	}
	return "0"
}

// HostInfo tokens.
func HostInfo(h knxnet.HostInfo) []string {
	return []string{"H", u(uint8(h.Protocol)), u(h.Address[0]), u(h.Address[1]), u(h.Address[2]), u(h.Address[3]), u(uint16(h.Port))}
}

// TPDU tokens.
func TPDU(t cemi.TransportUnit) []string {
	switch t := t.(type) {
	case *cemi.AppData:
		return []string{"App", b01(t.Numbered), u(t.SeqNumber), u(uint8(t.Command)), Hex(t.Data)}
	case *cemi.ControlData:
		return []string{"Ctl", b01(t.Numbered), u(t.SeqNumber), u(t.Command)}
	}
	return []string{fmt.Sprintf("?tpdu(%T)", t)}
}

// LData tokens.
func LData(l *cemi.LData) []string {
	out := []string{Hex(l.Info), u(uint8(l.Control1)), u(uint8(l.Control2)), u(uint16(l.Source)), u(l.Destination)}
	return append(out, TPDU(l.Data)...)
}

// Cemi tokens.
func Cemi(m cemi.Message) []string {
	switch m := m.(type) {
	case *cemi.LDataReq:
		return append([]string{"LDataReq"}, LData(&m.LData)...)
	case *cemi.LDataCon:
		return append([]string{"LDataCon"}, LData(&m.LData)...)
	case *cemi.LDataInd:
		return append([]string{"LDataInd"}, LData(&m.LData)...)
	case *cemi.LRawReq:
		return []string{"LRawReq", Hex(m.LRaw)}
	case *cemi.LRawCon:
		return []string{"LRawCon", Hex(m.LRaw)}
	case *cemi.LRawInd:
		return []string{"LRawInd", Hex(m.LRaw)}
	case *cemi.LBusmonInd:
		return []string{"LBusmon", Hex(*m)}
	case *cemi.UnsupportedMessage:
		return []string{"Unsup", u(uint8(m.Code)), Hex(m.Data)}
	}
	return []string{fmt.Sprintf("?cemi(%T)", m)}
}

// Name renders a string as its code points.
func Name(s string) string {
	if s == "" {
		return "-"
	}
	var parts []string
	for _, r := range s {
		parts = append(parts, u(int(r)))
	}
	return strings.Join(parts, ",")
}

// DevInfo tokens.
func DevInfo(d *knxnet.DeviceInformationBlock) []string {
	return []string{"Dev", u(uint8(d.Type)), u(uint8(d.Medium)), u(uint8(d.Status)), u(uint16(d.Source)),
		u(uint16(d.ProjectIdentifier)), Hex(d.SerialNumber[:]), Hex(d.RoutingMulticastAddress[:]),
		Hex([]byte(d.HardwareAddr)), Name(d.FriendlyName)}
}

// SvcDIB tokens.
func SvcDIB(d *knxnet.SupportedServicesDIB) []string {
	out := []string{"Svc", u(uint8(d.Type)), u(len(d.Families))}
	for _, f := range d.Families {
		out = append(out, u(uint8(f.Type)), u(f.Version))
	}
	return out
}

// DescBlock tokens.
func DescBlock(b *knxnet.DescriptionBlock) []string {
	out := append(DevInfo(&b.DeviceHardware), SvcDIB(&b.SupportedServices)...)
	out = append(out, u(len(b.UnknownBlocks)))
	for _, ub := range b.UnknownBlocks {
		out = append(out, u(uint8(ub.Type)), Hex(ub.Data))
	}
	return out
}

// Service tokens.
func Service(s knxnet.Service) []string {
	switch s := s.(type) {
	case *knxnet.SearchReq:
		return append([]string{"SearchReq"}, HostInfo(s.HostInfo)...)
	case *knxnet.SearchRes:
		out := append([]string{"SearchRes"}, HostInfo(s.Control)...)
		out = append(out, DevInfo(&s.DescriptionB.DeviceHardware)...)
		return append(out, SvcDIB(&s.DescriptionB.SupportedServices)...)
	case *knxnet.DescriptionReq:
		return append([]string{"DescrReq"}, HostInfo(s.HostInfo)...)
	case *knxnet.DescriptionRes:
		return append([]string{"DescrRes"}, DescBlock((*knxnet.DescriptionBlock)(s))...)
	case *knxnet.ConnReq:
		out := append([]string{"ConnReq"}, HostInfo(s.Control)...)
		out = append(out, HostInfo(s.Tunnel)...)
		return append(out, u(uint8(s.Layer)))
	case *knxnet.ConnRes:
		return append([]string{"ConnRes", u(s.Channel), u(uint8(s.Status))}, HostInfo(s.Control)...)
	case *knxnet.ConnStateReq:
		return append([]string{"ConnStateReq", u(s.Channel), u(uint8(s.Status))}, HostInfo(s.Control)...)
	case *knxnet.ConnStateRes:
		return []string{"ConnStateRes", u(s.Channel), u(uint8(s.Status))}
	case *knxnet.DiscReq:
		return append([]string{"DiscReq", u(s.Channel), u(s.Status)}, HostInfo(s.Control)...)
	case *knxnet.DiscRes:
		return []string{"DiscRes", u(s.Channel), u(s.Status)}
	case *knxnet.TunnelReq:
		return append([]string{"TunnelReq", u(s.Channel), u(s.SeqNumber)}, Cemi(s.Payload)...)
	case *knxnet.TunnelRes:
		return []string{"TunnelRes", u(s.Channel), u(s.SeqNumber), u(uint8(s.Status))}
	case *knxnet.RoutingInd:
		return append([]string{"RoutingInd"}, Cemi(s.Payload)...)
	case *knxnet.RoutingLost:
		return []string{"RoutingLost", u(uint8(s.Status)), u(s.Count)}
	case *knxnet.RoutingBusy:
		return []string{"RoutingBusy", u(uint8(s.Status)), u(uint16(s.WaitTime / time.Millisecond)), u(s.Control)}
	case *knxnet.UnknownService:
		return []string{"Unknown", u(uint16(s.Service())), Hex(s.Data)}
	}
	return []string{fmt.Sprintf("?service(%T)", s)}
}

// ---- parsing ----

// Toks is a token cursor.
type Toks struct {
	T   []string
	Err error
}

func (t *Toks) next() string {
	if t.Err != nil {
		return ""
	}
	if len(t.T) == 0 {
		t.Err = fmt.Errorf("unexpected end of tokens")
		return ""
	}
	x := t.T[0]
	t.T = t.T[1:]
	return x
}

func (t *Toks) nat(max uint64) uint64 {
	s := t.next()
	if t.Err != nil {
		return 0
	}
	n, err := strconv.ParseUint(s, 10, 64)
	if err != nil || n > max {
		t.Err = fmt.Errorf("bad number %q", s)
		return 0
	}
	return n
}

func (t *Toks) byte() uint8   { return uint8(t.nat(255)) }
func (t *Toks) word() uint16  { return uint16(t.nat(65535)) }
func (t *Toks) bool() bool    { return t.nat(1) == 1 }
func (t *Toks) bytes() []byte {
	s := t.next()
	if t.Err != nil {
		return nil
	}
	b, err := Unhex(s)
	if err != nil {
		t.Err = err
	}
	return b
}

func (t *Toks) expect(s string) {
	if x := t.next(); t.Err == nil && x != s {
		t.Err = fmt.Errorf("expected %q got %q", s, x)
	}
}

// PHostInfo parses a HostInfo.
func (t *Toks) PHostInfo() knxnet.HostInfo {
	t.expect("H")
	var h knxnet.HostInfo
	h.Protocol = knxnet.Protocol(t.byte())
	for i := 0; i < 4; i++ {
		h.Address[i] = t.byte()
	}
	h.Port = knxnet.Port(t.word())
	return h
}

// PTPDU parses a transport unit.
func (t *Toks) PTPDU() cemi.TransportUnit {
	kind := t.next()
	n := t.bool()
	s := t.byte()
	c := t.byte()
	switch kind {
	case "App":
		d := t.bytes()
		if len(d) == 0 {
			d = nil
		}
		return &cemi.AppData{Numbered: n, SeqNumber: s, Command: cemi.APCI(c), Data: d}
	case "Ctl":
		return &cemi.ControlData{Numbered: n, SeqNumber: s, Command: c}
	}
	if t.Err == nil {
		t.Err = fmt.Errorf("bad tpdu kind %q", kind)
	}
	return nil
}

// PLData parses an LData.
func (t *Toks) PLData() cemi.LData {
	var l cemi.LData
	info := t.bytes()
	if len(info) > 0 {
		l.Info = cemi.Info(info)
	}
	l.Control1 = cemi.ControlField1(t.byte())
	l.Control2 = cemi.ControlField2(t.byte())
	l.Source = cemi.IndividualAddr(t.word())
	l.Destination = t.word()
	l.Data = t.PTPDU()
	return l
}

// PCemi parses a cEMI message.
func (t *Toks) PCemi() cemi.Message {
	kind := t.next()
	switch kind {
	case "LDataReq":
		return &cemi.LDataReq{LData: t.PLData()}
	case "LDataCon":
		return &cemi.LDataCon{LData: t.PLData()}
	case "LDataInd":
		return &cemi.LDataInd{LData: t.PLData()}
	case "LRawReq":
		return &cemi.LRawReq{LRaw: t.bytes()}
	case "LRawCon":
		return &cemi.LRawCon{LRaw: t.bytes()}
	case "LRawInd":
		return &cemi.LRawInd{LRaw: t.bytes()}
	case "LBusmon":
		b := cemi.LBusmonInd(t.bytes())
		return &b
	case "Unsup":
		c := t.byte()
		return &cemi.UnsupportedMessage{Code: cemi.MessageCode(c), Data: t.bytes()}
	}
	if t.Err == nil {
		t.Err = fmt.Errorf("bad cemi kind %q", kind)
	}
	return nil
}

// PName parses a name.
func (t *Toks) PName() string {
	s := t.next()
	if t.Err != nil || s == "-" {
		return ""
	}
	var sb strings.Builder
	for _, p := range strings.Split(s, ",") {
		n, err := strconv.ParseUint(p, 10, 32)
		if err != nil {
			t.Err = err
			return ""
		}
		sb.WriteRune(rune(n))
	}
	return sb.String()
}

// PDevInfo parses a device information block.
func (t *Toks) PDevInfo() knxnet.DeviceInformationBlock {
	t.expect("Dev")
	var d knxnet.DeviceInformationBlock
	d.Type = knxnet.DescriptionType(t.byte())
	d.Medium = knxnet.KNXMedium(t.byte())
	d.Status = knxnet.DeviceStatus(t.byte())
	d.Source = cemi.IndividualAddr(t.word())
	d.ProjectIdentifier = knxnet.ProjectInstallationIdentifier(t.word())
	copy(d.SerialNumber[:], t.bytes())
	copy(d.RoutingMulticastAddress[:], t.bytes())
	d.HardwareAddr = net.HardwareAddr(t.bytes())
	d.FriendlyName = t.PName()
	return d
}

// PSvcDIB parses a supported services DIB.
func (t *Toks) PSvcDIB() knxnet.SupportedServicesDIB {
	t.expect("Svc")
	var d knxnet.SupportedServicesDIB
	d.Type = knxnet.DescriptionType(t.byte())
	k := int(t.nat(1 << 20))
	for i := 0; i < k && t.Err == nil; i++ {
		ty := t.byte()
		v := t.byte()
		d.Families = append(d.Families, knxnet.ServiceFamily{Type: knxnet.ServiceFamilyType(ty), Version: v})
	}
	return d
}

// PService parses a service value. Unknown services and the non-packable ones are returned as well;
// the second result says whether the value implements ServicePackable.
func (t *Toks) PService() knxnet.Service {
	kind := t.next()
	switch kind {
	case "SearchReq":
		return &knxnet.SearchReq{HostInfo: t.PHostInfo()}
	case "SearchRes":
		r := &knxnet.SearchRes{}
		r.Control = t.PHostInfo()
		r.DescriptionB.DeviceHardware = t.PDevInfo()
		r.DescriptionB.SupportedServices = t.PSvcDIB()
		return r
	case "DescrReq":
		return &knxnet.DescriptionReq{HostInfo: t.PHostInfo()}
	case "DescrRes":
		r := &knxnet.DescriptionRes{}
		r.DeviceHardware = t.PDevInfo()
		r.SupportedServices = t.PSvcDIB()
		k := int(t.nat(1 << 20))
		for i := 0; i < k && t.Err == nil; i++ {
			ty := t.byte()
			r.UnknownBlocks = append(r.UnknownBlocks, knxnet.UnknownDescriptionBlock{Type: knxnet.DescriptionType(ty), Data: t.bytes()})
		}
		return r
	case "ConnReq":
		r := &knxnet.ConnReq{}
		r.Control = t.PHostInfo()
		r.Tunnel = t.PHostInfo()
		r.Layer = knxnet.TunnelLayer(t.byte())
		return r
	case "ConnRes":
		r := &knxnet.ConnRes{}
		r.Channel = t.byte()
		r.Status = knxnet.ErrCode(t.byte())
		r.Control = t.PHostInfo()
		return r
	case "ConnStateReq":
		r := &knxnet.ConnStateReq{}
		r.Channel = t.byte()
		r.Status = knxnet.ErrCode(t.byte())
		r.Control = t.PHostInfo()
		return r
	case "ConnStateRes":
		return &knxnet.ConnStateRes{Channel: t.byte(), Status: knxnet.ErrCode(t.byte())}
	case "DiscReq":
		r := &knxnet.DiscReq{}
		r.Channel = t.byte()
		r.Status = t.byte()
		r.Control = t.PHostInfo()
		return r
	case "DiscRes":
		return &knxnet.DiscRes{Channel: t.byte(), Status: t.byte()}
	case "TunnelReq":
		r := &knxnet.TunnelReq{}
		r.Channel = t.byte()
		r.SeqNumber = t.byte()
		r.Payload = t.PCemi()
		return r
	case "TunnelRes":
		return &knxnet.TunnelRes{Channel: t.byte(), SeqNumber: t.byte(), Status: knxnet.ErrCode(t.byte())}
	case "RoutingInd":
		return &knxnet.RoutingInd{Payload: t.PCemi()}
	case "RoutingLost":
		return &knxnet.RoutingLost{Status: knxnet.DeviceState(t.byte()), Count: t.word()}
	case "RoutingBusy":
		r := &knxnet.RoutingBusy{}
		r.Status = knxnet.DeviceState(t.byte())
		r.WaitTime = time.Duration(t.word()) * time.Millisecond
		r.Control = t.word()
		return r
	case "Unknown":
		id := t.word()
		data := t.bytes()
		// The service id of an UnknownService is not settable from outside the package:
		// obtain the value by decoding a frame with that id.
		frame := append([]byte{6, 16, byte(id >> 8), byte(id), 0, 0}, data...)
		var s knxnet.Service
		if _, err := knxnet.Unpack(frame, &s); err != nil {
			t.Err = err
			return nil
		}
		return s
	}
	if t.Err == nil {
		t.Err = fmt.Errorf("bad service kind %q", kind)
	}
	return nil
}

// Join joins tokens.
func Join(t []string) string { return strings.Join(t, " ") }
