package proto

import (
	"fmt"
	"strconv"
	"strings"
	"sync"
	"testing"
	"testing/synctest"
	"time"

	"github.com/vapourismo/knx-go/knx"
	"github.com/vapourismo/knx-go/knx/knxnet"
)

// A router script (one line):
//
//	rtr <pause ms> <retain> : @<t> <event> ; ...
//
// events: send <pid> | rx rind <pid> | rx rbusy <wait> <ctrl> | rx rlost <k> | rx other | read | close |
//
//	sockfail <0|1> | failpid <pid> <0|1> | end
func runRouterScript(t *testing.T, line string) (trace string) {
	parts := strings.SplitN(line, ":", 2)
	head := strings.Fields(parts[0])
	if len(head) != 3 {
		return "bad-script"
	}
	pause, _ := strconv.Atoi(head[1])
	retain, _ := strconv.Atoi(head[2])
	var evs []event
	if len(parts) == 2 {
		for _, e := range strings.Split(parts[1], ";") {
			f := strings.Fields(e)
			if len(f) == 0 {
				continue
			}
			tt, err := strconv.ParseInt(strings.TrimPrefix(f[0], "@"), 10, 64)
			if err != nil {
				return "bad-script"
			}
			evs = append(evs, event{tt, f[1:]})
		}
	}
	var log []string
	var logMu sync.Mutex
	endMark := -1
	add := func(s string) {
		logMu.Lock()
		log = append(log, s)
		logMu.Unlock()
	}
	defer func() {
		if p := recover(); p != nil {
			logMu.Lock()
			trace = canonical(log) + " ; PANIC " + strings.ReplaceAll(fmt.Sprint(p), "\n", " ")
			logMu.Unlock()
		}
	}()
	synctest.Test(t, func(t *testing.T) {
		start := time.Now()
		now := func() int64 { return int64(time.Since(start) / time.Millisecond) }
		sock := &memSock{start: start, inbound: make(chan knxnet.Service), add: add}
		r := knx.VerifNewRouter(sock, knx.RouterConfig{RetainCount: uint(retain), PostSendPauseDuration: time.Duration(pause) * time.Millisecond})
		var wg sync.WaitGroup
		for _, ev := range evs {
			if d := ev.t - now(); d > 0 {
				time.Sleep(time.Duration(d) * time.Millisecond)
			}
			synctest.Wait()
			switch ev.toks[0] {
			case "send":
				pid, _ := strconv.Atoi(ev.toks[1])
				wg.Add(1)
				go func() {
					defer wg.Done()
					err := r.Send(payload(pid, true))
					res := "ok"
					if err != nil {
						res = "sockerr"
					}
					add(fmt.Sprintf("ret %d %d %s", now(), pid, res))
				}()
			case "rx":
				f, err := parseFrame(ev.toks[1:])
				if err == errDropped {
					// the socket's receiver would have dropped this well-formed datagram
					add(fmt.Sprintf("decoder-dropped %d %s", now(), strings.Join(ev.toks[1:], "_")))
					continue
				}
				if err != nil {
					add("bad-frame")
					continue
				}
				func() {
					defer func() {
						if recover() != nil {
							add(fmt.Sprintf("undelivered %d", now()))
						}
					}()
					select {
					case sock.inbound <- f:
					default:
						add(fmt.Sprintf("undelivered %d", now()))
					}
				}()
			case "read":
				select {
				case m, ok := <-r.Inbound():
					if !ok {
						add(fmt.Sprintf("got %d closed", now()))
					} else {
						add(fmt.Sprintf("got %d %d", now(), pidOf(m)))
					}
				default:
					add(fmt.Sprintf("got %d none", now()))
				}
			case "close":
				r.Close()
			case "sockfail":
				sock.mu.Lock()
				sock.failing = ev.toks[1] == "1"
				sock.mu.Unlock()
			case "failpid":
				pid, _ := strconv.Atoi(ev.toks[1])
				sock.mu.Lock()
				if sock.failPids == nil {
					sock.failPids = map[int]bool{}
				}
				sock.failPids[pid] = len(ev.toks) < 3 || ev.toks[2] == "1"
				sock.mu.Unlock()
			case "end":
				synctest.Wait()
				logMu.Lock()
				endMark = len(log)
				logMu.Unlock()
			}
			synctest.Wait()
		}
		r.Close()
		go func() {
			for range r.Inbound() {
			}
		}()
		wg.Wait()
		// let pause / back-off timers run out so that no goroutine is left behind
		time.Sleep(time.Hour)
		synctest.Wait()
	})
	logMu.Lock()
	defer logMu.Unlock()
	if endMark >= 0 && endMark <= len(log) {
		log = log[:endMark]
	}
	return canonical(log)
}
