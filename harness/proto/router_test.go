package proto

import "testing"

func runRouterScript(t *testing.T, line string) string { return "todo" }
