package proto

import (
	"fmt"
	"math/rand"
	"strconv"
	"strings"
	"sync"
	"testing"
	"testing/synctest"
	"time"

	"github.com/vapourismo/knx-go/knx"
	"github.com/vapourismo/knx-go/knx/cemi"
	"github.com/vapourismo/knx-go/knx/knxnet"
)

// A composed-system walk (one line):
//
//	sw <resend> <timeout> <seed> <nOut> <nIn> <loss%> <dup%> <maxDelay ms> [c2g=<fates>] [g2c=<fates>]
//
// The real client talks to a rule-following gateway (accept the expected number, re-acknowledge
// the previous one, ignore others; repeat its own unacknowledged requests) over a network that
// loses, duplicates, delays and reorders datagrams.  Fates (d deliver, l lose, u duplicate) for the
// first datagrams of each direction may be given explicitly; afterwards they are drawn from the
// seeded PRNG.  The line printed lists, in order: what the gateway put on the bus, which Sends
// succeeded / failed (with the sequence number each used), what the gateway got acknowledged,
// what the application received.
func runSWScript(t *testing.T, line string) (trace string) {
	f := strings.Fields(line)
	if len(f) < 9 {
		return "bad-script"
	}
	n := func(i int) int { v, _ := strconv.Atoi(f[i]); return v }
	R, T, seed, nOut, nIn, loss, dup, maxDelay := n(1), n(2), n(3), n(4), n(5), n(6), n(7), n(8)
	fates := map[string]string{}
	for _, x := range f[9:] {
		kv := strings.SplitN(x, "=", 2)
		if len(kv) == 2 {
			fates[kv[0]] = kv[1]
		}
	}
	var mu sync.Mutex
	var bus, gwAcked, got []string
	var sends []string
	defer func() {
		if p := recover(); p != nil {
			trace = "PANIC " + strings.ReplaceAll(fmt.Sprint(p), "\n", " ")
		}
	}()
	synctest.Test(t, func(t *testing.T) {
		rnd := rand.New(rand.NewSource(int64(seed)))
		var rmu sync.Mutex
		idx := map[string]int{}
		fate := func(dir string) (copies int, delays []time.Duration) {
			rmu.Lock()
			defer rmu.Unlock()
			k := idx[dir]
			idx[dir]++
			c := byte(0)
			if s := fates[dir]; k < len(s) {
				c = s[k]
			}
			switch {
			case c == 'l':
				return 0, nil
			case c == 'd':
				return 1, []time.Duration{time.Duration(1+k%7) * time.Millisecond}
			case c == 'u':
				return 2, []time.Duration{2 * time.Millisecond, time.Duration(R+3) * time.Millisecond}
			}
			p := rnd.Intn(100)
			copies = 1
			if p < loss {
				return 0, nil
			} else if p < loss+dup {
				copies = 2 + rnd.Intn(2)
			}
			for i := 0; i < copies; i++ {
				delays = append(delays, time.Duration(1+rnd.Intn(maxDelay))*time.Millisecond)
			}
			return
		}
		start := time.Now()
		sock := &memSock{start: start, inbound: make(chan knxnet.Service), add: func(string) {}}
		const ch = 7
		// gateway state
		var gmu sync.Mutex
		expected := uint8(0)
		outSeq := uint8(0)
		acked := make(chan uint8, 16)
		stop := make(chan struct{})
		toClient := func(fr knxnet.Service) {
			copies, delays := fate("g2c")
			for i := 0; i < copies; i++ {
				d := delays[i]
				time.AfterFunc(d, func() {
					select {
					case sock.inbound <- fr:
					case <-stop:
					}
				})
			}
		}
		gatewayRecv := func(p knxnet.ServicePackable) {
			switch fr := p.(type) {
			case *knxnet.TunnelReq:
				gmu.Lock()
				defer gmu.Unlock()
				if fr.Channel != ch {
					return
				}
				if fr.SeqNumber == expected {
					expected++
					mu.Lock()
					bus = append(bus, strconv.Itoa(pidOf(fr.Payload)))
					mu.Unlock()
					toClient(&knxnet.TunnelRes{Channel: ch, SeqNumber: fr.SeqNumber})
				} else if fr.SeqNumber == expected-1 {
					toClient(&knxnet.TunnelRes{Channel: ch, SeqNumber: fr.SeqNumber})
				}
			case *knxnet.TunnelRes:
				if fr.Channel == ch && fr.Status == 0 {
					select {
					case acked <- fr.SeqNumber:
					default:
					}
				}
			case *knxnet.ConnStateReq:
				toClient(&knxnet.ConnStateRes{Channel: ch})
			}
		}
		first := true
		sock.onSend = func(string) {}
		sendHook := func(p knxnet.ServicePackable) {
			if _, ok := p.(*knxnet.ConnReq); ok && first {
				first = false
				go func() { sock.inbound <- &knxnet.ConnRes{Channel: ch, Control: knxnet.HostInfo{Protocol: knxnet.UDP4}} }()
				return
			}
			copies, delays := fate("c2g")
			for i := 0; i < copies; i++ {
				time.AfterFunc(delays[i], func() { gatewayRecv(p) })
			}
		}
		hs := &hookSock{memSock: sock, hook: sendHook}
		tun, err := knx.VerifNewTunnel(hs, knxnet.TunnelLayerData, knx.TunnelConfig{
			ResendInterval: time.Duration(R) * time.Millisecond, ResponseTimeout: time.Duration(T) * time.Millisecond,
			HeartbeatInterval: time.Hour,
		})
		if err != nil {
			mu.Lock()
			sends = append(sends, "connect-failed")
			mu.Unlock()
			return
		}
		var wg sync.WaitGroup
		// the application: reads Inbound all the time, sends its telegrams one after the other
		wg.Add(1)
		go func() {
			defer wg.Done()
			for m := range tun.Inbound() {
				mu.Lock()
				got = append(got, strconv.Itoa(pidOf(m)))
				mu.Unlock()
			}
		}()
		wg.Add(1)
		go func() {
			defer wg.Done()
			for i := 1; i <= nOut; i++ {
				err := tun.Send(payload(i, false))
				mu.Lock()
				sends = append(sends, fmt.Sprintf("%d:%s:%s", i, hs.lastSeq(i), classify(err)))
				mu.Unlock()
				time.Sleep(time.Duration(1+i%5) * time.Millisecond)
			}
		}()
		// the gateway's own telegrams: stop-and-wait with up to 6 transmissions each
		wg.Add(1)
		go func() {
			defer wg.Done()
			for i := 1; i <= nIn; i++ {
				pid := 1000 + i
				gmu.Lock()
				seq := outSeq
				gmu.Unlock()
				ok := false
				for try := 0; try < 6 && !ok; try++ {
					toClient(&knxnet.TunnelReq{Channel: ch, SeqNumber: seq, Payload: payload(pid, true)})
					deadline := time.After(time.Duration(R) * time.Millisecond)
				wait:
					for {
						select {
						case a := <-acked:
							if a == seq {
								ok = true
								break wait
							}
						case <-deadline:
							break wait
						}
					}
				}
				if ok {
					gmu.Lock()
					outSeq++
					gmu.Unlock()
					mu.Lock()
					gwAcked = append(gwAcked, strconv.Itoa(pid))
					mu.Unlock()
				} else {
					break // a real gateway would drop the connection
				}
				time.Sleep(time.Duration(2+i%3) * time.Millisecond)
			}
		}()
		// let everything settle, then close
		time.Sleep(time.Duration((nOut+nIn+4)*(T+50)) * time.Millisecond)
		synctest.Wait()
		close(stop)
		tun.Close()
		wg.Wait()
		time.Sleep(time.Hour)
		synctest.Wait()
	})
	mu.Lock()
	defer mu.Unlock()
	return fmt.Sprintf("bus %s ; sends %s ; gwacked %s ; got %s", strings.Join(bus, ","), strings.Join(sends, ","),
		strings.Join(gwAcked, ","), strings.Join(got, ","))
}

// hookSock passes every frame the client sends to a hook (the lossy network towards the gateway)
// and remembers which sequence number each telegram was sent with.
type hookSock struct {
	*memSock
	hook func(knxnet.ServicePackable)
	mu   sync.Mutex
	seqs map[int]uint8
}

func (h *hookSock) Send(p knxnet.ServicePackable) error {
	if err := h.memSock.Send(p); err != nil {
		return err
	}
	if tr, ok := p.(*knxnet.TunnelReq); ok {
		h.mu.Lock()
		if h.seqs == nil {
			h.seqs = map[int]uint8{}
		}
		h.seqs[pidOf(tr.Payload)] = tr.SeqNumber
		h.mu.Unlock()
	}
	h.hook(p)
	return nil
}

func (h *hookSock) lastSeq(pid int) string {
	h.mu.Lock()
	defer h.mu.Unlock()
	if s, ok := h.seqs[pid]; ok {
		return strconv.Itoa(int(s))
	}
	return "-"
}

var _ = cemi.LDataReqCode
