package proto

import (
	"errors"
	"fmt"
	"net"
	"sync"
	"time"

	"github.com/vapourismo/knx-go/knx/cemi"
	"github.com/vapourismo/knx-go/knx/knxnet"
)

// memSock is an in-memory knxnet.Socket: everything the client sends is recorded with the
// (virtual) time since the script started; frames for the client are offered on the inbound
// channel by the script runner.
type memSock struct {
	mu      sync.Mutex
	start   time.Time
	add     func(string)
	inbound chan knxnet.Service
	closed  bool
	failing bool
	tcp     bool
	// autoConnect answers connect requests: list of responses still to give (nil = none)
	onSend func(f string)
}

func (s *memSock) now() int64 { return int64(time.Since(s.start) / time.Millisecond) }

func (s *memSock) Send(p knxnet.ServicePackable) error {
	s.mu.Lock()
	if s.failing || s.closed {
		s.mu.Unlock()
		return errors.New("socket failure")
	}
	f := renderFrame(p)
	line := fmt.Sprintf("tx %d %s", s.now(), f)
	cb := s.onSend
	s.mu.Unlock()
	s.add(line)
	if cb != nil {
		cb(f)
	}
	return nil
}

func (s *memSock) Inbound() <-chan knxnet.Service { return s.inbound }

func (s *memSock) Close() error {
	s.mu.Lock()
	defer s.mu.Unlock()
	if !s.closed {
		s.closed = true
		close(s.inbound)
	}
	return nil
}

func (s *memSock) LocalAddr() net.Addr {
	if s.tcp {
		return &net.TCPAddr{IP: net.IPv4(192, 168, 1, 82), Port: 4321}
	}
	return &net.UDPAddr{IP: net.IPv4(192, 168, 1, 82), Port: 4321}
}

// payload builds the cEMI message that stands for telegram number pid.
func payload(pid int, ind bool) cemi.Message {
	l := cemi.LData{
		Control1:    cemi.Control1StdFrame,
		Control2:    cemi.Control2GroupAddr | cemi.Control2Hops(6),
		Source:      cemi.IndividualAddr(0x1101),
		Destination: uint16(pid),
		Data:        &cemi.AppData{Command: cemi.GroupValueWrite, Data: []byte{1}},
	}
	if ind {
		return &cemi.LDataInd{LData: l}
	}
	return &cemi.LDataReq{LData: l}
}

func pidOf(m cemi.Message) int {
	switch m := m.(type) {
	case *cemi.LDataReq:
		return int(m.Destination)
	case *cemi.LDataInd:
		return int(m.Destination)
	case *cemi.LDataCon:
		return int(m.Destination)
	}
	return -1
}

func renderFrame(p knxnet.Service) string {
	switch p := p.(type) {
	case *knxnet.ConnReq:
		return "creq"
	case *knxnet.ConnRes:
		return fmt.Sprintf("cres %d %d", p.Channel, uint8(p.Status))
	case *knxnet.ConnStateReq:
		return fmt.Sprintf("csreq %d", p.Channel)
	case *knxnet.ConnStateRes:
		return fmt.Sprintf("csres %d %d", p.Channel, uint8(p.Status))
	case *knxnet.DiscReq:
		return fmt.Sprintf("dreq %d", p.Channel)
	case *knxnet.DiscRes:
		return fmt.Sprintf("dres %d", p.Channel)
	case *knxnet.TunnelReq:
		return fmt.Sprintf("treq %d %d %d", p.Channel, p.SeqNumber, pidOf(p.Payload))
	case *knxnet.TunnelRes:
		return fmt.Sprintf("tres %d %d %d", p.Channel, p.SeqNumber, uint8(p.Status))
	case *knxnet.RoutingInd:
		return fmt.Sprintf("rind %d", pidOf(p.Payload))
	case *knxnet.RoutingBusy:
		return fmt.Sprintf("rbusy %d %d", p.WaitTime/time.Millisecond, p.Control)
	case *knxnet.RoutingLost:
		return fmt.Sprintf("rlost %d", p.Count)
	}
	return fmt.Sprintf("other(%T)", p)
}

// parseFrame builds the frame a gateway would send.
func parseFrame(toks []string) (knxnet.Service, error) {
	n := func(i int) int {
		var v int
		fmt.Sscan(toks[i], &v)
		return v
	}
	switch toks[0] {
	case "cres":
		return &knxnet.ConnRes{Channel: uint8(n(1)), Status: knxnet.ErrCode(n(2)), Control: knxnet.HostInfo{Protocol: knxnet.UDP4}}, nil
	case "csres":
		return &knxnet.ConnStateRes{Channel: uint8(n(1)), Status: knxnet.ErrCode(n(2))}, nil
	case "dreq":
		return &knxnet.DiscReq{Channel: uint8(n(1))}, nil
	case "dres":
		return &knxnet.DiscRes{Channel: uint8(n(1))}, nil
	case "treq":
		return &knxnet.TunnelReq{Channel: uint8(n(1)), SeqNumber: uint8(n(2)), Payload: payload(n(3), true)}, nil
	case "tres":
		return &knxnet.TunnelRes{Channel: uint8(n(1)), SeqNumber: uint8(n(2)), Status: knxnet.ErrCode(n(3))}, nil
	case "other":
		return &knxnet.SearchReq{}, nil
	case "rind":
		return &knxnet.RoutingInd{Payload: payload(n(1), true)}, nil
	case "rbusy":
		return &knxnet.RoutingBusy{WaitTime: time.Duration(n(1)) * time.Millisecond, Control: uint16(n(2))}, nil
	case "rlost":
		return &knxnet.RoutingLost{Count: uint16(n(1))}, nil
	}
	return nil, fmt.Errorf("bad frame %v", toks)
}
