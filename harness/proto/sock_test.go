package proto

import (
	"errors"
	"fmt"
	"net"
	"sync"
	"time"

	"github.com/vapourismo/knx-go/knx/cemi"
	"github.com/vapourismo/knx-go/knx/knxnet"
)

// memSock is an in-memory knxnet.Socket: everything the client sends is recorded with the
// (virtual) time since the script started; frames for the client are offered on the inbound
// channel by the script runner.
type memSock struct {
	mu      sync.Mutex
	start   time.Time
	add     func(string)
	inbound chan knxnet.Service
	closed  bool
	failing bool
	// writes of routing indications that carry one of these telegrams fail (a failure in the middle
	// of a batch of resends)
	failPids map[int]bool
	tcp      bool
	// autoConnect answers connect requests: list of responses still to give (nil = none)
	onSend func(f string)
}

func (s *memSock) now() int64 { return int64(time.Since(s.start) / time.Millisecond) }

func (s *memSock) Send(p knxnet.ServicePackable) error {
	s.mu.Lock()
	if s.failing || s.closed {
		s.mu.Unlock()
		return errors.New("socket failure")
	}
	if ind, ok := p.(*knxnet.RoutingInd); ok && len(s.failPids) > 0 && s.failPids[pidOf(ind.Payload)] {
		s.mu.Unlock()
		return errors.New("socket failure (this telegram)")
	}
	f := renderFrame(p)
	line := fmt.Sprintf("tx %d %s", s.now(), f)
	cb := s.onSend
	s.mu.Unlock()
	s.add(line)
	if cb != nil {
		cb(f)
	}
	return nil
}

func (s *memSock) Inbound() <-chan knxnet.Service { return s.inbound }

func (s *memSock) Close() error {
	s.mu.Lock()
	defer s.mu.Unlock()
	if !s.closed {
		s.closed = true
		close(s.inbound)
	}
	return nil
}

func (s *memSock) LocalAddr() net.Addr {
	if s.tcp {
		return &net.TCPAddr{IP: net.IPv4(192, 168, 1, 82), Port: 4321}
	}
	return &net.UDPAddr{IP: net.IPv4(192, 168, 1, 82), Port: 4321}
}

// payload builds the cEMI message that stands for telegram number pid.
func payload(pid int, ind bool) cemi.Message {
	l := cemi.LData{
		// additional info that identifies the telegram too: a telegram delivered with another one's
		// (or the receive buffer's later) bytes is told apart by pidOf
		Info:        cemi.Info{byte(pid), byte(pid >> 8), 0xC3},
		Control1:    cemi.Control1StdFrame,
		Control2:    cemi.Control2GroupAddr | cemi.Control2Hops(6),
		Source:      cemi.IndividualAddr(0x1101),
		Destination: uint16(pid),
		Data:        &cemi.AppData{Command: cemi.GroupValueWrite, Data: []byte{1}},
	}
	if ind {
		return &cemi.LDataInd{LData: l}
	}
	return &cemi.LDataReq{LData: l}
}

func pidOf(m cemi.Message) int {
	var l *cemi.LData
	switch m := m.(type) {
	case *cemi.LDataReq:
		l = &m.LData
	case *cemi.LDataInd:
		l = &m.LData
	case *cemi.LDataCon:
		l = &m.LData
	default:
		return -1
	}
	pid := int(l.Destination)
	if len(l.Info) != 3 || l.Info[0] != byte(pid) || l.Info[1] != byte(pid>>8) || l.Info[2] != 0xC3 {
		return -2 // the telegram's content is not what was sent
	}
	if a, ok := l.Data.(*cemi.AppData); !ok || len(a.Data) != 1 || a.Data[0] != 1 {
		return -2
	}
	return pid
}

func renderFrame(p knxnet.Service) string {
	switch p := p.(type) {
	case *knxnet.ConnReq:
		return "creq"
	case *knxnet.ConnRes:
		return fmt.Sprintf("cres %d %d", p.Channel, uint8(p.Status))
	case *knxnet.ConnStateReq:
		return fmt.Sprintf("csreq %d", p.Channel)
	case *knxnet.ConnStateRes:
		return fmt.Sprintf("csres %d %d", p.Channel, uint8(p.Status))
	case *knxnet.DiscReq:
		return fmt.Sprintf("dreq %d", p.Channel)
	case *knxnet.DiscRes:
		return fmt.Sprintf("dres %d", p.Channel)
	case *knxnet.TunnelReq:
		return fmt.Sprintf("treq %d %d %d", p.Channel, p.SeqNumber, pidOf(p.Payload))
	case *knxnet.TunnelRes:
		return fmt.Sprintf("tres %d %d %d", p.Channel, p.SeqNumber, uint8(p.Status))
	case *knxnet.RoutingInd:
		return fmt.Sprintf("rind %d", pidOf(p.Payload))
	case *knxnet.RoutingBusy:
		return fmt.Sprintf("rbusy %d %d", p.WaitTime/time.Millisecond, p.Control)
	case *knxnet.RoutingLost:
		return fmt.Sprintf("rlost %d", p.Count)
	}
	return fmt.Sprintf("other(%T)", p)
}

// viaWire turns the frame a gateway would send into the bytes of its datagram and back into what
// the client's socket hands to the client: the decoders are part of every path into the client.
// ok=false: the socket's receiver would have dropped the datagram.
func viaWire(s knxnet.Service) (out knxnet.Service, ok bool) {
	var frame []byte
	switch f := s.(type) {
	case *knxnet.RoutingBusy:
		w := uint16(f.WaitTime / time.Millisecond)
		frame = []byte{6, 16, 0x05, 0x32, 0, 12, 6, byte(f.Status), byte(w >> 8), byte(w), byte(f.Control >> 8), byte(f.Control)}
	case *knxnet.RoutingLost:
		frame = []byte{6, 16, 0x05, 0x31, 0, 10, 4, byte(f.Status), byte(f.Count >> 8), byte(f.Count)}
	case knxnet.ServicePackable:
		frame = knxnet.AllocAndPack(f)
	default:
		return s, true
	}
	defer func() {
		if recover() != nil {
			out, ok = nil, false
		}
	}()
	// like the UDP receiver: decoded from the front of a larger, reused array
	buf := make([]byte, 1024)
	for i := range buf {
		buf[i] = 0xA5
	}
	n := copy(buf, frame)
	if _, err := knxnet.Unpack(buf[:n], &out); err != nil {
		return nil, false
	}
	// the receiver reuses its array for the next datagram
	for i := range buf {
		buf[i] = 0x5A
	}
	return out, true
}

// parseFrame builds the frame a gateway would send, as the client's socket delivers it.
func parseFrame(toks []string) (knxnet.Service, error) {
	s, err := parseFrameValue(toks)
	if err != nil {
		return nil, err
	}
	d, ok := viaWire(s)
	if !ok {
		return nil, errDropped
	}
	return d, nil
}

var errDropped = fmt.Errorf("datagram dropped by the decoder")

func parseFrameValue(toks []string) (knxnet.Service, error) {
	n := func(i int) int {
		var v int
		fmt.Sscan(toks[i], &v)
		return v
	}
	switch toks[0] {
	case "cres":
		return &knxnet.ConnRes{Channel: uint8(n(1)), Status: knxnet.ErrCode(n(2)), Control: knxnet.HostInfo{Protocol: knxnet.UDP4}}, nil
	case "csres":
		return &knxnet.ConnStateRes{Channel: uint8(n(1)), Status: knxnet.ErrCode(n(2))}, nil
	case "dreq":
		return &knxnet.DiscReq{Channel: uint8(n(1))}, nil
	case "dres":
		return &knxnet.DiscRes{Channel: uint8(n(1))}, nil
	case "treq":
		return &knxnet.TunnelReq{Channel: uint8(n(1)), SeqNumber: uint8(n(2)), Payload: payload(n(3), true)}, nil
	case "tres":
		return &knxnet.TunnelRes{Channel: uint8(n(1)), SeqNumber: uint8(n(2)), Status: knxnet.ErrCode(n(3))}, nil
	case "other":
		return &knxnet.SearchReq{}, nil
	case "rind":
		return &knxnet.RoutingInd{Payload: payload(n(1), true)}, nil
	case "rbusy":
		return &knxnet.RoutingBusy{WaitTime: time.Duration(n(1)) * time.Millisecond, Control: uint16(n(2))}, nil
	case "rlost":
		return &knxnet.RoutingLost{Count: uint16(n(1))}, nil
	}
	return nil, fmt.Errorf("bad frame %v", toks)
}
