package proto

import (
	"errors"
	"fmt"
	"net"
	"sort"
	"strconv"
	"strings"
	"sync"
	"sync/atomic"
	"testing"
	"time"

	"github.com/vapourismo/knx-go/knx"
	"github.com/vapourismo/knx-go/knx/cemi"
	"github.com/vapourismo/knx-go/knx/knxnet"
)

// A contended router script, run in REAL time with real goroutines (a goroutine waiting for the
// send mutex cannot be driven under virtual time):
//
//	rrt <pause ms> <senders> <burst> <gap us> : busy@<ms>:<wait>:<ctrl> ; ...
//
// `senders` goroutines call Send `burst` times each, `gap` microseconds apart; busy indications are
// handed to the client's serve loop at the given offsets.  Trace (times in microseconds):
//
//	tx <us> <pid> | busy <us handed over> <wait> <ctrl> <goroutines inside Send at that moment> |
//	done <us> | stuck <sends not returned>
type rtSock struct {
	start   time.Time
	mu      sync.Mutex
	log     []string
	inbound chan knxnet.Service
	closed  bool
	// a rule-following gateway for tunnelling requests (nil: requests are only recorded)
	gw *rtGateway
	// disconnect requests written (each write takes discDelay, as a write to a real socket takes time)
	dreqs     int
	discDelay time.Duration
	// every connect request is granted a new channel id (7, 8, ...) when set; the current one
	incCh  bool
	grants int
	// tunnelling requests carrying this telegram are never acknowledged (0: none); every tunnelling
	// request seen, as "channel:seq:pid"
	mutePid int
	treqs   []string
	// the write of the routing indication carrying this telegram blocks until `unblock` is closed
	blockPid int
	unblock  chan struct{}
	blocked  chan struct{}
	// the acknowledgement of requests carrying telegram slowPid is handed over slowAck later; the first
	// lazyN requests carrying telegram lazyPid are not seen by the gateway at all (lost on the way);
	// txAt: the time in microseconds of every tunnelling request carrying lazyPid
	slowPid int
	slowAck time.Duration
	lazyPid int
	lazyN   int
	txAt    []int64
}

// rtGateway: accepts the expected sequence number (bus), acknowledges it, acknowledges a repetition
// of the previous one again, ignores everything else
type rtGateway struct {
	expected uint8
	bus      []int
	seen     []string
}

func (s *rtSock) us() int64 { return int64(time.Since(s.start) / time.Microsecond) }
func (s *rtSock) add(l string) {
	s.mu.Lock()
	s.log = append(s.log, l)
	s.mu.Unlock()
}
func (s *rtSock) Send(p knxnet.ServicePackable) error {
	switch f := p.(type) {
	case *knxnet.RoutingInd:
		if s.blockPid != 0 && pidOf(f.Payload) == s.blockPid && s.unblock != nil {
			select {
			case <-s.unblock:
			default:
				if s.blocked != nil {
					select {
					case s.blocked <- struct{}{}:
					default:
					}
				}
				<-s.unblock
			}
		}
		s.add(fmt.Sprintf("tx %d %d", s.us(), pidOf(f.Payload)))
	case *knxnet.DiscReq:
		s.mu.Lock()
		closed := s.closed
		if !closed {
			s.dreqs++
		}
		d := s.discDelay
		s.mu.Unlock()
		if closed {
			return errors.New("socket closed")
		}
		time.Sleep(d)
	case *knxnet.ConnReq:
		s.mu.Lock()
		ch := uint8(7)
		if s.incCh {
			ch = uint8(7 + s.grants)
			s.grants++
		}
		if s.gw != nil {
			s.gw.expected = 0
		}
		s.mu.Unlock()
		go func() {
			defer func() { recover() }()
			s.inbound <- &knxnet.ConnRes{Channel: ch, Status: 0, Control: knxnet.HostInfo{Protocol: knxnet.UDP4}}
		}()
	case *knxnet.TunnelReq:
		s.mu.Lock()
		gw := s.gw
		var ack *knxnet.TunnelRes
		s.treqs = append(s.treqs, fmt.Sprintf("%d:%d:%d", f.Channel, f.SeqNumber, pidOf(f.Payload)))
		if s.mutePid != 0 && pidOf(f.Payload) == s.mutePid {
			gw = nil
		}
		extra := time.Duration(0)
		if s.slowPid != 0 && pidOf(f.Payload) == s.slowPid {
			extra = s.slowAck
		}
		if s.lazyPid != 0 && pidOf(f.Payload) == s.lazyPid {
			s.txAt = append(s.txAt, s.us())
			if s.lazyN > 0 {
				s.lazyN--
				gw = nil
			}
		}
		if gw != nil {
			gw.seen = append(gw.seen, fmt.Sprintf("%d:%d", f.SeqNumber, pidOf(f.Payload)))
			switch f.SeqNumber {
			case gw.expected:
				gw.bus = append(gw.bus, pidOf(f.Payload))
				gw.expected++
				ack = &knxnet.TunnelRes{Channel: f.Channel, SeqNumber: f.SeqNumber}
			case gw.expected - 1:
				ack = &knxnet.TunnelRes{Channel: f.Channel, SeqNumber: f.SeqNumber}
			}
		}
		s.mu.Unlock()
		if ack != nil {
			go func() {
				defer func() { recover() }()
				time.Sleep(300*time.Microsecond + extra) // an exchange takes a while: other senders pile up behind it
				select {
				case s.inbound <- ack:
				case <-time.After(2 * time.Second):
				}
			}()
		}
	}
	return nil
}
func (s *rtSock) Inbound() <-chan knxnet.Service { return s.inbound }
func (s *rtSock) Close() error {
	s.mu.Lock()
	defer s.mu.Unlock()
	if !s.closed {
		s.closed = true
		close(s.inbound)
	}
	return nil
}
func (s *rtSock) LocalAddr() net.Addr { return &net.UDPAddr{IP: net.IPv4(192, 168, 1, 82), Port: 4321} }

func runRouterRT(t *testing.T, line string) string {
	parts := strings.SplitN(line, ":", 2)
	head := strings.Fields(parts[0])
	if len(head) != 5 && len(head) != 6 {
		return "bad-script"
	}
	pause, _ := strconv.Atoi(head[1])
	senders, _ := strconv.Atoi(head[2])
	burst, _ := strconv.Atoi(head[3])
	gap, _ := strconv.Atoi(head[4])
	startMs := 0 // the senders' first Send: indications before it find the client idle
	if len(head) == 6 {
		startMs, _ = strconv.Atoi(head[5])
	}
	type busy struct {
		at, wait, ctrl int
		lost           bool // a routing-lost indication (wait = count) instead of a busy one
	}
	var bs []busy
	if len(parts) == 2 {
		for _, e := range strings.Split(parts[1], ";") {
			e = strings.TrimSpace(e)
			if e == "" {
				continue
			}
			var b busy
			if strings.HasPrefix(e, "lost@") {
				b.lost = true
				if _, err := fmt.Sscanf(e, "lost@%d:%d", &b.at, &b.wait); err != nil {
					return "bad-script"
				}
			} else if _, err := fmt.Sscanf(e, "busy@%d:%d:%d", &b.at, &b.wait, &b.ctrl); err != nil {
				return "bad-script"
			}
			bs = append(bs, b)
		}
	}
	sock := &rtSock{start: time.Now(), inbound: make(chan knxnet.Service)}
	r := knx.VerifNewRouter(sock, knx.RouterConfig{RetainCount: 8, PostSendPauseDuration: time.Duration(pause) * time.Millisecond})
	var inside, returned int64
	var wg sync.WaitGroup
	for s := 0; s < senders; s++ {
		wg.Add(1)
		go func(s int) {
			defer wg.Done()
			if d := time.Until(sock.start.Add(time.Duration(startMs) * time.Millisecond)); d > 0 {
				time.Sleep(d)
			}
			for k := 0; k < burst; k++ {
				atomic.AddInt64(&inside, 1)
				r.Send(payload(s*1000+k+1, true))
				atomic.AddInt64(&inside, -1)
				atomic.AddInt64(&returned, 1)
				if gap > 0 {
					time.Sleep(time.Duration(gap) * time.Microsecond)
				}
			}
		}(s)
	}
	var bwg sync.WaitGroup
	bwg.Add(1)
	go func() {
		defer bwg.Done()
		for _, b := range bs {
			if d := time.Until(sock.start.Add(time.Duration(b.at) * time.Millisecond)); d > 0 {
				time.Sleep(d)
			}
			var fr knxnet.Service = &knxnet.RoutingBusy{WaitTime: time.Duration(b.wait) * time.Millisecond, Control: uint16(b.ctrl)}
			if b.lost {
				fr = &knxnet.RoutingLost{Count: uint16(b.wait)}
			}
			if d, ok := viaWire(fr); ok {
				fr = d
			} else {
				sock.add(fmt.Sprintf("decoder-dropped %d", sock.us()))
				continue
			}
			select {
			case sock.inbound <- fr:
				// handed over: the serve loop has taken the indication in
				if b.lost {
					sock.add(fmt.Sprintf("lost %d %d", sock.us(), b.wait))
					break
				}
				sock.add(fmt.Sprintf("busy %d %d %d %d", sock.us(), b.wait, b.ctrl, atomic.LoadInt64(&inside)))
			case <-time.After(8 * time.Second):
				sock.add(fmt.Sprintf("busy-not-taken %d", sock.us()))
			}
		}
	}()
	fin := make(chan struct{})
	go func() { wg.Wait(); close(fin) }()
	select {
	case <-fin:
		sock.add(fmt.Sprintf("done %d", sock.us()))
	case <-time.After(12 * time.Second):
		sock.add(fmt.Sprintf("stuck %d", int64(senders*burst)-atomic.LoadInt64(&returned)))
	}
	bwg.Wait()
	r.Close()
	sock.mu.Lock()
	defer sock.mu.Unlock()
	log := append([]string(nil), sock.log...)
	sort.SliceStable(log, func(i, j int) bool { return tsOf(log[i]) < tsOf(log[j]) })
	return strings.Join(log, " ; ")
}

func tsOf(l string) int64 {
	f := strings.Fields(l)
	if len(f) < 2 {
		return 0
	}
	v, _ := strconv.ParseInt(f[1], 10, 64)
	return v
}

// An ordering script, run in REAL time (the order in which freshly spawned goroutines reach a
// channel is the Go scheduler's business; virtual time hides it):
//
//	ort <tun|rtr|grp> <waiting|burst> <n> <rounds>
//
// waiting: the application is blocked in a receive from Inbound() while n telegrams arrive back to
// back; burst: nobody receives while the n telegrams arrive, then the application reads them all;
// mixed: nobody receives during the first third of the burst, then the application reads while the
// rest keeps arriving.
// Trace: rounds=<r> bad=<k> first=<order seen in the first bad round>
func runOrderRT(t *testing.T, line string) string {
	f := strings.Fields(line)
	if len(f) != 5 {
		return "bad-script"
	}
	client, mode := f[1], f[2]
	n, _ := strconv.Atoi(f[3])
	rounds, _ := strconv.Atoi(f[4])
	bad, first := 0, ""
	if mode == "handoff" {
		return runHandoffRT(client, rounds)
	}
	for round := 0; round < rounds; round++ {
		sock := &rtSock{start: time.Now(), inbound: make(chan knxnet.Service)}
		var feed func(k int) bool
		var closeFn func()
		out := make(chan int, n+4)  // what the application received, in its order
		gate := make(chan struct{}) // closed when the application starts receiving
		push := func(fr knxnet.Service) bool {
			select {
			case sock.inbound <- fr:
				return true
			case <-time.After(5 * time.Second):
				return false
			}
		}
		consume := func(ch <-chan cemi.Message) {
			<-gate
			for m := range ch {
				out <- pidOf(m)
			}
			close(out)
		}
		switch client {
		case "tun":
			tun, err := knx.VerifNewTunnel(sock, knxnet.TunnelLayerData, knx.TunnelConfig{
				ResendInterval: 500 * time.Millisecond, ResponseTimeout: 5 * time.Second, HeartbeatInterval: time.Hour})
			if err != nil {
				return "connect-failed " + err.Error()
			}
			go consume(tun.Inbound())
			closeFn = func() { sock.Close() }
			feed = func(k int) bool {
				return push(&knxnet.TunnelReq{Channel: 7, SeqNumber: uint8(k), Payload: payload(k, true)})
			}
		case "rtr":
			r := knx.VerifNewRouter(sock, knx.RouterConfig{})
			go consume(r.Inbound())
			closeFn = func() { sock.Close() }
			feed = func(k int) bool { return push(&knxnet.RoutingInd{Payload: payload(k, true)}) }
		case "grp":
			// the group layer on its own: strictly ordered input, stalled or waiting consumer
			in := make(chan cemi.Message)
			gout := make(chan knx.GroupEvent)
			go knx.VerifServeGroupInbound(in, gout)
			go func() {
				<-gate
				for e := range gout {
					out <- int(e.Destination)
				}
				close(out)
			}()
			closeFn = func() { close(in) }
			feed = func(k int) bool {
				select {
				case in <- payload(k, true):
					return true
				case <-time.After(5 * time.Second):
					return false
				}
			}
		default:
			return "bad-script"
		}
		if mode == "waiting" {
			close(gate)
			time.Sleep(200 * time.Microsecond) // the application reaches its receive
		}
		ok := true
		fed := make(chan bool, 1)
		go func() {
			r := true
			for k := 0; k < n && r; k++ {
				if mode == "mixed" && client != "grp" && k == n/3 {
					close(gate) // the application starts receiving while telegrams keep arriving
				}
				r = feed(k)
			}
			fed <- r
		}()
		if mode == "mixed" && client == "grp" {
			// the sequential forwarder stalls on its first event: the reader joins a little later
			time.Sleep(time.Millisecond)
			close(gate)
		}
		if mode == "burst" {
			if client == "grp" {
				// a sequential forwarder takes its next input only after the previous event was
				// received: let it stall on the first one for a while, then receive
				time.Sleep(2 * time.Millisecond)
			} else {
				ok = <-fed
				fed <- ok
				time.Sleep(2 * time.Millisecond)
			}
			close(gate)
		}
		var got []int
		deadline := time.After(6 * time.Second)
		for len(got) < n && ok {
			select {
			case v, more := <-out:
				if !more {
					ok = false
				} else {
					got = append(got, v)
				}
			case <-deadline:
				ok = false
			}
		}
		<-fed
		closeFn()
		inOrder := len(got) == n
		for i, v := range got {
			if v != i {
				inOrder = false
			}
		}
		if !inOrder {
			bad++
			if first == "" {
				first = strings.ReplaceAll(fmt.Sprint(got), " ", ",")
			}
		}
	}
	if first == "" {
		first = "-"
	}
	return fmt.Sprintf("rounds=%d bad=%d first=%s", rounds, bad, first)
}

// A concurrent-senders script for the tunnel, run in REAL time against a rule-following, loss-free
// gateway:   swrt <senders> <per sender>
// Trace: bus=<pids in bus order> ok=<pids whose Send returned nil, sorted> failed=<n> seen=<seq:pid of every request, in order>
func runTunnelRT(t *testing.T, line string) string {
	f := strings.Fields(line)
	if len(f) != 3 {
		return "bad-script"
	}
	senders, _ := strconv.Atoi(f[1])
	per, _ := strconv.Atoi(f[2])
	sock := &rtSock{start: time.Now(), inbound: make(chan knxnet.Service), gw: &rtGateway{}}
	tun, err := knx.VerifNewTunnel(sock, knxnet.TunnelLayerData, knx.TunnelConfig{
		ResendInterval: 40 * time.Millisecond, ResponseTimeout: 250 * time.Millisecond, HeartbeatInterval: time.Hour})
	if err != nil {
		return "connect-failed " + err.Error()
	}
	go func() {
		for range tun.Inbound() {
		}
	}()
	var mu sync.Mutex
	var ok []int
	failed := 0
	var wg sync.WaitGroup
	begin := make(chan struct{})
	for s := 0; s < senders; s++ {
		wg.Add(1)
		go func(s int) {
			defer wg.Done()
			<-begin
			for k := 0; k < per; k++ {
				pid := s*1000 + k + 1
				err := tun.Send(payload(pid, false))
				mu.Lock()
				if err == nil {
					ok = append(ok, pid)
				} else {
					failed++
				}
				mu.Unlock()
			}
		}(s)
	}
	close(begin)
	fin := make(chan struct{})
	go func() { wg.Wait(); close(fin) }()
	stuck := ""
	select {
	case <-fin:
	case <-time.After(15 * time.Second):
		stuck = " stuck"
	}
	sock.Close()
	sock.mu.Lock()
	defer sock.mu.Unlock()
	mu.Lock()
	defer mu.Unlock()
	sort.Ints(ok)
	return fmt.Sprintf("bus=%s ok=%s failed=%d seen=%s%s", strings.ReplaceAll(fmt.Sprint(sock.gw.bus), " ", ","),
		strings.ReplaceAll(fmt.Sprint(ok), " ", ","), failed, strings.Join(sock.gw.seen, ","), stuck)
}

// runResendRT: "rsrt <ms the first acknowledgement is held back> <resend ms>": two goroutines call Send; the
// acknowledgement of the first request arrives late, so the second Send waits for its turn; its own
// request is then lost twice and acknowledged at the third transmission.  The resend interval starts at
// the transmission, not at the call of Send: the time spent waiting for the other Send is not part of it.
// Trace: tx=<us of every transmission of the second telegram> a=<ok|err> b=<ok|err>
func runResendRT(t *testing.T, line string) string {
	f := strings.Fields(line)
	if len(f) != 3 {
		return "bad-script"
	}
	hold, _ := strconv.Atoi(f[1])
	resend, _ := strconv.Atoi(f[2])
	sock := &rtSock{start: time.Now(), inbound: make(chan knxnet.Service), gw: &rtGateway{},
		slowPid: 1, slowAck: time.Duration(hold) * time.Millisecond, lazyPid: 2, lazyN: 2}
	tun, err := knx.VerifNewTunnel(sock, knxnet.TunnelLayerData, knx.TunnelConfig{
		ResendInterval: time.Duration(resend) * time.Millisecond, ResponseTimeout: time.Duration(8*resend) * time.Millisecond,
		HeartbeatInterval: time.Hour})
	if err != nil {
		return "connect-failed " + err.Error()
	}
	go func() {
		for range tun.Inbound() {
		}
	}()
	res := make(chan string, 2)
	word := func(err error) string {
		if err != nil {
			return "err"
		}
		return "ok"
	}
	go func() { res <- "a=" + word(tun.Send(payload(1, false))) }()
	time.Sleep(3 * time.Millisecond)
	go func() { res <- "b=" + word(tun.Send(payload(2, false))) }()
	var out []string
	for len(out) < 2 {
		select {
		case r := <-res:
			out = append(out, r)
		case <-time.After(10 * time.Second):
			out = append(out, "stuck")
		}
	}
	sort.Strings(out)
	tun.Close()
	sock.mu.Lock()
	defer sock.mu.Unlock()
	var tx []string
	for _, u := range sock.txAt {
		tx = append(tx, strconv.FormatInt(u, 10))
	}
	return "tx=" + strings.Join(tx, ",") + " " + strings.Join(out, " ")
}

// runCloseRT: "crt <closers> <senders> <reader> <traffic>": 1..4 goroutines call Close on one tunnel at
// the same moment (real goroutines, real time; the socket stays usable), optionally while Sends are
// pending, the gateway is delivering telegrams and an application reads Inbound.
// Trace: dreq=<disconnect requests written> returned=<closers back within 3 s>/<closers>
// inbound=closed|open send=err|ok|blocked second=ok|stuck
func runCloseRT(t *testing.T, line string) string {
	f := strings.Fields(line)
	if len(f) != 5 {
		return "bad-script"
	}
	closers, _ := strconv.Atoi(f[1])
	senders, _ := strconv.Atoi(f[2])
	reader := f[3] == "1"
	traffic := f[4] == "1"
	sock := &rtSock{start: time.Now(), inbound: make(chan knxnet.Service), gw: &rtGateway{}, discDelay: 3 * time.Millisecond}
	tun, err := knx.VerifNewTunnel(sock, knxnet.TunnelLayerData, knx.TunnelConfig{
		ResendInterval: 20 * time.Millisecond, ResponseTimeout: 100 * time.Millisecond, HeartbeatInterval: time.Hour})
	if err != nil {
		return "connect-failed " + err.Error()
	}
	if reader {
		go func() {
			for range tun.Inbound() {
			}
		}()
	}
	stop := make(chan struct{})
	for s := 0; s < senders; s++ {
		go func(s int) {
			for k := 0; ; k++ {
				select {
				case <-stop:
					return
				default:
				}
				if tun.Send(payload(s*1000+k+1, false)) != nil {
					return
				}
			}
		}(s)
	}
	if traffic {
		go func() {
			defer func() { recover() }()
			for k := 0; ; k++ {
				select {
				case <-stop:
					return
				case sock.inbound <- &knxnet.TunnelReq{Channel: 7, SeqNumber: uint8(k), Payload: payload(5000+k, true)}:
				case <-time.After(200 * time.Microsecond):
				}
			}
		}()
	}
	time.Sleep(3 * time.Millisecond)
	begin := make(chan struct{})
	back := make(chan struct{}, closers+1)
	var earlyMu sync.Mutex
	early := 0 // Close calls that returned while Inbound was still open
	for c := 0; c < closers; c++ {
		go func() {
			<-begin
			tun.Close()
			// after Close has returned - for THIS caller too, not only for the one that did the work -
			// Inbound is closed: at most parked telegrams come first
			open := false
		look:
			for {
				select {
				case _, ok := <-tun.Inbound():
					if !ok {
						break look
					}
				default:
					open = true
					break look
				}
			}
			if open {
				earlyMu.Lock()
				early++
				earlyMu.Unlock()
			}
			back <- struct{}{}
		}()
	}
	time.Sleep(time.Millisecond)
	close(begin)
	returned := 0
	deadline := time.After(3 * time.Second)
wait:
	for returned < closers {
		select {
		case <-back:
			returned++
		case <-deadline:
			break wait
		}
	}
	close(stop)
	inbound := "closed"
	drain := time.After(time.Second)
drained:
	for {
		select {
		case _, ok := <-tun.Inbound():
			if !ok {
				break drained
			}
		case <-drain:
			inbound = "open"
			break drained
		}
	}
	send := "blocked"
	sres := make(chan error, 1)
	go func() { sres <- tun.Send(payload(9999, false)) }()
	select {
	case err := <-sres:
		if err != nil {
			send = "err"
		} else {
			send = "ok"
		}
	case <-time.After(time.Second):
	}
	second := "stuck"
	go func() { tun.Close(); back <- struct{}{} }()
	select {
	case <-back:
		second = "ok"
	case <-time.After(time.Second):
	}
	sock.mu.Lock()
	d := sock.dreqs
	sock.mu.Unlock()
	earlyMu.Lock()
	e := early
	earlyMu.Unlock()
	return fmt.Sprintf("dreq=%d returned=%d/%d early=%d inbound=%s send=%s second=%s", d, returned, closers, e, inbound, send, second)
}

// runReconnRT: "rcrt <ms before the gateway disconnects> <resend ms> <timeout ms>": a Send whose request the
// gateway never acknowledges is still repeating when the gateway disconnects the tunnel; the client
// reconnects and is granted ANOTHER channel id while that Send is pending.  Every repetition of a request
// must be the request as first transmitted (channel and sequence number).  Trace: the tunnelling requests
// seen by the gateway as channel:seq:telegram, and how the three Sends returned.
func runReconnRT(t *testing.T, line string) string {
	f := strings.Fields(line)
	if len(f) != 4 {
		return "bad-script"
	}
	discAt, _ := strconv.Atoi(f[1])
	resend, _ := strconv.Atoi(f[2])
	timeout, _ := strconv.Atoi(f[3])
	sock := &rtSock{start: time.Now(), inbound: make(chan knxnet.Service), gw: &rtGateway{}, incCh: true, mutePid: 2}
	tun, err := knx.VerifNewTunnel(sock, knxnet.TunnelLayerData, knx.TunnelConfig{
		ResendInterval: time.Duration(resend) * time.Millisecond, ResponseTimeout: time.Duration(timeout) * time.Millisecond,
		HeartbeatInterval: time.Hour})
	if err != nil {
		return "connect-failed " + err.Error()
	}
	go func() {
		for range tun.Inbound() {
		}
	}()
	res := func(err error) string {
		if err == nil {
			return "ok"
		}
		return "err"
	}
	r1 := res(tun.Send(payload(1, false)))
	second := make(chan string, 1)
	go func() { second <- res(tun.Send(payload(2, false))) }()
	time.Sleep(time.Duration(discAt) * time.Millisecond)
	func() {
		defer func() { recover() }()
		select {
		case sock.inbound <- &knxnet.DiscReq{Channel: 7}:
		case <-time.After(2 * time.Second):
		}
	}()
	r2 := "stuck"
	select {
	case r2 = <-second:
	case <-time.After(time.Duration(timeout)*time.Millisecond + 3*time.Second):
	}
	time.Sleep(20 * time.Millisecond) // the reconnect completes once the pending Send has let go
	third := make(chan string, 1)
	go func() { third <- res(tun.Send(payload(3, false))) }()
	r3 := "stuck"
	select {
	case r3 = <-third:
	case <-time.After(time.Duration(timeout)*time.Millisecond + 3*time.Second):
	}
	sock.Close()
	sock.mu.Lock()
	defer sock.mu.Unlock()
	return fmt.Sprintf("treqs=%s rets=%s,%s,%s", strings.Join(sock.treqs, ","), r1, r2, r3)
}

// runLostRT: "lrt <sent before> <k>": a lost indication arrives while a Send is inside the socket's write
// (it holds the send lock): the resend is computed when the lock is obtained, i.e. over everything
// transmitted by then.  Trace: tx <us> <pid> ... ; lost <us> <k>
func runLostRT(t *testing.T, line string) string {
	f := strings.Fields(line)
	if len(f) != 3 {
		return "bad-script"
	}
	before, _ := strconv.Atoi(f[1])
	k, _ := strconv.Atoi(f[2])
	sock := &rtSock{start: time.Now(), inbound: make(chan knxnet.Service), blockPid: before + 1,
		unblock: make(chan struct{}), blocked: make(chan struct{}, 1)}
	r := knx.VerifNewRouter(sock, knx.RouterConfig{RetainCount: 8})
	for i := 1; i <= before; i++ {
		r.Send(payload(i, true))
	}
	done := make(chan struct{})
	go func() { r.Send(payload(before+1, true)); close(done) }()
	select {
	case <-sock.blocked:
	case <-time.After(2 * time.Second):
		return "bad-script"
	}
	handed := false
	if d, ok := viaWire(&knxnet.RoutingLost{Count: uint16(k)}); ok {
		select {
		case sock.inbound <- d:
			handed = true
			sock.add(fmt.Sprintf("lost %d %d", sock.us(), k))
		case <-time.After(2 * time.Second):
		}
	}
	time.Sleep(5 * time.Millisecond) // the serve loop is now waiting for the send lock
	close(sock.unblock)
	select {
	case <-done:
	case <-time.After(2 * time.Second):
		sock.add("stuck 1")
	}
	time.Sleep(30 * time.Millisecond)
	r.Close()
	sock.mu.Lock()
	defer sock.mu.Unlock()
	log := append([]string(nil), sock.log...)
	if !handed {
		log = append(log, "busy-not-taken 0")
	}
	return strings.Join(log, " ; ")
}

// runHandoffRT: one long-lived client; in every round a telegram arrives while the application is busy,
// the application comes to take it, and the next telegram arrives at just that moment (a few hundred
// nanoseconds earlier or later): both must reach the application, in order - a telegram that was accepted
// must not be left behind in the backlog when the hand-over goroutine retires.
func runHandoffRT(client string, rounds int) string {
	sock := &rtSock{start: time.Now(), inbound: make(chan knxnet.Service)}
	var ch <-chan cemi.Message
	var feed func(k int) bool
	push := func(fr knxnet.Service) bool {
		select {
		case sock.inbound <- fr:
			return true
		case <-time.After(5 * time.Second):
			return false
		}
	}
	switch client {
	case "tun":
		tun, err := knx.VerifNewTunnel(sock, knxnet.TunnelLayerData, knx.TunnelConfig{
			ResendInterval: 500 * time.Millisecond, ResponseTimeout: 5 * time.Second, HeartbeatInterval: time.Hour})
		if err != nil {
			return "connect-failed " + err.Error()
		}
		ch = tun.Inbound()
		feed = func(k int) bool {
			return push(&knxnet.TunnelReq{Channel: 7, SeqNumber: uint8(k), Payload: payload(k%60000, true)})
		}
	case "rtr":
		r := knx.VerifNewRouter(sock, knx.RouterConfig{})
		ch = r.Inbound()
		feed = func(k int) bool { return push(&knxnet.RoutingInd{Payload: payload(k%60000, true)}) }
	default:
		return "bad-script"
	}
	defer sock.Close()
	take := make(chan struct{})
	gotc := make(chan int)
	go func() {
		for range take {
			m, ok := <-ch
			if !ok {
				close(gotc)
				return
			}
			gotc <- pidOf(m)
		}
	}()
	defer close(take)
	rnd := uint32(12345)
	recv := func() (int, bool) {
		select {
		case v, ok := <-gotc:
			return v, ok
		case <-time.After(300 * time.Millisecond):
			return -1, false
		}
	}
	for i := 0; i < rounds; i++ {
		a, b := 2*i, 2*i+1
		if !feed(a) {
			return fmt.Sprintf("rounds=%d bad=1 first=telegram-%d-not-taken-by-the-client", i, a)
		}
		take <- struct{}{}
		rnd = rnd*1664525 + 1013904223
		for spin := rnd >> 27; spin > 0; spin-- { // 0..31 iterations: a few hundred nanoseconds
			_ = spin
		}
		if !feed(b) {
			return fmt.Sprintf("rounds=%d bad=1 first=telegram-%d-not-taken-by-the-client", i, b)
		}
		v1, ok1 := recv()
		take <- struct{}{}
		v2, ok2 := recv()
		if !ok1 || !ok2 || v1 != a%60000 || v2 != b%60000 {
			what := fmt.Sprintf("round-%d:accepted-%d,%d:delivered-%d,%d", i, a%60000, b%60000, v1, v2)
			if !ok2 {
				what += ":second-telegram-never-delivered"
			}
			return fmt.Sprintf("rounds=%d bad=1 first=%s", i+1, what)
		}
	}
	return fmt.Sprintf("rounds=%d bad=0 first=-", rounds)
}
