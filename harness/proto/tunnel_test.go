//go:debug asynctimerchan=0
package proto

import (
	"bufio"
	"fmt"
	"github.com/vapourismo/knx-go/knx/util"
	"os"
	"sort"
	"strconv"
	"strings"
	"sync"
	"sync/atomic"
	"testing"
	"testing/synctest"
	"time"

	"github.com/vapourismo/knx-go/knx"
	"github.com/vapourismo/knx-go/knx/knxnet"
)

// A tunnel script (one line):
//   tun <resend> <timeout> <heartbeat> <tcp> <channel> : @<t> <event> ; @<t> <event> ; ...
// events: send <pid> | rx <frame…> | read | close | sockclose | sockfail <0|1> | end
// The first connect request is answered with `cres <channel> 0` at once.

type event struct {
	t    int64
	toks []string
}

func parseScript(line string) (cfg []int, evs []event, err error) {
	parts := strings.SplitN(line, ":", 2)
	head := strings.Fields(parts[0])
	if len(head) != 6 || head[0] != "tun" {
		return nil, nil, fmt.Errorf("bad header")
	}
	for _, h := range head[1:] {
		v, e := strconv.Atoi(h)
		if e != nil {
			return nil, nil, e
		}
		cfg = append(cfg, v)
	}
	if len(parts) == 2 {
		for _, e := range strings.Split(parts[1], ";") {
			f := strings.Fields(e)
			if len(f) == 0 {
				continue
			}
			t, e2 := strconv.ParseInt(strings.TrimPrefix(f[0], "@"), 10, 64)
			if e2 != nil {
				return nil, nil, e2
			}
			evs = append(evs, event{t, f[1:]})
		}
	}
	return
}

func classify(err error) string {
	if err == nil {
		return "ok"
	}
	s := err.Error()
	switch {
	case strings.Contains(s, "timeout"):
		return "timeout"
	case strings.Contains(s, "rejected"):
		return "rejected"
	case strings.Contains(s, "terminated"):
		return "terminated"
	case strings.Contains(s, "socket failure"):
		return "sockerr"
	}
	return "err"
}

// runTunnelScript executes one script on the real Tunnel inside a synctest bubble and returns the
// trace of observations.
func runTunnelScript(t *testing.T, line string) (trace string) {
	cfg, evs, err := parseScript(line)
	if err != nil {
		return "bad-script " + err.Error()
	}
	var log []string
	var logMu sync.Mutex
	endMark := -1
	add := func(s string) {
		logMu.Lock()
		log = append(log, s)
		logMu.Unlock()
	}
	defer func() {
		if p := recover(); p != nil {
			logMu.Lock()
			trace = canonical(log) + " ; PANIC " + strings.ReplaceAll(fmt.Sprint(p), "\n", " ")
			logMu.Unlock()
		}
	}()
	synctest.Test(t, func(t *testing.T) {
		start := time.Now()
		now := func() int64 { return int64(time.Since(start) / time.Millisecond) }
		sock := &memSock{start: start, inbound: make(chan knxnet.Service), tcp: cfg[3] == 1, add: add}
		flush := func() {}
		first := true
		sock.onSend = func(f string) {
			if f == "creq" && first {
				first = false
				go func() {
					sock.inbound <- &knxnet.ConnRes{Channel: uint8(cfg[4]), Status: 0, Control: knxnet.HostInfo{Protocol: knxnet.UDP4}}
				}()
			}
		}
		tun, err := knx.VerifNewTunnel(sock, knxnet.TunnelLayerData, knx.TunnelConfig{
			ResendInterval:    time.Duration(cfg[0]) * time.Millisecond,
			ResponseTimeout:   time.Duration(cfg[1]) * time.Millisecond,
			HeartbeatInterval: time.Duration(cfg[2]) * time.Millisecond,
			UseTCP:            cfg[3] == 1,
		})
		flush()
		if err != nil {
			add("connect-failed")
			return
		}
		var wg sync.WaitGroup
		var closing atomic.Bool
		closedCalled := false
		for _, ev := range evs {
			if d := ev.t - now(); d > 0 {
				time.Sleep(time.Duration(d) * time.Millisecond)
			}
			synctest.Wait()
			flush()
			switch ev.toks[0] {
			case "send":
				pid, _ := strconv.Atoi(ev.toks[1])
				wg.Add(1)
				go func() {
					defer wg.Done()
					err := tun.Send(payload(pid, false))
					logMu.Lock()
					log = append(log, fmt.Sprintf("ret %d %d %s", now(), pid, classify(err)))
					logMu.Unlock()
				}()
			case "rx":
				f, err := parseFrame(ev.toks[1:])
				if err == errDropped {
					// the socket's receiver would have dropped this well-formed datagram
					add(fmt.Sprintf("decoder-dropped %d %s", now(), strings.Join(ev.toks[1:], "_")))
					continue
				}
				if err != nil {
					add("bad-frame")
					continue
				}
				func() {
					defer func() {
						if recover() != nil {
							add(fmt.Sprintf("undelivered %d", now()))
						}
					}()
					select {
					case sock.inbound <- f:
					default:
						add(fmt.Sprintf("undelivered %d", now()))
					}
				}()
			case "read":
				select {
				case m, ok := <-tun.Inbound():
					if !ok {
						add(fmt.Sprintf("got %d closed", now()))
					} else {
						add(fmt.Sprintf("got %d %d", now(), pidOf(m)))
					}
				default:
					add(fmt.Sprintf("got %d none", now()))
				}
			case "close":
				// a second Close while the first is still waiting would block on sync.Once's mutex,
				// which keeps the virtual clock from advancing: concurrent closers are exercised in
				// real time only
				if closing.Load() {
					add(fmt.Sprintf("skipped %d", now()))
					continue
				}
				closedCalled = true
				closing.Store(true)
				wg.Add(1)
				go func() {
					defer wg.Done()
					tun.Close()
					closing.Store(false)
					logMu.Lock()
					log = append(log, fmt.Sprintf("closed %d", now()))
					logMu.Unlock()
				}()
			case "sockclose":
				sock.Close()
			case "sockfail":
				sock.mu.Lock()
				sock.failing = ev.toks[1] == "1"
				sock.mu.Unlock()
			case "end":
				synctest.Wait()
				logMu.Lock()
				endMark = len(log)
				logMu.Unlock()
			}
			synctest.Wait()
			flush()
		}
		// wind down: close the tunnel, drain Inbound so parked deliveries can finish
		if !closedCalled {
			go tun.Close()
		}
		go func() {
			for range tun.Inbound() {
			}
		}()
		wg.Wait()
		synctest.Wait()
		flush()
	})
	logMu.Lock()
	defer logMu.Unlock()
	if endMark >= 0 && endMark <= len(log) {
		log = log[:endMark]
	}
	return canonical(log)
}

// canonical orders observations by (time, kind), keeping the execution order of observations of
// the same kind within one virtual instant: transmissions of one goroutine stay in order, while a
// transmission and a return that happen in different goroutines at the same instant are
// normalised.
func canonical(log []string) string {
	type ent struct {
		t int64
		s string
	}
	var es []ent
	for _, l := range log {
		f := strings.Fields(l)
		var t int64
		if len(f) > 1 {
			t, _ = strconv.ParseInt(f[1], 10, 64)
		}
		es = append(es, ent{t, l})
	}
	sort.SliceStable(es, func(i, j int) bool {
		if es[i].t != es[j].t {
			return es[i].t < es[j].t
		}
		return strings.Fields(es[i].s)[0] < strings.Fields(es[j].s)[0]
	})
	out := make([]string, len(es))
	for i, e := range es {
		out[i] = e.s
	}
	return strings.Join(out, " ; ")
}

// TestScripts runs the scripts of $VERIF_OPS and writes one trace line per script to $VERIF_OUT.
func TestScripts(t *testing.T) {
	in := os.Getenv("VERIF_OPS")
	out := os.Getenv("VERIF_OUT")
	if in == "" || out == "" {
		t.Skip("VERIF_OPS / VERIF_OUT not set")
	}
	fi, err := os.Open(in)
	if err != nil {
		t.Fatal(err)
	}
	defer fi.Close()
	fo, err := os.Create(out)
	if err != nil {
		t.Fatal(err)
	}
	defer fo.Close()
	w := bufio.NewWriter(fo)
	defer w.Flush()
	sc := bufio.NewScanner(fi)
	sc.Buffer(make([]byte, 1<<20), 1<<26)
	// the scripts run with a log target installed (an application that follows the README has one): the
	// client's log calls are executed and formatted, not skipped.  Installed once: the library reads the
	// variable without synchronisation, goroutines of an earlier script may still be logging
	util.Logger = quietLog{}
	for sc.Scan() {
		line := strings.TrimSpace(sc.Text())
		if line == "" || strings.HasPrefix(line, "#") {
			continue
		}
		var tr string
		// real-time watchdog: a script that does not finish (a goroutine waiting for a mutex keeps
		// the virtual clock from advancing; or a genuine deadlock) ends the process with a marker
		wd := time.AfterFunc(20*time.Second, func() {
			fmt.Fprintln(w, "HANG")
			w.Flush()
			fo.Sync()
			os.Exit(3)
		})
		switch {
		case strings.HasPrefix(line, "tun "):
			tr = runTunnelScript(t, line)
		case strings.HasPrefix(line, "rtr "):
			tr = runRouterScript(t, line)
		case strings.HasPrefix(line, "sw "):
			tr = runSWScript(t, line)
		case strings.HasPrefix(line, "rrt "):
			tr = runRouterRT(t, line)
		case strings.HasPrefix(line, "ort "):
			tr = runOrderRT(t, line)
		case strings.HasPrefix(line, "swrt "):
			tr = runTunnelRT(t, line)
		case strings.HasPrefix(line, "crt "):
			tr = runCloseRT(t, line)
		case strings.HasPrefix(line, "rcrt "):
			tr = runReconnRT(t, line)
		case strings.HasPrefix(line, "lrt "):
			tr = runLostRT(t, line)
		case strings.HasPrefix(line, "rsrt "):
			tr = runResendRT(t, line)
		default:
			tr = "bad-op"
		}
		wd.Stop()
		fmt.Fprintln(w, tr)
		w.Flush()
	}
}

// quietLog is a log target that formats like a real one and keeps nothing
type quietLog struct{}

func (quietLog) Printf(format string, args ...interface{}) { _ = fmt.Sprintf(format, args...) }
