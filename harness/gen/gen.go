// Package gen generates wire-level values of knx-go from one PRNG state.
package gen

import (
	"math/rand"
	"net"
	"strings"
	"time"

	"github.com/vapourismo/knx-go/knx/cemi"
	"github.com/vapourismo/knx-go/knx/knxnet"
)

// G is a generator state.
type G struct {
	R *rand.Rand
	// Oversize allows parts that exceed their protocol field (C15 family).
	Oversize bool
	// AnyDibType lets description blocks carry arbitrary type octets (only meaningful where the
	// decoder does not dispatch on them).
	AnyDibType bool
	// Stats counts what was generated.
	Stats map[string]int
}

// New creates a generator.
func New(seed int64) *G {
	return &G{R: rand.New(rand.NewSource(seed)), Stats: map[string]int{}}
}

func (g *G) count(k string) { g.Stats[k]++ }

// Pick returns one of the values.
func (g *G) Pick(vals ...int) int { return vals[g.R.Intn(len(vals))] }

// Byte returns a byte: corners with probability 1/4.
func (g *G) Byte() uint8 {
	if g.R.Intn(4) == 0 {
		return uint8(g.Pick(0, 1, 2, 3, 4, 6, 15, 16, 63, 64, 127, 128, 191, 192, 254, 255))
	}
	return uint8(g.R.Intn(256))
}

// Word returns a 16-bit value: corners with probability 1/4.
func (g *G) Word() uint16 {
	if g.R.Intn(4) == 0 {
		return uint16(g.Pick(0, 1, 255, 256, 0x7ff, 0x800, 0x7fff, 0x8000, 0xfffe, 0xffff, 3671))
	}
	return uint16(g.R.Intn(65536))
}

// Bytes returns n random bytes.
func (g *G) Bytes(n int) []byte {
	b := make([]byte, n)
	for i := range b {
		b[i] = g.Byte()
	}
	return b
}

// HostInfo generates a HostInfo.
func (g *G) HostInfo() knxnet.HostInfo {
	var h knxnet.HostInfo
	switch g.R.Intn(4) {
	case 0:
		h.Protocol = knxnet.UDP4
	case 1:
		h.Protocol = knxnet.TCP4
	default:
		h.Protocol = knxnet.Protocol(g.Byte())
	}
	copy(h.Address[:], g.Bytes(4))
	h.Port = knxnet.Port(g.Word())
	return h
}

// TPDU generates a transport unit.
func (g *G) TPDU() cemi.TransportUnit {
	if g.R.Intn(10) < 7 {
		n := g.Pick(1, 1, 2, 2, 3, 5, 14, 15, 16, 17, 50, 254, 255)
		app := &cemi.AppData{
			Numbered:  g.R.Intn(2) == 0,
			SeqNumber: uint8(g.R.Intn(16)),
			Command:   cemi.APCI(g.R.Intn(16)),
		}
		if g.Oversize && g.R.Intn(3) == 0 {
			switch g.R.Intn(5) {
			case 0:
				n = 0
				g.count("tpdu.app.empty")
			case 1:
				n = g.Pick(256, 257, 300, 600)
				g.count("tpdu.app.oversize")
			case 2:
				app.SeqNumber = g.Byte()
				g.count("tpdu.app.bigseq")
			case 3:
				app.Command = cemi.APCI(g.Byte())
				g.count("tpdu.app.bigcmd")
			}
		}
		if !app.Numbered && !g.Oversize {
			app.SeqNumber = 0 // an unnumbered unit has no sequence number (reserved-zero bits)
		}
		app.Data = g.Bytes(n)
		if n > 0 && !(g.Oversize && g.R.Intn(4) == 0) {
			app.Data[0] &= 63
		}
		if n == 0 {
			app.Data = nil
		}
		g.count("tpdu.app")
		return app
	}
	g.count("tpdu.ctl")
	c := &cemi.ControlData{Numbered: g.R.Intn(2) == 0, SeqNumber: uint8(g.R.Intn(16)), Command: uint8(g.R.Intn(4))}
	if !c.Numbered {
		c.SeqNumber = 0
	}
	if g.Oversize && g.R.Intn(3) == 0 {
		c.SeqNumber = g.Byte()
		c.Command = g.Byte()
	}
	return c
}

// LData generates an L_Data body.
func (g *G) LData() cemi.LData {
	var l cemi.LData
	n := g.Pick(0, 0, 0, 0, 0, 1, 2, 10, 254, 255)
	if g.Oversize && g.R.Intn(6) == 0 {
		n = g.Pick(256, 257, 400, 600)
		g.count("info.oversize")
	}
	if n > 0 {
		l.Info = cemi.Info(g.Bytes(n))
	}
	l.Control1 = cemi.ControlField1(g.Byte())
	l.Control2 = cemi.ControlField2(g.Byte())
	l.Source = cemi.IndividualAddr(g.Word())
	l.Destination = g.Word()
	l.Data = g.TPDU()
	return l
}

var knownCodes = map[uint8]bool{0x2B: true, 0x11: true, 0x29: true, 0x2E: true, 0x10: true, 0x2D: true, 0x2F: true}

// Cemi generates a cEMI message of the given kind (0..7), or a random kind when kind < 0.
func (g *G) Cemi(kind int) cemi.Message {
	if kind < 0 {
		kind = g.R.Intn(8)
	}
	raw := func() []byte {
		n := g.Pick(0, 1, 2, 7, 8, 9, 23, 40, 200)
		if n == 0 {
			return nil
		}
		return g.Bytes(n)
	}
	switch kind {
	case 0:
		g.count("cemi.LDataReq")
		return &cemi.LDataReq{LData: g.LData()}
	case 1:
		g.count("cemi.LDataCon")
		return &cemi.LDataCon{LData: g.LData()}
	case 2:
		g.count("cemi.LDataInd")
		return &cemi.LDataInd{LData: g.LData()}
	case 3:
		g.count("cemi.LRawReq")
		return &cemi.LRawReq{LRaw: raw()}
	case 4:
		g.count("cemi.LRawCon")
		return &cemi.LRawCon{LRaw: raw()}
	case 5:
		g.count("cemi.LRawInd")
		return &cemi.LRawInd{LRaw: raw()}
	case 6:
		g.count("cemi.LBusmon")
		b := cemi.LBusmonInd(raw())
		return &b
	default:
		g.count("cemi.Unsupported")
		c := g.Byte()
		for knownCodes[c] {
			c++
		}
		return &cemi.UnsupportedMessage{Code: cemi.MessageCode(c), Data: raw()}
	}
}

// Name generates a friendly name.
func (g *G) Name() string {
	n := g.Pick(0, 1, 5, 12, 28, 29)
	if g.Oversize && g.R.Intn(3) == 0 {
		n = g.Pick(30, 31, 40, 80)
		g.count("name.oversize")
	}
	var sb strings.Builder
	for i := 0; i < n; i++ {
		switch g.R.Intn(8) {
		case 0:
			sb.WriteRune(rune(0x80 + g.R.Intn(0x80))) // Latin-1 upper half
		case 1:
			sb.WriteRune(rune(1 + g.R.Intn(31)))
		default:
			sb.WriteRune(rune(0x20 + g.R.Intn(0x5f)))
		}
	}
	s := sb.String()
	if g.Oversize && g.R.Intn(6) == 0 {
		g.count("name.nonlatin1")
		s += string(rune(g.Pick(0x100, 0x20ac, 0x4e2d, 0x1f600)))
	}
	return s
}

// DevInfo generates a device information block.
func (g *G) DevInfo() knxnet.DeviceInformationBlock {
	var d knxnet.DeviceInformationBlock
	d.Type = knxnet.DescriptionTypeDeviceInfo
	if g.AnyDibType && g.R.Intn(8) == 0 {
		d.Type = knxnet.DescriptionType(g.Byte())
	}
	d.Medium = knxnet.KNXMedium(g.Byte())
	d.Status = knxnet.DeviceStatus(g.Byte())
	d.Source = cemi.IndividualAddr(g.Word())
	d.ProjectIdentifier = knxnet.ProjectInstallationIdentifier(g.Word())
	copy(d.SerialNumber[:], g.Bytes(6))
	copy(d.RoutingMulticastAddress[:], g.Bytes(4))
	hl := 6
	if g.Oversize && g.R.Intn(3) == 0 {
		hl = g.Pick(0, 1, 4, 5, 7, 8)
		g.count("hw.badlen")
	}
	d.HardwareAddr = net.HardwareAddr(g.Bytes(hl))
	d.FriendlyName = g.Name()
	return d
}

// SvcDIB generates a supported-services DIB.
func (g *G) SvcDIB() knxnet.SupportedServicesDIB {
	var d knxnet.SupportedServicesDIB
	d.Type = knxnet.DescriptionTypeSupportedServiceFamilies
	if g.AnyDibType && g.R.Intn(8) == 0 {
		d.Type = knxnet.DescriptionType(g.Byte())
	}
	k := g.Pick(0, 1, 2, 3, 5, 20, 126)
	for i := 0; i < k; i++ {
		d.Families = append(d.Families, knxnet.ServiceFamily{Type: knxnet.ServiceFamilyType(g.Byte()), Version: g.Byte()})
	}
	return d
}

// NumServiceKinds is the number of packable service kinds Service can generate.
const NumServiceKinds = 14

// Service generates a packable service of the given kind (0..13), random when kind < 0.
func (g *G) Service(kind int) knxnet.ServicePackable {
	if kind < 0 {
		kind = g.R.Intn(NumServiceKinds)
	}
	status := func() uint8 {
		if g.R.Intn(2) == 0 {
			return 0
		}
		return g.Byte()
	}
	switch kind {
	case 0:
		g.count("svc.SearchReq")
		return &knxnet.SearchReq{HostInfo: g.HostInfo()}
	case 1:
		g.count("svc.SearchRes")
		r := &knxnet.SearchRes{Control: g.HostInfo()}
		g.AnyDibType = true
		r.DescriptionB.DeviceHardware = g.DevInfo()
		r.DescriptionB.SupportedServices = g.SvcDIB()
		g.AnyDibType = false
		return r
	case 2:
		g.count("svc.DescrReq")
		return &knxnet.DescriptionReq{HostInfo: g.HostInfo()}
	case 3:
		g.count("svc.DescrRes")
		r := &knxnet.DescriptionRes{}
		r.DeviceHardware = g.DevInfo()
		r.SupportedServices = g.SvcDIB()
		if g.Oversize && g.R.Intn(3) == 0 {
			// blocks a decoder kept verbatim (the encoder writes the two mandatory blocks only: what Size
			// reports and what Pack writes must still agree)
			for k := 1 + g.R.Intn(2); k > 0; k-- {
				r.UnknownBlocks = append(r.UnknownBlocks, knxnet.UnknownDescriptionBlock{
					Type: knxnet.DescriptionType(g.Pick(3, 4, 5, 6, 8, 0xfe)), Data: g.Bytes(g.Pick(0, 1, 4, 9))})
			}
			g.count("svc.DescrRes.with-unknown-blocks")
		}
		return r
	case 4:
		g.count("svc.ConnReq")
		return &knxnet.ConnReq{Control: g.HostInfo(), Tunnel: g.HostInfo(), Layer: knxnet.TunnelLayer(g.Byte())}
	case 5:
		g.count("svc.ConnRes")
		r := &knxnet.ConnRes{Channel: g.Byte(), Status: knxnet.ErrCode(status())}
		if r.Status == 0 || (g.Oversize && g.R.Intn(2) == 0) {
			r.Control = g.HostInfo()
		}
		return r
	case 6:
		g.count("svc.ConnStateReq")
		return &knxnet.ConnStateReq{Channel: g.Byte(), Status: knxnet.ErrCode(status()), Control: g.HostInfo()}
	case 7:
		g.count("svc.ConnStateRes")
		return &knxnet.ConnStateRes{Channel: g.Byte(), Status: knxnet.ErrCode(status())}
	case 8:
		g.count("svc.DiscReq")
		return &knxnet.DiscReq{Channel: g.Byte(), Status: status(), Control: g.HostInfo()}
	case 9:
		g.count("svc.DiscRes")
		return &knxnet.DiscRes{Channel: g.Byte(), Status: status()}
	case 10:
		g.count("svc.TunnelReq")
		return &knxnet.TunnelReq{Channel: g.Byte(), SeqNumber: g.Byte(), Payload: g.Cemi(-1)}
	case 11:
		g.count("svc.TunnelRes")
		return &knxnet.TunnelRes{Channel: g.Byte(), SeqNumber: g.Byte(), Status: knxnet.ErrCode(status())}
	case 12:
		g.count("svc.RoutingInd")
		return &knxnet.RoutingInd{Payload: g.Cemi(-1)}
	default:
		g.count("svc.Unknown")
		id := g.Word()
		for isKnownService(id) {
			id++
		}
		n := g.Pick(0, 1, 2, 10, 100)
		frame := append([]byte{6, 16, byte(id >> 8), byte(id), byte((6 + n) >> 8), byte(6 + n)}, g.Bytes(n)...)
		var s knxnet.Service
		if _, err := knxnet.Unpack(frame, &s); err != nil {
			panic(err)
		}
		return s.(knxnet.ServicePackable)
	}
}

func isKnownService(id uint16) bool {
	switch knxnet.ServiceID(id) {
	case knxnet.SearchReqService, knxnet.SearchResService, knxnet.DescrReqService, knxnet.DescrResService,
		knxnet.ConnReqService, knxnet.ConnResService, knxnet.ConnStateReqService, knxnet.ConnStateResService,
		knxnet.DiscReqService, knxnet.DiscResService, knxnet.TunnelReqService, knxnet.TunnelResService,
		knxnet.RoutingIndService, knxnet.RoutingLostService, knxnet.RoutingBusyService:
		return true
	}
	return false
}

// RoutingLostFrame / RoutingBusyFrame craft frames of the two receive-only services.
func (g *G) RoutingLostFrame() []byte {
	g.count("svc.RoutingLost")
	c := g.Word()
	return []byte{6, 16, 0x05, 0x31, 0, 10, 4, g.Byte(), byte(c >> 8), byte(c)}
}

// RoutingBusyFrame crafts a routing-busy frame.
func (g *G) RoutingBusyFrame() []byte {
	g.count("svc.RoutingBusy")
	w := g.Word()
	c := g.Word()
	return []byte{6, 16, 0x05, 0x32, 0, 12, 6, g.Byte(), byte(w >> 8), byte(w), byte(c >> 8), byte(c)}
}

// DescrResFrameWithUnknown crafts a description response with DIBs in random order including
// unknown/unparsed ones.
func (g *G) DescrResFrameWithUnknown() []byte {
	g.count("svc.DescrRes.crafted")
	var body []byte
	k := 1 + g.R.Intn(5)
	for i := 0; i < k; i++ {
		switch g.R.Intn(5) {
		case 0:
			d := g.DevInfo()
			d.Type = knxnet.DescriptionTypeDeviceInfo
			b := make([]byte, d.Size())
			d.Pack(b)
			body = append(body, b...)
		case 1:
			d := g.SvcDIB()
			d.Type = knxnet.DescriptionTypeSupportedServiceFamilies
			if len(d.Families) > 20 {
				d.Families = d.Families[:20]
			}
			b := make([]byte, d.Size())
			d.Pack(b)
			body = append(body, b...)
		case 2:
			n := g.Pick(2, 3, 4, 5, 8, 20)
			ty := uint8(g.Pick(3, 4, 5, 0xfe))
			body = append(body, byte(n), ty)
			body = append(body, g.Bytes(n-2)...)
		case 3:
			n := g.Pick(2, 3, 4, 9)
			ty := uint8(g.Pick(0, 6, 7, 0x40, 0xff))
			body = append(body, byte(n), ty)
			body = append(body, g.Bytes(n-2)...)
		default:
			// deliberately odd length octets
			n := g.Pick(0, 1, 2, 3, 54, 200, 255)
			body = append(body, byte(n), uint8(g.Pick(1, 2, 3, 0xfe, 9)))
			body = append(body, g.Bytes(g.Pick(0, 1, 2, 10, 52))...)
		}
	}
	total := len(body) + 6
	return append([]byte{6, 16, 0x02, 0x04, byte(total >> 8), byte(total)}, body...)
}

// Millis is a helper for durations.
func Millis(n int) time.Duration { return time.Duration(n) * time.Millisecond }
