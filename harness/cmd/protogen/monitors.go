package main

import (
	"bufio"
	"encoding/json"
	"fmt"
	"os"
	"path/filepath"
	"strconv"
	"strings"
)

type ev struct {
	t    int
	kind string
	f    []string // remaining tokens
	in   bool     // script input (true) or observation (false)
}

func atoi(s string) int { n, _ := strconv.Atoi(s); return n }

func parseLine(script, trace string) (hdr []int, tcp bool, evs []ev, bad string) {
	parts := strings.SplitN(script, " : ", 2)
	h := strings.Fields(parts[0])
	for _, x := range h[1:] {
		hdr = append(hdr, atoi(x))
	}
	tcp = len(hdr) > 3 && hdr[3] == 1 && h[0] == "tun"
	if len(parts) == 2 {
		for _, e := range strings.Split(parts[1], " ; ") {
			f := strings.Fields(e)
			if len(f) < 2 {
				continue
			}
			evs = append(evs, ev{t: atoi(strings.TrimPrefix(f[0], "@")), kind: f[1], f: f[2:], in: true})
		}
	}
	for _, o := range strings.Split(trace, " ; ") {
		f := strings.Fields(o)
		if len(f) == 0 {
			continue
		}
		if f[0] == "PANIC" || f[0] == "bad-script" || f[0] == "connect-failed" {
			bad = o
			continue
		}
		if len(f) < 2 {
			continue
		}
		evs = append(evs, ev{t: atoi(f[1]), kind: f[0], f: f[2:]})
	}
	// stable order by time; at equal time inputs first, then transmissions, then the rest
	rank := func(e ev) int {
		switch {
		case e.in:
			return 0
		case e.kind == "tx":
			return 1
		}
		return 2
	}
	for i := 1; i < len(evs); i++ {
		for j := i; j > 0 && (evs[j].t < evs[j-1].t || (evs[j].t == evs[j-1].t && rank(evs[j]) < rank(evs[j-1]))); j-- {
			evs[j], evs[j-1] = evs[j-1], evs[j]
		}
	}
	return
}

type mon struct {
	prop     string
	findings []finding
	script   string
}

func (m *mon) fail(kind, detail string) {
	if len(m.findings) < 200 {
		s := m.script
		if len(s) > 6000 {
			s = s[:6000]
		}
		m.findings = append(m.findings, finding{m.prop, kind, s, detail})
	}
}

// ---- C03 ----
func (m *mon) c03(hdr []int, tcp bool, evs []ev) {
	R, T := hdr[0], hdr[1]
	type snd struct {
		first, ret      int
		ch, seq         string
		txs             []int
		result          string
		started, closed bool
	}
	sends := map[string]*snd{}
	var order []string
	type ack struct {
		t           int
		ch, seq, st string
		used        bool
	}
	var acks []*ack
	var acked []int
	checkConsecutive := func() {
		if tcp {
			return
		}
		for i, q := range acked {
			if q != i%256 {
				m.fail("sequence-not-consecutive", fmt.Sprintf("acknowledged requests carried numbers %v since the last (re)connect", acked))
				break
			}
		}
		acked = nil
	}
	for _, e := range evs {
		switch {
		case e.in && e.kind == "rx" && e.f[0] == "cres" && e.f[2] == "0":
			checkConsecutive() // numbering restarts with a new connection
		case e.in && e.kind == "rx" && e.f[0] == "tres":
			acks = append(acks, &ack{t: e.t, ch: e.f[1], seq: e.f[2], st: e.f[3]})
		case !e.in && e.kind == "tx" && e.f[0] == "treq":
			pid := e.f[3]
			s := sends[pid]
			if s == nil {
				s = &snd{first: e.t, ch: e.f[1], seq: e.f[2], ret: -1}
				sends[pid] = s
				order = append(order, pid)
			}
			if e.f[1] != s.ch || e.f[2] != s.seq {
				m.fail("retransmission-differs", fmt.Sprintf("telegram %s first sent as channel %s seq %s, later as channel %s seq %s at %d", pid, s.ch, s.seq, e.f[1], e.f[2], e.t))
			}
			s.txs = append(s.txs, e.t)
			// one in flight
			for q, o := range sends {
				if q != pid && o.first <= e.t && (o.ret < 0 || e.t < o.ret) {
					m.fail("two-requests-in-flight", fmt.Sprintf("telegram %s transmitted at %d while telegram %s (first sent %d) was still unanswered", pid, e.t, q, o.first))
				}
			}
		case !e.in && e.kind == "ret":
			pid := e.f[0]
			s := sends[pid]
			if s == nil {
				continue // failed before transmitting
			}
			s.ret, s.result = e.t, e.f[1]
			if !tcp && e.t > s.first+T {
				m.fail("send-returned-late", fmt.Sprintf("telegram %s first sent %d, Send returned %d, response timeout %d", pid, s.first, e.t, T))
			}
			if tcp {
				if len(s.txs) != 1 || e.t != s.first || e.f[1] != "ok" {
					m.fail("tcp-send", fmt.Sprintf("telegram %s: %d transmissions, returned %s at %d", pid, len(s.txs), e.f[1], e.t))
				}
				continue
			}
			if e.f[1] == "ok" || e.f[1] == "rejected" {
				found := false
				for _, a := range acks {
					if !a.used && a.ch == s.ch && a.seq == s.seq && a.t <= e.t && e.t <= a.t+R && ((a.st == "0") == (e.f[1] == "ok")) {
						a.used, found = true, true
						break
					}
				}
				if !found {
					m.fail("success-without-acknowledgement", fmt.Sprintf("Send of telegram %s (channel %s seq %s) returned %s at %d but no unused acknowledgement with that channel, number and status arrived within the resend interval before", pid, s.ch, s.seq, e.f[1], e.t))
				}
				acked = append(acked, atoi(s.seq))
			}
		}
	}
	for _, pid := range order {
		s := sends[pid]
		for i, t := range s.txs {
			if t != s.first+i*R {
				m.fail("retransmission-timing", fmt.Sprintf("telegram %s: transmission %d at %d, expected %d (first %d + %d x resend interval %d)", pid, i, t, s.first+i*R, s.first, i, R))
				break
			}
			if !tcp && i > 0 && t >= s.first+T {
				m.fail("retransmission-after-timeout", fmt.Sprintf("telegram %s retransmitted at %d, timeout was at %d", pid, t, s.first+T))
			}
		}
	}
	checkConsecutive()
}

// ---- C04 / C17 ----
func (m *mon) c04(hdr []int, tcp bool, evs []ev) {
	ch := strconv.Itoa(hdr[4])
	exp := 0
	reconnecting := false
	dead := false
	failing := false
	var wantAcks []string
	var accepted []string
	for _, e := range evs {
		if !e.in && e.kind == "tx" && e.f[0] == "creq" && e.t > 0 && !dead {
			reconnecting = true // the client itself decided to reconnect (failed heartbeat)
		}
		if e.in && (e.kind == "close" || e.kind == "sockclose") {
			dead = true
		}
		if e.in && e.kind == "sockfail" {
			failing = len(e.f) > 0 && e.f[0] == "1" // the socket refuses to send: no acknowledgement can leave
			continue
		}
		if !e.in || e.kind != "rx" {
			continue
		}
		switch e.f[0] {
		case "treq":
			if reconnecting || dead || e.f[1] != ch {
				continue
			}
			if tcp {
				accepted = append(accepted, e.f[3])
				continue
			}
			seq := atoi(e.f[2])
			if seq == exp {
				exp = (exp + 1) % 256
				accepted = append(accepted, e.f[3])
				if !failing {
					wantAcks = append(wantAcks, fmt.Sprintf("%d %s %d", e.t, ch, seq))
				}
			} else if seq == (exp+255)%256 && !failing {
				wantAcks = append(wantAcks, fmt.Sprintf("%d %s %d", e.t, ch, seq))
			}
		case "dreq":
			if !reconnecting && !dead && e.f[1] == ch {
				reconnecting = true
			}
		case "dres":
			if !reconnecting && !dead && e.f[1] == ch {
				dead = true
			}
		case "cres":
			if reconnecting {
				if e.f[2] == "0" {
					ch, exp, reconnecting = e.f[1], 0, false
				} else if e.f[2] != "36" && e.f[2] != "37" {
					reconnecting, dead = false, true
				}
			}
		}
	}
	var gotAcks, gots []string
	reads := 0
	for _, e := range evs {
		if !e.in && e.kind == "tx" && e.f[0] == "tres" {
			gotAcks = append(gotAcks, fmt.Sprintf("%d %s %s", e.t, e.f[1], e.f[2]))
			if e.f[3] != "0" {
				m.fail("ack-status", fmt.Sprintf("acknowledgement at %d carries status %s", e.t, e.f[3]))
			}
		}
		if !e.in && e.kind == "got" {
			reads++
			if e.f[0] != "none" && e.f[0] != "closed" {
				gots = append(gots, e.f[0])
			}
		}
	}
	if strings.Join(gotAcks, ",") != strings.Join(wantAcks, ",") {
		m.fail("acknowledgements-differ", fmt.Sprintf("expected acknowledgements (time channel seq) %v, the client sent %v", wantAcks, gotAcks))
	}
	// every read while accepted telegrams are outstanding returns the next one, in order
	n := len(gots)
	if n > len(accepted) || strings.Join(gots, ",") != strings.Join(accepted[:n], ",") {
		kind := "delivery-differs"
		if m.prop == "C17" {
			kind = "delivery-order"
		}
		m.fail(kind, fmt.Sprintf("accepted in order %v, Inbound delivered %v", accepted, gots))
	}
}

// ---- C09 ----
func (m *mon) c09(hdr []int, evs []ev) {
	R, T, H := hdr[0], hdr[1], hdr[2]
	_ = R
	ch := strconv.Itoa(hdr[4])
	state := "connected"
	connT := 0
	reconT := 0
	lastCs := 0
	for _, e := range evs {
		switch {
		case e.in && e.kind == "rx":
			switch e.f[0] {
			case "dreq":
				if state == "connected" && e.f[1] == ch {
					state, reconT = "reconnecting", e.t
				}
			case "dres":
				if state == "connected" && e.f[1] == ch {
					state = "dead"
				}
			case "csres":
				if state == "connected" && e.f[1] == ch && e.f[2] != "0" {
					// only counts if a heartbeat is pending; the model decides, the monitor only
					// checks consequences below
					state, reconT = "maybe-reconnecting", e.t
				}
			case "cres":
				if state == "reconnecting" || state == "maybe-reconnecting" {
					if e.f[2] == "0" {
						state, ch, connT, lastCs = "connected", e.f[1], e.t, e.t
					} else if e.f[2] != "36" && e.f[2] != "37" {
						state = "dead"
					}
				}
			}
		case e.in && e.kind == "close":
			return
		case !e.in && e.kind == "tx":
			switch e.f[0] {
			case "creq":
				if e.t == 0 {
					continue
				}
				if state == "connected" || state == "maybe-reconnecting" {
					// heartbeat failure detected by the client
					state, reconT = "reconnecting", e.t
				} else if state == "dead" {
					m.fail("frame-after-termination", fmt.Sprintf("connect request at %d after the tunnel terminated", e.t))
				}
			case "csreq":
				if e.f[1] != ch && state == "connected" {
					m.fail("stale-channel", fmt.Sprintf("connection-state request at %d for channel %s, current channel is %s", e.t, e.f[1], ch))
				}
				lastCs = e.t
			case "treq", "tres", "dres", "dreq":
				if state == "connected" && e.f[1] != ch {
					m.fail("stale-channel", fmt.Sprintf("%s at %d carries channel %s, current channel is %s", e.f[0], e.t, e.f[1], ch))
				}
			}
			if state == "connected" && e.t-lastCs > H+T && e.t-connT > H+T {
				m.fail("heartbeat-missing", fmt.Sprintf("no connection-state request between %d and %d (heartbeat interval %d)", lastCs, e.t, H))
			}
		case !e.in && e.kind == "ret":
			if state == "dead" && e.f[1] == "ok" {
				m.fail("send-succeeds-after-termination", fmt.Sprintf("Send of %s returned ok at %d", e.f[0], e.t))
			}
		case !e.in && e.kind == "got":
			if state == "dead" && e.f[0] == "none" {
				m.fail("inbound-not-closed", fmt.Sprintf("Inbound still open at %d after the tunnel terminated", e.t))
			}
		}
	}
	_ = reconT
}

// ---- C10 ----
func (m *mon) c10(hdr []int, evs []ev, bad string) {
	T := hdr[1]
	if bad != "" {
		m.fail("panic-or-leak", bad)
	}
	closedAt := -1
	dreqs := 0
	closes, closeds := 0, 0
	var calls []int
	for _, e := range evs {
		switch {
		case e.in && e.kind == "close":
			closes++
			calls = append(calls, e.t)
		case !e.in && e.kind == "skipped":
			// the harness did not issue this Close (another one was still waiting)
			closes--
			for i, c := range calls {
				if c == e.t {
					calls = append(calls[:i], calls[i+1:]...)
					break
				}
			}
		case !e.in && e.kind == "closed":
			closeds++
			if closedAt < 0 {
				closedAt = e.t
			}
			if len(calls) > 0 {
				c := calls[0]
				calls = calls[1:]
				if e.t-c > 2*T {
					m.fail("close-slow", fmt.Sprintf("Close called at %d returned at %d, response timeout %d", c, e.t, T))
				}
			}
		case !e.in && e.kind == "tx":
			if e.f[0] == "dreq" {
				dreqs++
			}
			if closedAt >= 0 && e.t > closedAt {
				m.fail("frame-after-close", fmt.Sprintf("%s sent at %d, Close had returned at %d", e.f[0], e.t, closedAt))
			}
		case !e.in && e.kind == "ret":
			if closedAt >= 0 && e.t > closedAt && e.f[1] == "ok" {
				m.fail("send-succeeds-after-close", fmt.Sprintf("Send of %s returned ok at %d, Close had returned at %d", e.f[0], e.t, closedAt))
			}
		case !e.in && e.kind == "got":
			if closedAt >= 0 && e.t > closedAt && e.f[0] != "closed" && e.f[0] != "none" {
				// parked deliveries die with the tunnel; a telegram after Close is not expected
				m.fail("delivery-after-close", fmt.Sprintf("Inbound yielded %s at %d after Close returned at %d", e.f[0], e.t, closedAt))
			}
			if closedAt >= 0 && e.t > closedAt && e.f[0] == "none" {
				m.fail("inbound-not-closed", fmt.Sprintf("Inbound still open at %d, Close returned at %d", e.t, closedAt))
			}
		}
	}
	if dreqs > 1 {
		m.fail("several-disconnect-requests", fmt.Sprintf("%d disconnect requests", dreqs))
	}
	if closes > 0 && closeds != closes {
		m.fail("close-did-not-return", fmt.Sprintf("%d Close calls, %d returned", closes, closeds))
	}
	// Send issued after Close returned must come back (with an error)
	for _, e := range evs {
		if e.in && e.kind == "send" && closedAt >= 0 && e.t > closedAt {
			found := false
			for _, o := range evs {
				if !o.in && o.kind == "ret" && o.f[0] == e.f[0] {
					found = true
				}
			}
			if !found {
				m.fail("send-hangs-after-close", fmt.Sprintf("Send of %s at %d never returned", e.f[0], e.t))
			}
		}
	}
}

// c05sw judges one composed-system walk: exactly once, in order, in both directions.
func (m *mon) c05sw(script, trace string) int {
	if strings.HasPrefix(trace, "PANIC") || trace == "HANG" || trace == "CRASH" || trace == "MISSING" {
		m.fail("panic-or-leak", trace)
		return 0
	}
	sect := map[string][]string{}
	for _, part := range strings.Split(trace, " ; ") {
		f := strings.SplitN(part, " ", 2)
		if len(f) == 2 && f[1] != "" {
			sect[f[0]] = strings.Split(f[1], ",")
		} else {
			sect[f[0]] = nil
		}
	}
	bus, got, gw := sect["bus"], sect["got"], sect["gwacked"]
	pos := func(l []string, x string) []int {
		var out []int
		for i, y := range l {
			if y == x {
				out = append(out, i)
			}
		}
		return out
	}
	type snd struct{ pid, seq, res string }
	var sends []snd
	for _, s := range sect["sends"] {
		f := strings.Split(s, ":")
		if len(f) == 3 {
			sends = append(sends, snd{f[0], f[1], f[2]})
		}
	}
	last := -1
	for i, s := range sends {
		if s.res != "ok" {
			continue
		}
		p := pos(bus, s.pid)
		switch {
		case len(p) == 0:
			kind := "success-not-on-bus/other"
			for _, e := range sends[:i] {
				if e.seq == s.seq && e.res == "timeout" && len(pos(bus, e.pid)) > 0 {
					kind = "success-not-on-bus/number-reused-after-timeout"
				}
			}
			m.fail(kind, fmt.Sprintf("Send of telegram %s (sequence number %s) reported success but the gateway never put it on the bus; bus = %v, sends = %v", s.pid, s.seq, bus, sect["sends"]))
		case len(p) > 1:
			m.fail("telegram-on-bus-twice", fmt.Sprintf("telegram %s is on the bus %d times: %v", s.pid, len(p), bus))
		default:
			if p[0] < last {
				m.fail("bus-order", fmt.Sprintf("telegram %s completed after an earlier Send but is on the bus before it: %v", s.pid, bus))
			}
			last = p[0]
		}
	}
	seen := map[string]bool{}
	for _, b := range bus {
		if seen[b] {
			m.fail("telegram-on-bus-twice", fmt.Sprintf("telegram %s is on the bus twice: %v", b, bus))
		}
		seen[b] = true
	}
	last = -1
	for _, g := range gw {
		p := pos(got, g)
		switch {
		case len(p) == 0:
			m.fail("acknowledged-not-delivered", fmt.Sprintf("the gateway got telegram %s acknowledged but the application never received it: got %v", g, got))
		case len(p) > 1:
			m.fail("delivered-twice", fmt.Sprintf("telegram %s was delivered %d times: %v", g, len(p), got))
		default:
			if p[0] < last {
				m.fail("delivery-order", fmt.Sprintf("telegram %s delivered out of the gateway's order: %v", g, got))
			}
			last = p[0]
		}
	}
	seen = map[string]bool{}
	for _, g := range got {
		if seen[g] {
			m.fail("delivered-twice", fmt.Sprintf("telegram %s was delivered twice: %v", g, got))
		}
		seen[g] = true
	}
	return len(bus) + len(got) + len(sends) + len(gw)
}

func runMonitors(prop, dir string) {
	of, err := os.Open(filepath.Join(dir, "ops.txt"))
	if err != nil {
		fmt.Fprintln(os.Stderr, err)
		os.Exit(2)
	}
	tf, err := os.Open(filepath.Join(dir, "impl.txt"))
	if err != nil {
		fmt.Fprintln(os.Stderr, err)
		os.Exit(2)
	}
	so, st := bufio.NewScanner(of), bufio.NewScanner(tf)
	so.Buffer(make([]byte, 1<<20), 1<<26)
	st.Buffer(make([]byte, 1<<20), 1<<26)
	m := &mon{prop: prop, findings: []finding{}}
	n, nobs := 0, 0
	classes := map[string]int{}
	var samples []string
	for so.Scan() && st.Scan() {
		script, trace := so.Text(), st.Text()
		n++
		m.script = script
		if strings.HasPrefix(script, "rrt ") || strings.HasPrefix(script, "ort ") || strings.HasPrefix(script, "swrt ") || strings.HasPrefix(script, "crt ") || strings.HasPrefix(script, "rcrt ") || strings.HasPrefix(script, "lrt ") || strings.HasPrefix(script, "rsrt ") {
			if strings.HasPrefix(script, "rsrt ") {
				nobs += m.rsrt(script, trace)
			} else if strings.HasPrefix(script, "lrt ") {
				nobs += m.lrt(script, trace)
			} else if strings.HasPrefix(script, "rcrt ") {
				nobs += m.rcrt(script, trace)
			} else if strings.HasPrefix(script, "crt ") {
				nobs += m.crt(script, trace)
			} else if strings.HasPrefix(script, "rrt ") {
				nobs += m.rrt(script, trace)
			} else if strings.HasPrefix(script, "swrt ") {
				nobs += m.swrt(script, trace)
			} else {
				nobs += m.ort(script, trace)
			}
			classes[strings.Join(strings.Fields(script)[:2], " ")]++
			if len(samples) < 6 {
				s := script + " => " + trace
				if len(s) > 500 {
					s = s[:500] + "…"
				}
				samples = append(samples, s)
			}
			continue
		}
		if strings.HasPrefix(script, "sw ") {
			nobs += m.c05sw(script, trace)
			if len(samples) < 6 && n%7 == 1 {
				samples = append(samples, script+" => "+trace)
			}
			continue
		}
		if i := strings.Index(trace, "decoder-dropped"); i >= 0 {
			end := i + 60
			if end > len(trace) {
				end = len(trace)
			}
			m.fail("gateway-frame-dropped-by-decoder", "a well-formed frame of the gateway did not survive the client's decoder: "+trace[i:end])
		}
		hdr, tcp, evs, bad := parseLine(script, trace)
		for _, e := range evs {
			if !e.in {
				nobs++
				k := e.kind
				if e.kind == "tx" && len(e.f) > 0 {
					k = "tx " + e.f[0]
				} else if e.kind == "ret" && len(e.f) > 1 {
					k = "ret " + e.f[1]
				}
				classes[k]++
			}
		}
		if len(samples) < 6 && n%17 == 1 {
			s := script + " => " + trace
			if len(s) > 500 {
				s = s[:500] + "…"
			}
			samples = append(samples, s)
		}
		if bad != "" && prop != "C10" {
			m.fail("panic-or-leak", bad)
		}
		if strings.HasPrefix(script, "rtr ") {
			monitorRouter(m, prop, hdr, evs, bad)
			continue
		}
		switch prop {
		case "C03":
			m.c03(hdr, tcp, evs)
		case "C04", "C17":
			m.c04(hdr, tcp, evs)
		case "C09":
			m.c09(hdr, evs)
			m.c04(hdr, tcp, evs)
		case "C10":
			m.c10(hdr, evs, bad)
		case "C05":
			m.c05(hdr, evs)
		}
	}
	var gs map[string]interface{}
	if b, err := os.ReadFile(filepath.Join(dir, "genstats.json")); err == nil {
		json.Unmarshal(b, &gs)
	}
	stats := map[string]interface{}{
		"property": prop, "ops": n, "distinct": n, "observations": nobs, "classes": classes,
		"generated": gs["generated"], "samples": samples, "findings": m.findings,
	}
	sf, _ := os.Create(filepath.Join(dir, "stats.json"))
	enc := json.NewEncoder(sf)
	enc.SetIndent("", " ")
	enc.Encode(stats)
	sf.Close()
}
