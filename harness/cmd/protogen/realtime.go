package main

import (
	"fmt"
	"strconv"
	"strings"
)

// ---- real-time scripts: contended router pacing / back-off (C13rt), delivery order (C17rt) ----

func genRealtime(g *gen, prop string, budget int, emit func(string)) bool {
	switch prop {
	case "C13rt":
		fixed := []string{
			"rrt 10 1 8 0 :",
			"rrt 10 4 6 0 : busy@15:45:1",
			"rrt 10 4 6 0 : busy@15:45:0 ; busy@30:45:7",
			"rrt 5 8 4 100 : busy@3:30:1 ; busy@4:30:1 ; busy@5:30:1",
			"rrt 20 3 3 0 : busy@30:50:2",
			"rrt 10 2 6 0 : lost@35:3",
			"rrt 5 3 6 0 : lost@12:2 ; lost@40:5",
			"rrt 0 4 50 0 : busy@1:40:1",
			// a second indication announcing LESS than what remains of the first: the longer silence
			// stands (each indication's wait time counts from when it was taken in)
			"rrt 5 4 10 0 : busy@5:50:1 ; busy@15:2:1",
			"rrt 2 4 30 0 : busy@3:50:1 ; busy@13:0:1",
			"rrt 10 3 8 0 : busy@12:500:9 ; busy@30:5:9",
			// indications a few milliseconds apart, the later one announcing MORE: each one counts
			"rrt 5 3 10 0 : busy@5:5:1 ; busy@8:50:1",
			"rrt 2 4 20 0 : busy@3:2:1 ; busy@6:50:1 ; busy@9:50:1",
			// the same on an IDLE client (sixth field: the senders start after that many ms)
			"rrt 5 3 6 0 12 : busy@1:5:1 ; busy@4:50:1",
			"rrt 10 2 5 0 30 : busy@2:50:0 ; busy@9:50:3 ; busy@14:20:3",
			"rrt 5 4 5 0 20 : busy@10:50:1",
			// senders that stay idle for longer than the pause between their Sends
			"rrt 10 2 8 17000 :",
			"rrt 20 3 6 50000 :",
			"rrt 5 4 8 8000 : busy@30:20:1",
		}
		n := 0
		for _, s := range fixed {
			if n < budget {
				emit(s)
				n++
			}
		}
		for ; n < budget; n++ {
			pause := g.pick(0, 2, 5, 10, 20)
			senders := 1 + g.r.Intn(8)
			total := 12 + g.r.Intn(28)
			if pause == 0 {
				total = 200 + g.r.Intn(1400) // bursts of up to 200 messages per sender
			}
			burst := total / senders
			if burst < 1 {
				burst = 1
			}
			gap := g.pick(0, 0, 100, pause*500, pause*1700, pause*2600)
			span := senders * burst * pause
			var bs []string
			at := 0
			if pause > 0 && g.r.Intn(4) == 0 {
				// overlapping indications with a shorter second wait
				at += g.r.Intn(span/3 + 3)
				ctrl := 1 + g.r.Intn(65535)
				bs = append(bs, fmt.Sprintf("busy@%d:%d:%d", at, g.pick(50, 100, 500), ctrl))
				at += 3 + g.r.Intn(20)
				bs = append(bs, fmt.Sprintf("busy@%d:%d:%d", at, g.pick(0, 2, 5, 20), ctrl))
				g.stats["rrt.busy-overlap-shorter"]++
			}
			if pause > 0 && g.r.Intn(4) == 0 {
				// a storm: indications 1..8 ms apart with growing wait times
				at += g.r.Intn(span/3 + 3)
				ctrl := 1 + g.r.Intn(65535)
				w := g.pick(0, 2, 5)
				for k := 2 + g.r.Intn(3); k > 0; k-- {
					bs = append(bs, fmt.Sprintf("busy@%d:%d:%d", at, w, ctrl))
					at += 1 + g.r.Intn(8)
					w = g.pick(20, 50, 100)
				}
				g.stats["rrt.busy-storm-growing"]++
			}
			for k := g.pick(0, 1, 1, 2, 3, 4); k > 0; k-- {
				at += g.r.Intn(span/2 + 3)
				if g.r.Intn(3) == 0 {
					at += g.r.Intn(3) // back-to-back storm
				}
				ctrl := 0
				if g.r.Intn(2) == 0 {
					ctrl = 1 + g.r.Intn(65535)
				}
				if pause > 0 && g.r.Intn(4) == 0 {
					// a routing-lost indication: the resent messages are paced like any other
					bs = append(bs, fmt.Sprintf("lost@%d:%d", at, g.pick(1, 2, 3, 5)))
					g.stats["rrt.lost"]++
					continue
				}
				bs = append(bs, fmt.Sprintf("busy@%d:%d:%d", at, g.pick(0, 5, 30, 45, 50, 100, 500), ctrl))
				g.stats["rrt.busy"]++
			}
			g.stats[fmt.Sprintf("rrt.pause%d", pause)]++
			g.stats[fmt.Sprintf("rrt.senders%d", senders)]++
			if pause > 0 && g.r.Intn(5) == 0 {
				// senders start late: the indications find the client idle
				g.stats["rrt.idle-start"]++
				emit(fmt.Sprintf("rrt %d %d %d %d %d : %s", pause, senders, burst, gap, g.pick(5, 15, 40), strings.Join(bs, " ; ")))
				continue
			}
			emit(fmt.Sprintf("rrt %d %d %d %d : %s", pause, senders, burst, gap, strings.Join(bs, " ; ")))
		}
	case "C17rt":
		rounds := 30
		fixed := []string{
			"ort tun waiting 2 %d", "ort rtr waiting 2 %d", "ort grp burst 16 %d", "ort grp waiting 16 %d",
			"ort tun burst 4 %d", "ort rtr burst 16 %d", "ort tun burst 64 %d", "ort rtr burst 2 %d", "ort grp burst 64 %d",
			"ort rtr mixed 16 %d", "ort tun mixed 16 %d", "ort rtr mixed 64 %d", "ort grp mixed 16 %d", "ort tun mixed 8 %d",
		}
		// one long-lived client, a telegram arriving exactly while the application takes the previous one
		if budget > 2 {
			emit("ort tun handoff 2 20000")
			emit("ort rtr handoff 2 20000")
			budget -= 2
		}
		n := 0
		for _, s := range fixed {
			if n < budget {
				emit(fmt.Sprintf(s, rounds))
				n++
			}
		}
		for ; n < budget; n++ {
			client := []string{"tun", "rtr", "grp"}[g.r.Intn(3)]
			mode := []string{"waiting", "burst", "mixed"}[g.r.Intn(3)]
			k := g.pick(2, 3, 4, 8, 16, 64)
			if mode == "waiting" && client != "grp" {
				// with a waiting reader only the second telegram can be parked: longer bursts race
				// with the reader's return to its receive
				k = 2
			}
			g.stats["ort."+client+"."+mode]++
			emit(fmt.Sprintf("ort %s %s %d %d", client, mode, k, rounds))
		}
	case "C03rt":
		// 1..8 goroutines call Send on one tunnel at the same time; loss-free gateway
		fixed := []string{"swrt 1 20", "swrt 2 20", "swrt 4 20", "swrt 8 10", "rcrt 25 10 100", "swrt 3 100", "rcrt 45 20 150",
			"rsrt 24 40", "rsrt 90 60", "rsrt 10 40"}
		n := 0
		for _, s := range fixed {
			if n < budget {
				emit(s)
				n++
			}
		}
		for ; n < budget; n++ {
			if n%5 == 4 {
				// the gateway disconnects (and grants another channel) while a Send is still repeating
				g.stats["rcrt"]++
				emit(fmt.Sprintf("rcrt %d %d %d", g.pick(5, 25, 45, 70), g.pick(10, 20), g.pick(100, 150)))
				continue
			}
			if n%5 == 2 {
				// a Send that had to wait for another one, and whose own request is then lost twice
				g.stats["rsrt"]++
				rs := g.pick(30, 40, 60)
				emit(fmt.Sprintf("rsrt %d %d", rs*(2+g.r.Intn(20))/10, rs))
				continue
			}
			s := 1 + g.r.Intn(8)
			g.stats[fmt.Sprintf("swrt.senders%d", s)]++
			emit(fmt.Sprintf("swrt %d %d", s, 5+g.r.Intn(60)))
		}
	case "C14rt":
		// a lost indication while a Send is inside the socket write
		n := 0
		for _, s := range []string{"lrt 2 5", "lrt 2 3", "lrt 1 2", "lrt 4 5", "lrt 3 65535", "lrt 7 8", "lrt 9 12"} {
			if n < budget {
				emit(s)
				n++
			}
		}
		for ; n < budget; n++ {
			before := 1 + g.r.Intn(10)
			g.stats["lrt"]++
			emit(fmt.Sprintf("lrt %d %d", before, g.pick(before+1, before+1, before+2, before+4, 65535, before, 1)))
		}
	case "C10rt":
		// 1..4 goroutines call Close at the same moment, with and without pending Sends, gateway
		// traffic and a reader
		n := 0
		for _, s := range []string{"crt 1 0 1 0", "crt 2 0 1 0", "crt 4 0 0 0", "crt 3 2 1 1", "crt 4 3 0 1", "crt 2 1 0 0"} {
			if n < budget {
				emit(s)
				n++
			}
		}
		for ; n < budget; n++ {
			c := 1 + g.r.Intn(4)
			g.stats[fmt.Sprintf("crt.closers%d", c)]++
			emit(fmt.Sprintf("crt %d %d %d %d", c, g.r.Intn(4), g.r.Intn(2), g.r.Intn(2)))
		}
	default:
		return false
	}
	return true
}

// lrt: the resend after a lost indication that arrived while a Send held the lock covers everything
// transmitted before the first retransmission: the last min(k, retained) of those, in order
func (m *mon) lrt(script, trace string) int {
	var tx []string
	k, lostSeen := 0, false
	for _, e := range strings.Split(trace, ";") {
		f := strings.Fields(e)
		if len(f) == 0 {
			continue
		}
		switch f[0] {
		case "tx":
			tx = append(tx, f[2])
		case "lost":
			k, lostSeen = atoi(f[2]), true
		case "stuck":
			m.fail("send-never-returned", "the blocked Send did not return")
		case "busy-not-taken":
			m.fail("busy-not-taken", "the serve loop did not take the lost indication within 2 s")
		case "bad-script":
			m.fail("bad-trace", trace)
		}
	}
	if !lostSeen {
		return len(tx)
	}
	sf := strings.Fields(script)
	before := atoi(sf[1])
	orig := before + 1 // telegrams 1..before+1 are transmitted once each first
	if len(tx) < orig {
		m.fail("bad-trace", trace)
		return len(tx)
	}
	retained := tx[:orig]
	if len(retained) > 8 {
		retained = retained[len(retained)-8:]
	}
	n := k
	if n > len(retained) {
		n = len(retained)
	}
	want := retained[len(retained)-n:]
	got := tx[orig:]
	if strings.Join(got, ",") != strings.Join(want, ",") {
		m.fail("resend-differs/concurrent-send", fmt.Sprintf("lost %d taken in while the Send of telegram %d was inside the socket write; transmitted before the resend: %v; expected retransmission of %v, the client sent %v", k, orig, tx[:orig], want, got))
	}
	return len(tx)
}

// rcrt: every repetition of a tunnelling request is the request as first transmitted - also when the
// tunnel was reconnected onto another channel meanwhile; the Send after the reconnect uses the new
// channel with the numbering restarted
func (m *mon) rcrt(script, trace string) int {
	if !strings.HasPrefix(trace, "treqs=") {
		m.fail("bad-trace", trace)
		return 0
	}
	parts := strings.Fields(trace)
	first := map[string]string{}
	n := 0
	for _, tq := range strings.Split(strings.TrimPrefix(parts[0], "treqs="), ",") {
		f := strings.Split(tq, ":")
		if len(f) != 3 {
			continue
		}
		n++
		hdr := f[0] + ":" + f[1]
		if was, ok := first[f[2]]; ok && was != hdr {
			m.fail("retransmission-differs", fmt.Sprintf("telegram %s was first transmitted as channel:sequence %s and repeated as %s (requests seen: %s)", f[2], was, hdr, parts[0]))
			break
		} else if !ok {
			first[f[2]] = hdr
		}
	}
	if len(parts) > 1 && strings.Contains(parts[1], "stuck") {
		m.fail("send-never-returned", "a Send had not returned 3 s after its response timeout: "+parts[1])
	}
	if want := "8:0"; first["3"] != "" && first["3"] != want {
		m.fail("request-after-reconnect", fmt.Sprintf("the Send after the reconnect went out as channel:sequence %s, the new connection is channel 8 and starts at 0", first["3"]))
	}
	return n
}

// crt: Close called by several goroutines at once on a tunnel whose socket is usable: exactly one
// disconnect request, every Close returns, Inbound closes, Send fails promptly, Close again returns
func (m *mon) crt(script, trace string) int {
	if !strings.HasPrefix(trace, "dreq=") {
		m.fail("bad-trace", trace)
		return 0
	}
	kv := map[string]string{}
	for _, f := range strings.Fields(trace) {
		if p := strings.SplitN(f, "=", 2); len(p) == 2 {
			kv[p[0]] = p[1]
		}
	}
	if kv["dreq"] != "1" {
		m.fail("disconnect-request-count/concurrent-closers", fmt.Sprintf("%s disconnect requests were written for %s concurrent Close calls on a usable socket (exactly one is due)", kv["dreq"], strings.Fields(script)[1]))
	}
	if r := strings.SplitN(kv["returned"], "/", 2); len(r) != 2 || r[0] != r[1] {
		m.fail("close-did-not-return", "Close calls returned within 3 s: "+kv["returned"])
	}
	if kv["early"] != "0" {
		m.fail("close-returned-before-teardown", kv["early"]+" Close calls returned while Inbound was still open (another caller was still tearing the tunnel down)")
	}
	if kv["inbound"] != "closed" {
		m.fail("inbound-not-closed", "Inbound still open 1 s after every Close returned")
	}
	if kv["send"] != "err" {
		m.fail("send-after-close", "Send after Close: "+kv["send"])
	}
	if kv["second"] != "ok" {
		m.fail("close-not-idempotent", "a further Close did not return within 1 s")
	}
	return 5
}

// rsrt: the resend interval of a Send starts at its first transmission: the second telegram's first
// repetition comes no earlier than one resend interval after its first transmission (later is the
// scheduler's business, earlier is the client's), and the Send succeeds at the third transmission
func (m *mon) rsrt(script, trace string) int {
	f := strings.Fields(script)
	if !strings.HasPrefix(trace, "tx=") || len(f) != 3 {
		m.fail("bad-trace", trace)
		return 0
	}
	resend, _ := strconv.Atoi(f[2])
	parts := strings.Fields(trace)
	var tx []int
	for _, v := range strings.Split(strings.TrimPrefix(parts[0], "tx="), ",") {
		if u, err := strconv.Atoi(v); err == nil {
			tx = append(tx, u)
		}
	}
	if !strings.Contains(trace, "a=ok") || !strings.Contains(trace, "b=ok") {
		m.fail("send-failed/delayed-acknowledgement", fmt.Sprintf("both Sends are acknowledged within the response timeout, yet: %s", trace))
		return 1
	}
	if len(tx) != 3 {
		m.fail("resend-count/after-waiting-for-another-send", fmt.Sprintf("the second telegram is lost twice and acknowledged at its third transmission; the client transmitted it %d times (%s)", len(tx), trace))
		return 1
	}
	if gap := tx[1] - tx[0]; gap < resend*1000-2000 {
		m.fail("resend-interval-not-kept/after-waiting-for-another-send", fmt.Sprintf("the first repetition of the second telegram came %d us after its first transmission, the resend interval is %d ms (the time the Send waited for the other Send was taken off it)", gap, resend))
	}
	return 1
}

// swrt: the property itself on a real-time run with concurrent senders: every telegram whose Send
// returned nil is on the bus exactly once; one request in flight (a new sequence number only after
// the previous one was acknowledgeable, i.e. consecutive numbers, each with one telegram)
func (m *mon) swrt(script, trace string) int {
	get := func(key string) string {
		i := strings.Index(trace, key+"=")
		if i < 0 {
			return ""
		}
		rest := trace[i+len(key)+1:]
		if j := strings.IndexByte(rest, ' '); j >= 0 {
			rest = rest[:j]
		}
		return rest
	}
	list := func(v string) []string {
		v = strings.Trim(v, "[]")
		if v == "" {
			return nil
		}
		return strings.Split(v, ",")
	}
	if strings.HasPrefix(trace, "connect-failed") || strings.HasPrefix(trace, "bad-script") {
		m.fail("bad-trace", trace)
		return 0
	}
	bus, ok := list(get("bus")), list(get("ok"))
	onBus := map[string]int{}
	for _, p := range bus {
		onBus[p]++
	}
	for _, p := range ok {
		if onBus[p] == 0 {
			m.fail("success-not-on-bus/concurrent-senders", fmt.Sprintf("Send of telegram %s returned nil but the gateway never put it on the bus (bus %v)", p, clipList(bus)))
			break
		}
	}
	for p, n := range onBus {
		if n > 1 {
			m.fail("telegram-on-bus-twice", fmt.Sprintf("telegram %s is on the bus %d times", p, n))
			break
		}
	}
	// one request in flight: a sequence number is never used for two different telegrams
	bySeq := map[string]string{}
	prevSeq := ""
	for _, sp := range strings.Split(get("seen"), ",") {
		kv := strings.SplitN(sp, ":", 2)
		if len(kv) != 2 {
			continue
		}
		if kv[0] != prevSeq {
			// a new number: reuse for another telegram only after a full wrap (256 numbers later)
			delete(bySeq, fmt.Sprint((atoi(kv[0])+128)%256))
		}
		if p, seen := bySeq[kv[0]]; seen && p != kv[1] {
			m.fail("two-requests-share-a-number", fmt.Sprintf("sequence number %s carried telegram %s and telegram %s: two exchanges were open at once", kv[0], p, kv[1]))
			break
		}
		bySeq[kv[0]] = kv[1]
		prevSeq = kv[0]
	}
	if strings.HasSuffix(trace, " stuck") {
		m.fail("send-never-returned", "Sends had not returned after 15 s")
	}
	return len(bus) + len(ok)
}

func clipList(l []string) []string {
	if len(l) > 30 {
		return append(append([]string{}, l[:30]...), "…")
	}
	return l
}

// monitorRRT: the property itself on a real-time trace of a contended router
func (m *mon) rrt(script, trace string) int {
	head := strings.Fields(strings.SplitN(script, ":", 2)[0])
	pause, _ := strconv.Atoi(head[1])
	type busy struct{ t, wait, ctrl, inside int64 }
	var tx []int64
	var bs []busy
	nobs := 0
	for _, e := range strings.Split(trace, ";") {
		f := strings.Fields(e)
		if len(f) == 0 {
			continue
		}
		nobs++
		num := func(i int) int64 {
			if i >= len(f) {
				return 0
			}
			v, _ := strconv.ParseInt(f[i], 10, 64)
			return v
		}
		switch f[0] {
		case "tx":
			tx = append(tx, num(1))
		case "busy":
			bs = append(bs, busy{num(1), num(2), num(3), num(4)})
		case "stuck":
			m.fail("send-never-returned", fmt.Sprintf("%s Sends had not returned 12 s after the start", f[1]))
		case "busy-not-taken":
			m.fail("busy-not-taken", "the serve loop did not take a busy indication within 8 s")
		case "done", "lost":
		case "decoder-dropped":
			m.fail("gateway-frame-dropped-by-decoder", "a routing-busy / routing-lost datagram did not survive the client's decoder")
		default:
			m.fail("bad-trace", e)
		}
	}
	const tol = 300 // microseconds
	for i := 1; i < len(tx); i++ {
		if gap := tx[i] - tx[i-1]; gap < int64(pause)*1000-tol {
			m.fail("pacing-gap", fmt.Sprintf("transmissions %d and %d are %d us apart, post-send pause %d ms", i-1, i, gap, pause))
			break
		}
	}
	for _, b := range bs {
		w := b.wait
		if w > 50 {
			w = 50
		}
		need := w*1000 - tol
		if need <= int64(pause)*1000 {
			continue // the pause alone is at least as long: nothing to tell apart
		}
		var after []int64
		for _, t := range tx {
			if t > b.t {
				after = append(after, t)
			}
		}
		// The serve loop, having taken the indication in, still has to win the send mutex: the
		// goroutines already waiting for it go first (one straggler each), and while the scheduler
		// keeps the serve loop from running, senders re-entering Send queue up ahead of it too: 30 ms
		// of scheduling slack are granted, counted in transmissions (one per pause, at least one per
		// 100 us).  If more transmissions than that follow without a silence of the announced
		// length, the indication was not honoured.  Fewer (the senders ran out) decides nothing.
		per := int64(pause) * 1000
		if per < 100 {
			per = 100
		}
		allowed := int(b.inside) + 1 + int(30000/per)
		prev, silent := b.t, false
		for j := 0; j <= allowed; j++ {
			if j >= len(after) {
				silent = true // nothing more was sent at all
				break
			}
			if after[j]-prev >= need {
				silent = true
				break
			}
			prev = after[j]
		}
		if !silent {
			m.fail("busy-not-honoured", fmt.Sprintf("busy taken in at %d us (wait %d ms, control %d, %d goroutines inside Send): "+
				"more than %d transmissions followed without a silence of %d ms", b.t, b.wait, b.ctrl, b.inside, allowed, w))
		}
	}
	return nobs
}

func (m *mon) ort(script, trace string) int {
	f := strings.Fields(script)
	var rounds, bad int
	var first string
	if _, err := fmt.Sscanf(trace, "rounds=%d bad=%d first=%s", &rounds, &bad, &first); err != nil {
		m.fail("bad-trace", trace)
		return 0
	}
	if bad > 0 && len(f) >= 4 {
		kind := "order-" + f[1] + "-" + f[2]
		m.fail(kind, fmt.Sprintf("%d of %d rounds: %s telegrams accepted in order 0..%s reached the application as %s", bad, rounds, f[3], f[3], first))
	}
	return rounds
}
