package main

import (
	"fmt"
	"strings"
)

// ---- C13 / C14: router scripts (uncontended: a lock-needing event only when the lock is free) ----

func (g *gen) routerScript(n int, lostHeavy bool) string {
	pause := g.pick(0, 0, 5, 20) // seconds (x1000 ms)
	retain := g.pick(0, 1, 2, 5, 31, 32, 33, 64)
	b := &sb{head: fmt.Sprintf("rtr %d %d", pause*1000, retain)}
	pid := 0
	free := 0 // second from which the lock is certainly free
	needLock := func() {
		if b.q < free {
			b.q = free
		}
	}
	for i := 0; i < n && !b.full(); i++ {
		sc := g.r.Intn(10)
		if lostHeavy && g.r.Intn(2) == 0 {
			sc = 6
		}
		g.stats[fmt.Sprintf("rtr.scenario%d", sc)]++
		switch sc {
		case 0, 1, 2, 3: // a send
			pid++
			needLock()
			b.at(g.pick(0, 1), fmt.Sprintf("send %d", pid))
			free = b.q + pause + 1
		case 4: // inbound traffic
			for k := 1 + g.r.Intn(4); k > 0; k-- {
				b.at(0, fmt.Sprintf("rx rind %d", 5000+i*10+k))
			}
		case 5: // the application reads
			for k := g.r.Intn(4); k > 0; k-- {
				b.at(0, "read")
			}
		case 6: // lost indication (more than one message is resent only without a pause: the
			// resending goroutine would wait for the mutex during the pause)
			k := g.pick(0, 1, 1, 2, 3, 31, 32, 33, 64, 65535)
			if pause > 0 {
				k = g.pick(0, 1)
			}
			needLock()
			b.at(1, fmt.Sprintf("rx rlost %d", k))
			free = b.q + pause + 1
		case 7: // busy indication: control != 0 waits exactly min(50, announced); control 0 adds a
			// random 0..50 ms, determinate only when the cap is reached
			needLock()
			if g.r.Intn(2) == 0 {
				b.at(1, fmt.Sprintf("rx rbusy %d %d", g.pick(0, 1, 20, 49, 50, 51, 500), 1+g.r.Intn(65535)))
			} else {
				b.at(1, fmt.Sprintf("rx rbusy %d 0", g.pick(50, 100, 500)))
			}
			if free < b.q+1 {
				free = b.q + 1
			}
		case 8: // a send that fails
			pid++
			needLock()
			b.at(1, "sockfail 1")
			b.at(0, fmt.Sprintf("send %d", pid))
			b.at(0, "sockfail 0")
		case 9:
			b.at(0, "rx other")
		}
	}
	if g.r.Intn(3) == 0 {
		needLock()
		b.at(1, "close")
		b.at(0, "read")
		b.at(1, fmt.Sprintf("send %d", pid+1))
		b.at(0, "read")
	}
	b.at(pause+1, "end")
	return b.String()
}

// routerBacklogScript: n routing indications arrive while the application does not read, then it
// reads them all (and once more)
func routerBacklogScript(n int) string {
	b := &sb{head: "rtr 0 8"}
	for i := 1; i <= n; i++ {
		b.at(0, fmt.Sprintf("rx rind %d", 5000+i))
	}
	for i := 0; i <= n; i++ {
		b.at(0, "read")
	}
	b.at(1, "end")
	return b.String()
}

// routerFailScript: no pause (a batch of resends leaves in one instant), some sends, then a lost
// indication whose batch contains a telegram the socket refuses (at the front, in the middle or at
// the end of the batch), then further lost indications that show what is retained afterwards
func (g *gen) routerFailScript() string {
	retain := g.pick(4, 8, 8, 16)
	b := &sb{head: fmt.Sprintf("rtr 0 %d", retain)}
	n := 3 + g.r.Intn(retain+3)
	for pid := 1; pid <= n; pid++ {
		b.at(g.pick(0, 1), fmt.Sprintf("send %d", pid))
	}
	held := n
	if held > retain {
		held = retain
	}
	for round := 0; round < 1+g.r.Intn(3) && held > 0; round++ {
		k := 1 + g.r.Intn(held)
		if g.r.Intn(3) == 0 {
			k = held + g.r.Intn(3)
		}
		kk := k
		if kk > held {
			kk = held
		}
		// the batch is pids n-kk+1 .. n (while nothing failed before); fail one or two of them
		fails := map[int]bool{}
		for f := g.pick(0, 1, 1, 2); f > 0; f-- {
			fails[n-g.r.Intn(kk)] = true
		}
		for pid := range fails {
			b.at(0, fmt.Sprintf("failpid %d 1", pid))
		}
		b.at(1, fmt.Sprintf("rx rlost %d", k))
		for pid := range fails {
			b.at(1, fmt.Sprintf("failpid %d 0", pid))
		}
		g.stats[fmt.Sprintf("rtrfail.batch-failures-%d", len(fails))]++
		held -= len(fails)
		b.at(1, fmt.Sprintf("rx rlost %d", g.pick(1, 2, 65535)))
	}
	b.at(1, "end")
	return b.String()
}

func genOther(g *gen, prop string, budget int, emit func(string)) bool {
	switch prop {
	case "C14f":
		for i := 0; i < budget; i++ {
			emit(g.routerFailScript())
		}
	case "C13":
		for i := 0; i < budget; i++ {
			emit(g.routerScript(5+g.r.Intn(40), false))
		}
	case "C14":
		emit(g.routerScript(300, true))
		emit(routerBacklogScript(100))
		emit(routerBacklogScript(40))
		for i := 1; i < budget; i++ {
			emit(g.routerScript(5+g.r.Intn(60), true))
		}
	case "C05":
		// the directed history of the recorded finding first (request delivered, every
		// acknowledgement lost until the response timeout, then the number is reused)
		emit("sw 50 230 3 3 0 0 0 5 c2g=dddddd g2c=llllld")
		emit("sw 50 230 4 2 2 0 0 5 c2g=ddddd g2c=dddd") // loss-free
		for i := 2; i < budget; i++ {
			nOut, nIn := 1+g.r.Intn(12), g.r.Intn(12)
			if i%40 == 5 {
				nOut, nIn = 280, 270 // across the wrap at 256
			}
			R := g.pick(50, 30, 70)
			T := g.pick(230, 170, 410)
			loss := g.pick(0, 5, 10, 25, 40)
			if nOut > 100 {
				loss = g.pick(0, 5)
			}
			emit(fmt.Sprintf("sw %d %d %d %d %d %d %d %d", R, T, g.r.Intn(1<<30), nOut, nIn, loss, g.pick(0, 10, 30), g.pick(3, 20, 2*R+5)))
		}
	default:
		return false
	}
	return true
}

// monitorRouter: pacing, exact resending, bounded history, deliveries.
func monitorRouter(m *mon, prop string, hdr []int, evs []ev, bad string) {
	pause, retain := hdr[0], hdr[1]
	if retain == 0 {
		retain = 32
	}
	var retained []string
	lastTx := -1 << 60
	busyUntil := -1
	var expectResend []string
	var accepted, gots []string
	closed := false
	failing := false
	failPids := map[string]bool{}
	for i, e := range evs {
		switch {
		case e.in && e.kind == "sockfail":
			failing = e.f[0] == "1"
		case e.in && e.kind == "failpid":
			failPids[e.f[0]] = len(e.f) < 2 || e.f[1] == "1"
		case e.in && e.kind == "close":
			closed = true
		case e.in && e.kind == "rx" && e.f[0] == "rind" && !closed:
			accepted = append(accepted, e.f[1])
		case e.in && e.kind == "rx" && e.f[0] == "rbusy" && !closed:
			w := atoi(e.f[1])
			if w > 50 {
				w = 50
			}
			busyUntil = e.t + w
		case e.in && e.kind == "rx" && e.f[0] == "rlost" && !closed:
			k := atoi(e.f[1])
			if k > len(retained) {
				k = len(retained)
			}
			expectResend = nil
			for _, p := range retained[len(retained)-k:] {
				if !failPids[p] {
					expectResend = append(expectResend, p) // a refused write leaves no transmission (and is not retained)
				}
			}
			retained = retained[:len(retained)-k]
			// the frames transmitted from now on (until the next event that sends) must be exactly these
			var got []string
			for _, o := range evs[i+1:] {
				if o.in && (o.kind == "send" || (o.kind == "rx" && o.f[0] == "rlost")) {
					break
				}
				if !o.in && o.kind == "tx" {
					got = append(got, o.f[1])
				}
			}
			if !failing && strings.Join(got, ",") != strings.Join(expectResend, ",") {
				m.fail("resend-differs", fmt.Sprintf("lost %s at %d with %v retained before: expected retransmission of %v, the client sent %v", e.f[1], e.t, append(append([]string(nil), retained...), expectResend...), expectResend, got))
			}
		case !e.in && e.kind == "tx":
			if e.t-lastTx < pause {
				m.fail("pacing", fmt.Sprintf("transmissions at %d and %d, post-send pause %d", lastTx, e.t, pause))
			}
			if e.t < busyUntil {
				m.fail("sent-while-busy", fmt.Sprintf("transmission at %d, the router asked for silence until %d", e.t, busyUntil))
			}
			lastTx = e.t
			retained = append(retained, e.f[1])
			if len(retained) > retain {
				retained = retained[len(retained)-retain:]
			}
		case !e.in && e.kind == "got":
			if e.f[0] != "none" && e.f[0] != "closed" {
				gots = append(gots, e.f[0])
			}
			if closed && e.f[0] == "none" {
				m.fail("inbound-not-closed", fmt.Sprintf("Inbound still open at %d after Close", e.t))
			}
		}
	}
	n := len(gots)
	if n > len(accepted) || strings.Join(gots, ",") != strings.Join(accepted[:n], ",") {
		m.fail("delivery-differs", fmt.Sprintf("received in order %v, Inbound delivered %v", accepted, gots))
	}
	// every Send returned
	for _, e := range evs {
		if e.in && e.kind == "send" {
			found := false
			for _, o := range evs {
				if !o.in && o.kind == "ret" && o.f[0] == e.f[0] {
					found = true
				}
			}
			if !found {
				m.fail("send-did-not-return", fmt.Sprintf("Send of %s at %d never returned", e.f[0], e.t))
			}
		}
	}
}

func (m *mon) c05(hdr []int, evs []ev) {}
