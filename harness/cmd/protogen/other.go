package main

func genOther(g *gen, prop string, budget int, emit func(string)) bool { return false }

func monitorRouter(m *mon, prop string, hdr []int, evs []ev, bad string) {}

func (m *mon) c05(hdr []int, evs []ev) {}
