// Command protogen generates scripts for the protocol harness (harness/proto, run under
// testing/synctest) and, in -check mode, runs the property monitors over the traces the real
// client produced.
package main

import (
	"bufio"
	"encoding/json"
	"flag"
	"fmt"
	"math/rand"
	"os"
	"path/filepath"
	"strings"
)

type finding struct {
	Property string `json:"property"`
	Kind     string `json:"kind"`
	Op       string `json:"op"`
	Detail   string `json:"detail"`
}

// sb builds one script. Every event gets its own residue modulo 1000 ms, and every interval of the
// configuration is a multiple of 1000 ms, so no two timers started by different events (and no
// timer and event) ever fall on the same virtual instant.
type sb struct {
	head string
	evs  []string
	q    int // seconds
	k    int
	// busyUntil: a Send whose completion the generator cannot predict may still be pending until
	// then; the next Send waits (two concurrent Sends contend for a mutex, which cannot be driven
	// under virtual time)
	busyUntil int
	T         int
}

func (b *sb) at(dq int, ev string) {
	b.q += dq
	if strings.HasPrefix(ev, "send ") {
		if b.q < b.busyUntil {
			b.q = b.busyUntil
		}
		b.busyUntil = b.q + b.T + 1
	}
	b.k++
	b.evs = append(b.evs, fmt.Sprintf("@%d %s", b.q*1000+b.k, ev))
}

func (b *sb) full() bool { return b.k >= 990 }

func (b *sb) String() string { return b.head + " : " + strings.Join(b.evs, " ; ") }

type cfg struct{ R, T, H int } // seconds

var cfgs = []cfg{{5, 23, 6000}, {3, 10, 6000}, {7, 8, 6000}, {2, 7, 6000}}

type gen struct {
	r     *rand.Rand
	stats map[string]int
}

func (g *gen) pick(v ...int) int { return v[g.r.Intn(len(v))] }

func header(c cfg, tcp bool, ch int) string {
	t := 0
	if tcp {
		t = 1
	}
	return fmt.Sprintf("tun %d %d %d %d %d", c.R*1000, c.T*1000, c.H*1000, t, ch)
}

// ---- C03: the sender ----

func (g *gen) c03Script(n int, wrapRun bool) string {
	c := cfgs[g.r.Intn(len(cfgs))]
	tcp := !wrapRun && g.r.Intn(8) == 0
	ch := 1 + g.r.Intn(254)
	b := &sb{head: header(c, tcp, ch), T: c.T}
	seq := 0
	other := func() int { return (ch + 1 + g.r.Intn(200)) % 256 }
	for i := 0; i < n && !b.full(); i++ {
		pid := i + 1
		sc := g.r.Intn(13)
		if wrapRun {
			sc = 0
			if g.r.Intn(20) == 0 {
				sc = g.pick(1, 2, 4)
			}
		}
		g.stats[fmt.Sprintf("c03.scenario%d", sc)]++
		if tcp {
			b.at(g.pick(0, 1, 2), fmt.Sprintf("send %d", pid))
			if g.r.Intn(3) == 0 {
				b.at(0, fmt.Sprintf("rx tres %d 0 0", ch))
			}
			continue
		}
		switch sc {
		case 0: // prompt acknowledgement
			b.at(g.pick(0, 1), fmt.Sprintf("send %d", pid))
			b.at(g.r.Intn(c.R), fmt.Sprintf("rx tres %d %d 0", ch, seq))
			seq = (seq + 1) % 256
			b.busyUntil = b.q
		case 1: // acknowledged after some resends
			b.at(1, fmt.Sprintf("send %d", pid))
			b.at(c.R+g.r.Intn(c.T-c.R), fmt.Sprintf("rx tres %d %d 0", ch, seq))
			seq = (seq + 1) % 256
			b.busyUntil = b.q
		case 2: // wrong sequence numbers first
			b.at(1, fmt.Sprintf("send %d", pid))
			for _, d := range []int{1, 255, 128, 2} {
				if g.r.Intn(2) == 0 {
					b.at(0, fmt.Sprintf("rx tres %d %d 0", ch, (seq+d)%256))
				}
			}
			b.at(g.r.Intn(c.R), fmt.Sprintf("rx tres %d %d 0", ch, seq))
			seq = (seq + 1) % 256
			b.busyUntil = b.q
		case 3: // foreign channel first
			b.at(1, fmt.Sprintf("send %d", pid))
			b.at(0, fmt.Sprintf("rx tres %d %d 0", other(), seq))
			b.at(g.r.Intn(c.R), fmt.Sprintf("rx tres %d %d 0", ch, seq))
			seq = (seq + 1) % 256
			b.busyUntil = b.q
		case 4: // error status
			b.at(1, fmt.Sprintf("send %d", pid))
			b.at(g.r.Intn(c.R), fmt.Sprintf("rx tres %d %d %d", ch, seq, 1+g.r.Intn(255)))
			seq = (seq + 1) % 256
			b.busyUntil = b.q
		case 5: // never acknowledged
			b.at(1, fmt.Sprintf("send %d", pid))
			b.at(c.T+1, "read")
		case 6: // acknowledged too late (parked), the next Send follows within / after the park time
			b.at(1, fmt.Sprintf("send %d", pid))
			b.at(c.T+1, fmt.Sprintf("rx tres %d %d 0", ch, seq))
			if g.r.Intn(2) == 0 {
				b.at(c.R+1, "read")
			} else {
				seq = (seq + 1) % 256 // the next Send reuses the number and consumes the parked ack
			}
		case 7: // duplicated acknowledgement
			b.at(1, fmt.Sprintf("send %d", pid))
			b.at(0, fmt.Sprintf("rx tres %d %d 0", ch, seq))
			b.at(0, fmt.Sprintf("rx tres %d %d 0", ch, seq))
			seq = (seq + 1) % 256
			b.busyUntil = b.q
		case 8: // acknowledgement arrives before the Send
			b.at(1, fmt.Sprintf("rx tres %d %d %d", ch, seq, g.pick(0, 0, 0, 7)))
			b.at(g.r.Intn(c.R+2), fmt.Sprintf("send %d", pid))
			b.at(c.T+1, "read") // whatever happened, the exchange is over
			// the generator does not know whether the parked ack was still there; resynchronise
			b.at(0, fmt.Sprintf("rx tres %d %d 0", ch, seq))
			b.at(c.R+1, "read")
			seq = -1
		case 9: // inbound traffic in between
			b.at(1, fmt.Sprintf("send %d", pid))
			b.at(0, fmt.Sprintf("rx treq %d %d %d", ch, g.r.Intn(3), 5000+pid))
			b.at(0, "rx other")
			b.at(g.r.Intn(c.R), fmt.Sprintf("rx tres %d %d 0", ch, seq))
			seq = (seq + 1) % 256
			b.busyUntil = b.q
		case 10: // socket fails on a resend
			b.at(1, fmt.Sprintf("send %d", pid))
			b.at(1, "sockfail 1")
			b.at(c.R, "sockfail 0")
		case 12: // a late duplicate ack of the old connection is still parked when the gateway
			// disconnects, a new connection is made and the next Send follows at once
			b.at(1, fmt.Sprintf("rx tres %d 0 %d", ch, g.pick(0, 0, 9)))
			b.at(0, fmt.Sprintf("rx dreq %d", ch))
			ch = 1 + g.r.Intn(254)
			b.at(0, fmt.Sprintf("rx cres %d 0", ch))
			seq = 0
			b.at(0, fmt.Sprintf("send %d", pid))
			b.at(c.R+1, fmt.Sprintf("rx tres %d 0 0", ch))
			seq = 1
			b.busyUntil = b.q
		default: // acknowledged just before the timeout
			b.at(1, fmt.Sprintf("send %d", pid))
			b.at(c.T-1, fmt.Sprintf("rx tres %d %d 0", ch, seq))
			seq = (seq + 1) % 256
			b.busyUntil = b.q
		}
		if seq < 0 {
			break // lost track of the counter: end this script
		}
	}
	b.at(1, "end")
	return b.String()
}

// ---- C04 / C17: the receiver ----

func (g *gen) c04Script(n int, burst bool) string {
	c := cfgs[g.r.Intn(len(cfgs))]
	tcp := g.r.Intn(8) == 0
	ch := 1 + g.r.Intn(254)
	b := &sb{head: header(c, tcp, ch), T: c.T}
	exp := 0
	if g.r.Intn(4) == 0 {
		exp = 0 // stay at the start; wrap is reached by long scripts
	}
	pid := 0
	pendingReads := 0
	for i := 0; i < n && !b.full(); i++ {
		sc := g.r.Intn(11)
		if burst {
			sc = 0
		}
		g.stats[fmt.Sprintf("c04.scenario%d", sc)]++
		switch sc {
		case 10: // the acknowledgement of a fresh telegram cannot be sent (transient socket error);
			// the gateway, unanswered, repeats the request: the telegram was accepted the first time
			if tcp {
				continue
			}
			pid++
			b.at(1, "sockfail 1")
			b.at(0, fmt.Sprintf("rx treq %d %d %d", ch, exp, pid))
			exp = (exp + 1) % 256
			pendingReads++
			b.at(0, "sockfail 0")
			for k := 1 + g.r.Intn(2); k > 0; k-- {
				b.at(1, fmt.Sprintf("rx treq %d %d %d", ch, (exp+255)%256, pid))
			}
		case 0, 1, 2, 3: // in sequence
			pid++
			b.at(g.pick(0, 0, 1), fmt.Sprintf("rx treq %d %d %d", ch, exp, pid))
			exp = (exp + 1) % 256
			pendingReads++
		case 4: // repetition of the previous one, once or many times
			for k := 1 + g.r.Intn(5); k > 0; k-- {
				b.at(0, fmt.Sprintf("rx treq %d %d %d", ch, (exp+255)%256, 7000+i))
			}
		case 5: // skipped ahead
			b.at(0, fmt.Sprintf("rx treq %d %d %d", ch, (exp+1+g.r.Intn(3))%256, 8000+i))
		case 6: // far behind
			b.at(0, fmt.Sprintf("rx treq %d %d %d", ch, (exp+256-2-g.r.Intn(199))%256, 9000+i))
		case 7: // foreign channel
			b.at(0, fmt.Sprintf("rx treq %d %d %d", (ch+1+g.r.Intn(200))%256, exp, 10000+i))
		case 8: // the application reads
			for k := g.r.Intn(pendingReads + 2); k > 0; k-- {
				b.at(g.pick(0, 0, 2), "read")
				if pendingReads > 0 {
					pendingReads--
				}
			}
		case 9: // the gateway disconnects; the client reconnects on a new channel
			if g.r.Intn(3) != 0 {
				continue
			}
			b.at(1, fmt.Sprintf("rx dreq %d", ch))
			ch = 1 + g.r.Intn(254)
			b.at(g.pick(0, 1), fmt.Sprintf("rx cres %d 0", ch))
			exp = 0
		}
	}
	for k := pendingReads + 1; k > 0 && !b.full(); k-- {
		b.at(0, "read")
	}
	b.at(1, "end")
	return b.String()
}

// ---- C09: heartbeat and reconnect ----

func (g *gen) c09Script(n int) string {
	// resend and heartbeat intervals even, response timeout odd: a deadline (start + T) never falls
	// on a tick of the same or of another worker (start' + k*R, start' = start + j*H)
	c := cfg{R: g.pick(2, 4), T: g.pick(7, 23), H: g.pick(10, 30, 40)}
	ch := 1 + g.r.Intn(254)
	b := &sb{head: header(c, false, ch), T: c.T}
	seq := 0
	conn := 0 // time (s) the current process() started; heartbeat ticks at conn + k*H
	pid := 0
	for ep := 0; ep < n && !b.full(); ep++ {
		// wait for the next heartbeat tick
		next := conn + c.H
		for next <= b.q {
			next += c.H
		}
		// some traffic before it
		if g.r.Intn(2) == 0 && next-b.q > 2 {
			pid++
			b.at(1, fmt.Sprintf("send %d", pid))
			b.at(0, fmt.Sprintf("rx tres %d %d 0", ch, seq))
			seq = (seq + 1) % 256
			b.busyUntil = b.q
			for next <= b.q {
				next += c.H
			}
		}
		sc := g.r.Intn(12)
		g.stats[fmt.Sprintf("c09.scenario%d", sc)]++
		if sc == 9 {
			// a late duplicate acknowledgement of the old connection is still parked when the
			// gateway disconnects, a new connection is made and the first Send follows at once
			b.at(1, fmt.Sprintf("rx tres %d 0 %d", ch, g.pick(0, 0, 9)))
			b.at(0, fmt.Sprintf("rx dreq %d", ch))
			old := ch
			ch = 1 + g.r.Intn(254)
			b.at(0, fmt.Sprintf("rx cres %d 0", ch))
			conn = b.q
			seq = 0
			pid++
			b.at(0, fmt.Sprintf("send %d", pid))
			b.at(c.R+1, fmt.Sprintf("rx tres %d 0 0", ch))
			seq = 1
			b.busyUntil = b.q
			_ = old
			continue
		}
		b.q = next
		reconnect := false
		switch sc {
		case 0, 1: // answered OK, promptly or after a resend
			b.at(g.pick(0, c.R+1), fmt.Sprintf("rx csres %d 0", ch))
		case 2: // error status
			b.at(0, fmt.Sprintf("rx csres %d %d", ch, 1+g.r.Intn(255)))
			reconnect = true
		case 3: // foreign channel answers only
			b.at(0, fmt.Sprintf("rx csres %d 0", (ch+1+g.r.Intn(200))%256))
			b.at(c.T, "read")
			reconnect = true
		case 4: // silence
			b.at(c.T, "read")
			reconnect = true
		case 5: // disconnect request for the current channel
			b.at(0, fmt.Sprintf("rx csres %d 0", ch))
			b.at(1, fmt.Sprintf("rx dreq %d", ch))
			reconnect = true
		case 6: // disconnect request / response for a foreign channel: nothing happens
			b.at(0, fmt.Sprintf("rx csres %d 0", ch))
			b.at(1, fmt.Sprintf("rx dreq %d", (ch+1+g.r.Intn(200))%256))
			b.at(0, fmt.Sprintf("rx dres %d", (ch+1+g.r.Intn(200))%256))
		case 7: // disconnect response for the current channel: termination
			b.at(0, fmt.Sprintf("rx csres %d 0", ch))
			b.at(1, fmt.Sprintf("rx dres %d", ch))
			pid++
			b.at(1, fmt.Sprintf("send %d", pid))
			b.at(1, "read")
			b.at(1, "end")
			return b.String()
		case 11: // the gateway disconnects while a heartbeat is still unanswered: the heartbeat of the old
			// connection must end with it (no connection-state request for the old channel afterwards)
			b.at(1, fmt.Sprintf("rx dreq %d", ch))
			reconnect = true
		case 10: // answered twice (the gateway also answers the resend, or repeats itself); the surplus
			// answer finds no heartbeat waiting and must not count for the NEXT heartbeat, which the
			// gateway leaves unanswered
			b.at(0, fmt.Sprintf("rx csres %d 0", ch))
			b.at(g.pick(1, 1, c.R+1), fmt.Sprintf("rx csres %d 0", ch))
			if b.q < next+c.H-1 {
				b.q = next + c.H
				b.at(c.T, "read")
				reconnect = true
			}
		case 8: // answered while a telegram is in flight from the gateway
			b.at(0, fmt.Sprintf("rx treq %d 0 %d", ch, 6000+ep))
			b.at(0, fmt.Sprintf("rx csres %d 0", ch))
			b.at(0, "read")
		}
		if reconnect {
			// the client has sent a connect request; answer it
			switch g.r.Intn(6) {
			case 0: // refused
				b.at(1, fmt.Sprintf("rx cres 0 %d", g.pick(0x22, 0x23, 0x26, 0x27, 0x29, 1)))
				pid++
				b.at(1, fmt.Sprintf("send %d", pid))
				b.at(1, "read")
				b.at(1, "end")
				return b.String()
			case 1: // unanswered
				b.at(c.T+1, "read")
				pid++
				b.at(1, fmt.Sprintf("send %d", pid))
				b.at(1, "end")
				return b.String()
			case 2: // busy first, other frames in between
				b.at(1, fmt.Sprintf("rx cres 0 %d", g.pick(0x24, 0x25)))
				b.at(0, fmt.Sprintf("rx tres %d 0 0", ch))
				b.at(0, fmt.Sprintf("rx treq %d 0 99", ch))
				fallthrough
			default:
				old := ch
				ch = 1 + g.r.Intn(254)
				if g.r.Intn(3) == 0 {
					ch = old // the gateway hands out the same channel id again
					g.stats["c09.reconnect-same-channel"]++
				}
				b.at(g.pick(0, 1, c.R+1), fmt.Sprintf("rx cres %d 0", ch))
				conn = b.q
				// frames for the old channel are inert now; sequence numbers restart
				if old != ch {
					b.at(0, fmt.Sprintf("rx treq %d 0 %d", old, 6500+ep))
					b.at(0, fmt.Sprintf("rx dreq %d", old))
				}
				b.at(0, fmt.Sprintf("rx treq %d 0 %d", ch, 6600+ep))
				seq = 0
				pid++
				b.at(1, fmt.Sprintf("send %d", pid))
				b.at(0, fmt.Sprintf("rx tres %d %d 0", ch, seq))
				seq = (seq + 1) % 256
				b.busyUntil = b.q
				b.at(0, "read")
			}
		}
	}
	b.at(1, "end")
	return b.String()
}

// ---- C10: Close everywhere ----

func (g *gen) c10Script() string {
	var base string
	switch g.r.Intn(3) {
	case 0:
		base = g.c03Script(4+g.r.Intn(8), false)
	case 1:
		base = g.c04Script(6+g.r.Intn(20), false)
	default:
		base = g.c09Script(1 + g.r.Intn(3))
	}
	parts := strings.SplitN(base, " : ", 2)
	evs := strings.Split(parts[1], " ; ")
	evs = evs[:len(evs)-1] // drop end
	// inject Close (and socket trouble) at a random position: reuse the time of the event it
	// precedes, plus a fresh residue
	pos := g.r.Intn(len(evs) + 1)
	var out []string
	k := 500
	tOf := func(e string) int {
		var t int
		fmt.Sscanf(e, "@%d", &t)
		return t
	}
	inject := func(t int) {
		t = t/1000*1000 + k
		k++
		switch g.r.Intn(8) {
		case 0:
			out = append(out, fmt.Sprintf("@%d sockclose", t))
			t = t/1000*1000 + k
			k++
		case 1:
			out = append(out, fmt.Sprintf("@%d sockfail 1", t))
			t = t/1000*1000 + k
			k++
		}
		for n := 1 + g.r.Intn(3); n > 0; n-- {
			out = append(out, fmt.Sprintf("@%d close", t))
			t = t/1000*1000 + k + g.pick(0, 0, 1000, 30000)
			k++
		}
	}
	last := 0
	for i, e := range evs {
		if i == pos {
			inject(tOf(e))
		}
		t := tOf(e)
		if i >= pos {
			// keep later events after the injected ones: same second or later, residues below 500
			// sort before those above within one second, so move them one second on
			e = fmt.Sprintf("@%d%s", t+1000, e[strings.Index(e, " "):])
			t += 1000
		}
		out = append(out, e)
		last = t
	}
	if pos == len(evs) {
		inject(last + 1000)
	}
	// a Send and a read after everything
	for _, e := range out {
		if t := tOf(e); t > last {
			last = t
		}
	}
	end := last + 40000
	out = append(out, fmt.Sprintf("@%d send 4242", end/1000*1000+900), fmt.Sprintf("@%d read", end/1000*1000+901),
		fmt.Sprintf("@%d close", end/1000*1000+902), fmt.Sprintf("@%d end", end/1000*1000+1903))
	// times must be non-decreasing
	return parts[0] + " : " + strings.Join(sortEvents(out), " ; ")
}

func sortEvents(evs []string) []string {
	type ev struct {
		t int
		s string
	}
	var es []ev
	for _, e := range evs {
		var t int
		fmt.Sscanf(e, "@%d", &t)
		es = append(es, ev{t, e})
	}
	for i := 1; i < len(es); i++ {
		for j := i; j > 0 && es[j].t < es[j-1].t; j-- {
			es[j], es[j-1] = es[j-1], es[j]
		}
	}
	out := make([]string, len(es))
	for i, e := range es {
		out[i] = e.s
	}
	return out
}

func main() {
	prop := flag.String("prop", "", "C03 | C04 | C05 | C09 | C10 | C17 | C13 | C14")
	seed := flag.Int64("seed", 1, "PRNG seed")
	budget := flag.Int("budget", 300, "number of scripts")
	dir := flag.String("dir", "", "output directory")
	check := flag.Bool("check", false, "run the monitors over ops.txt / impl.txt in -dir")
	flag.Parse()
	if *dir == "" {
		fmt.Fprintln(os.Stderr, "need -dir")
		os.Exit(2)
	}
	os.MkdirAll(*dir, 0o755)
	if *check {
		runMonitors(*prop, *dir)
		return
	}
	g := &gen{r: rand.New(rand.NewSource(*seed)), stats: map[string]int{}}
	of, _ := os.Create(filepath.Join(*dir, "ops.txt"))
	w := bufio.NewWriter(of)
	n := 0
	emit := func(s string) {
		fmt.Fprintln(w, s)
		n++
	}
	switch *prop {
	case "C03":
		emit(g.c03Script(600, true)) // 600 Sends: the 255 -> 0 wrap twice
		for n < *budget {
			emit(g.c03Script(3+g.r.Intn(25), false))
		}
	case "C04":
		emit(g.c04Script(900, true))
		// bursts the application reads completely only afterwards: the whole backlog goes through the queue
		emit(g.c04Script(120, true))
		emit(g.c04Script(40, true))
		for n < *budget {
			emit(g.c04Script(5+g.r.Intn(60), false))
		}
	case "C17":
		for n < *budget {
			emit(g.c04Script(2+g.r.Intn(63), true))
			emit(g.c04Script(2+g.r.Intn(63), false))
		}
	case "C09":
		for n < *budget {
			emit(g.c09Script(1 + g.r.Intn(5)))
		}
	case "C10":
		for n < *budget {
			emit(g.c10Script())
		}
	default:
		if !genOther(g, *prop, *budget, emit) && !genRealtime(g, *prop, *budget, emit) {
			fmt.Fprintln(os.Stderr, "unknown -prop")
			os.Exit(2)
		}
	}
	w.Flush()
	of.Close()
	sf, _ := os.Create(filepath.Join(*dir, "genstats.json"))
	json.NewEncoder(sf).Encode(map[string]interface{}{"scripts": n, "generated": g.stats, "seed": *seed})
	sf.Close()
}
