package main

import (
	"fmt"
	"net"
	"runtime"
	"strings"
	"sync"
	"syscall"
	"time"

	"github.com/vapourismo/knx-go/knx/knxnet"
	"verif/harness/gen"
	"verif/harness/ktext"
)

// ---- the routing (multicast) socket: Send and receive observed by a second member of the group ----

func multicastInterface() *net.Interface {
	ifs, _ := net.Interfaces()
	for i := range ifs {
		f := ifs[i].Flags
		if f&net.FlagUp != 0 && f&net.FlagMulticast != 0 && f&net.FlagLoopback == 0 {
			if as, _ := ifs[i].Addrs(); len(as) > 0 {
				return &ifs[i]
			}
		}
	}
	return nil
}

// c16router: a RouterSocket with multicast loopback on and a plain UDP socket joined to the same
// group on the same host.  Every Send must arrive at the peer as exactly one datagram holding
// exactly the frame (whatever was sent before on that socket: longer, shorter, equal); datagrams the
// peer sends to the group surface on Inbound once, in order, malformed ones dropped; Close ends
// Inbound.
func (r *run) c16router(budget int) {
	ifi := multicastInterface()
	if ifi == nil {
		r.classes["router-socket-unavailable: no multicast interface"]++
		return
	}
	group := net.IPv4(224, 0, 23, 12)
	var rs *knxnet.RouterSocket
	var peer *net.UDPConn
	port := 0
	for try := 0; try < 8; try++ {
		port = 21000 + r.g.R.Intn(20000)
		var err error
		rs, err = knxnet.ListenRouterOnInterface(ifi, fmt.Sprintf("224.0.23.12:%d", port), true)
		if err != nil {
			rs = nil
			continue
		}
		peer, err = net.ListenMulticastUDP("udp4", ifi, &net.UDPAddr{IP: group, Port: port})
		if err != nil {
			rs.Close()
			rs, peer = nil, nil
			continue
		}
		break
	}
	if rs == nil {
		r.classes["router-socket-unavailable: cannot listen"]++
		return
	}
	defer peer.Close()
	peer.SetReadBuffer(4 << 20)
	// ListenMulticastUDP switches multicast loopback off: what the peer sends must reach the local
	// members of the group
	if rc, err := peer.SyscallConn(); err == nil {
		rc.Control(func(fd uintptr) {
			syscall.SetsockoptInt(int(fd), syscall.IPPROTO_IP, syscall.IP_MULTICAST_LOOP, 1)
		})
	}
	// frames the socket hears itself (loopback) are drained and recorded
	var hmu sync.Mutex
	var heard []string
	hdone := make(chan struct{})
	go func() {
		defer close(hdone)
		for s := range rs.Inbound() {
			hmu.Lock()
			heard = append(heard, ktext.Join(ktext.Service(s)))
			hmu.Unlock()
		}
	}()
	buf := make([]byte, 70000)
	// is the path usable at all?  (a sandbox without multicast routing: no verdict from this part)
	{
		probe := &knxnet.RoutingInd{Payload: r.g.Cemi(-1)}
		ok := false
		for try := 0; try < 3 && !ok; try++ {
			if rs.Send(probe) != nil {
				break
			}
			peer.SetReadDeadline(time.Now().Add(300 * time.Millisecond))
			if _, _, err := peer.ReadFromUDP(buf); err == nil {
				ok = true
			}
		}
		if !ok {
			r.classes["router-socket-unavailable: datagrams to the group do not come back"]++
			rs.Close()
			return
		}
		// drain repetitions of the probe
		for {
			peer.SetReadDeadline(time.Now().Add(30 * time.Millisecond))
			if _, _, err := peer.ReadFromUDP(buf); err != nil {
				break
			}
		}
	}
	// 1. sequences of Sends of varying size: long after short, short after long, equal
	sent := 0
	lastSize := 0
	for i := 0; i < budget; i++ {
		var v knxnet.ServicePackable
		switch r.g.R.Intn(5) {
		case 0, 1, 2:
			v = &knxnet.RoutingInd{Payload: r.g.Cemi(-1)}
		default:
			v = r.g.Service(-1)
		}
		if v.Size() > 1400 {
			continue
		}
		op := "enc " + ktext.Join(ktext.Service(v))
		inflight(op)
		if err := rs.Send(v); err != nil {
			r.violation("send-failed", op, err.Error())
			continue
		}
		sent++
		peer.SetReadDeadline(time.Now().Add(2 * time.Second))
		n, _, err := peer.ReadFromUDP(buf)
		if err != nil {
			r.emit(op, "lost")
			r.violation("datagram-missing", op, "router socket: "+err.Error())
			continue
		}
		r.emit(op, "ok "+ktext.Hex(buf[:n]))
		want := knxnet.AllocAndPack(v)
		size := len(want)
		switch {
		case size < lastSize:
			r.classes["router-send-shorter-than-previous"]++
		case size > lastSize:
			r.classes["router-send-longer-than-previous"]++
		default:
			r.classes["router-send-same-size"]++
		}
		lastSize = size
		if n != size || int(buf[4])<<8|int(buf[5]) != n {
			r.violation("datagram-length", op, fmt.Sprintf("router socket: datagram of %d bytes, header says %d, the frame has %d", n, int(buf[4])<<8|int(buf[5]), size))
		} else if string(buf[:n]) != string(want) {
			r.violation("datagram-content", op, "router socket: datagram "+ktext.Hex(buf[:n])+" frame "+ktext.Hex(want))
		}
		// a second datagram for one Send?
		peer.SetReadDeadline(time.Now().Add(300 * time.Microsecond))
		if n2, _, err := peer.ReadFromUDP(buf); err == nil {
			r.violation("datagram-twice", op, fmt.Sprintf("router socket: a second datagram of %d bytes followed one Send", n2))
		}
	}
	// 2. concurrent senders on the routing socket
	{
		want := map[string]int{}
		var wmu sync.Mutex
		var wg sync.WaitGroup
		for s := 0; s < 4; s++ {
			wg.Add(1)
			go func(seed int64) {
				defer wg.Done()
				g := gen.New(seed)
				for i := 0; i < 40; i++ {
					v := &knxnet.RoutingInd{Payload: g.Cemi(-1)}
					if v.Size() > 1000 {
						continue
					}
					b := knxnet.AllocAndPack(v)
					wmu.Lock()
					want[string(b)]++
					wmu.Unlock()
					rs.Send(v)
					if i%8 == 7 {
						time.Sleep(200 * time.Microsecond)
					}
				}
			}(r.g.R.Int63())
		}
		done := make(chan struct{})
		go func() { wg.Wait(); time.Sleep(50 * time.Millisecond); close(done) }()
		got, bad := 0, 0
	loop:
		for {
			peer.SetReadDeadline(time.Now().Add(100 * time.Millisecond))
			n, _, err := peer.ReadFromUDP(buf)
			if err != nil {
				select {
				case <-done:
					break loop
				default:
					continue
				}
			}
			got++
			wmu.Lock()
			known := want[string(buf[:n])] > 0
			wmu.Unlock()
			if !known {
				time.Sleep(time.Millisecond)
				wmu.Lock()
				known = want[string(buf[:n])] > 0
				wmu.Unlock()
			}
			if !known {
				bad++
				if bad == 1 {
					r.violation("udp-datagram-is-no-frame-that-was-sent", "4 concurrent senders on one routing socket", ktext.Hex(buf[:n]))
				}
			}
		}
		r.classes["router-concurrent-datagrams"] += got
	}
	// 3. receive: datagrams sent to the group by the peer (valid, truncated, random), each followed
	// by the sentinel; the socket surfaces the well-formed ones once and in order
	time.Sleep(20 * time.Millisecond)
	hmu.Lock()
	heard = nil
	hmu.Unlock()
	dst := &net.UDPAddr{IP: group, Port: port}
	for round := 0; round < 1+budget/40; round++ {
		var ds [][]byte
		for i := 0; i < 1+r.g.R.Intn(6); i++ {
			_, l := r.frames(1, false)
			f := l[0]
			switch r.g.R.Intn(5) {
			case 0:
				f = f[:r.g.R.Intn(len(f))]
			case 1:
				f = r.g.Bytes(r.g.R.Intn(40))
			}
			if len(f) > 1000 {
				f = f[:1000]
			}
			if len(f) > 0 {
				ds = append(ds, f)
			}
		}
		if len(ds) == 0 {
			continue
		}
		var hexes, want []string
		stopped := false
		for _, d := range ds {
			hexes = append(hexes, ktext.Hex(d))
			var svc knxnet.Service
			if _, err := oracleUnpack(append([]byte(nil), d...), &svc); err == nil {
				want = append(want, ktext.Join(ktext.Service(svc)))
			}
		}
		op := "udp " + strings.Join(hexes, "|")
		inflight(op)
		hmu.Lock()
		heard = nil
		hmu.Unlock()
		for _, d := range ds {
			peer.WriteToUDP(d, dst)
			peer.WriteToUDP(sentinel, dst)
			// await the sentinel on the socket's Inbound (and swallow the peer's own copies)
			deadline := time.Now().Add(2 * time.Second)
			for {
				hmu.Lock()
				n := len(heard)
				last := ""
				if n > 0 {
					last = heard[n-1]
				}
				hmu.Unlock()
				if last == sentinelText {
					hmu.Lock()
					heard = heard[:n-1]
					hmu.Unlock()
					break
				}
				if time.Now().After(deadline) {
					stopped = true
					break
				}
				time.Sleep(100 * time.Microsecond)
			}
			if stopped {
				break
			}
		}
		for { // the peer hears its own datagrams too
			peer.SetReadDeadline(time.Now().Add(200 * time.Microsecond))
			if _, _, err := peer.ReadFromUDP(buf); err != nil {
				break
			}
		}
		hmu.Lock()
		out := append([]string(nil), heard...)
		hmu.Unlock()
		tail := "end"
		if stopped {
			tail = "timeout"
		}
		r.emit(op, strings.Join(append(out, tail), " ; "))
		if stopped {
			r.violation("udp-receiver-stopped", op, "routing socket: after a datagram the sentinel frame no longer arrived")
			break
		}
		if strings.Join(want, " ; ") != strings.Join(out, " ; ") {
			r.violation("udp-frames-differ", op, fmt.Sprintf("routing socket: Inbound yielded %d services, %d of the datagrams are well-formed frames", len(out), len(want)))
		}
	}
	// 4. Close ends Inbound
	rs.Close()
	select {
	case <-hdone:
	case <-time.After(2 * time.Second):
		r.violation("inbound-not-closed-after-close", "close routing socket", "")
	}
	r.classes["router-sends-observed"] += sent
	// 5. Close while the receiver holds a decoded frame nobody takes: the receiver goroutine ends
	base := quiesce()
	for i := 0; i < 6; i++ {
		p2 := port + 1 + i
		what := "close routing socket with unread frames"
		rs2, err := knxnet.ListenRouterOnInterface(ifi, fmt.Sprintf("224.0.23.12:%d", p2), true)
		if err != nil {
			continue
		}
		c, err := net.DialUDP("udp4", nil, &net.UDPAddr{IP: group, Port: p2})
		if err != nil {
			rs2.Close()
			continue
		}
		if rc, err := c.SyscallConn(); err == nil {
			rc.Control(func(fd uintptr) {
				syscall.SetsockoptInt(int(fd), syscall.IPPROTO_IP, syscall.IP_MULTICAST_LOOP, 1)
			})
		}
		for k := 0; k < 3; k++ {
			c.Write(sentinel)
		}
		time.Sleep(5 * time.Millisecond)
		rs2.Close()
		c.Close()
		n := runtime.NumGoroutine()
		for k := 0; k < 60 && n > base; k++ {
			time.Sleep(5 * time.Millisecond)
			n = runtime.NumGoroutine()
		}
		if n > base {
			r.violation("receiver-alive-after-close", what, fmt.Sprintf("%d goroutines 300 ms after Close, %d before the socket was opened: the receiver is parked in its send on Inbound", n, base))
			base = n
		}
		r.classes[what]++
	}
}

// ---- a socket that sent something and then stays quiet keeps receiving ----

// quietProbe runs beside the other operations: a TCP and a UDP tunnel socket each Send one frame,
// then nothing is sent or received for `quiet`; a frame the peer transmits after that must still
// surface (the receiver has not given up) and a further Send must still work.
func (r *run) quietProbe(quiet time.Duration) (join func()) {
	type res struct{ kind, op, detail string }
	out := make(chan []res, 1)
	go func() {
		var rs []res
		defer func() { out <- rs }()
		// UDP
		srv, err := net.ListenUDP("udp4", &net.UDPAddr{IP: net.IPv4(127, 0, 0, 1)})
		if err != nil {
			return
		}
		defer srv.Close()
		us, err := knxnet.DialTunnelUDP(srv.LocalAddr().String())
		if err != nil {
			return
		}
		defer us.Close()
		// TCP
		ln, err := net.Listen("tcp4", "127.0.0.1:0")
		if err != nil {
			return
		}
		defer ln.Close()
		acc := make(chan net.Conn, 1)
		go func() {
			if c, err := ln.Accept(); err == nil {
				acc <- c
			}
		}()
		ts, err := knxnet.DialTunnelTCP(ln.Addr().String())
		if err != nil {
			return
		}
		defer ts.Close()
		tsrv := <-acc
		defer tsrv.Close()
		first := &knxnet.ConnStateReq{Channel: 1, Control: knxnet.HostInfo{Protocol: knxnet.UDP4}}
		us.Send(first)
		ts.Send(first)
		// a complete but undecodable frame is dropped; whatever the receiver armed or allocated for it must
		// not outlive it (a read deadline set for the frame and never cleared would end the receiver during
		// the silence that follows)
		junk := []byte{6, 0x10, 2, 6, 0, 7, 1}
		srv.WriteToUDP(junk, us.LocalAddr().(*net.UDPAddr))
		tsrv.Write(junk)
		time.Sleep(quiet)
		op := fmt.Sprintf("one Send and one undecodable frame from the peer, then %v without traffic, then a frame from the peer", quiet)
		srv.WriteToUDP(sentinel, us.LocalAddr().(*net.UDPAddr))
		tsrv.Write(sentinel)
		for _, c := range []struct {
			name string
			in   <-chan knxnet.Service
		}{{"UDP", us.Inbound()}, {"TCP", ts.Inbound()}} {
			select {
			case s, ok := <-c.in:
				if !ok {
					rs = append(rs, res{"receiver-gave-up-on-quiet-socket", op, c.name + " tunnel socket: Inbound was closed although neither side closed the connection"})
				} else if ktext.Join(ktext.Service(s)) != sentinelText {
					rs = append(rs, res{"quiet-socket-frame-differs", op, c.name + " tunnel socket"})
				}
			case <-time.After(2 * time.Second):
				rs = append(rs, res{"receiver-gave-up-on-quiet-socket", op, c.name + " tunnel socket: the frame did not surface within 2 s"})
			}
		}
		if err := us.Send(first); err != nil {
			rs = append(rs, res{"send-fails-on-quiet-socket", op, "UDP: " + err.Error()})
		}
		if err := ts.Send(first); err != nil {
			rs = append(rs, res{"send-fails-on-quiet-socket", op, "TCP: " + err.Error()})
		}
	}()
	return func() {
		for _, x := range <-out {
			r.violation(x.kind, x.op, x.detail)
		}
		r.classes[fmt.Sprintf("quiet-socket-probe %v", quiet)]++
	}
}
