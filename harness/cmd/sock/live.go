package main

import (
	"bufio"
	"fmt"
	"io"
	"net"
	"runtime"
	"strings"
	"sync"
	"time"
	"verif/harness/ktext"

	"github.com/vapourismo/knx-go/knx"
	"github.com/vapourismo/knx-go/knx/cemi"
	"github.com/vapourismo/knx-go/knx/knxnet"
)

// ---- C10 on real sockets: knx.NewTunnel against a loopback gateway, Close from 1..4 goroutines ----

// liveGateway is a minimal KNXnet/IP tunnelling server on 127.0.0.1 (UDP or TCP): it grants the
// connection, acknowledges tunnelling requests, answers connection-state requests, counts disconnect
// requests, and - when asked to - sends tunnelling requests back to back.
type liveGateway struct {
	tcp    bool
	udp    *net.UDPConn
	ln     net.Listener
	mu     sync.Mutex
	conn   net.Conn     // TCP client connection
	peer   *net.UDPAddr // UDP client
	dreqs  int
	stop   chan struct{}
	closed bool
	acked  chan uint8 // sequence numbers of the acknowledgements the client sent (when set)
}

func newLiveGateway(tcp bool) (*liveGateway, string) {
	g := &liveGateway{tcp: tcp, stop: make(chan struct{})}
	if tcp {
		ln, err := net.Listen("tcp4", "127.0.0.1:0")
		if err != nil {
			panic(err)
		}
		g.ln = ln
		go func() {
			c, err := ln.Accept()
			if err != nil {
				return
			}
			g.mu.Lock()
			g.conn = c
			g.mu.Unlock()
			rd := bufio.NewReader(c)
			for {
				hdr := make([]byte, 6)
				if _, err := io.ReadFull(rd, hdr); err != nil {
					return
				}
				total := int(hdr[4])<<8 | int(hdr[5])
				if total < 6 {
					return
				}
				body := make([]byte, total-6)
				if _, err := io.ReadFull(rd, body); err != nil {
					return
				}
				g.handle(append(hdr, body...))
			}
		}()
		return g, ln.Addr().String()
	}
	srv, err := net.ListenUDP("udp4", &net.UDPAddr{IP: net.IPv4(127, 0, 0, 1)})
	if err != nil {
		panic(err)
	}
	g.udp = srv
	go func() {
		b := make([]byte, 2048)
		for {
			n, from, err := srv.ReadFromUDP(b)
			if err != nil {
				return
			}
			g.mu.Lock()
			g.peer = from
			g.mu.Unlock()
			g.handle(append([]byte(nil), b[:n]...))
		}
	}()
	return g, srv.LocalAddr().String()
}

func (g *liveGateway) write(p knxnet.ServicePackable) {
	b := knxnet.AllocAndPack(p)
	g.mu.Lock()
	conn, peer := g.conn, g.peer
	g.mu.Unlock()
	if g.tcp {
		if conn != nil {
			conn.SetWriteDeadline(time.Now().Add(200 * time.Millisecond))
			conn.Write(b)
		}
	} else if peer != nil {
		g.udp.WriteToUDP(b, peer)
	}
}

func (g *liveGateway) handle(frame []byte) {
	var svc knxnet.Service
	if _, err := oracleUnpack(frame, &svc); err != nil {
		return
	}
	proto := knxnet.UDP4
	if g.tcp {
		proto = knxnet.TCP4
	}
	switch s := svc.(type) {
	case *knxnet.ConnReq:
		g.write(&knxnet.ConnRes{Channel: 9, Control: knxnet.HostInfo{Protocol: proto}})
	case *knxnet.ConnStateReq:
		g.write(&knxnet.ConnStateRes{Channel: s.Channel})
	case *knxnet.TunnelReq:
		g.write(&knxnet.TunnelRes{Channel: s.Channel, SeqNumber: s.SeqNumber})
	case *knxnet.DiscReq:
		g.mu.Lock()
		g.dreqs++
		g.mu.Unlock()
	case *knxnet.TunnelRes:
		if g.acked != nil && s.Status == 0 {
			select {
			case g.acked <- s.SeqNumber:
			default:
			}
		}
	}
}

// flood sends tunnelling requests back to back until stopped
func (g *liveGateway) flood() {
	for k := 0; ; k++ {
		select {
		case <-g.stop:
			return
		default:
		}
		g.write(&knxnet.TunnelReq{Channel: 9, SeqNumber: uint8(k), Payload: &cemi.LDataInd{LData: cemi.LData{
			Control1: cemi.Control1StdFrame, Control2: cemi.Control2GroupAddr | cemi.Control2Hops(6), Source: 0x1101, Destination: uint16(k),
			Data: &cemi.AppData{Command: cemi.GroupValueWrite, Data: []byte{1}}}}})
		if k%32 == 31 {
			time.Sleep(100 * time.Microsecond)
		}
	}
}

func (g *liveGateway) shutdown() {
	g.mu.Lock()
	if !g.closed {
		g.closed = true
		close(g.stop)
	}
	conn := g.conn
	g.mu.Unlock()
	if g.tcp {
		g.ln.Close()
		if conn != nil {
			conn.Close()
		}
	} else {
		g.udp.Close()
	}
}

// c10live: one tunnel per round over real sockets; 1..4 goroutines call Close together while the
// gateway is quiet or delivering telegrams, with and without an application reading Inbound, with
// and without pending Sends.  Never more than one disconnect request reaches the gateway, every Close
// returns, Inbound closes, Send
// fails, and every goroutine the tunnel started is gone shortly after.
func (r *run) c10live(budget int) {
	base := quiesce()
	for i := 0; i < budget; i++ {
		tcp := r.g.R.Intn(2) == 0
		closers := 1 + r.g.R.Intn(4)
		flood := r.g.R.Intn(2) == 0
		reader := r.g.R.Intn(2) == 0
		senders := r.g.R.Intn(3)
		op := fmt.Sprintf("live-close tcp=%v closers=%d gateway-sending=%v reader=%v senders=%d", tcp, closers, flood, reader, senders)
		inflight(op)
		gw, addr := newLiveGateway(tcp)
		tun, err := knx.NewTunnel(addr, knxnet.TunnelLayerData, knx.TunnelConfig{UseTCP: tcp,
			ResendInterval: 20 * time.Millisecond, ResponseTimeout: 200 * time.Millisecond, HeartbeatInterval: time.Hour})
		if err != nil {
			r.violation("connect-failed", op, err.Error())
			gw.shutdown()
			continue
		}
		readerDone := make(chan struct{})
		if reader {
			go func() {
				defer close(readerDone)
				for range tun.Inbound() {
				}
			}()
		} else {
			close(readerDone)
		}
		var swg sync.WaitGroup
		for s := 0; s < senders; s++ {
			swg.Add(1)
			go func(s int) {
				defer swg.Done()
				for k := 0; k < 2000; k++ {
					if tun.Send(&cemi.LDataReq{LData: cemi.LData{Control1: cemi.Control1StdFrame, Control2: cemi.Control2GroupAddr | cemi.Control2Hops(6),
						Destination: uint16(s*100 + k), Data: &cemi.AppData{Command: cemi.GroupValueWrite, Data: []byte{1}}}}) != nil {
						return
					}
				}
			}(s)
		}
		if flood {
			go gw.flood()
		}
		time.Sleep(time.Duration(1+r.g.R.Intn(5)) * time.Millisecond)
		begin := make(chan struct{})
		back := make(chan struct{}, closers)
		for c := 0; c < closers; c++ {
			go func() { <-begin; tun.Close(); back <- struct{}{} }()
		}
		time.Sleep(time.Millisecond)
		close(begin)
		returned := 0
		deadline := time.After(3 * time.Second)
	wait:
		for returned < closers {
			select {
			case <-back:
				returned++
			case <-deadline:
				break wait
			}
		}
		if returned < closers {
			r.violation("close-did-not-return", op, fmt.Sprintf("%d of %d Close calls returned within 3 s", returned, closers))
		}
		// Inbound closes
		inboundClosed := false
		drain := time.After(time.Second)
	drained:
		for {
			select {
			case _, ok := <-tun.Inbound():
				if !ok {
					inboundClosed = true
					break drained
				}
			case <-drain:
				break drained
			}
		}
		if !inboundClosed && returned == closers {
			r.violation("inbound-not-closed", op, "Inbound still open 1 s after Close returned")
		}
		// Send fails promptly
		sres := make(chan error, 1)
		go func() {
			sres <- tun.Send(&cemi.LDataReq{LData: cemi.LData{Data: &cemi.AppData{Command: cemi.GroupValueWrite, Data: []byte{0}}}})
		}()
		select {
		case err := <-sres:
			if err == nil {
				r.violation("send-after-close", op, "Send after Close returned nil")
			}
		case <-time.After(2 * time.Second):
			r.violation("send-after-close", op, "Send after Close still blocked after 2 s")
		}
		sd := make(chan struct{})
		go func() { swg.Wait(); close(sd) }()
		select {
		case <-sd:
		case <-time.After(3 * time.Second):
			r.violation("send-never-returned", op, "a Send that was pending at Close had not returned 3 s later")
		}
		<-readerDone
		time.Sleep(2 * time.Millisecond) // the disconnect request is on its way
		gw.mu.Lock()
		d := gw.dreqs
		gw.mu.Unlock()
		// (a request the kernel dropped, or discarded with the connection when the client's close
		// reset it, is not counted against the library: "exactly one" is decided on the in-memory
		// socket, here only "never more than one")
		if d > 1 {
			r.violation("disconnect-request-count", op, fmt.Sprintf("%d disconnect requests reached the gateway (at most one is due)", d))
		}
		r.classes[fmt.Sprintf("live-close disconnect requests seen=%d", d)]++
		gw.shutdown()
		// every goroutine the tunnel (and its socket) started is gone
		n := runtime.NumGoroutine()
		for k := 0; k < 200 && n > base; k++ {
			time.Sleep(5 * time.Millisecond)
			n = runtime.NumGoroutine()
		}
		if n > base && returned == closers {
			buf := make([]byte, 1<<16)
			buf = buf[:runtime.Stack(buf, true)]
			r.violation("goroutine-left-after-close", op, fmt.Sprintf("%d goroutines 1 s after Close returned and the gateway hung up, %d before the tunnel was opened", n, base))
			base = quiesce()
		}
		r.emit(op, "done")
		r.classes[fmt.Sprintf("live-close tcp=%v", tcp)]++
	}
}

// ---- a peer that stops reading for a while: every Send still puts ONE complete frame on the stream ----

// bigFrame is a service body of the harness's own (identifier 0xF00E) that only carries bytes
type bigFrame []byte

func (bigFrame) Service() knxnet.ServiceID { return 0xf00e }
func (b bigFrame) Size() uint              { return uint(len(b)) }
func (b bigFrame) Pack(buffer []byte)      { copy(buffer, b) }

// stalledPeerProbe runs beside the other operations: a TCP peer does not read for `stall`, the client keeps
// sending 30 000-octet frames (Send blocks once the socket buffers are full), then the peer reads
// everything.  The byte stream must be the frames of the Sends that returned nil, back to back: no
// frame twice, no prefix of a frame followed by the frame again, nothing in between.
func (r *run) stalledPeerProbe(stall time.Duration) (join func()) {
	type res struct{ kind, detail string }
	out := make(chan []res, 1)
	go func() {
		var rs []res
		defer func() { out <- rs }()
		ln, err := net.Listen("tcp4", "127.0.0.1:0")
		if err != nil {
			return
		}
		defer ln.Close()
		acc := make(chan net.Conn, 1)
		go func() {
			if c, err := ln.Accept(); err == nil {
				acc <- c
			}
		}()
		sock, err := knxnet.DialTunnelTCP(ln.Addr().String())
		if err != nil {
			return
		}
		peer := <-acc
		defer peer.Close()
		const size = 30000
		sent := 0 // Sends that returned nil
		stop := make(chan struct{})
		sdone := make(chan struct{})
		go func() {
			defer close(sdone)
			for k := 0; ; k++ {
				select {
				case <-stop:
					return
				default:
				}
				body := make([]byte, size)
				for i := range body {
					body[i] = byte(k + i)
				}
				body[0], body[1], body[2], body[3] = byte(k>>24), byte(k>>16), byte(k>>8), byte(k)
				if sock.Send(bigFrame(body)) != nil {
					return
				}
				sent++
			}
		}()
		time.Sleep(stall)
		// now read; the sender stops shortly after and the client closes
		var stream []byte
		rd := make(chan struct{})
		go func() {
			defer close(rd)
			buf := make([]byte, 1<<16)
			for {
				peer.SetReadDeadline(time.Now().Add(3 * time.Second))
				n, err := peer.Read(buf)
				stream = append(stream, buf[:n]...)
				if err != nil {
					return
				}
			}
		}()
		time.Sleep(300 * time.Millisecond)
		close(stop)
		select {
		case <-sdone:
		case <-time.After(5 * time.Second):
			rs = append(rs, res{"send-never-returned", "a Send to a peer that had stalled and then read again had not returned 5 s later"})
		}
		sock.Close()
		<-rd
		// parse
		frames, pos := 0, 0
		for pos+6 <= len(stream) {
			total := int(stream[pos+4])<<8 | int(stream[pos+5])
			if stream[pos] != 6 || stream[pos+1] != 0x10 || stream[pos+2] != 0xf0 || stream[pos+3] != 0x0e || total != size+6 {
				rs = append(rs, res{"stream-is-not-a-sequence-of-frames", fmt.Sprintf("after %d complete frames the stream continues with %x at offset %d (%d Sends had returned nil, %d octets received)", frames, stream[pos:pos+6], pos, sent, len(stream))})
				return
			}
			if pos+total > len(stream) {
				break // the frame that was being written when the client closed
			}
			k := int(stream[pos+6])<<24 | int(stream[pos+7])<<16 | int(stream[pos+8])<<8 | int(stream[pos+9])
			if k != frames {
				rs = append(rs, res{"stream-is-not-a-sequence-of-frames", fmt.Sprintf("frame number %d on the stream is the frame of Send number %d", frames, k)})
				return
			}
			frames++
			pos += total
		}
		if frames < sent {
			rs = append(rs, res{"sent-frame-missing", fmt.Sprintf("%d Sends returned nil, the peer received %d complete frames", sent, frames)})
		}
	}()
	return func() {
		for _, x := range <-out {
			r.violation(x.kind, fmt.Sprintf("TCP peer does not read for %v while the client sends 30000-octet frames, then reads everything", stall), x.detail)
		}
		r.classes["stalled-peer-probe"]++
	}
}

// c05live: the receive side of C05 over real sockets, all three tunnel layers: the gateway sends 2..8
// telegrams, each with its own content, one after the other (on UDP each only after the previous one was
// acknowledged) while the application is busy elsewhere; the application then reads them.  What was
// acknowledged is delivered once, in order and WITH THE CONTENT IT HAD WHEN IT WAS ACKNOWLEDGED - the
// sockets read every datagram into the same buffer, a telegram that still points into it changes
// when the next one arrives.
func (r *run) c05live(budget int) {
	for i := 0; i < budget; i++ {
		tcp := r.g.R.Intn(3) == 0
		layer, kind, lname := knxnet.TunnelLayerData, 2, "data"
		switch r.g.R.Intn(3) {
		case 1:
			layer, kind, lname = knxnet.TunnelLayerBusmon, 6, "busmon"
		case 2:
			layer, kind, lname = knxnet.TunnelLayerRaw, 5, "raw"
		}
		k := 2 + r.g.R.Intn(7)
		op := fmt.Sprintf("live-receive tcp=%v layer=%s telegrams=%d", tcp, lname, k)
		inflight(op)
		gw, addr := newLiveGateway(tcp)
		gw.acked = make(chan uint8, 64)
		tun, err := knx.NewTunnel(addr, layer, knx.TunnelConfig{UseTCP: tcp,
			ResendInterval: 50 * time.Millisecond, ResponseTimeout: 500 * time.Millisecond, HeartbeatInterval: time.Hour})
		if err != nil {
			r.violation("connect-failed", op, err.Error())
			gw.shutdown()
			continue
		}
		var sent []string
		lost := false
		for q := 0; q < k && !lost; q++ {
			var m cemi.Message
			for {
				m = r.g.Cemi(kind)
				if len(knxnet.AllocAndPack(&knxnet.TunnelReq{Payload: m})) <= 900 {
					break
				}
			}
			sent = append(sent, ktext.Join(ktext.Cemi(m)))
			gw.write(&knxnet.TunnelReq{Channel: 9, SeqNumber: uint8(q), Payload: m})
			if tcp {
				continue
			}
			select {
			case a := <-gw.acked:
				if a != uint8(q) {
					r.violation("live-acknowledgement-number", op, fmt.Sprintf("telegram %d was acknowledged with number %d", q, a))
				}
			case <-time.After(time.Second):
				// the kernel may drop a loopback datagram under load; without the acknowledgement nothing
				// is owed for this telegram or the ones behind it
				lost = true
				sent = sent[:len(sent)-1]
			}
		}
		if tcp {
			time.Sleep(5 * time.Millisecond)
		}
		var got []string
	read:
		for len(got) < len(sent) {
			select {
			case m, ok := <-tun.Inbound():
				if !ok {
					break read
				}
				got = append(got, ktext.Join(ktext.Cemi(m)))
			case <-time.After(time.Second):
				break read
			}
		}
		r.emit(op, fmt.Sprintf("sent=%d delivered=%d", len(sent), len(got)))
		if strings.Join(got, " ; ") != strings.Join(sent, " ; ") {
			at := 0
			for at < len(got) && at < len(sent) && got[at] == sent[at] {
				at++
			}
			w, g := "-", "-"
			if at < len(sent) {
				w = sent[at]
			}
			if at < len(got) {
				g = got[at]
			}
			r.violation("live-delivery-differs", op, fmt.Sprintf("the gateway sent %d telegrams (all acknowledged), the application received %d; first difference at %d: sent %s, received %s", len(sent), len(got), at, w, g))
		}
		tun.Close()
		gw.shutdown()
	}
}
