// Command sock drives the real knxnet sockets over loopback TCP / UDP for property C16, and the
// describe / discover calls for C20.
package main

import (
	"bufio"
	"bytes"
	"encoding/json"
	"flag"
	"fmt"
	"io"
	"math/rand"
	"net"
	"os"
	"path/filepath"
	"runtime"
	"strings"
	"sync"
	"time"

	"github.com/vapourismo/knx-go/knx"
	"github.com/vapourismo/knx-go/knx/knxnet"

	"verif/harness/gen"
	"verif/harness/ktext"
)

type finding struct {
	Property string `json:"property"`
	Kind     string `json:"kind"`
	Op       string `json:"op"`
	Detail   string `json:"detail"`
}

type run struct {
	prop     string
	ops      *bufio.Writer
	impl     *bufio.Writer
	findings []finding
	nOps     int
	classes  map[string]int
	samples  []string
	g        *gen.G
}

// inflight records the operation about to run: a panic inside one of the library's own goroutines
// kills this process, the runner then reports that operation
var inflightPath string

func inflight(op string) {
	if inflightPath != "" {
		if len(op) > 4000 {
			op = op[:4000]
		}
		os.WriteFile(inflightPath, []byte(op), 0o644)
	}
}

func (r *run) emit(op, out string) {
	fmt.Fprintln(r.ops, op)
	fmt.Fprintln(r.impl, out)
	r.nOps++
	r.classes[strings.SplitN(op, " ", 2)[0]]++
	if len(r.samples) < 8 && r.nOps%37 == 1 {
		s := op + " => " + out
		if len(s) > 400 {
			s = s[:400] + "…"
		}
		r.samples = append(r.samples, s)
	}
}

func (r *run) violation(kind, op, detail string) {
	if len(r.findings) < 100 {
		if len(op) > 3000 {
			op = op[:3000]
		}
		r.findings = append(r.findings, finding{r.prop, kind, op, detail})
	}
}

// the sentinel frame: a service no generator produces (an unknown service id with a 14-byte body)
var sentinel = append([]byte{6, 16, 0xf0, 0x0d, 0, 20}, []byte("verif-sentinel")...)

var sentinelText = func() string {
	var s knxnet.Service
	if _, err := oracleUnpack(sentinel, &s); err != nil {
		panic(err)
	}
	return ktext.Join(ktext.Service(s))
}()

// collect reads the socket's Inbound until the sentinel, the channel's closing or a timeout.
// oracleUnpack is knxnet.Unpack for the harness's own use (telling which datagrams are well-formed): a
// decoder that panics or does not return must not take the harness with it.  After the first hang the
// decoder is not asked again (every further frame counts as not well-formed) and the run reports it.
var decoderHung, decoderPanicked string

func oracleUnpack(data []byte, svc *knxnet.Service) (uint, error) {
	if decoderHung != "" {
		return 0, fmt.Errorf("decoder hung earlier")
	}
	type out struct {
		n   uint
		err error
		s   knxnet.Service
	}
	ch := make(chan out, 1)
	cp := append([]byte(nil), data...)
	go func() {
		defer func() {
			if p := recover(); p != nil {
				if decoderPanicked == "" {
					decoderPanicked = fmt.Sprintf("%s: %v", ktext.Hex(cp), p)
				}
				ch <- out{0, fmt.Errorf("panic: %v", p), nil}
			}
		}()
		var s knxnet.Service
		n, err := knxnet.Unpack(cp, &s)
		ch <- out{n, err, s}
	}()
	select {
	case o := <-ch:
		*svc = o.s
		return o.n, o.err
	case <-time.After(2 * time.Second):
		decoderHung = ktext.Hex(cp)
		return 0, fmt.Errorf("decoder does not return")
	}
}

func collect(in <-chan knxnet.Service, wait time.Duration) (out []string, tail string) {
	deadline := time.After(wait)
	for {
		select {
		case s, ok := <-in:
			if !ok {
				return out, "closed"
			}
			t := ktext.Join(ktext.Service(s))
			out = append(out, t)
			if t == sentinelText {
				return out, "open"
			}
		case <-deadline:
			return out, "timeout"
		}
	}
}

// ---- TCP: every segmentation of a stream of frames ----

func (r *run) tcpOp(chunks [][]byte) {
	ln, err := net.Listen("tcp4", "127.0.0.1:0")
	if err != nil {
		panic(err)
	}
	defer ln.Close()
	acc := make(chan net.Conn, 1)
	go func() {
		c, err := ln.Accept()
		if err == nil {
			acc <- c
		}
	}()
	sock, err := knxnet.DialTunnelTCP(ln.Addr().String())
	if err != nil {
		panic(err)
	}
	srv := <-acc
	srv.(*net.TCPConn).SetNoDelay(true)
	var hexes []string
	all := append(append([][]byte(nil), chunks...), sentinel)
	{
		var hx []string
		for _, c := range all {
			hx = append(hx, ktext.Hex(c))
		}
		inflight("tcp " + strings.Join(hx, "|"))
	}
	go func() {
		for i, c := range all {
			if len(c) > 0 {
				srv.Write(c)
			}
			if i%3 == 0 {
				time.Sleep(150 * time.Microsecond)
			}
		}
	}()
	for _, c := range all {
		hexes = append(hexes, ktext.Hex(c))
	}
	op := "tcp " + strings.Join(hexes, "|")
	out, tail := collect(sock.Inbound(), 2*time.Second+time.Duration(len(all))*2*time.Millisecond)
	r.emit(op, strings.Join(append(out, tail), " ; "))
	if want, wtail := expectTCP(all); tail != "timeout" && (strings.Join(want, " ; ") != strings.Join(out, " ; ") || wtail != tail) {
		r.violation("tcp-frames-differ", op, fmt.Sprintf("Inbound yielded %d services then %s; the stream holds %d well-formed frames then %s", len(out), tail, len(want), wtail))
	}
	if tail == "timeout" {
		r.violation("receiver-stalled", op, "neither the sentinel frame nor the closing of Inbound within 2 s")
	}
	sock.Close()
	srv.Close()
	// after Close the Inbound channel must close (the receiver goroutine ends)
	select {
	case _, ok := <-sock.Inbound():
		for ok {
			_, ok = <-sock.Inbound()
		}
	case <-time.After(2 * time.Second):
		r.violation("inbound-not-closed-after-close", op, "")
	}
}

// expectTCP: the well-formed frames of a byte stream in order, read off the announced lengths, by
// the property's statement (a frame the decoder rejects is not surfaced; an unacceptable header
// ends the stream)
func expectTCP(chunks [][]byte) (out []string, tail string) {
	var stream []byte
	for _, c := range chunks {
		stream = append(stream, c...)
	}
	for len(stream) >= 6 {
		total := int(stream[4])<<8 | int(stream[5])
		if stream[0] != 6 || stream[1] != 16 || total < 6 {
			return out, "closed"
		}
		if len(stream) < total {
			break
		}
		var svc knxnet.Service
		if _, err := oracleUnpack(stream[:total], &svc); err == nil {
			out = append(out, ktext.Join(ktext.Service(svc)))
		}
		stream = stream[total:]
	}
	return out, "open"
}

// cut splits a stream at the given sorted positions.
func cut(stream []byte, pos []int) [][]byte {
	var out [][]byte
	last := 0
	for _, p := range pos {
		if p > last && p < len(stream) {
			out = append(out, stream[last:p])
			last = p
		}
	}
	return append(out, stream[last:])
}

func (r *run) frames(n int, malformed bool) (stream []byte, list [][]byte) {
	for i := 0; i < n; i++ {
		var f []byte
		switch r.g.R.Intn(12) {
		case 0:
			f = r.g.RoutingLostFrame()
		case 1:
			f = r.g.RoutingBusyFrame()
		case 2:
			f = r.g.DescrResFrameWithUnknown()
		case 3:
			// a frame larger than any receive buffer a datagram socket would use: TCP frames are
			// limited by the 16-bit total length only (an unknown service carries the bytes)
			if r.g.R.Intn(3) == 0 {
				total := r.g.Pick(1024, 1025, 1030, 4096, 20000, 65535)
				f = append([]byte{6, 16, 0xf0, 0x01, byte(total >> 8), byte(total)}, r.g.Bytes(total-6)...)
				r.classes["tcp-frame-over-1024-bytes"]++
			} else {
				f = knxnet.AllocAndPack(r.g.Service(-1))
			}
		default:
			f = knxnet.AllocAndPack(r.g.Service(-1))
		}
		if malformed && r.g.R.Intn(4) == 0 && len(f) > 8 {
			// a frame whose body is malformed but whose header is consistent: dropped, stream goes on
			f = append([]byte(nil), f...)
			f[6+r.g.R.Intn(len(f)-6)] ^= byte(1 + r.g.R.Intn(255))
		}
		list = append(list, f)
		stream = append(stream, f...)
	}
	return
}

func (r *run) c16tcp(budget int) {
	// short streams: every single cut position; 1-byte dribble; random coalescing
	for r.nOps < budget {
		stream, _ := r.frames(1+r.g.R.Intn(3), true)
		if len(stream) > 200 {
			continue
		}
		for p := 1; p < len(stream) && r.nOps < budget; p++ {
			if len(stream) > 60 && r.g.R.Intn(6) != 0 {
				continue
			}
			r.tcpOp(cut(stream, []int{p}))
		}
		// dribble
		var dr [][]byte
		for _, b := range stream {
			dr = append(dr, []byte{b})
		}
		r.tcpOp(dr)
		// longer streams, arbitrary coalescing
		stream, _ = r.frames(1+r.g.R.Intn(50), true)
		var pos []int
		every := 20
		if len(stream)/200 > every {
			every = len(stream) / 200 // a stream with frames of tens of kilobytes: still a few hundred segments
		}
		for p := 1; p < len(stream); p++ {
			if r.g.R.Intn(every) == 0 {
				pos = append(pos, p)
			}
		}
		r.tcpOp(cut(stream, pos))
		// a header that ends the stream: wrong header length / version / total length below 6
		bad := append([]byte(nil), stream...)
		if len(bad) > 12 {
			switch r.g.R.Intn(3) {
			case 0:
				bad[0] = byte(r.g.Pick(0, 5, 7, 255))
			case 1:
				bad[1] = byte(r.g.Pick(0, 15, 17))
			default:
				bad[4], bad[5] = 0, byte(r.g.Pick(0, 1, 5))
			}
			r.tcpOp([][]byte{bad})
		}
	}
}

// ---- C01: malformed frames through the live receivers ----

// every service identifier the decoder knows
var serviceIDs = []uint16{0x0201, 0x0202, 0x0203, 0x0204, 0x0205, 0x0206, 0x0207, 0x0208, 0x0209, 0x020a,
	0x0420, 0x0421, 0x0530, 0x0531, 0x0532}

// c01live: sequences of malformed frames of C01's input classes through a live TCP and UDP receiver.
// On TCP the header stays honest about the frame's length (so the stream stays framed) while the body
// is truncated or its length octets lie; a malformed frame is dropped and the frames behind it - and
// the sentinel - still arrive.
func (r *run) c01live(budget int) {
	malformed := func(tcp bool) []byte {
		_, l := r.frames(1, false)
		f := append([]byte(nil), l[0]...)
		if len(f) > 600 {
			f = f[:600]
			f[4], f[5] = byte(len(f)>>8), byte(len(f))
		}
		switch r.g.R.Intn(7) {
		case 0: // header only, every service identifier
			id := serviceIDs[r.g.R.Intn(len(serviceIDs))]
			r.classes["header-only-frame"]++
			return []byte{6, 16, byte(id >> 8), byte(id), 0, 6}
		case 1, 2: // truncation, header total length follows
			k := 6 + r.g.R.Intn(len(f)-5)
			if r.g.R.Intn(5) == 0 {
				k = 6 + r.g.R.Intn(3)
			}
			if k > len(f) {
				k = len(f)
			}
			f = f[:k]
			f[4], f[5] = byte(k>>8), byte(k)
			r.classes["truncated-honest-header"]++
		case 3: // truncation with the header still announcing the full length (UDP only: TCP would wait)
			if !tcp {
				f = f[:6+r.g.R.Intn(len(f)-5)]
				r.classes["truncated-lying-header"]++
			}
		case 4: // an embedded length octet disagrees with the bytes present
			if len(f) > 7 {
				f[6+r.g.R.Intn(len(f)-6)] = byte(r.g.Pick(0, 1, 2, 7, 8, 30, 54, 200, 255))
				r.classes["embedded-length-perturbed"]++
			}
		case 5: // description response with a zero-length block
			f = r.g.DescrResFrameWithUnknown()
			f = append(f, 0, 0xfe, 1, 2)
			f[4], f[5] = byte(len(f)>>8), byte(len(f))
			r.classes["zero-length-description-block"]++
		default:
			r.classes["well-formed"]++
		}
		return f
	}
	// beside the streams: a dropped (undecodable) frame, then silence, then a well-formed frame - whatever
	// the receiver set up for the dropped frame must not stop it later
	joinShort := r.quietProbe(1500 * time.Millisecond)
	joinLong := r.quietProbe(4 * time.Second)
	defer joinLong()
	defer joinShort()
	for r.nOps < budget {
		n := 2 + r.g.R.Intn(6)
		var stream []byte
		var ds [][]byte
		for i := 0; i < n; i++ {
			f := malformed(true)
			stream = append(stream, f...)
		}
		if r.g.R.Intn(4) == 0 {
			// a header the receiver cannot accept (header length, version, total length below 6): a
			// byte stream cannot be re-framed behind it, the receiver ends and closes Inbound - it
			// must not hang on it
			bad := append([]byte(nil), malformed(true)...)
			if len(bad) >= 6 {
				switch r.g.R.Intn(3) {
				case 0:
					bad[0] = byte(r.g.Pick(0, 5, 7, 255))
				case 1:
					bad[1] = byte(r.g.Pick(0, 15, 17, 32))
				default:
					bad[4], bad[5] = 0, byte(r.g.Pick(0, 1, 5))
				}
				stream = append(stream, bad...)
				stream = append(stream, malformed(true)...)
				r.classes["unacceptable-header-in-stream"]++
			}
		}
		var pos []int
		for p := 1; p < len(stream); p++ {
			if r.g.R.Intn(25) == 0 {
				pos = append(pos, p)
			}
		}
		r.tcpOp(cut(stream, pos))
		for i := 0; i < n; i++ {
			if f := malformed(false); len(f) > 0 {
				ds = append(ds, f)
			}
		}
		r.udpOp(ds)
	}
}

// ---- UDP ----

func (r *run) udpOp(dgrams [][]byte) {
	srv, err := net.ListenUDP("udp4", &net.UDPAddr{IP: net.IPv4(127, 0, 0, 1)})
	if err != nil {
		panic(err)
	}
	defer srv.Close()
	sock, err := knxnet.DialTunnelUDP(srv.LocalAddr().String())
	if err != nil {
		panic(err)
	}
	defer sock.Close()
	dst := sock.LocalAddr().(*net.UDPAddr)
	var hexes []string
	var out []string
	tail := "end"
	{
		var hx []string
		for _, d := range dgrams {
			hx = append(hx, ktext.Hex(d))
		}
		inflight("udp " + strings.Join(hx, "|"))
	}
	for _, d := range dgrams {
		hexes = append(hexes, ktext.Hex(d))
		srv.WriteToUDP(d, dst)
		// every datagram is followed by the sentinel, whose arrival is awaited: a datagram the
		// kernel dropped cannot be mistaken for a receiver that stopped
		srv.WriteToUDP(sentinel, dst)
		got, t := collect(sock.Inbound(), 2*time.Second)
		if t != "open" {
			tail = t
			out = append(out, got...)
			break
		}
		out = append(out, got[:len(got)-1]...)
	}
	op := "udp " + strings.Join(hexes, "|")
	r.emit(op, strings.Join(append(out, tail), " ; "))
	var want []string
	for _, d := range dgrams {
		var svc knxnet.Service
		if _, err := oracleUnpack(append([]byte(nil), d...), &svc); err == nil {
			want = append(want, ktext.Join(ktext.Service(svc)))
		}
	}
	if tail == "end" && strings.Join(want, " ; ") != strings.Join(out, " ; ") {
		r.violation("udp-frames-differ", op, fmt.Sprintf("Inbound yielded %d services, %d of the datagrams are well-formed frames", len(out), len(want)))
	}
	if tail != "end" {
		r.violation("udp-receiver-stopped", op, "after a datagram the sentinel frame no longer arrived: "+tail)
	}
}

func (r *run) c16udp(budget int) {
	for r.nOps < budget {
		n := 1 + r.g.R.Intn(8)
		var ds [][]byte
		for i := 0; i < n; i++ {
			_, l := r.frames(1, false)
			f := l[0]
			switch r.g.R.Intn(6) {
			case 0: // truncated
				f = f[:r.g.R.Intn(len(f))]
			case 1: // a length octet pointing beyond the datagram (into what an earlier one left behind)
				f = append([]byte(nil), f...)
				if len(f) > 7 {
					f[6+r.g.R.Intn(len(f)-6)] = byte(r.g.Pick(200, 255, 54, 30))
				}
			case 2:
				f = r.g.Bytes(r.g.R.Intn(40))
			}
			if len(f) > 1000 {
				f = f[:1000]
			}
			if len(f) == 0 {
				continue
			}
			ds = append(ds, f)
		}
		if len(ds) > 0 {
			r.udpOp(ds)
		}
	}
}

// ---- Send: one complete frame per call, also from several goroutines ----

func (r *run) c16send(budget int) {
	// UDP: datagram = the encoding
	srv, _ := net.ListenUDP("udp4", &net.UDPAddr{IP: net.IPv4(127, 0, 0, 1)})
	defer srv.Close()
	sock, err := knxnet.DialTunnelUDP(srv.LocalAddr().String())
	if err != nil {
		panic(err)
	}
	buf := make([]byte, 70000)
	for i := 0; i < budget/2; i++ {
		v := r.g.Service(-1)
		if v.Size() > 1400 {
			continue
		}
		if err := sock.Send(v); err != nil {
			r.violation("send-failed", "enc "+ktext.Join(ktext.Service(v)), err.Error())
			continue
		}
		srv.SetReadDeadline(time.Now().Add(2 * time.Second))
		n, _, err := srv.ReadFromUDP(buf)
		op := "enc " + ktext.Join(ktext.Service(v))
		if err != nil {
			r.emit(op, "lost")
			r.violation("datagram-missing", op, err.Error())
			continue
		}
		r.emit(op, "ok "+ktext.Hex(buf[:n]))
		if n < 6 || int(buf[4])<<8|int(buf[5]) != n {
			r.violation("datagram-length", op, fmt.Sprintf("datagram of %d bytes, header says %d", n, int(buf[4])<<8|int(buf[5])))
		}
	}
	// UDP, 6 concurrent senders: every datagram that arrives is exactly one of the frames handed to
	// Send (datagrams the kernel drops are not counted against the library)
	{
		want := map[string]int{}
		var wmu sync.Mutex
		var wg sync.WaitGroup
		seeds := make([]int64, 6)
		for i := range seeds {
			seeds[i] = r.g.R.Int63()
		}
		for _, sd := range seeds {
			wg.Add(1)
			go func(seed int64) {
				defer wg.Done()
				g := gen.New(seed)
				for i := 0; i < 150; i++ {
					v := g.Service(-1)
					if v.Size() > 1000 {
						continue
					}
					b := knxnet.AllocAndPack(v)
					wmu.Lock()
					want[string(b)]++
					wmu.Unlock()
					sock.Send(v)
					if i%16 == 15 {
						time.Sleep(200 * time.Microsecond) // let the reader keep up
					}
				}
			}(sd)
		}
		got, unknown := 0, 0
		done := make(chan struct{})
		go func() { wg.Wait(); time.Sleep(50 * time.Millisecond); close(done) }()
	readLoop:
		for {
			srv.SetReadDeadline(time.Now().Add(100 * time.Millisecond))
			n, _, err := srv.ReadFromUDP(buf)
			if err != nil {
				select {
				case <-done:
					break readLoop
				default:
					continue
				}
			}
			got++
			wmu.Lock()
			known := want[string(buf[:n])] > 0
			wmu.Unlock()
			if !known {
				// the sender may not have registered it yet: look again when all are done
				time.Sleep(time.Millisecond)
				wmu.Lock()
				known = want[string(buf[:n])] > 0
				wmu.Unlock()
			}
			if !known {
				unknown++
				if unknown == 1 {
					r.violation("udp-datagram-is-no-frame-that-was-sent", "6 concurrent senders on one UDP socket", ktext.Hex(buf[:n]))
				}
			}
		}
		r.classes["udp-concurrent-datagrams"] += got
	}
	sock.Close()
	// TCP: 1..8 concurrent senders, the peer re-parses the byte stream
	for round := 0; round < 10; round++ {
		ln, _ := net.Listen("tcp4", "127.0.0.1:0")
		acc := make(chan net.Conn, 1)
		go func() {
			c, err := ln.Accept()
			if err == nil {
				acc <- c
			}
		}()
		ts, err := knxnet.DialTunnelTCP(ln.Addr().String())
		if err != nil {
			panic(err)
		}
		peer := <-acc
		senders := 1 + r.g.R.Intn(8)
		if round >= 4 {
			senders = 4 + r.g.R.Intn(5) // contention is where a shared buffer or an interleaved write shows
		}
		per := 150
		want := map[string]int{}
		var wmu sync.Mutex
		var wg sync.WaitGroup
		seeds := make([]int64, senders)
		for i := range seeds {
			seeds[i] = r.g.R.Int63()
		}
		for s := 0; s < senders; s++ {
			wg.Add(1)
			go func(seed int64) {
				defer wg.Done()
				g := gen.New(seed)
				for i := 0; i < per; i++ {
					v := g.Service(-1)
					b := knxnet.AllocAndPack(v)
					wmu.Lock()
					want[string(b)]++
					wmu.Unlock()
					ts.Send(v)
				}
			}(seeds[s])
		}
		wg.Wait()
		ts.Close()
		rd := bufio.NewReader(peer)
		peer.SetReadDeadline(time.Now().Add(3 * time.Second))
		got := 0
		for {
			hdr := make([]byte, 6)
			if _, err := io.ReadFull(rd, hdr); err != nil {
				break
			}
			total := int(hdr[4])<<8 | int(hdr[5])
			if hdr[0] != 6 || hdr[1] != 16 || total < 6 {
				r.violation("tcp-stream-corrupt", fmt.Sprintf("%d concurrent senders", senders), "header "+ktext.Hex(hdr)+" in the byte stream: frames were interleaved")
				break
			}
			body := make([]byte, total-6)
			if _, err := io.ReadFull(rd, body); err != nil {
				r.violation("tcp-stream-truncated", fmt.Sprintf("%d concurrent senders", senders), err.Error())
				break
			}
			k := string(append(hdr, body...))
			if want[k] == 0 {
				r.violation("tcp-frame-unknown", fmt.Sprintf("%d concurrent senders", senders), ktext.Hex([]byte(k)))
				break
			}
			want[k]--
			got++
		}
		if got != senders*per {
			r.violation("tcp-frames-missing", fmt.Sprintf("%d concurrent senders", senders), fmt.Sprintf("%d of %d frames arrived intact", got, senders*per))
		}
		r.classes[fmt.Sprintf("tcp-concurrent-senders-%d", senders)] += got
		peer.Close()
		ln.Close()
	}
}

// ---- Close while frames are waiting to be received and nobody receives ----

// quiesce waits until the number of goroutines has not changed for 400 ms (helpers of earlier
// phases are gone) and returns it
func quiesce() int {
	n, stable := runtime.NumGoroutine(), 0
	for i := 0; i < 400 && stable < 8; i++ {
		time.Sleep(50 * time.Millisecond)
		if m := runtime.NumGoroutine(); m == n {
			stable++
		} else {
			n, stable = m, 0
		}
	}
	return n
}

func (r *run) c16closePending() {
	base := quiesce()
	for i := 0; i < 12; i++ {
		tcp := i%2 == 1
		what := fmt.Sprintf("close-with-unread-frames tcp=%v", tcp)
		var sock *knxnet.TunnelSocket
		var cleanup func()
		if tcp {
			ln, _ := net.Listen("tcp4", "127.0.0.1:0")
			acc := make(chan net.Conn, 1)
			go func() {
				c, err := ln.Accept()
				if err == nil {
					acc <- c
				}
			}()
			s, err := knxnet.DialTunnelTCP(ln.Addr().String())
			if err != nil {
				panic(err)
			}
			sock = s
			peer := <-acc
			for k := 0; k < 3; k++ {
				peer.Write(sentinel)
			}
			cleanup = func() { peer.Close(); ln.Close() }
		} else {
			srv, _ := net.ListenUDP("udp4", &net.UDPAddr{IP: net.IPv4(127, 0, 0, 1)})
			s, err := knxnet.DialTunnelUDP(srv.LocalAddr().String())
			if err != nil {
				panic(err)
			}
			sock = s
			for k := 0; k < 3; k++ {
				srv.WriteToUDP(sentinel, sock.LocalAddr().(*net.UDPAddr))
			}
			cleanup = func() { srv.Close() }
		}
		time.Sleep(5 * time.Millisecond) // the receiver now holds a decoded frame nobody takes
		sock.Close()
		cleanup()
		n := runtime.NumGoroutine()
		for k := 0; k < 60 && n > base; k++ {
			time.Sleep(5 * time.Millisecond)
			n = runtime.NumGoroutine()
		}
		if n > base {
			r.violation("receiver-alive-after-close", what, fmt.Sprintf("%d goroutines 300 ms after Close, %d before the socket was opened: the receiver is parked in its send on Inbound", n, base))
			base = n
		}
		// and Inbound is closed (at most the frame the receiver was holding comes first)
		closed := false
		for k := 0; k < 5 && !closed; k++ {
			select {
			case _, ok := <-sock.Inbound():
				closed = !ok
			case <-time.After(300 * time.Millisecond):
				k = 5
			}
		}
		if !closed && n <= base {
			r.violation("inbound-not-closed-after-close", what, "")
		}
		r.classes[what]++
	}
}

// ---- the connect request's HPAI ----

func (r *run) c16hostinfo() {
	for _, tcp := range []bool{false, true} {
		for _, local := range []bool{false, true} {
			var got []byte
			var clientAddr net.Addr
			done := make(chan struct{})
			var addr string
			if tcp {
				ln, _ := net.Listen("tcp4", "127.0.0.1:0")
				defer ln.Close()
				addr = ln.Addr().String()
				go func() {
					c, err := ln.Accept()
					if err != nil {
						return
					}
					clientAddr = c.RemoteAddr()
					b := make([]byte, 64)
					n, _ := c.Read(b)
					got = b[:n]
					c.Write(knxnet.AllocAndPack(&knxnet.ConnRes{Channel: 3, Control: knxnet.HostInfo{Protocol: knxnet.TCP4}}))
					close(done)
					time.Sleep(300 * time.Millisecond)
					c.Close()
				}()
			} else {
				srv, _ := net.ListenUDP("udp4", &net.UDPAddr{IP: net.IPv4(127, 0, 0, 1)})
				defer srv.Close()
				addr = srv.LocalAddr().String()
				go func() {
					b := make([]byte, 64)
					srv.SetReadDeadline(time.Now().Add(2 * time.Second))
					n, from, err := srv.ReadFromUDP(b)
					if err != nil {
						close(done)
						return
					}
					clientAddr = from
					got = b[:n]
					srv.WriteToUDP(knxnet.AllocAndPack(&knxnet.ConnRes{Channel: 3, Control: knxnet.HostInfo{Protocol: knxnet.UDP4}}), from)
					close(done)
				}()
			}
			tun, err := knx.NewTunnel(addr, knxnet.TunnelLayerData, knx.TunnelConfig{SendLocalAddress: local, UseTCP: tcp, ResponseTimeout: 2 * time.Second})
			<-done
			what := fmt.Sprintf("hostinfo tcp=%v sendLocal=%v", tcp, local)
			if err != nil {
				r.violation("connect-failed", what, err.Error())
				continue
			}
			var svc knxnet.Service
			if _, err := oracleUnpack(got, &svc); err != nil {
				r.violation("connect-request-malformed", what, ktext.Hex(got))
				tun.Close()
				continue
			}
			req, ok := svc.(*knxnet.ConnReq)
			if !ok {
				r.violation("connect-request-malformed", what, ktext.Hex(got))
				tun.Close()
				continue
			}
			want := knxnet.HostInfo{Protocol: knxnet.UDP4}
			if tcp {
				want.Protocol = knxnet.TCP4
			}
			if local && !tcp {
				ua := clientAddr.(*net.UDPAddr)
				copy(want.Address[:], ua.IP.To4())
				want.Port = knxnet.Port(ua.Port)
			}
			if req.Control != want || req.Tunnel != want {
				r.violation("connect-request-endpoint", what, fmt.Sprintf("advertised control %v tunnel %v, expected %v", req.Control, req.Tunnel, want))
			}
			r.classes[what]++
			tun.Close()
		}
	}
}

func main() {
	prop := flag.String("prop", "", "C16 | C16send | C20")
	seed := flag.Int64("seed", 1, "PRNG seed")
	budget := flag.Int("budget", 400, "number of operations")
	dir := flag.String("dir", "", "output directory")
	quiet := flag.Float64("quiet", 16.5, "seconds a socket stays silent after one Send before the peer transmits again (C16)")
	flag.Parse()
	if *dir == "" {
		fmt.Fprintln(os.Stderr, "need -dir")
		os.Exit(2)
	}
	os.MkdirAll(*dir, 0o755)
	inflightPath = filepath.Join(*dir, "inflight.txt")
	os.Remove(inflightPath)
	of, _ := os.Create(filepath.Join(*dir, "ops.txt"))
	inf, _ := os.Create(filepath.Join(*dir, "impl.txt"))
	r := &run{prop: *prop, ops: bufio.NewWriterSize(of, 1<<20), impl: bufio.NewWriterSize(inf, 1<<20),
		classes: map[string]int{}, findings: []finding{}, samples: []string{}, g: gen.New(*seed)}
	_ = rand.Int
	_ = bytes.Equal
	start := time.Now()
	switch *prop {
	case "C16":
		join := r.quietProbe(time.Duration(*quiet * float64(time.Second)))
		r.c16tcp(*budget * 6 / 10)
		r.c16udp(*budget)
		join()
	case "C16send":
		r.prop = "C16"
		joinStall := r.stalledPeerProbe(2600 * time.Millisecond)
		r.c16send(*budget)
		r.c16router(*budget / 3)
		r.c16hostinfo()
		r.c16closePending()
		joinStall()
	case "C01live":
		r.prop = "C01"
		r.c01live(*budget)
	case "C10live":
		r.prop = "C10"
		r.c10live(*budget)
	case "C05live":
		r.prop = "C05"
		r.c05live(*budget)
	case "C16router":
		r.prop = "C16"
		r.c16router(*budget)
	case "C20":
		r.c20(*budget)
	default:
		fmt.Fprintln(os.Stderr, "unknown -prop")
		os.Exit(2)
	}
	if decoderHung != "" {
		r.violation("decoder-does-not-return", "dec "+decoderHung, "knxnet.Unpack had not returned after 2 s on this frame")
	}
	if decoderPanicked != "" {
		r.violation("decoder-panics", "dec "+decoderPanicked, "knxnet.Unpack panicked on this frame")
	}
	r.ops.Flush()
	r.impl.Flush()
	of.Close()
	inf.Close()
	stats := map[string]interface{}{
		"property": r.prop, "seed": *seed, "ops": r.nOps, "distinct": r.nOps, "classes": r.classes,
		"generated": r.g.Stats, "samples": r.samples, "findings": r.findings, "wall_s": time.Since(start).Seconds(),
	}
	sf, _ := os.Create(filepath.Join(*dir, "stats.json"))
	enc := json.NewEncoder(sf)
	enc.SetIndent("", " ")
	enc.Encode(stats)
	sf.Close()
	os.Remove(inflightPath)
}
