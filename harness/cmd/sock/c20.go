package main

import (
	"fmt"
	"net"
	"os"
	"runtime"
	"strings"
	"sync"
	"syscall"
	"time"

	"github.com/vapourismo/knx-go/knx"
	"github.com/vapourismo/knx-go/knx/knxnet"

	"verif/harness/ktext"
)

// one datagram of a responder's script
type arrival struct {
	at      int // ms after the request was seen (describe) / after the call started (discover)
	foreign bool
	data    []byte
}

const (
	margin = 70  // ms: no scripted arrival closer than this to the timeout
	slack  = 400 // ms: scheduling slack granted to the return time
)

func (r *run) descrRes() []byte {
	if r.g.R.Intn(2) == 0 {
		return r.g.DescrResFrameWithUnknown() // carries blocks the library copies verbatim
	}
	return knxnet.AllocAndPack(r.g.Service(3))
}
func (r *run) searchRes() []byte { return knxnet.AllocAndPack(r.g.Service(1)) }

// script builds a responder script for a call with the given timeout: matching responses, other
// frames, malformed frames, before and after the timeout, possibly a flood
func (r *run) script(timeout int, match func() []byte, other func() []byte) []arrival {
	var out []arrival
	early := func() (int, bool) {
		if timeout < margin+20 {
			return 0, false
		}
		if r.g.R.Intn(4) == 0 {
			return 0, true // at once: before the caller has even begun to wait
		}
		return r.g.R.Intn(timeout - margin), true
	}
	late := func() int { return timeout + margin + r.g.R.Intn(150) }
	add := func(at int, data []byte, foreign bool) {
		if len(data) > 0 && len(data) <= 1000 {
			out = append(out, arrival{at, foreign, data})
		}
	}
	n := r.g.Pick(0, 1, 1, 2, 3, 5, 8, 20)
	for i := 0; i < n; i++ {
		var data []byte
		switch r.g.R.Intn(10) {
		case 0, 1, 2, 3:
			data = match()
		case 4, 5:
			data = other()
		case 6:
			data = knxnet.AllocAndPack(r.g.Service(-1))
		case 7:
			f := match()
			data = f[:r.g.R.Intn(len(f))]
		case 8:
			data = r.g.Bytes(1 + r.g.R.Intn(30))
		default:
			f := append([]byte(nil), match()...)
			if r.g.R.Intn(3) == 0 {
				// an otherwise complete response under a header that is not KNXnet/IP 1.0
				if r.g.R.Intn(2) == 0 {
					f[1] = byte(r.g.Pick(0x20, 0x11, 0x00))
				} else {
					f[0] = byte(r.g.Pick(8, 5, 0))
				}
				r.classes["script-response-with-foreign-header"]++
			} else {
				f[6+r.g.R.Intn(len(f)-6)] = byte(r.g.Pick(0, 1, 255, 200))
			}
			data = f
		}
		foreign := r.g.R.Intn(8) == 0
		if at, ok := early(); ok && r.g.R.Intn(3) != 0 {
			add(at, data, foreign)
			if r.g.R.Intn(3) == 0 {
				// another datagram right behind it: the receiver reuses its array while the first
				// result is still in the caller's hands
				add(at, r.g.DescrResFrameWithUnknown(), false)
				add(at, knxnet.AllocAndPack(r.g.Service(-1)), false)
			}
		} else {
			add(late(), data, foreign)
		}
	}
	if r.g.R.Intn(6) == 0 {
		// a flood of frames of other types through and beyond the timeout, one every 2 ms
		for at := 0; at < timeout+slack+300; at += 2 {
			if at > timeout-margin && at < timeout+margin {
				continue
			}
			add(at, other(), false)
		}
		r.classes["script-with-flood"]++
	}
	// stable order by time
	for i := 1; i < len(out); i++ {
		for j := i; j > 0 && out[j-1].at > out[j].at; j-- {
			out[j-1], out[j] = out[j], out[j-1]
		}
	}
	return out
}

func clip(s string) string {
	if len(s) > 300 {
		return s[:300] + "…"
	}
	return s
}

func scriptText(s []arrival) string {
	var parts []string
	for _, a := range s {
		if a.foreign {
			continue // the kernel keeps datagrams of other senders away from a connected socket
		}
		parts = append(parts, fmt.Sprintf("%d:%s", a.at, ktext.Hex(a.data)))
	}
	if len(parts) == 0 {
		return "-"
	}
	return strings.Join(parts, "|")
}

// play sends the script's datagrams at their times until told to stop
func play(s []arrival, start time.Time, stop <-chan struct{}, send func(a arrival)) {
	for _, a := range s {
		d := time.Until(start.Add(time.Duration(a.at) * time.Millisecond))
		if d > 0 {
			select {
			case <-stop:
				return
			case <-time.After(d):
			}
		}
		select {
		case <-stop:
			return
		default:
		}
		send(a)
	}
}

// udpPortBound reports whether some UDP socket of this host is bound to the local port
func udpPortBound(port int) bool {
	b, err := os.ReadFile("/proc/net/udp")
	if err != nil {
		return false
	}
	want := fmt.Sprintf(":%04X", port)
	for _, l := range strings.Split(string(b), "\n")[1:] {
		f := strings.Fields(l)
		if len(f) > 1 && strings.HasSuffix(f[1], want) {
			return true
		}
	}
	return false
}

// stacks names where the goroutines of the library are parked
func stacks() string {
	buf := make([]byte, 1<<20)
	n := runtime.Stack(buf, true)
	out := ""
	for _, g := range strings.Split(string(buf[:n]), "\n\n") {
		if strings.Contains(g, "knx-go/knx/knxnet.serve") {
			lines := strings.Split(g, "\n")
			for i, l := range lines {
				if strings.Contains(l, "knxnet.serve") && i+1 < len(lines) {
					out += "; " + strings.TrimSpace(lines[0]) + " in " + strings.TrimSpace(l) + " " + strings.TrimSpace(lines[i+1])
				}
			}
		}
	}
	return out
}

func settleGoroutines(base int) int {
	n := runtime.NumGoroutine()
	for i := 0; i < 40 && n > base; i++ {
		time.Sleep(5 * time.Millisecond)
		n = runtime.NumGoroutine()
	}
	return n
}

// bounded runs a call that must return within its timeout; a call that has not returned 3 s after
// timeout + slack is abandoned (its goroutine is left behind) and reported as hung
var hung = 0

// goroutines left behind so far (each may be spinning): after a handful the run stops adding more
var leaks = 0

func describeBounded(addr string, timeout int) (*knxnet.DescriptionRes, error, bool) {
	type out struct {
		res *knxnet.DescriptionRes
		err error
	}
	ch := make(chan out, 1)
	go func() {
		defer func() {
			if p := recover(); p != nil {
				ch <- out{nil, fmt.Errorf("the call panicked: %v", p)}
			}
		}()
		res, err := knx.DescribeTunnel(addr, time.Duration(timeout)*time.Millisecond)
		ch <- out{res, err}
	}()
	select {
	case o := <-ch:
		return o.res, o.err, true
	case <-time.After(time.Duration(timeout+slack+3000) * time.Millisecond):
		hung++
		return nil, nil, false
	}
}

func discoverBounded(addr string, timeout int) ([]*knxnet.SearchRes, error, bool) {
	type out struct {
		res []*knxnet.SearchRes
		err error
	}
	ch := make(chan out, 1)
	go func() {
		defer func() {
			if p := recover(); p != nil {
				ch <- out{nil, fmt.Errorf("the call panicked: %v", p)}
			}
		}()
		res, err := knx.Discover(addr, time.Duration(timeout)*time.Millisecond)
		ch <- out{res, err}
	}()
	select {
	case o := <-ch:
		return o.res, o.err, true
	case <-time.After(time.Duration(timeout+slack+3000) * time.Millisecond):
		hung++
		return nil, nil, false
	}
}

// expectDescribe / expectDiscover: what the property's statement demands for a script, using the
// library's decoder only to tell which datagrams are well-formed responses
// frameHeaderOK: the fixed part of the KNXnet/IP header, by the specification (header length 6,
// protocol version 0x10) - checked here independently of the library's decoder
func frameHeaderOK(d []byte) bool { return len(d) >= 6 && d[0] == 6 && d[1] == 0x10 }

func expectDescribe(timeout int, s []arrival) string {
	for _, a := range s {
		if a.foreign || a.at >= timeout || !frameHeaderOK(a.data) {
			continue
		}
		var svc knxnet.Service
		if _, err := oracleUnpack(a.data, &svc); err != nil {
			continue
		}
		if d, ok := svc.(*knxnet.DescriptionRes); ok {
			return ktext.Join(ktext.Service(d))
		}
	}
	return "none"
}

func expectDiscover(timeout int, s []arrival) string {
	var parts []string
	for _, a := range s {
		if a.foreign || a.at >= timeout || !frameHeaderOK(a.data) {
			continue
		}
		var svc knxnet.Service
		if _, err := oracleUnpack(a.data, &svc); err != nil {
			continue
		}
		if d, ok := svc.(*knxnet.SearchRes); ok {
			parts = append(parts, ktext.Join(ktext.Service(d)))
		}
	}
	return strings.Join(append(parts, "end"), " ; ")
}

// ---- DescribeTunnel ----

type descOutcome struct {
	text     string
	elapsed  time.Duration
	requests [][]byte
	from     *net.UDPAddr
	err      error
}

func (r *run) describeOnce(timeout int, s []arrival) descOutcome {
	srv, err := net.ListenUDP("udp4", &net.UDPAddr{IP: net.IPv4(127, 0, 0, 1)})
	if err != nil {
		panic(err)
	}
	other, _ := net.ListenUDP("udp4", &net.UDPAddr{IP: net.IPv4(127, 0, 0, 1)})
	defer srv.Close()
	defer other.Close()
	stop := make(chan struct{})
	var mu sync.Mutex
	var out descOutcome
	done := make(chan struct{})
	go func() {
		defer close(done)
		buf := make([]byte, 2048)
		first := true
		for {
			n, from, err := srv.ReadFromUDP(buf)
			if err != nil {
				return
			}
			mu.Lock()
			out.requests = append(out.requests, append([]byte(nil), buf[:n]...))
			out.from = from
			mu.Unlock()
			if first {
				first = false
				start := time.Now()
				go play(s, start, stop, func(a arrival) {
					if a.foreign {
						other.WriteToUDP(a.data, from)
					} else {
						srv.WriteToUDP(a.data, from)
					}
				})
			}
		}
	}()
	t0 := time.Now()
	res, err, _ := describeBounded(srv.LocalAddr().String(), timeout)
	el := time.Since(t0)
	close(stop)
	time.Sleep(2 * time.Millisecond)
	srv.Close()
	<-done
	mu.Lock()
	defer mu.Unlock()
	out.elapsed = el
	out.err = err
	if res == nil {
		out.text = "none"
	} else {
		out.text = ktext.Join(ktext.Service(res))
	}
	return out
}

func (r *run) c20describe(budget int) {
	base := quiesce()
	// a queried port nobody listens on: the receiver ends at once (connection refused), the call
	// must still return at its timeout
	for _, timeout := range []int{1, 50, 200} {
		l, _ := net.ListenUDP("udp4", &net.UDPAddr{IP: net.IPv4(127, 0, 0, 1)})
		addr := l.LocalAddr().String()
		l.Close()
		t0 := time.Now()
		res, err, _ := describeBounded(addr, timeout)
		el := time.Since(t0)
		what := fmt.Sprintf("describe-dead-port timeout=%d", timeout)
		if res != nil || err != nil {
			r.violation("describe-dead-port-result", what, fmt.Sprintf("%v %v", res, err))
		}
		if el > time.Duration(timeout+slack)*time.Millisecond {
			r.violation("describe-returned-late", what, fmt.Sprintf("returned after %v", el))
		}
		if n := settleGoroutines(base); n > base {
			r.violation("describe-goroutine-left", what, fmt.Sprintf("%d goroutines after the return, %d before", n, base)+stacks())
			base = n
		}
		r.classes["describe-dead-port"]++
	}
	// directed: the server answers twice, back to back, with responses that differ only in the content
	// of a block the library keeps verbatim; what the call returns is the first response, and it still is
	// the first response after the receiver has read the second datagram (into the same buffer)
	var directed [][]arrival
	for k := 0; k < 4; k++ {
		a := r.g.DescrResFrameWithUnknown()
		blk := []byte{12, byte(r.g.Pick(0xfe, 0x03, 0x04, 0x05))}
		for j := 0; j < 10; j++ {
			blk = append(blk, byte(0x11*(k+1)+j))
		}
		a = append(a, blk...)
		a[4], a[5] = byte(len(a)>>8), byte(len(a))
		b := append([]byte(nil), a...)
		for j := len(b) - 10; j < len(b); j++ {
			b[j] ^= 0xff
		}
		if len(a) <= 1000 {
			at := r.g.Pick(0, 3, 10)
			directed = append(directed, []arrival{{at, false, a}, {at, false, b}})
		}
	}
	for i := 0; i < budget+len(directed) && hung < 3 && leaks < 6; i++ {
		timeout := r.g.Pick(1, 2, 5, 20, 50, 100, 150, 200, 300, 500)
		s := r.script(timeout, r.descrRes, r.searchRes)
		if i < len(directed) {
			timeout, s = 300, directed[i]
			r.classes["describe-answered-twice"]++
		}
		op := fmt.Sprintf("desc %d %s", timeout, scriptText(s))
		inflight(op)
		var o descOutcome
		agree := 0
		// a result that depends on real time is taken when two runs out of at most three agree
		seen := map[string]int{}
		for try := 0; try < 3 && hung < 3; try++ {
			o = r.describeOnce(timeout, s)
			seen[o.text]++
			if seen[o.text] > agree {
				agree = seen[o.text]
			}
			if over := o.elapsed - time.Duration(timeout)*time.Millisecond; over > slack*time.Millisecond {
				r.violation("describe-returned-late", op, fmt.Sprintf("returned %v after the call, timeout %d ms", o.elapsed, timeout))
			}
			if o.err != nil {
				r.violation("describe-error", op, o.err.Error())
			}
			if len(o.requests) != 1 {
				r.violation("describe-request-count", op, fmt.Sprintf("%d datagrams reached the server", len(o.requests)))
			} else {
				var svc knxnet.Service
				_, err := oracleUnpack(o.requests[0], &svc)
				req, ok := svc.(*knxnet.DescriptionReq)
				if err != nil || !ok {
					r.violation("describe-request-malformed", op, ktext.Hex(o.requests[0]))
				} else {
					want := knxnet.HostInfo{Protocol: knxnet.UDP4, Port: knxnet.Port(o.from.Port)}
					copy(want.Address[:], o.from.IP.To4())
					if req.HostInfo != want {
						r.violation("describe-request-endpoint", op, fmt.Sprintf("advertised %v, the socket's endpoint is %v", req.HostInfo, want))
					}
				}
			}
			if o.from != nil && udpPortBound(o.from.Port) {
				time.Sleep(20 * time.Millisecond)
				if udpPortBound(o.from.Port) {
					r.violation("describe-socket-not-released", op, fmt.Sprintf("local port %d still bound after the return", o.from.Port))
				}
			}
			if n := settleGoroutines(base); n > base {
				r.violation("describe-goroutine-left", op, fmt.Sprintf("%d goroutines after the return, %d before", n, base)+stacks())
				base = n
				leaks++
			}
			if seen[o.text] >= 2 || (try == 0 && len(s) == 0) {
				break
			}
		}
		best := o.text
		for k, v := range seen {
			if v == agree {
				best = k
			}
		}
		r.emit(op, best)
		if want := expectDescribe(timeout, s); want != best && hung < 3 {
			r.violation("describe-wrong-result", op, "returned "+clip(best)+", the first description response that arrived before the timeout is "+clip(want))
		}
		r.classes[fmt.Sprintf("describe-timeout-%dms", timeout)]++
		if best == "none" {
			r.classes["describe-none"]++
		} else {
			r.classes["describe-result"]++
		}
	}
}

// ---- Discover ----

func htons(v uint16) uint16 { return v<<8 | v>>8 }

// sniff counts the search requests leaving the host for group:port (the request is sent with
// multicast loopback off, so no local socket receives it); nil when packet sockets are unavailable
type sniffer struct {
	fd      int
	mu      sync.Mutex
	seen    [][]byte
	stopped bool
	done    chan struct{}
}

func newSniffer(group net.IP, port int) *sniffer {
	fd, err := syscall.Socket(syscall.AF_PACKET, syscall.SOCK_DGRAM, int(htons(syscall.ETH_P_ALL)))
	if err != nil {
		return nil
	}
	syscall.SetsockoptTimeval(fd, syscall.SOL_SOCKET, syscall.SO_RCVTIMEO, &syscall.Timeval{Usec: 10000})
	s := &sniffer{fd: fd, done: make(chan struct{})}
	go func() {
		defer close(s.done)
		defer syscall.Close(fd)
		buf := make([]byte, 4096)
		for {
			s.mu.Lock()
			st := s.stopped
			s.mu.Unlock()
			if st {
				return
			}
			n, from, err := syscall.Recvfrom(fd, buf, 0)
			if err != nil {
				if err == syscall.EAGAIN || err == syscall.EINTR {
					continue
				}
				return
			}
			ll, ok := from.(*syscall.SockaddrLinklayer)
			if !ok || ll.Pkttype != 4 || n < 28 || buf[0]>>4 != 4 || buf[9] != 17 {
				continue
			}
			ihl := int(buf[0]&15) * 4
			if n < ihl+8 || !net.IP(buf[16:20]).Equal(group) {
				continue
			}
			// from the call's own socket (bound to the group's port) to the group's port; the
			// responders of this harness send from ephemeral ports
			if int(buf[ihl+2])<<8|int(buf[ihl+3]) != port || int(buf[ihl])<<8|int(buf[ihl+1]) != port {
				continue
			}
			p := append([]byte(nil), buf[ihl+8:n]...)
			if len(p) >= 4 && p[2] == 2 && p[3] == 1 { // service 0x0201: search request
				s.mu.Lock()
				s.seen = append(s.seen, p)
				s.mu.Unlock()
			}
		}
	}()
	return s
}

func (s *sniffer) close() {
	s.mu.Lock()
	s.stopped = true
	s.mu.Unlock()
	<-s.done
}

func (r *run) discoverOnce(port int, timeout int, s []arrival, nresp int) (string, time.Duration, [][]byte, error, bool) {
	group := net.IPv4(239, 23, 12, byte(1+port%200))
	addr := fmt.Sprintf("%s:%d", group, port)
	sn := newSniffer(group, port)
	if sn != nil {
		defer sn.close()
	}
	// responders: some through the group (looped back), some by unicast to the wildcard-bound port
	var resp []*net.UDPConn
	for i := 0; i < nresp; i++ {
		dst := &net.UDPAddr{IP: group, Port: port}
		if i%3 == 2 {
			dst = &net.UDPAddr{IP: net.IPv4(127, 0, 0, 1), Port: port}
		}
		c, err := net.DialUDP("udp4", nil, dst)
		if err != nil {
			return "", 0, nil, err, false
		}
		defer c.Close()
		resp = append(resp, c)
	}
	stop := make(chan struct{})
	t0 := time.Now()
	k := 0
	go play(s, t0.Add(3*time.Millisecond), stop, func(a arrival) {
		if len(resp) > 0 {
			resp[k%len(resp)].Write(a.data)
			k++
		}
	})
	res, err, _ := discoverBounded(addr, timeout)
	el := time.Since(t0)
	close(stop)
	if err != nil {
		return "", el, nil, err, false
	}
	var parts []string
	for _, x := range res {
		if x == nil {
			parts = append(parts, "nil")
			continue
		}
		parts = append(parts, ktext.Join(ktext.Service(x)))
	}
	parts = append(parts, "end")
	var reqs [][]byte
	if sn != nil {
		// the capture goroutine may lag behind the call (short timeouts, a busy machine): the request
		// counts as not sent only when it has not shown up 300 ms later
		for wait := 0; wait < 150; wait++ {
			time.Sleep(2 * time.Millisecond)
			sn.mu.Lock()
			reqs = sn.seen
			sn.mu.Unlock()
			if len(reqs) > 0 {
				break
			}
		}
		time.Sleep(2 * time.Millisecond) // a second request would follow the first closely
		sn.mu.Lock()
		reqs = sn.seen
		sn.mu.Unlock()
	}
	return strings.Join(parts, " ; "), el, reqs, nil, sn != nil
}

func (r *run) c20discover(budget int) {
	base := quiesce()
	r.c20discoverErrors(base)
	port := 20000 + r.g.R.Intn(20000)
	for i := 0; i < budget && hung < 3 && leaks < 6; i++ {
		port++
		timeout := r.g.Pick(1, 5, 50, 100, 150, 200, 300, 500)
		nresp := r.g.Pick(0, 1, 2, 3, 5, 20)
		s := r.script(timeout, r.searchRes, r.descrRes)
		for j := range s {
			s[j].foreign = false
			s[j].at += 3
		}
		if nresp == 0 {
			s = nil
		}
		op := fmt.Sprintf("disc %d %s", timeout, scriptText(s))
		inflight(op)
		seen := map[string]int{}
		best := ""
		for try := 0; try < 3 && hung < 3; try++ {
			text, el, reqs, err, sniffed := r.discoverOnce(port, timeout, s, nresp)
			if err != nil {
				// no multicast-capable interface: the environment cannot exercise Discover
				r.classes["discover-unavailable: "+err.Error()]++
				return
			}
			seen[text]++
			best = text
			if over := el - time.Duration(timeout)*time.Millisecond; over > slack*time.Millisecond {
				r.violation("discover-returned-late", op, fmt.Sprintf("returned %v after the call, timeout %d ms", el, timeout))
			}
			if el < time.Duration(timeout)*time.Millisecond {
				r.violation("discover-returned-early", op, fmt.Sprintf("returned after %v, timeout %d ms", el, timeout))
			}
			if sniffed {
				r.classes["discover-request-observed"]++
				if len(reqs) != 1 {
					r.violation("discover-request-count", op, fmt.Sprintf("%d search requests left the host", len(reqs)))
				}
			} else {
				r.classes["discover-request-not-observable"]++
			}
			if udpPortBound(port) {
				time.Sleep(20 * time.Millisecond)
				if udpPortBound(port) {
					r.violation("discover-socket-not-released", op, fmt.Sprintf("port %d still bound after the return", port))
				}
			}
			if n := settleGoroutines(base); n > base {
				r.violation("discover-goroutine-left", op, fmt.Sprintf("%d goroutines after the return, %d before", n, base)+stacks())
				base = n
				leaks++
			}
			if seen[text] >= 2 || (try == 0 && len(s) == 0) {
				break
			}
			port++
		}
		r.emit(op, best)
		if want := expectDiscover(timeout, s); want != best && hung < 3 {
			r.violation("discover-wrong-result", op, "returned "+clip(best)+", the search responses that arrived before the timeout are "+clip(want))
		}
		r.classes[fmt.Sprintf("discover-timeout-%dms", timeout)]++
		r.classes[fmt.Sprintf("discover-responders-%d", nresp)]++
	}
}

// openFDs counts this process's open file descriptors
func openFDs() int {
	d, err := os.ReadDir("/proc/self/fd")
	if err != nil {
		return -1
	}
	return len(d)
}

// c20discoverErrors: calls that fail after the socket was opened must release it too
func (r *run) c20discoverErrors(base int) {
	fds := openFDs()
	for i := 0; i < 12; i++ {
		// port 0: the socket opens (kernel-chosen port), the search request cannot be built
		res, err := knx.Discover(fmt.Sprintf("239.23.12.%d:0", 1+i), 20*time.Millisecond)
		if err == nil {
			r.classes["discover-port0-accepted"]++
			_ = res
		} else {
			r.classes["discover-error-path"]++
		}
	}
	// an address that is no multicast group: the socket opens, joining the group fails
	for _, addr := range []string{"127.0.0.1", "0.0.0.0"} {
		port := 42000 + r.g.R.Intn(9000)
		a := fmt.Sprintf("%s:%d", addr, port)
		op := "discover " + a + " x3 (no multicast group: the call fails after the socket was opened)"
		failed := 0
		for i := 0; i < 3; i++ {
			if _, err := knx.Discover(a, 10*time.Millisecond); err != nil {
				failed++
			}
		}
		if failed == 0 {
			r.classes["discover-non-group-accepted"]++
			continue
		}
		r.classes["discover-error-path-join"]++
		time.Sleep(5 * time.Millisecond)
		if udpPortBound(port) {
			r.violation("discover-socket-not-released", op, fmt.Sprintf("port %d still bound after the failed calls returned", port))
		}
	}
	time.Sleep(20 * time.Millisecond)
	if n := settleGoroutines(base); n > base {
		r.violation("discover-goroutine-left", "discover <group>:0 x12 (fails after the socket was opened)", fmt.Sprintf("%d goroutines after the calls, %d before", n, base)+stacks())
	}
	if now := openFDs(); fds >= 0 && now > fds {
		r.violation("discover-socket-not-released", "discover <group>:0 x12 (fails after the socket was opened)", fmt.Sprintf("%d open file descriptors after the calls, %d before", now, fds))
	}
}

// c20discoverFlood: responders keep answering across the end of the discovery time (a device that
// answers late or repeatedly, several devices at once): whatever the receiver of the discovery socket
// is doing at the moment of the timeout, the call returns on time and leaves no goroutine and no
// bound port behind.  (What it returns is not examined here: which responses made it before the
// deadline is not determined.)
func (r *run) c20discoverFlood(rounds int) {
	base := quiesce()
	port := 41000 + r.g.R.Intn(10000)
	for i := 0; i < rounds && hung < 3 && leaks < 6; i++ {
		port++
		timeout := r.g.Pick(10, 20, 30, 50)
		group := net.IPv4(239, 23, 12, byte(1+port%200))
		addr := fmt.Sprintf("%s:%d", group, port)
		op := fmt.Sprintf("discover with responders answering continuously across the deadline (timeout %d ms)", timeout)
		inflight(op)
		c, err := net.DialUDP("udp4", nil, &net.UDPAddr{IP: group, Port: port})
		if err != nil {
			r.classes["discover-unavailable: "+err.Error()]++
			return
		}
		frame := r.searchRes()
		stop := make(chan struct{})
		fdone := make(chan struct{})
		go func() {
			defer close(fdone)
			for k := 0; ; k++ {
				select {
				case <-stop:
					return
				default:
				}
				c.Write(frame)
				if k%8 == 7 {
					time.Sleep(50 * time.Microsecond)
				}
			}
		}()
		t0 := time.Now()
		_, derr, returned := discoverBounded(addr, timeout)
		el := time.Since(t0)
		time.Sleep(5 * time.Millisecond) // the flood goes on for a moment after the return
		close(stop)
		<-fdone
		c.Close()
		if !returned {
			r.violation("discover-hung", op, "no return 3 s after the timeout")
			continue
		}
		if derr != nil {
			r.classes["discover-unavailable: "+derr.Error()]++
			return
		}
		if over := el - time.Duration(timeout)*time.Millisecond; over > slack*time.Millisecond {
			r.violation("discover-returned-late", op, fmt.Sprintf("returned %v after the call", el))
		}
		if udpPortBound(port) {
			time.Sleep(20 * time.Millisecond)
			if udpPortBound(port) {
				r.violation("discover-socket-not-released", op, fmt.Sprintf("port %d still bound after the return", port))
			}
		}
		if n := settleGoroutines(base); n > base {
			r.violation("discover-goroutine-left", op, fmt.Sprintf("%d goroutines after the return, %d before", n, base)+stacks())
			base = quiesce()
		}
		r.classes["discover-flood-across-deadline"]++
	}
}

func (r *run) c20(budget int) {
	r.c20describe(budget * 6 / 10)
	r.c20discover(budget * 4 / 10)
	r.c20discoverFlood(6 + budget/20)
}
