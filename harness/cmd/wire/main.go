// Command wire drives the real knx-go codecs (knxnet, cemi) for the wire-level properties
// C01, C02, C15 and writes, in lock-step, the operation lines for the Lean model driver and the
// implementation's canonical results, plus the direct property oracle's findings.
package main

import (
	"bufio"
	"bytes"
	"encoding/json"
	"flag"
	"fmt"
	"math/rand"
	"os"
	"path/filepath"
	"runtime"
	"sort"
	"strings"
	"time"

	"github.com/vapourismo/knx-go/knx"
	"github.com/vapourismo/knx-go/knx/cemi"
	"github.com/vapourismo/knx-go/knx/knxnet"
	"github.com/vapourismo/knx-go/knx/util"

	"verif/harness/gen"
	"verif/harness/ktext"
)

type finding struct {
	Property string `json:"property"`
	Kind     string `json:"kind"`
	Op       string `json:"op"`
	Detail   string `json:"detail"`
}

type run struct {
	prop     string
	ops      *bufio.Writer
	impl     *bufio.Writer
	findings []finding
	nOps     int
	classes  map[string]int
	samples  []string
	distinct map[string]bool
	hung     int
}

func (r *run) emit(op, out string) {
	fmt.Fprintln(r.ops, op)
	fmt.Fprintln(r.impl, out)
	r.nOps++
	cls := out
	if i := strings.IndexByte(out, ' '); i >= 0 {
		cls = out[:i]
	}
	if len(cls) > 0 && cls[0] >= '0' && cls[0] <= '9' {
		cls = "value"
	}
	r.classes[strings.SplitN(op, " ", 2)[0]+"->"+cls]++
	if len(r.samples) < 12 && r.nOps%997 == 1 {
		s := op + " => " + out
		if len(s) > 300 {
			s = s[:300] + "…"
		}
		r.samples = append(r.samples, s)
	}
}

func (r *run) violation(kind, op, detail string) {
	if len(r.findings) < 200 {
		if len(op) > 4000 {
			op = op[:4000]
		}
		r.findings = append(r.findings, finding{r.prop, kind, op, detail})
	}
}

// ---- tails ----

// tailSpec describes what lies behind a slice's length in its backing array.
type tailSpec struct {
	kind byte // '-', 'f', 'l'
	arg  uint32
	n    int
}

func (t tailSpec) String() string {
	switch t.kind {
	case 'f':
		return fmt.Sprintf("f:%d:%d", t.arg, t.n)
	case 'l':
		return fmt.Sprintf("l:%d:%d", t.arg, t.n)
	}
	return "-"
}

func (t tailSpec) bytes() []byte {
	b := make([]byte, t.n)
	switch t.kind {
	case 'f':
		for i := range b {
			b[i] = byte(t.arg)
		}
	case 'l':
		x := t.arg
		for i := range b {
			x = (x*1103515245 + 12345) & 0x7fffffff
			b[i] = byte(x >> 16)
		}
	}
	return b
}

// withTail returns vis as a slice whose backing array continues with the tail bytes.
func withTail(vis []byte, t tailSpec) []byte {
	if t.kind == '-' {
		out := make([]byte, len(vis))
		copy(out, vis)
		return out[:len(vis):len(vis)]
	}
	tb := t.bytes()
	arr := make([]byte, len(vis)+len(tb))
	copy(arr, vis)
	copy(arr[len(vis):], tb)
	return arr[:len(vis)]
}

// ---- guarded calls ----

type decOut struct {
	class string // ok err panic hang
	n     uint
	toks  []string
	msg   string
}

func (d decOut) String() string {
	if d.class == "ok" {
		return "ok " + fmt.Sprint(d.n) + " " + ktext.Join(d.toks)
	}
	return d.class
}

func guarded(f func() decOut) decOut {
	ch := make(chan decOut, 1)
	go func() {
		defer func() {
			if p := recover(); p != nil {
				ch <- decOut{class: "panic", msg: fmt.Sprint(p)}
			}
		}()
		ch <- f()
	}()
	select {
	case d := <-ch:
		return d
	case <-time.After(3 * time.Second):
		return decOut{class: "hang"}
	}
}

// scribble overwrites the whole backing array of the input (the receiver reuses it for the next
// datagram): a decoded value must not change with it
func scribble(data []byte) {
	full := data[:cap(data)]
	for i := range full {
		full[i] ^= 0xFF
	}
}

func decodeService(data []byte) decOut { return decodeServiceX(data, false) }

func decodeServiceX(data []byte, scrib bool) decOut {
	return guarded(func() decOut {
		var s knxnet.Service
		n, err := knxnet.Unpack(data, &s)
		if err != nil {
			return decOut{class: "err", msg: err.Error()}
		}
		toks := ktext.Service(s)
		if !scrib {
			return decOut{class: "ok", n: n, toks: toks}
		}
		scribble(data)
		if after := ktext.Service(s); ktext.Join(after) != ktext.Join(toks) {
			return decOut{class: "aliased", n: n, msg: "decoded value " + ktext.Join(toks) + " became " + ktext.Join(after) + " when the input buffer was overwritten"}
		}
		return decOut{class: "ok", n: n, toks: toks}
	})
}

func decodeCemi(data []byte) decOut { return decodeCemiX(data, false) }

func decodeCemiX(data []byte, scrib bool) decOut {
	return guarded(func() decOut {
		var m cemi.Message
		n, err := cemi.Unpack(data, &m)
		if err != nil {
			return decOut{class: "err", msg: err.Error()}
		}
		toks := ktext.Cemi(m)
		if !scrib {
			return decOut{class: "ok", n: n, toks: toks}
		}
		scribble(data)
		if after := ktext.Cemi(m); ktext.Join(after) != ktext.Join(toks) {
			return decOut{class: "aliased", n: n, msg: "decoded value " + ktext.Join(toks) + " became " + ktext.Join(after) + " when the input buffer was overwritten"}
		}
		return decOut{class: "ok", n: n, toks: toks}
	})
}

// ---- C01 ----

// quietLog is a log target that formats like a real one and keeps nothing
type quietLog struct{}

func (quietLog) Printf(format string, args ...interface{}) { _ = fmt.Sprintf(format, args...) }

func (r *run) c01Input(kind string, vis []byte, seed uint32) {
	if len(vis) > 1024 {
		vis = vis[:1024]
	}
	tails := []tailSpec{{kind: '-'}, {kind: 'f', arg: 0xAA, n: 300}, {kind: 'l', arg: seed & 0x7fffffff, n: 300}}
	var outs []decOut
	key := kind + ":" + ktext.Hex(vis)
	r.distinct[key] = true
	for ti, t := range tails {
		data := withTail(vis, t)
		var d decOut
		// the third decode of every input runs with a log target installed, as an application that
		// follows the README has one: what the decoders say about a malformed frame is then formatted
		if ti == 2 {
			util.Logger = quietLog{}
		}
		if kind == "dec" {
			d = decodeServiceX(data, true)
		} else {
			d = decodeCemiX(data, true)
		}
		util.Logger = nil
		op := kind + " " + ktext.Hex(vis) + " " + t.String()
		r.emit(op, d.String())
		outs = append(outs, d)
		switch {
		case d.class == "panic":
			r.violation("panic", op, d.msg)
		case d.class == "hang":
			r.hung++
			r.violation("hang", op, "no result within 3s")
		case d.class == "aliased":
			r.violation("decoded-value-aliases-the-input-buffer", op, d.msg)
		case d.class == "ok" && d.n > uint(len(vis)):
			r.violation("consumed-exceeds-input", op, fmt.Sprintf("consumed %d of %d", d.n, len(vis)))
		}
	}
	for i := 1; i < len(outs); i++ {
		if outs[i].String() != outs[0].String() {
			r.violation("depends-on-bytes-beyond-length", kind+" "+ktext.Hex(vis)+" "+tails[i].String(),
				"exact-capacity: "+outs[0].String()+" | with tail: "+outs[i].String())
			break
		}
	}
}

// lengthOffsets returns the positions of embedded length octets of a frame that decoded fine:
// header total length, and every octet of the body (cheap over-approximation: all positions whose
// value equals the number of bytes from there to some later boundary are interesting, but trying
// every position is affordable for short frames).
func perturbations(g *gen.G, frame []byte) [][]byte {
	var out [][]byte
	vals := []int{0, 1, 2, 3, 4, 254, 255}
	limit := len(frame)
	if limit > 80 {
		limit = 80
	}
	for pos := 0; pos < limit; pos++ {
		orig := int(frame[pos])
		cands := append([]int{orig - 1, orig + 1, orig + 2, len(frame) - pos, len(frame) - pos + 1}, vals...)
		// only a sample of positions beyond the first 24 bytes
		if pos >= 24 && g.R.Intn(4) != 0 {
			continue
		}
		for _, v := range cands {
			if v < 0 || v > 255 || v == orig {
				continue
			}
			m := append([]byte(nil), frame...)
			m[pos] = byte(v)
			out = append(out, m)
		}
	}
	return out
}

func (r *run) c01(g *gen.G, budget int) {
	g.Oversize = false
	seed := uint32(g.R.Int31())
	// corpus-like fixed inputs first (the historical defects)
	fixed := [][]byte{
		{6, 16, 2, 6, 0, 7, 1}, // ConnRes with 1 byte
		{6, 16, 2, 6, 0, 6},    // ConnRes empty
		{6, 16, 4, 0x20, 0, 0x0d, 4, 1, 0, 0, 0x11, 200, 1, 2}, // info length 200
		{6, 16, 4, 0x20, 0, 0x0d, 4, 1, 0, 0, 0x11, 4, 1},      // info length 4, 1 present
		{6, 16, 2, 4, 0, 8, 0, 1},                              // DIB length 0
		{6, 16, 2, 4, 0, 8, 1, 1},                              // DIB length 1
		{6, 16, 2, 4, 0, 9, 3, 3, 9},                           // DIB length 3 (unparsed type)
		{6, 16, 2, 4, 0, 12, 6, 1, 0, 0, 0, 0},                 // short device info
		{6, 16, 2, 4, 0, 36, 30, 1, 0, 0, 0, 0, 0, 0, 0, 0, 0, 0, 0, 0, 0, 0, 0, 0, 0, 0, 0, 0, 0, 0, 0, 0, 0, 0, 0, 0}, // device info of 30 bytes
		{6, 16, 5, 0x30, 0, 17, 0x29, 0, 0xbc, 0xe0, 0x11, 1, 9, 2, 9, 0, 0x80},                                         // TPDU length 9, 1 byte present
		{6, 16, 2, 4, 0, 10, 4, 2, 1, 2},                     // services DIB
		{6, 16, 2, 2, 0, 16, 8, 1, 1, 2, 3, 4, 0, 5, 200, 1}, // search res truncated
	}
	for _, f := range fixed {
		r.c01Input("dec", f, seed)
	}
	// device information blocks whose 30-octet name field carries no terminator, or is all terminators,
	// or has text behind the first terminator (a description and a search response each)
	for _, kind := range []int{3, 1} {
		base := knxnet.AllocAndPack(g.Service(kind))
		off := 30
		if kind == 1 {
			off = 38
		}
		if len(base) < off+30 {
			continue
		}
		for variant := 0; variant < 4; variant++ {
			f := append([]byte(nil), base...)
			for i := 0; i < 30; i++ {
				switch variant {
				case 0:
					f[off+i] = byte(0x41 + i%26) // no NUL at all
				case 1:
					f[off+i] = 0
				case 2:
					f[off+i] = byte(0xC0 + i) // Latin-1 letters, no NUL
				default:
					f[off+i] = byte(0x61 + i%26)
					if i == 7 {
						f[off+i] = 0 // text behind the first terminator
					}
				}
			}
			r.c01Input("dec", f, seed)
		}
	}
	r.c01Input("decc", []byte{0x11, 200, 1, 2}, seed)
	r.c01Input("decc", []byte{0x29, 0, 0xbc, 0xe0, 0x11, 1, 9, 2, 9, 0, 0x80}, seed)
	for r.nOps < budget {
		// a valid frame
		var frame []byte
		switch g.R.Intn(20) {
		case 0:
			frame = g.RoutingLostFrame()
		case 1:
			frame = g.RoutingBusyFrame()
		case 2, 3, 4:
			frame = g.DescrResFrameWithUnknown()
		default:
			frame = knxnet.AllocAndPack(g.Service(-1))
		}
		if len(frame) > 700 && g.R.Intn(4) != 0 {
			continue
		}
		r.c01Input("dec", frame, seed)
		// every truncation (sampled for long frames)
		for cut := 0; cut < len(frame); cut++ {
			if len(frame) > 60 && cut > 40 && g.R.Intn(8) != 0 {
				continue
			}
			r.c01Input("dec", frame[:cut], seed)
		}
		// length-octet perturbations
		for _, m := range perturbations(g, frame) {
			r.c01Input("dec", m, seed)
			if g.R.Intn(6) == 0 && len(m) > 8 {
				r.c01Input("dec", m[:6+g.R.Intn(len(m)-6)], seed)
			}
		}
		// trailing garbage appended within the datagram
		r.c01Input("dec", append(append([]byte(nil), frame...), g.Bytes(g.Pick(1, 2, 5))...), seed)
		// cEMI decoder directly
		cm := g.Cemi(-1)
		cb := make([]byte, cemi.Size(cm))
		cemi.Pack(cb, cm)
		r.c01Input("decc", cb, seed)
		for cut := 0; cut < len(cb) && cut < 24; cut++ {
			r.c01Input("decc", cb[:cut], seed)
		}
		for _, m := range perturbations(g, cb) {
			if g.R.Intn(3) == 0 {
				r.c01Input("decc", m, seed)
			}
		}
		// uniform random strings
		for i := 0; i < 6; i++ {
			b := g.Bytes(g.R.Intn(65))
			if g.R.Intn(2) == 0 && len(b) >= 6 {
				b[0], b[1] = 6, 16
				ids := []uint16{0x201, 0x202, 0x203, 0x204, 0x205, 0x206, 0x207, 0x208, 0x209, 0x20a, 0x420, 0x421, 0x530, 0x531, 0x532}
				id := ids[g.R.Intn(len(ids))]
				b[2], b[3] = byte(id>>8), byte(id)
			}
			r.c01Input("dec", b, seed)
		}
	}
}

// ---- C02 ----

func packFrame(v knxnet.ServicePackable) (out []byte, msg string) {
	defer func() {
		if p := recover(); p != nil {
			out, msg = nil, fmt.Sprint(p)
		}
	}()
	return knxnet.AllocAndPack(v), ""
}

func (r *run) c02Value(v knxnet.ServicePackable) {
	toks := ktext.Join(ktext.Service(v))
	r.distinct[toks] = true
	op := "enc " + toks
	frame, msg := packFrame(v)
	if frame == nil {
		r.emit(op, "panic")
		r.violation("encode-panics", op, msg)
		return
	}
	r.emit(op, "ok "+ktext.Hex(frame))
	d := decodeService(withTail(frame, tailSpec{kind: '-'}))
	op2 := "dec " + ktext.Hex(frame) + " -"
	r.emit(op2, d.String())
	want := uint(len(frame))
	if cr, ok := v.(*knxnet.ConnRes); ok && cr.Status == 0 {
		want -= 4 // the CRD behind the control endpoint is not read by the decoder
	}
	switch {
	case d.class != "ok":
		r.violation("encoded-frame-not-accepted", op, "decode of "+ktext.Hex(frame)+": "+d.class+" "+d.msg)
	case ktext.Join(d.toks) != toks:
		r.violation("roundtrip-differs", op, "decoded "+ktext.Join(d.toks))
	case d.n != want:
		r.violation("roundtrip-consumed", op, fmt.Sprintf("consumed %d of %d", d.n, len(frame)))
	}
}

func canonicalTPDU(t cemi.TransportUnit) bool {
	switch t := t.(type) {
	case *cemi.AppData:
		return t.Numbered || t.SeqNumber == 0
	case *cemi.ControlData:
		return t.Numbered || t.SeqNumber == 0
	}
	return true
}

func canonicalCemi(m cemi.Message) bool {
	switch m := m.(type) {
	case *cemi.LDataReq:
		return canonicalTPDU(m.Data)
	case *cemi.LDataCon:
		return canonicalTPDU(m.Data)
	case *cemi.LDataInd:
		return canonicalTPDU(m.Data)
	}
	return true
}

// canonical says whether a decoded value has its reserved bits zero: unnumbered transport units
// carry sequence 0, a friendly name is NUL-terminated within its 30-octet field.
func canonical(s knxnet.Service) bool {
	switch s := s.(type) {
	case *knxnet.TunnelReq:
		return canonicalCemi(s.Payload)
	case *knxnet.RoutingInd:
		return canonicalCemi(s.Payload)
	case *knxnet.SearchRes:
		return len([]rune(s.DescriptionB.DeviceHardware.FriendlyName)) <= 29
	case *knxnet.DescriptionRes:
		return len([]rune(s.DeviceHardware.FriendlyName)) <= 29
	}
	return true
}

// relay: decode → encode → decode must be stable for accepted frames of packable types.
func (r *run) c02Relay(frame []byte) {
	d := guarded(func() decOut {
		var s knxnet.Service
		n, err := knxnet.Unpack(frame, &s)
		if err != nil {
			return decOut{class: "err"}
		}
		sp, ok := s.(knxnet.ServicePackable)
		if !ok {
			return decOut{class: "err"}
		}
		if dr, ok := s.(*knxnet.DescriptionRes); ok && len(dr.UnknownBlocks) > 0 {
			return decOut{class: "err"} // the library has no encoder for unknown blocks
		}
		if !canonical(s) {
			return decOut{class: "err"} // reserved bits set
		}
		f2 := knxnet.AllocAndPack(sp)
		var s2 knxnet.Service
		_, err = knxnet.Unpack(f2, &s2)
		if err != nil {
			return decOut{class: "relay-rejected", msg: ktext.Hex(f2) + ": " + err.Error(), n: n}
		}
		a, b := ktext.Join(ktext.Service(s)), ktext.Join(ktext.Service(s2))
		if a != b {
			return decOut{class: "relay-differs", msg: a + " | " + b}
		}
		return decOut{class: "ok", n: n, toks: ktext.Service(s)}
	})
	op := "dec " + ktext.Hex(frame) + " -"
	switch d.class {
	case "ok":
		r.emit(op, d.String())
		r.distinct["relay:"+ktext.Hex(frame)] = true
	case "err":
	default:
		r.violation(d.class, op, d.msg)
	}
}

func (r *run) c02(g *gen.G, budget int) {
	g.Oversize = false
	// all service kinds × all cEMI kinds first
	for k := 0; k < gen.NumServiceKinds; k++ {
		for i := 0; i < 4; i++ {
			r.c02Value(g.Service(k))
		}
	}
	for ck := 0; ck < 8; ck++ {
		for i := 0; i < 6; i++ {
			r.c02Value(&knxnet.TunnelReq{Channel: g.Byte(), SeqNumber: g.Byte(), Payload: g.Cemi(ck)})
			r.c02Value(&knxnet.RoutingInd{Payload: g.Cemi(ck)})
		}
	}
	for r.nOps < budget {
		v := g.Service(-1)
		r.c02Value(v)
		if g.R.Intn(3) == 0 {
			frame, _ := packFrame(g.Service(-1))
			if frame != nil {
				// reserved / ignored bits set, trailing bytes etc.: accepted strings that are not
				// images of the encoder
				m := append([]byte(nil), frame...)
				if len(m) > 8 {
					m[6+g.R.Intn(len(m)-6)] = g.Byte()
				}
				r.c02Relay(m)
			}
			r.c02Relay(g.DescrResFrameWithUnknown())
		}
	}
}

// ---- C15 ----

type packFn func(buf []byte)

// packInto runs pack on three pre-filled buffers of size+guard bytes.
func packInto(size uint, pack packFn, rnd *rand.Rand) (class string, written []byte, detail string) {
	const guard = 16
	fills := []func(i int) byte{
		func(int) byte { return 0x00 },
		func(int) byte { return 0xFF },
		func(int) byte { return byte(rnd.Intn(256)) },
	}
	var results [][]byte
	for fi, fill := range fills {
		arr := make([]byte, int(size)+guard)
		for i := range arr {
			arr[i] = fill(i)
		}
		before := append([]byte(nil), arr...)
		var pmsg string
		done := make(chan struct{})
		go func() {
			defer close(done)
			defer func() {
				if p := recover(); p != nil {
					pmsg = fmt.Sprint(p)
				}
			}()
			// the encoder sees a slice of exactly `size` bytes whose capacity continues into the
			// guard area, like a sub-slice of a larger datagram buffer
			pack(arr[:size])
		}()
		select {
		case <-done:
		case <-time.After(3 * time.Second):
			return "hang", nil, ""
		}
		if pmsg != "" {
			return "panic", nil, pmsg
		}
		if !bytes.Equal(arr[size:], before[size:]) {
			return "overrun", nil, fmt.Sprintf("prefill %d: bytes beyond the reported size %d were modified", fi, size)
		}
		results = append(results, append([]byte(nil), arr[:size]...))
	}
	for i := 1; i < len(results); i++ {
		if !bytes.Equal(results[i], results[0]) {
			return "differ", nil, fmt.Sprintf("prefill 0: %s | prefill %d: %s", ktext.Hex(results[0]), i, ktext.Hex(results[i]))
		}
	}
	return "ok", results[0], ""
}

func (r *run) c15Body(g *gen.G, v knxnet.ServicePackable) {
	toks := ktext.Join(ktext.Service(v))
	r.distinct[toks] = true
	op := "encb " + toks
	var size uint
	func() {
		defer func() {
			if p := recover(); p != nil {
				size = 1 << 30
			}
		}()
		size = v.Size()
	}()
	if size == 1<<30 {
		r.emit(op, "panic")
		r.violation("size-panics", op, "")
		return
	}
	r.c15Parts(g, op, serviceParts(v)...)
	class, written, detail := packInto(size, v.Pack, g.R)
	if class != "ok" {
		r.emit(op, class)
		r.violation("pack-"+class, op, detail)
		return
	}
	r.emit(op, fmt.Sprintf("ok %d %s", size, ktext.Hex(written)))
	// the framed datagram
	if size+6 < 1<<16 {
		fsize := knxnet.Size(v)
		class, fw, detail := packInto(fsize, func(b []byte) { knxnet.Pack(b, v) }, g.R)
		op2 := "enc " + toks
		if class != "ok" {
			r.emit(op2, class)
			r.violation("frame-pack-"+class, op2, detail)
			return
		}
		r.emit(op2, "ok "+ktext.Hex(fw))
		if got := uint(fw[4])<<8 | uint(fw[5]); got != size+6 || uint(len(fw)) != size+6 {
			r.violation("header-length", op2, fmt.Sprintf("header says %d, body size %d, datagram %d", got, size, len(fw)))
		}
		// the same frame packed at the front of a longer buffer (a reused scratch buffer, a stream
		// buffer): same bytes, same header, nothing behind the frame touched
		long := make([]byte, int(fsize)+24)
		for i := range long {
			long[i] = 0xA5
		}
		if d := guarded(func() decOut { knxnet.Pack(long, v); return decOut{class: "ok"} }); d.class != "ok" {
			r.emit("encw f:165:"+fmt.Sprint(len(long))+" "+toks, d.class)
			r.violation("frame-pack-longer-buffer-"+d.class, op2, d.msg)
		} else {
			// the whole buffer, old content included, against the buffer-writing model
			r.emit("encw f:165:"+fmt.Sprint(len(long))+" "+toks, "ok "+ktext.Hex(long))
			// and a pseudo-random old content (same generator in the model driver)
			spec := tailSpec{kind: 'l', arg: uint32(g.R.Int31()), n: int(fsize) + g.R.Intn(9)}
			rb := spec.bytes()
			opw := "encw " + spec.String() + " " + toks
			if d := guarded(func() decOut { knxnet.Pack(rb, v); return decOut{class: "ok"} }); d.class != "ok" {
				r.emit(opw, d.class)
				r.violation("frame-pack-random-prefill-"+d.class, opw, d.msg)
			} else {
				r.emit(opw, "ok "+ktext.Hex(rb))
				if !bytes.Equal(rb[:fsize], fw) {
					r.violation("frame-depends-on-old-content", opw, "frame "+ktext.Hex(rb[:fsize])+" vs "+ktext.Hex(fw))
				}
			}
			if !bytes.Equal(long[:fsize], fw) {
				r.violation("frame-depends-on-buffer-length", op2, fmt.Sprintf("packed into a buffer of %d bytes the frame is %s, into one of exactly %d bytes it is %s", len(long), ktext.Hex(long[:fsize]), fsize, ktext.Hex(fw)))
			}
			for _, b := range long[fsize:] {
				if b != 0xA5 {
					r.violation("frame-pack-overrun", op2, "bytes behind the frame were modified in a longer buffer")
					break
				}
			}
		}
	}
}

// sized is every sub-structure with its own Size()/Pack(): each must keep the contract on its own,
// a frame-level total can hide a sub-structure that writes past what it reports (its neighbour
// then overwrites the excess)
type sized interface {
	Size() uint
	Pack([]byte)
}

func (r *run) c15Parts(g *gen.G, what string, parts ...sized) {
	for _, p := range parts {
		if p == nil {
			continue
		}
		name := fmt.Sprintf("%T", p)
		var size uint
		ok := func() (ok bool) {
			defer func() { ok = recover() == nil }()
			size = p.Size()
			return
		}()
		if !ok {
			r.violation("part-size-panics", what, name)
			continue
		}
		class, _, detail := packInto(size, p.Pack, g.R)
		r.classes["part "+name+"->"+class]++
		if class != "ok" {
			r.violation("part-pack-"+class, what, name+" with Size() "+fmt.Sprint(size)+": "+detail)
		}
	}
}

func ldataParts(l *cemi.LData) []sized {
	out := []sized{l.Info, l}
	switch d := l.Data.(type) {
	case *cemi.AppData:
		out = append(out, d)
	case *cemi.ControlData:
		out = append(out, d)
	}
	return out
}

func cemiParts(m cemi.Message) []sized {
	switch m := m.(type) {
	case *cemi.LDataReq:
		return ldataParts(&m.LData)
	case *cemi.LDataCon:
		return ldataParts(&m.LData)
	case *cemi.LDataInd:
		return ldataParts(&m.LData)
	}
	return nil
}

func serviceParts(v knxnet.ServicePackable) []sized {
	switch v := v.(type) {
	case *knxnet.SearchReq:
		return []sized{&v.HostInfo}
	case *knxnet.DescriptionReq:
		return []sized{&v.HostInfo}
	case *knxnet.SearchRes:
		return []sized{&v.Control, &v.DescriptionB.DeviceHardware, &v.DescriptionB.SupportedServices}
	case *knxnet.DescriptionRes:
		return []sized{&v.DeviceHardware, &v.SupportedServices}
	case *knxnet.ConnReq:
		return []sized{&v.Control, &v.Tunnel}
	case *knxnet.ConnRes:
		return []sized{&v.Control}
	case *knxnet.ConnStateReq:
		return []sized{&v.Control}
	case *knxnet.DiscReq:
		return []sized{&v.Control}
	case *knxnet.TunnelReq:
		return cemiParts(v.Payload)
	case *knxnet.RoutingInd:
		return cemiParts(v.Payload)
	}
	return nil
}

func (r *run) c15Cemi(g *gen.G, m cemi.Message) {
	toks := ktext.Join(ktext.Cemi(m))
	r.distinct[toks] = true
	op := "encc " + toks
	size := cemi.Size(m)
	r.c15Parts(g, op, cemiParts(m)...)
	class, written, detail := packInto(size, func(b []byte) { cemi.Pack(b, m) }, g.R)
	if class != "ok" {
		r.emit(op, class)
		r.violation("cemi-pack-"+class, op, detail)
		return
	}
	r.emit(op, fmt.Sprintf("ok %d %s", size, ktext.Hex(written)))
}

// c15Oversize: one variable part of an otherwise encodable value is made longer than its protocol
// field; the frame must still decode, and every OTHER field must come back as it was (the part is
// truncated, its neighbours are not corrupted)
func (r *run) c15Oversize(g *gen.G) {
	g.Oversize = false
	v := g.Service(g.Pick(10, 12, 1, 3)) // tunnelling request, routing indication, search / description response
	if !canonical(v.(knxnet.Service)) {
		return
	}
	long := g.Bytes(256 + g.R.Intn(345))
	blank := func(s knxnet.Service) string {
		var l *cemi.LData
		switch s := s.(type) {
		case *knxnet.TunnelReq:
			l = ldataOf(s.Payload)
		case *knxnet.RoutingInd:
			l = ldataOf(s.Payload)
		case *knxnet.SearchRes:
			c := *s
			c.DescriptionB.DeviceHardware.FriendlyName = ""
			return ktext.Join(ktext.Service(&c))
		case *knxnet.DescriptionRes:
			c := *s
			c.DeviceHardware.FriendlyName = ""
			return ktext.Join(ktext.Service(&c))
		}
		if l == nil {
			return ktext.Join(ktext.Service(s))
		}
		saveI, saveD := l.Info, l.Data
		l.Info = nil
		if a, ok := l.Data.(*cemi.AppData); ok {
			c := *a
			c.Data = []byte{0}
			l.Data = &c
		}
		t := ktext.Join(ktext.Service(s))
		l.Info, l.Data = saveI, saveD
		return t
	}
	want := blank(v.(knxnet.Service))
	what := ""
	switch s := v.(type) {
	case *knxnet.TunnelReq, *knxnet.RoutingInd:
		var l *cemi.LData
		if t, ok := s.(*knxnet.TunnelReq); ok {
			l = ldataOf(t.Payload)
		} else {
			l = ldataOf(s.(*knxnet.RoutingInd).Payload)
		}
		if l == nil {
			return
		}
		if a, ok := l.Data.(*cemi.AppData); ok && g.R.Intn(2) == 0 {
			a.Data = long
			what = fmt.Sprintf("application data of %d bytes", len(long))
		} else {
			l.Info = cemi.Info(long)
			what = fmt.Sprintf("additional info of %d bytes", len(long))
		}
	case *knxnet.SearchRes:
		s.DescriptionB.DeviceHardware.FriendlyName = strings.Repeat("n", 30+g.R.Intn(51))
		what = "friendly name of 30..80 characters"
	case *knxnet.DescriptionRes:
		s.DeviceHardware.FriendlyName = strings.Repeat("n", 30+g.R.Intn(51))
		what = "friendly name of 30..80 characters"
	}
	op := "oversize " + what + " in " + want
	r.classes["oversize: "+strings.Fields(what)[0]+" "+strings.Fields(what)[1]]++
	d := guarded(func() decOut {
		frame := knxnet.AllocAndPack(v)
		var back knxnet.Service
		if _, err := knxnet.Unpack(frame, &back); err != nil {
			return decOut{class: "rejected", msg: err.Error() + " " + ktext.Hex(frame)}
		}
		if got := blank(back); got != want {
			return decOut{class: "neighbours-corrupted", msg: "decodes to " + got}
		}
		return decOut{class: "ok"}
	})
	if d.class != "ok" {
		r.violation("oversize-"+d.class, op, d.msg)
	}
}

func ldataOf(m cemi.Message) *cemi.LData {
	switch m := m.(type) {
	case *cemi.LDataReq:
		return &m.LData
	case *cemi.LDataCon:
		return &m.LData
	case *cemi.LDataInd:
		return &m.LData
	}
	return nil
}

func (r *run) c15(g *gen.G, budget int) {
	for k := 0; k < gen.NumServiceKinds; k++ {
		for _, ov := range []bool{false, true} {
			g.Oversize = ov
			for i := 0; i < 6; i++ {
				r.c15Body(g, g.Service(k))
			}
		}
	}
	for r.nOps < budget {
		g.Oversize = g.R.Intn(2) == 0
		r.c15Body(g, g.Service(-1))
		g.Oversize = g.R.Intn(2) == 0
		r.c15Cemi(g, g.Cemi(-1))
		if r.nOps%2 == 0 {
			r.c15Oversize(g)
		}
	}
	// util.PackString directly
	_ = util.PackString
}

// ---- C11 ----

// bitWriter assembles octets most-significant bit first: an independent rendering of the layout
// tables of the KNX specification.
type bitWriter struct {
	out  []byte
	cur  uint
	nbit uint
}

func (w *bitWriter) put(v uint, width uint) {
	for i := int(width) - 1; i >= 0; i-- {
		w.cur = w.cur<<1 | (v>>uint(i))&1
		w.nbit++
		if w.nbit == 8 {
			w.out = append(w.out, byte(w.cur))
			w.cur, w.nbit = 0, 0
		}
	}
}

func (w *bitWriter) bytes(b []byte) {
	for _, x := range b {
		w.put(uint(x), 8)
	}
}

func b2u(b bool) uint {
	if b {
		return 1
	}
	return 0
}

// specLData renders an L_Data frame from its fields according to the specification.
func specLData(code uint8, l *cemi.LData) []byte {
	w := &bitWriter{}
	w.put(uint(code), 8)
	w.put(uint(len(l.Info)), 8)
	w.bytes(l.Info)
	w.put(uint(l.Control1), 8)
	w.put(uint(l.Control2), 8)
	w.put(uint(l.Source), 16)
	w.put(uint(l.Destination), 16)
	switch t := l.Data.(type) {
	case *cemi.AppData:
		w.put(uint(len(t.Data)), 8)
		w.put(0, 1)
		w.put(b2u(t.Numbered), 1)
		w.put(uint(seqOnWire(t.Numbered, t.SeqNumber)), 4)
		w.put(uint(t.Command), 4)    // APCI: high two bits end the TPCI octet, low two start the next
		w.put(uint(t.Data[0])&63, 6) // only six bits of the first data octet exist on the wire
		w.bytes(t.Data[1:])
	case *cemi.ControlData:
		w.put(0, 8)
		w.put(1, 1)
		w.put(b2u(t.Numbered), 1)
		w.put(uint(seqOnWire(t.Numbered, t.SeqNumber)), 4)
		w.put(uint(t.Command), 2)
	}
	return w.out
}

// seqOnWire: the four sequence bits of the transport-control octet; an unnumbered unit has no sequence
// number, its bits are reserved zeros whatever the value's field holds
func seqOnWire(numbered bool, seq uint8) uint8 {
	if !numbered {
		return 0
	}
	return seq & 15
}

func (r *run) c11Frame(m cemi.Message, l *cemi.LData) {
	toks := ktext.Join(ktext.Cemi(m))
	r.distinct[toks] = true
	op := "encc " + toks
	size := cemi.Size(m)
	buf := make([]byte, size)
	var pmsg string
	func() {
		defer func() {
			if p := recover(); p != nil {
				pmsg = fmt.Sprint(p)
			}
		}()
		cemi.Pack(buf, m)
	}()
	if pmsg != "" {
		r.emit(op, "panic")
		r.violation("pack-panic", op, pmsg)
		return
	}
	r.emit(op, fmt.Sprintf("ok %d %s", size, ktext.Hex(buf)))
	want := specLData(uint8(m.MessageCode()), l)
	if !bytes.Equal(buf, want) {
		r.violation("layout-encode", op, "specified layout "+ktext.Hex(want)+" | encoder wrote "+ktext.Hex(buf))
	} else {
		// the layout is what the encoder WRITES, not what a zeroed buffer happens to hold: the same
		// message into a buffer that held something else before
		used := make([]byte, size)
		for i := range used {
			used[i] = 0xA5
		}
		if d := guarded(func() decOut { cemi.Pack(used, m); return decOut{class: "ok"} }); d.class == "ok" && !bytes.Equal(used, want) {
			r.violation("layout-encode", op, "into a buffer that held 0xA5 octets before: specified layout "+ktext.Hex(want)+" | buffer afterwards "+ktext.Hex(used))
		}
	}
	d := decodeCemi(want)
	op2 := "decc " + ktext.Hex(want) + " -"
	r.emit(op2, d.String())
	// what the frame carries: the first data octet has six bits on the wire, the sequence field four
	// (none when the unit is unnumbered)
	wantToks := toks
	switch a := l.Data.(type) {
	case *cemi.AppData:
		if len(a.Data) > 0 {
			save, sq := a.Data[0], a.SeqNumber
			a.Data[0] &= 63
			a.SeqNumber = seqOnWire(a.Numbered, sq)
			wantToks = ktext.Join(ktext.Cemi(m))
			a.Data[0], a.SeqNumber = save, sq
		}
	case *cemi.ControlData:
		sq := a.SeqNumber
		a.SeqNumber = seqOnWire(a.Numbered, sq)
		wantToks = ktext.Join(ktext.Cemi(m))
		a.SeqNumber = sq
	}
	if d.class != "ok" || ktext.Join(d.toks) != wantToks {
		r.violation("layout-decode", op2, "fields "+wantToks+" | decoder extracted "+d.String())
	}
}

func (r *run) c11(g *gen.G, budget int) {
	g.Oversize = false
	mk := func(kind int, l cemi.LData) (cemi.Message, *cemi.LData) {
		switch kind % 3 {
		case 0:
			m := &cemi.LDataReq{LData: l}
			return m, &m.LData
		case 1:
			m := &cemi.LDataCon{LData: l}
			return m, &m.LData
		}
		m := &cemi.LDataInd{LData: l}
		return m, &m.LData
	}
	// all 2^16 pairs of control octets (sampled down when the budget is small)
	step := 1
	if budget < 140000 {
		step = 65536*2/budget + 1
	}
	off := g.R.Intn(step)
	for p := off; p < 65536; p += step {
		l := g.LData()
		l.Control1 = cemi.ControlField1(p >> 8)
		l.Control2 = cemi.ControlField2(p)
		if len(l.Info) > 20 {
			l.Info = l.Info[:g.R.Intn(20)]
		}
		if a, ok := l.Data.(*cemi.AppData); ok && len(a.Data) > 20 {
			a.Data = a.Data[:1+g.R.Intn(19)]
		}
		m, lp := mk(p, l)
		r.c11Frame(m, lp)
	}
	// decoding "from any such layout": every value of the transport-control octet in a hand-made
	// L_Data.ind, control units and data units, also the layouts the encoder never produces (sequence
	// bits in an unnumbered unit): the decoder extracts the four bits whatever the numbered flag says
	{
		seed := uint32(g.R.Int31())
		// what the specification's layout says the frame holds, written as arithmetic on the octets
		expect := func(frame []byte, unit cemi.TransportUnit) {
			want := ktext.Join(ktext.Cemi(&cemi.LDataInd{LData: cemi.LData{Control1: 0xbc, Control2: 0xe0, Source: 0x1101, Destination: 0x0902, Data: unit}}))
			d := decodeCemiX(frame, true)
			if got := ktext.Join(d.toks); d.class != "ok" || got != want {
				r.violation("decoded-fields-differ-from-layout", "decc "+ktext.Hex(frame), "the layout holds "+want+"; decoded "+d.class+" "+got)
			}
		}
		for tc := 0; tc < 256; tc++ {
			base := []byte{0x29, 0, 0xbc, 0xe0, 0x11, 0x01, 0x09, 0x02}
			numbered, seq := tc&0x40 != 0, uint8(tc>>2)&15
			if tc&0x80 != 0 {
				f := append(append([]byte(nil), base...), 0, byte(tc))
				r.c01Input("decc", f, seed)
				expect(f, &cemi.ControlData{Numbered: numbered, SeqNumber: seq, Command: uint8(tc & 3)})
				continue
			}
			for _, b2 := range []byte{0x00, 0x40, 0x81, 0xff} {
				f := append(append([]byte(nil), base...), 1, byte(tc), b2)
				r.c01Input("decc", f, seed)
				expect(f, &cemi.AppData{Numbered: numbered, SeqNumber: seq, Command: cemi.APCI(uint8(tc&3)<<2 | b2>>6), Data: []byte{b2 & 63}})
			}
			f := append(append([]byte(nil), base...), 3, byte(tc), byte(g.R.Intn(256)), g.Byte(), g.Byte())
			r.c01Input("decc", f, seed)
			expect(f, &cemi.AppData{Numbered: numbered, SeqNumber: seq, Command: cemi.APCI(uint8(tc&3)<<2 | f[10]>>6), Data: []byte{f[10] & 63, f[11], f[12]}})
		}
	}
	// all APCI x seq x numbered x control/data combinations
	for apci := 0; apci < 16; apci++ {
		for seq := 0; seq < 16; seq++ {
			for nb := 0; nb < 2; nb++ {
				l := g.LData()
				l.Info = nil
				l.Data = &cemi.AppData{Numbered: nb == 1, SeqNumber: uint8(seq), Command: cemi.APCI(apci), Data: []byte{uint8(g.R.Intn(64))}}
				m, lp := mk(apci+seq, l)
				r.c11Frame(m, lp)
				if apci < 4 {
					l2 := g.LData()
					l2.Data = &cemi.ControlData{Numbered: nb == 1, SeqNumber: uint8(seq), Command: uint8(apci)}
					m2, lp2 := mk(apci+seq+1, l2)
					r.c11Frame(m2, lp2)
				}
			}
		}
	}
	// every APCI x every value of the first data octet (its two high bits do not exist on the wire:
	// they must not leak into the APCI field)
	for apci := 0; apci < 16; apci++ {
		for d0 := 0; d0 < 256; d0++ {
			l := g.LData()
			l.Info = nil
			l.Data = &cemi.AppData{Command: cemi.APCI(apci), Data: append([]byte{uint8(d0)}, g.Bytes(g.R.Intn(3))...)}
			m, lp := mk(apci+d0, l)
			r.c11Frame(m, lp)
		}
	}
	// payload lengths 1..254, info lengths 0..255, corner addresses
	for n := 1; n <= 255; n++ {
		l := g.LData()
		l.Info = cemi.Info(g.Bytes(n))
		dn := n
		if n == 255 {
			// the longest additional-info block; the payload stays within its own 1..254
			dn = 254
			r.classes["info-length-255"]++
		}
		d := g.Bytes(dn)
		d[0] &= 63
		l.Data = &cemi.AppData{Numbered: true, SeqNumber: uint8(n % 16), Command: cemi.APCI(n % 16), Data: d}
		l.Source = cemi.IndividualAddr([]uint16{0, 1, 0x1101, 0x7fff, 0x8000, 0xffff}[n%6])
		l.Destination = []uint16{0, 1, 0x0902, 0x7fff, 0x8000, 0xffff}[(n/6)%6]
		m, lp := mk(n, l)
		r.c11Frame(m, lp)
	}
	// decoding extracts the fields of THIS layout whatever the receiving value held before: the same
	// LData value decodes a frame with additional info / long data, then a frame without
	for i := 0; i < 300; i++ {
		la, lb := g.LData(), g.LData()
		if len(la.Info) == 0 {
			la.Info = cemi.Info(g.Bytes(1 + g.R.Intn(8)))
		}
		if i%2 == 0 {
			lb.Info = nil
		}
		if i%3 == 0 {
			lb.Data = &cemi.ControlData{Command: uint8(g.R.Intn(4))}
		}
		wa, wb := specLData(0x29, &la), specLData(0x29, &lb)
		var reused cemi.LDataInd
		fresh := decodeCemi(wb)
		out := guarded(func() decOut {
			if _, err := reused.Unpack(wa[1:]); err != nil {
				return decOut{class: "err"}
			}
			if _, err := reused.Unpack(wb[1:]); err != nil {
				return decOut{class: "err"}
			}
			return decOut{class: "ok", toks: ktext.Cemi(&reused)}
		})
		r.classes["decode-into-used-value"]++
		if fresh.class == "ok" && (out.class != "ok" || ktext.Join(out.toks) != ktext.Join(fresh.toks)) {
			r.violation("layout-decode", "decc "+ktext.Hex(wb)+" - into a value that had decoded "+ktext.Hex(wa)+" before",
				"a fresh value yields "+fresh.String()+" | the used value yields "+out.String())
		}
	}
	for r.nOps < budget {
		l := g.LData()
		m, lp := mk(g.R.Intn(3), l)
		r.c11Frame(m, lp)
	}
}

func min7(h int) int {
	if h > 7 {
		return 7
	}
	return h
}

// c11h: the flag constructors / accessors and the address constructors over their whole domains,
// against arithmetic written from the specification (no shifts or masks of the code reused).
func (r *run) c11h(g *gen.G, budget int) {
	u := func(n interface{}) string { return fmt.Sprint(n) }
	chk := func(op string, got, want int, what string) {
		r.emit(op, u(got))
		r.distinct[op] = true
		if got != want {
			r.violation("helper-"+what, op, fmt.Sprintf("specification says %d, the function returned %d", want, got))
		}
	}
	// the exported flag, priority and group-command constants against the layout of the specification
	// (control field 1: bit 7 frame format, 5 repeat, 4 broadcast, 1 acknowledge request, 0 error;
	// control field 2: bit 7 address type, low nibble extended format)
	for _, c := range []struct {
		name      string
		got, want int
	}{
		{"Control1StdFrame", int(cemi.Control1StdFrame), 128}, {"Control1NoRepeat", int(cemi.Control1NoRepeat), 32},
		{"Control1NoSysBroadcast", int(cemi.Control1NoSysBroadcast), 16}, {"Control1WantAck", int(cemi.Control1WantAck), 2},
		{"Control1HasError", int(cemi.Control1HasError), 1}, {"Control2GroupAddr", int(cemi.Control2GroupAddr), 128},
		{"Control2LTEFrame", int(cemi.Control2LTEFrame), 4}, {"PrioSystem", int(cemi.PrioSystem), 0},
		{"PrioNormal", int(cemi.PrioNormal), 1}, {"PrioUrgent", int(cemi.PrioUrgent), 2}, {"PrioLow", int(cemi.PrioLow), 3},
		{"GroupValueRead", int(cemi.GroupValueRead), 0}, {"GroupValueResponse", int(cemi.GroupValueResponse), 1},
		{"GroupValueWrite", int(cemi.GroupValueWrite), 2},
	} {
		chk("const "+c.name, c.got, c.want, "flag-constant")
	}
	for x := 0; x < 256; x++ {
		chk("prio "+u(x), int(cemi.Control1Prio(cemi.Priority(x))), (x%4)*4, "priority-constructor")
		chk("hopsc "+u(x), int(cemi.Control2Hops(uint8(x))), min7(x)*16, "hops-constructor")
		chk("hops "+u(x), int(cemi.ControlField2(x).Hops()), (x/16)%8, "hops-accessor")
		chk("isgroup "+u(x), int(b2u(cemi.ControlField2(x).IsGroupAddr())), x/128, "group-flag")
		chk("isgcmd "+u(x), int(b2u(cemi.APCI(x).IsGroupCommand())), int(b2u(x < 3)), "group-command-test")
		if got := int(cemi.Control2Hops(uint8(x)).Hops()); got != min7(x) {
			r.violation("helper-hops-roundtrip", "hops(hopsc "+u(x)+")", fmt.Sprintf("constructor encoded %d, accessor returned %d", min7(x), got))
		}
		for _, other := range []int{0x00, 0x80, 0x8f, 0x0f} {
			c := cemi.ControlField2(other) | cemi.Control2Hops(uint8(x))
			if got := int(c.Hops()); got != min7(x) {
				r.violation("helper-hops-roundtrip", fmt.Sprintf("hops(%d|hopsc %d)", other, x), fmt.Sprintf("constructor encoded %d, accessor returned %d", min7(x), got))
			}
		}
	}
	addrOps := func(a, b, c int) {
		chk(fmt.Sprintf("ia3 %d %d %d", a, b, c), int(cemi.NewIndividualAddr3(uint8(a), uint8(b), uint8(c))), (a%16)*4096+(b%16)*256+c, "individual-3")
		chk(fmt.Sprintf("ga3 %d %d %d", a, b, c), int(cemi.NewGroupAddr3(uint8(a), uint8(b), uint8(c))), (a%32)*2048+(b%8)*256+c, "group-3")
		chk(fmt.Sprintf("ia2 %d %d", a, b), int(cemi.NewIndividualAddr2(uint8(a), uint8(b))), a*256+b, "individual-2")
		w := b*256 + c
		chk(fmt.Sprintf("ga2 %d %d", a, w), int(cemi.NewGroupAddr2(uint8(a), uint16(w))), (a%32)*2048+w%2048, "group-2")
	}
	corners := []int{0, 1, 7, 8, 15, 16, 31, 32, 127, 128, 254, 255}
	for _, a := range corners {
		for _, b := range corners {
			for _, c := range corners {
				addrOps(a, b, c)
			}
		}
	}
	for r.nOps < budget {
		addrOps(g.R.Intn(256), g.R.Intn(256), g.R.Intn(256))
	}
}

// ---- C18 ----

func parseAddr(group bool, text string) (out string, val int, ok bool) {
	defer func() {
		if p := recover(); p != nil {
			out, val, ok = "panic", 0, false
		}
	}()
	if group {
		a, err := cemi.NewGroupAddrString(text)
		if err != nil {
			return "err", 0, false
		}
		return fmt.Sprintf("ok %d", uint16(a)), int(a), true
	}
	a, err := cemi.NewIndividualAddrString(text)
	if err != nil {
		return "err", 0, false
	}
	return fmt.Sprintf("ok %d", uint16(a)), int(a), true
}

// c18Parse runs one parser on text; want < 0 means "must be rejected".
func (r *run) c18Parse(group bool, text string, want int, emit bool) {
	opn := "pi"
	if group {
		opn = "pg"
	}
	op := opn + " " + ktext.Hex([]byte(text))
	out, val, ok := parseAddr(group, text)
	if emit {
		r.emit(op, out)
		r.distinct[op] = true
	}
	switch {
	case out == "panic":
		r.violation("parse-panic", op, fmt.Sprintf("%q", text))
	case want < 0 && ok:
		r.violation("accepted-malformed", op, fmt.Sprintf("%q was accepted as %d", text, val))
	case want >= 0 && !ok:
		r.violation("rejected-valid", op, fmt.Sprintf("%q (= %d) was rejected", text, want))
	case want >= 0 && val != want:
		r.violation("parsed-wrong-value", op, fmt.Sprintf("%q parsed to %d, documented value %d", text, val, want))
	}
}

func (r *run) c18(g *gen.G, budget int) {
	thorough := budget >= 400000
	// 0. the constructors on their whole argument range (each component an arbitrary octet): every
	// component lands in its bit field, excess bits are ignored
	{
		chk := func(op string, got, want int, what string) {
			r.emit(op, fmt.Sprint(got))
			r.distinct[op] = true
			if got != want {
				r.violation("constructor-"+what, op, fmt.Sprintf("documented value %d, the constructor returned %d", want, got))
			}
		}
		addrOps := func(a, b, c int) {
			chk(fmt.Sprintf("ia3 %d %d %d", a, b, c), int(cemi.NewIndividualAddr3(uint8(a), uint8(b), uint8(c))), (a%16)*4096+(b%16)*256+c, "individual-3")
			chk(fmt.Sprintf("ga3 %d %d %d", a, b, c), int(cemi.NewGroupAddr3(uint8(a), uint8(b), uint8(c))), (a%32)*2048+(b%8)*256+c, "group-3")
			chk(fmt.Sprintf("ia2 %d %d", a, b), int(cemi.NewIndividualAddr2(uint8(a), uint8(b))), a*256+b, "individual-2")
			w := b*256 + c
			chk(fmt.Sprintf("ga2 %d %d", a, w), int(cemi.NewGroupAddr2(uint8(a), uint16(w))), (a%32)*2048+w%2048, "group-2")
		}
		corners := []int{0, 1, 7, 8, 15, 16, 31, 32, 127, 128, 254, 255}
		for _, a := range corners {
			for _, b := range corners {
				for _, c := range corners {
					addrOps(a, b, c)
				}
			}
		}
		n := 2000
		if thorough {
			n = 60000
		}
		for i := 0; i < n; i++ {
			addrOps(g.R.Intn(256), g.R.Intn(256), g.R.Intn(256))
		}
	}
	// 1. round trip of all 65535 non-zero addresses of both kinds (oracle on every one; the
	// correspondence stream carries every k-th)
	stride := 1
	off := g.R.Intn(stride)
	for n := 1; n <= 65535; n++ {
		emit := (n+off)%stride == 0 || n < 300 || n > 65535-300
		gs := cemi.GroupAddr(n).String()
		is := cemi.IndividualAddr(n).String()
		if emit {
			r.emit(fmt.Sprintf("fg %d", n), ktext.Hex([]byte(gs)))
			r.emit(fmt.Sprintf("fi %d", n), ktext.Hex([]byte(is)))
		}
		r.c18Parse(true, gs, n, emit)
		r.c18Parse(false, is, n, emit)
	}
	// 2. component tuples over the documented ranges widened by a margin (negatives included)
	in := func(v, lo, hi int) bool { return v >= lo && v <= hi }
	samp := func() bool { return thorough || g.R.Intn(3) == 0 }
	for a := -3; a <= 35; a++ {
		for b := -3; b <= 19; b++ {
			for c := -3; c <= 259; c++ {
				if !samp() {
					continue
				}
				want := -1
				if in(a, 0, 31) && in(b, 0, 7) && in(c, 0, 255) && !(a == 0 && b == 0 && c == 0) {
					want = a*2048 + b*256 + c
				}
				r.c18Parse(true, fmt.Sprintf("%d/%d/%d", a, b, c), want, true)
				want = -1
				if in(a, 0, 15) && in(b, 0, 15) && in(c, 0, 255) && !(a == 0 && b == 0 && c == 0) {
					want = a*4096 + b*256 + c
				}
				r.c18Parse(false, fmt.Sprintf("%d.%d.%d", a, b, c), want, true)
			}
		}
	}
	for a := -3; a <= 35; a++ {
		for b := -3; b <= 2051; b++ {
			if !samp() {
				continue
			}
			want := -1
			if in(a, 0, 31) && in(b, 0, 2047) && !(a == 0 && b == 0) {
				want = a*2048 + b
			}
			r.c18Parse(true, fmt.Sprintf("%d/%d", a, b), want, true)
		}
	}
	for a := -3; a <= 259; a++ {
		for b := -3; b <= 259; b++ {
			if !samp() {
				continue
			}
			want := -1
			if in(a, 0, 255) && in(b, 0, 255) && !(a == 0 && b == 0) {
				want = a*256 + b
			}
			r.c18Parse(false, fmt.Sprintf("%d.%d", a, b), want, true)
		}
	}
	for n := -3; n <= 65539; n++ {
		if !samp() && n > 3 && n < 65530 {
			continue
		}
		want := -1
		if in(n, 1, 65535) {
			want = n
		}
		r.c18Parse(true, fmt.Sprint(n), want, true)
		r.c18Parse(false, fmt.Sprint(n), want, true)
	}
	// 3. a grammar of malformed strings
	pieces := []string{"", " ", "1", "0", "01", "+1", "-1", "-0", "1 ", " 1", "a", "0x1", "1e1", "1_0", "１", "٣", "99999999999999999999", "00000000000000000001", "1.5", "\x00", "\n"}
	seps := []string{"/", ".", ",", "//", " / ", "\\", ":"}
	for _, sep := range seps {
		for _, x := range pieces {
			for _, y := range pieces {
				for _, z := range []string{"", "1", "a", "-1", "256"} {
					for _, text := range []string{x, x + sep + y, x + sep + y + sep + z, x + sep + y + sep + z + sep + "1", sep + x, x + sep} {
						for _, group := range []bool{true, false} {
							want := wantOf(group, text)
							r.c18Parse(group, text, want, thorough || g.R.Intn(6) == 0)
						}
					}
				}
			}
		}
	}
}

// wantOf is the documented acceptance rule written independently of the parser: split at the
// kind's separator into 1..3 decimal literals (optional sign, ASCII digits), all components in
// range, not all zero.
func wantOf(group bool, text string) int {
	sep := "."
	if group {
		sep = "/"
	}
	parts := strings.Split(text, sep)
	var nums []int
	for _, p := range parts {
		q := p
		neg := false
		if strings.HasPrefix(q, "+") {
			q = q[1:]
		} else if strings.HasPrefix(q, "-") {
			q, neg = q[1:], true
		}
		if q == "" {
			return -1
		}
		v := 0
		for _, ch := range []byte(q) {
			if ch < '0' || ch > '9' {
				return -1
			}
			if v < 1<<40 {
				v = v*10 + int(ch-'0')
			}
		}
		if neg {
			v = -v
		}
		nums = append(nums, v)
	}
	in := func(v, lo, hi int) bool { return v >= lo && v <= hi }
	switch len(nums) {
	case 3:
		a, b, c := nums[0], nums[1], nums[2]
		if group && in(a, 0, 31) && in(b, 0, 7) && in(c, 0, 255) && !(a == 0 && b == 0 && c == 0) {
			return a*2048 + b*256 + c
		}
		if !group && in(a, 0, 15) && in(b, 0, 15) && in(c, 0, 255) && !(a == 0 && b == 0 && c == 0) {
			return a*4096 + b*256 + c
		}
	case 2:
		a, b := nums[0], nums[1]
		if group && in(a, 0, 31) && in(b, 0, 2047) && !(a == 0 && b == 0) {
			return a*2048 + b
		}
		if !group && in(a, 0, 255) && in(b, 0, 255) && !(a == 0 && b == 0) {
			return a*256 + b
		}
	case 1:
		if in(nums[0], 1, 65535) {
			return nums[0]
		}
	}
	return -1
}

// ---- C12: group events <-> L_Data frames ----

func (r *run) c12(g *gen.G, budget int) {
	cmds := []int{0, 1, 2, 0, 1, 2, 3, 4, 15, 255}
	lens := []int{0, 1, 2, 3, 14, 15, 16, 17, 100, 254}
	// outbound: the frame buildGroupOutbound constructs, then through the real encoder and decoder,
	// then through the real inbound filter (end to end)
	in := make(chan cemi.Message)
	out := make(chan knx.GroupEvent, 1)
	go knx.VerifServeGroupInbound(in, out)
	// a marker no generated message can be mistaken for (14 fixed payload bytes)
	sentinelData := []byte("\x3fverif-sentinel")
	sentinel := &cemi.LDataInd{LData: knx.VerifBuildGroupOutbound(knx.GroupEvent{Command: knx.GroupWrite, Destination: 0xffff, Data: sentinelData})}
	// the worker must run as long as its input channel is open: if it stops taking messages or closes
	// the group channel, that is reported once and a fresh worker takes over
	restarts := 0
	stopped := func(what string, m cemi.Message) {
		r.violation("group-worker-stopped", "gin "+ktext.Join(ktext.Cemi(m)), what+" although the underlying client's Inbound is still open")
		restarts++
		in = make(chan cemi.Message)
		out = make(chan knx.GroupEvent, 1)
		go knx.VerifServeGroupInbound(in, out)
	}
	// filterOne pushes one message through the real serveGroupInbound
	filterOne := func(m cemi.Message) (knx.GroupEvent, bool) {
		if restarts > 4 {
			return knx.GroupEvent{}, false
		}
		for _, x := range []cemi.Message{m, sentinel} {
			select {
			case in <- x:
			case <-time.After(2 * time.Second):
				stopped("the group worker no longer takes messages", m)
				return knx.GroupEvent{}, false
			}
		}
		var ev knx.GroupEvent
		var open bool
		select {
		case ev, open = <-out:
		case <-time.After(2 * time.Second):
			stopped("nothing came out of the group worker for 2 s", m)
			return knx.GroupEvent{}, false
		}
		if !open {
			stopped("the group Inbound channel was closed", m)
			return knx.GroupEvent{}, false
		}
		if ev.Destination == 0xffff && bytes.Equal(ev.Data, sentinelData) && ev.Source == 0 {
			return knx.GroupEvent{}, false
		}
		select {
		case <-out: // the sentinel
		case <-time.After(2 * time.Second):
			stopped("the marker behind an event did not come out", m)
		}
		return ev, true
	}
	for r.nOps < budget/2 {
		ev := knx.GroupEvent{
			Command:     knx.GroupCommand(cmds[g.R.Intn(len(cmds))]),
			Source:      cemi.IndividualAddr(g.Word()),
			Destination: cemi.GroupAddr(g.Word()),
		}
		if ev.Destination == 0xffff {
			ev.Destination = 0xfffe
		}
		n := lens[g.R.Intn(len(lens))]
		if n > 0 {
			ev.Data = g.Bytes(n)
		}
		ld := knx.VerifBuildGroupOutbound(ev)
		op := fmt.Sprintf("gout %d %d %d %s", uint8(ev.Command), uint16(ev.Source), uint16(ev.Destination), ktext.Hex(ev.Data))
		r.distinct[op] = true
		r.emit(op, ktext.Join(ktext.LData(&ld)))
		// the documented shape of the frame
		app, isApp := ld.Data.(*cemi.AppData)
		c2 := uint8(ld.Control2)
		c1 := uint8(ld.Control1)
		switch {
		case !isApp || uint8(app.Command) != uint8(ev.Command) || !bytes.Equal(app.Data, ev.Data):
			r.violation("outbound-payload", op, "frame "+ktext.Join(ktext.LData(&ld)))
		case c2>>7 != 1 || (c2>>4)&7 != 6:
			r.violation("outbound-control2", op, fmt.Sprintf("control field 2 = %#x: want group flag and hop count 6", c2))
		case (c1>>2)&3 != 3:
			r.violation("outbound-priority", op, fmt.Sprintf("control field 1 = %#x: want low priority", c1))
		case (c1>>7 == 1) != (len(ev.Data) <= 15):
			r.violation("outbound-frame-format", op, fmt.Sprintf("control field 1 = %#x with %d payload bytes", c1, len(ev.Data)))
		case ld.Destination != uint16(ev.Destination) || ld.Source != ev.Source:
			r.violation("outbound-address", op, "")
		}
		// end to end: encode as L_Data.ind inside a routing indication, decode, filter
		frame, msg := packFrame(&knxnet.RoutingInd{Payload: &cemi.LDataInd{LData: ld}})
		if frame == nil {
			r.violation("outbound-encode-panics", op, msg)
			continue
		}
		var svc knxnet.Service
		if _, err := knxnet.Unpack(frame, &svc); err != nil {
			r.violation("outbound-not-decodable", op, err.Error())
			continue
		}
		got, ok := filterOne(svc.(*knxnet.RoutingInd).Payload)
		wantData := append([]byte(nil), ev.Data...)
		if len(wantData) == 0 {
			wantData = []byte{0}
		}
		wantData[0] &= 63
		isGroupCmd := uint8(ev.Command) < 3
		switch {
		case isGroupCmd && !ok:
			r.violation("event-lost", op, "the event did not surface at the receiving client")
		case !isGroupCmd && uint8(ev.Command) <= 15 && ok:
			r.violation("non-group-command-surfaced", op, fmt.Sprintf("command %d surfaced", uint8(got.Command)))
		case isGroupCmd && (got.Command != ev.Command || got.Source != ev.Source || got.Destination != ev.Destination || !bytes.Equal(got.Data, wantData)):
			r.violation("event-changed", op, fmt.Sprintf("received command %d source %d destination %d data %s", got.Command, got.Source, got.Destination, ktext.Hex(got.Data)))
		}
	}
	// inbound: all message kinds x both address types x 16 APCI x control/data units
	for r.nOps < budget {
		m := g.Cemi(-1)
		if g.R.Intn(2) == 0 {
			l := g.LData()
			if g.R.Intn(2) == 0 {
				l.Control2 |= cemi.Control2GroupAddr
			}
			if a, ok := l.Data.(*cemi.AppData); ok && g.R.Intn(2) == 0 {
				a.Command = cemi.APCI(g.R.Intn(3))
			}
			m = &cemi.LDataInd{LData: l}
		}
		op := "gin " + ktext.Join(ktext.Cemi(m))
		r.distinct[op] = true
		ev, ok := filterOne(m)
		outS := "none"
		if ok {
			outS = fmt.Sprintf("ev %d %d %d %s", uint8(ev.Command), uint16(ev.Source), uint16(ev.Destination), ktext.Hex(ev.Data))
		}
		r.emit(op, outS)
		// the documented rule, written independently
		want := false
		var wl *cemi.LData
		if ind, isInd := m.(*cemi.LDataInd); isInd {
			if uint8(ind.Control2)>>7 == 1 {
				if a, isApp := ind.Data.(*cemi.AppData); isApp && uint8(a.Command) < 3 {
					want, wl = true, &ind.LData
				}
			}
		}
		// the same message as it arrives from the network: encoded into a routing indication by
		// the sender's side, decoded by the receiving client, then filtered - the kind of message
		// is known here by construction, not from the decoder
		if canonicalCemi(m) {
			wire := guarded(func() decOut {
				frame := knxnet.AllocAndPack(&knxnet.RoutingInd{Payload: m})
				var s knxnet.Service
				if _, err := knxnet.Unpack(frame, &s); err != nil {
					return decOut{class: "err"}
				}
				ri, isRI := s.(*knxnet.RoutingInd)
				if !isRI {
					return decOut{class: "err"}
				}
				_, surfaced := filterOne(ri.Payload)
				if surfaced {
					return decOut{class: "ok", msg: "surfaced"}
				}
				return decOut{class: "ok", msg: "none"}
			})
			if wire.class == "ok" && (wire.msg == "surfaced") != want {
				r.violation("inbound-filter-from-wire", op, fmt.Sprintf("sent in a routing indication and decoded by the receiving client: surfaced=%v, the rule says %v", wire.msg == "surfaced", want))
			}
			r.classes["gin-from-wire->"+wire.class]++
		}
		switch {
		case want != ok:
			r.violation("inbound-filter", op, fmt.Sprintf("surfaced=%v, the rule says %v", ok, want))
		case ok:
			a := wl.Data.(*cemi.AppData)
			if uint8(ev.Command) != uint8(a.Command) || ev.Source != wl.Source || uint16(ev.Destination) != wl.Destination || !bytes.Equal(ev.Data, a.Data) {
				r.violation("inbound-event-fields", op, outS)
			}
		}
	}
	close(in)
	if _, open := <-out; open {
		r.violation("group-channel-not-closed", "close(in)", "the group Inbound channel stayed open after the client's closed")
	}
}

func main() {
	prop := flag.String("prop", "", "C01 | C02 | C15")
	seed := flag.Int64("seed", 1, "PRNG seed")
	budget := flag.Int("budget", 20000, "number of operation lines to produce (approximately)")
	dir := flag.String("dir", "", "output directory")
	flag.Parse()
	if *dir == "" {
		fmt.Fprintln(os.Stderr, "need -dir")
		os.Exit(2)
	}
	os.MkdirAll(*dir, 0o755)
	of, _ := os.Create(filepath.Join(*dir, "ops.txt"))
	inf, _ := os.Create(filepath.Join(*dir, "impl.txt"))
	r := &run{prop: *prop, ops: bufio.NewWriterSize(of, 1<<20), impl: bufio.NewWriterSize(inf, 1<<20),
		classes: map[string]int{}, distinct: map[string]bool{}, findings: []finding{}, samples: []string{}}
	g := gen.New(*seed)
	start := time.Now()
	func() {
		// a panic of the library outside the guarded calls (a generator building a value through the
		// library, a call on the main goroutine) is a finding, not a harness failure
		defer func() {
			if p := recover(); p != nil {
				buf := make([]byte, 4096)
				n := runtime.Stack(buf, false)
				r.violation("library-panic", "a call into the library made by the generator / harness itself", fmt.Sprint(p)+" | "+strings.ReplaceAll(string(buf[:n]), "\n", " "))
			}
		}()
		switch *prop {
		case "C01":
			r.c01(g, *budget)
		case "C02":
			r.c02(g, *budget)
		case "C15":
			r.c15(g, *budget)
		case "C11":
			r.c11(g, *budget)
		case "C11h":
			r.c11h(g, *budget)
		case "C18":
			r.c18(g, *budget)
		case "C12":
			r.c12(g, *budget)
		default:
			fmt.Fprintln(os.Stderr, "unknown -prop")
			os.Exit(2)
		}
	}()
	r.ops.Flush()
	r.impl.Flush()
	of.Close()
	inf.Close()
	keys := make([]string, 0, len(g.Stats))
	for k := range g.Stats {
		keys = append(keys, k)
	}
	sort.Strings(keys)
	stats := map[string]interface{}{
		"property":  *prop,
		"seed":      *seed,
		"ops":       r.nOps,
		"distinct":  len(r.distinct),
		"classes":   r.classes,
		"generated": g.Stats,
		"samples":   r.samples,
		"findings":  r.findings,
		"hung":      r.hung,
		"wall_s":    time.Since(start).Seconds(),
	}
	sf, _ := os.Create(filepath.Join(*dir, "stats.json"))
	enc := json.NewEncoder(sf)
	enc.SetIndent("", " ")
	enc.Encode(stats)
	sf.Close()
}
