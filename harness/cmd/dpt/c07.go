package main

import (
	"fmt"
	"math"
	"reflect"
	"sort"
	"strings"
)

type numType struct {
	t      typeInfo
	lo, hi float64 // decoder-defined range: least / greatest value any payload decodes to
	step   func(payload []byte) float64
}

// decoderRange scans every payload of a 2- or 3-byte float-valued type.
func decoderRange(t typeInfo) (lo, hi float64) {
	lo, hi = math.Inf(1), math.Inf(-1)
	n := 256
	if t.fixed == 3 {
		n = 65536
	}
	for v := 0; v < n; v++ {
		p := []byte{0, byte(v)}
		if t.fixed == 3 {
			p = []byte{0, byte(v >> 8), byte(v)}
		}
		cls, _, d, _ := unpack(t.key, p)
		if cls != "ok" {
			continue
		}
		f := reflect.ValueOf(d).Elem().Float()
		lo, hi = math.Min(lo, f), math.Max(hi, f)
	}
	return
}

func f32hex(f float32) string { return fmt.Sprintf("f %08x", math.Float32bits(f)) }

func (r *run) floatInputs(lo, hi float64, thorough bool, nrand int) []float32 {
	var xs []float32
	add := func(f float32) {
		xs = append(xs, f)
		// float neighbours
		b := math.Float32bits(f)
		for _, d := range []int32{-2, -1, 1, 2} {
			xs = append(xs, math.Float32frombits(uint32(int32(b)+d)))
		}
	}
	for _, f := range []float64{lo, hi, 0, 1, -1, -0.001, -0.004, -0.0049, -0.005, -0.0051, -0.01, 0.004, 0.005, 0.01, 0.015, 20.47, 20.48, 20.475, -20.48, -20.485, -20.49, 100, 360, 327.67, 327.68, -327.68, 3276.7, -3276.8, 670760, 670760.96, -671088.64, -273, -459.6} {
		add(float32(f))
	}
	// neighbours of every exponent-switch point of the 16-bit float
	for e := 0; e < 16; e++ {
		for _, m := range []float64{2047, 2047.25, 2047.5, 2047.75, 2048, -2048, -2048.25, -2048.5, -2048.75, -2049, 1023.5, 1024, 0.5, 1.5, 2.5} {
			add(float32(m * math.Pow(2, float64(e)) / 100))
		}
	}
	n := nrand
	if thorough {
		n = 200000
	}
	for i := 0; i < n; i++ {
		// log-uniform over 1e-3 .. 1e9, both signs
		mag := math.Pow(10, -3+12*r.rnd.Float64())
		if r.rnd.Intn(2) == 0 {
			mag = -mag
		}
		xs = append(xs, float32(mag))
		// and uniformly within the type's range
		if !math.IsInf(lo, 0) && i%2 == 0 {
			xs = append(xs, float32(lo+(hi-lo)*r.rnd.Float64()))
		}
	}
	xs = append(xs, float32(math.Copysign(0, -1)), math.Float32frombits(1), math.Float32frombits(0x80000001), math.Float32frombits(0x007fffff),
		float32(math.Inf(1)), float32(math.Inf(-1)), float32(math.NaN()), math.MaxFloat32, -math.MaxFloat32)
	return xs
}

func (r *run) c07Float(nt numType, thorough bool, nrand int) {
	t := nt.t
	xs := r.floatInputs(nt.lo, nt.hi, thorough, nrand)
	type pt struct{ x, y float64 }
	var pts []pt
	satHi, satLo := "", ""
	if c, p, _ := pack(t.key, f32hex(float32(math.Inf(1)))); c == "ok" {
		satHi = hx(p)
	}
	if c, p, _ := pack(t.key, f32hex(float32(math.Inf(-1)))); c == "ok" {
		satLo = hx(p)
	}
	for _, x := range xs {
		val := f32hex(x)
		op := "dpp " + t.name + " " + val
		r.distinct[op] = true
		c, p, msg := pack(t.key, val)
		if c != "ok" {
			r.emit(op, c)
			r.violation("pack-"+c, op, msg)
			continue
		}
		r.emit(op, "ok "+hx(p))
		if len(p) != t.fixed || p[0] != 0 {
			r.violation("encoding-shape", op, fmt.Sprintf("encoding %s: want %d bytes with a leading zero byte", hx(p), t.fixed))
		}
		op2 := "dpu " + t.name + " " + hx(p)
		cls, v2, d, msg2 := unpack(t.key, p)
		r.emit(op2, outOf(cls, v2))
		xf := float64(x)
		if math.IsNaN(xf) {
			continue // not a value: only panic-freedom and the encoding's shape are required
		}
		if cls != "ok" {
			r.violation("encoding-not-decodable", op, "own encoding "+hx(p)+" answered with "+cls+" "+msg2)
			continue
		}
		y := reflect.ValueOf(d).Elem().Float()
		if xf >= nt.hi && hx(p) != satHi {
			r.violation("no-saturation", op, fmt.Sprintf("value %g at/above the upper bound %g encodes to %s (decodes to %g), the bound encodes to %s", xf, nt.hi, hx(p), y, satHi))
		}
		if xf <= nt.lo && hx(p) != satLo {
			r.violation("no-saturation", op, fmt.Sprintf("value %g at/below the lower bound %g encodes to %s (decodes to %g), the bound encodes to %s", xf, nt.lo, hx(p), y, satLo))
		}
		if xf >= nt.lo && xf <= nt.hi {
			if st := nt.step(p); math.Abs(y-xf) > st*(1+1e-6) {
				r.violation("inaccurate", op, fmt.Sprintf("%g encodes to %s which decodes to %g: off by %g, quantisation step %g", xf, hx(p), y, math.Abs(y-xf), st))
			}
		}
		if !math.IsInf(xf, 0) {
			pts = append(pts, pt{xf, y})
		}
	}
	sort.Slice(pts, func(i, j int) bool { return pts[i].x < pts[j].x })
	for i := 1; i < len(pts); i++ {
		if pts[i].y < pts[i-1].y {
			r.violation("not-monotonic", "dpp "+t.name+" "+f32hex(float32(pts[i-1].x))+" / "+f32hex(float32(pts[i].x)),
				fmt.Sprintf("%g decodes to %g but the larger %g decodes to the smaller %g", pts[i-1].x, pts[i-1].y, pts[i].x, pts[i].y))
			break
		}
	}
}

func (r *run) c07Int(t typeInfo, thorough bool) {
	tag := map[reflect.Kind]string{reflect.Uint8: "u8", reflect.Int8: "i8", reflect.Uint16: "u16", reflect.Int16: "i16", reflect.Uint32: "u32", reflect.Int32: "i32", reflect.Bool: "b"}[t.kind]
	var vals []uint64
	switch t.kind {
	case reflect.Bool:
		vals = []uint64{0, 1}
	case reflect.Uint8, reflect.Int8:
		for v := 0; v < 256; v++ {
			vals = append(vals, uint64(v))
		}
	case reflect.Uint16, reflect.Int16:
		stride := 7
		if thorough || t.name == "DPT_7001" || t.name == "DPT_8001" {
			stride = 1
		}
		for v := r.rnd.Intn(stride); v < 65536; v += stride {
			vals = append(vals, uint64(v))
		}
	default:
		vals = []uint64{0, 1, 0x7fffffff, 0x80000000, 0xffffffff, 255, 256, 65535, 65536}
		for i := 0; i < 200; i++ {
			vals = append(vals, uint64(r.rnd.Uint32()))
		}
	}
	for _, v := range vals {
		val := fmt.Sprintf("%s %d", tag, v)
		op := "dpp " + t.name + " " + val
		r.distinct[op] = true
		c, p, msg := pack(t.key, val)
		if c != "ok" {
			r.emit(op, c)
			r.violation("pack-"+c, op, msg)
			continue
		}
		r.emit(op, "ok "+hx(p))
		if len(p) != t.fixed || (t.fixed > 1 && p[0] != 0) || (t.fixed == 1 && p[0] > 63) {
			r.violation("encoding-shape", op, fmt.Sprintf("encoding %s: want %d bytes, leading zero byte (6-bit value for one byte)", hx(p), t.fixed))
		}
		// scene number / scene control: the number lives in the low six bits of the last octet; bit 6 is
		// reserved (17.001: bit 7 as well), whatever value was handed in
		if last := p[len(p)-1]; len(p) == t.fixed && ((t.name == "DPT_17001" && last > 63) || (t.name == "DPT_18001" && last&0x40 != 0)) {
			r.violation("scene-encoding-sets-reserved-bit", op, "encoding "+hx(p)+": the scene number occupies the low six bits, the reserved bit above them is zero")
		}
		cls, v2, _, msg2 := unpack(t.key, p)
		r.emit("dpu "+t.name+" "+hx(p), outOf(cls, v2))
		if cls != "ok" {
			r.violation("encoding-not-decodable", op, "own encoding "+hx(p)+" answered with "+cls+" "+msg2)
			continue
		}
		// scene types document replacement; everything else is exact
		if v2 != val && t.name != "DPT_17001" && t.name != "DPT_18001" {
			r.violation("integer-roundtrip", op, "decodes to "+v2)
		}
		if t.name == "DPT_17001" || t.name == "DPT_18001" {
			var got uint64
			fmt.Sscanf(strings.TrimPrefix(v2, "u8 "), "%d", &got)
			ok17 := v <= 63
			if t.name == "DPT_18001" {
				ok17 = v <= 63 || (v >= 128 && v <= 191)
			}
			if (ok17 && got != v) || (!ok17 && got != 63) {
				r.violation("scene-saturation", op, "decodes to "+v2)
			}
		}
	}
}

func (r *run) c07Struct(t typeInfo, thorough bool) {
	try := func(val string) {
		op := "dpp " + t.name + " " + val
		r.distinct[op] = true
		c, p, msg := pack(t.key, val)
		if c != "ok" {
			r.emit(op, c)
			r.violation("pack-"+c, op, msg)
			return
		}
		r.emit(op, "ok "+hx(p))
		wantLen := t.fixed
		if t.name == "DPT_28001" {
			wantLen = len(p)
		}
		if len(p) != wantLen || p[0] != 0 {
			r.violation("encoding-shape", op, fmt.Sprintf("encoding %s: want %d bytes with a leading zero byte", hx(p), t.fixed))
		}
		cls, v2, _, msg2 := unpack(t.key, p)
		r.emit("dpu "+t.name+" "+hx(p), outOf(cls, v2))
		if cls != "ok" {
			r.violation("encoding-not-decodable", op, "own encoding "+hx(p)+" answered with "+cls+" "+msg2)
		}
	}
	n := 4000
	if thorough {
		n = 80000
	}
	switch t.name {
	case "DPT_10001":
		for i := 0; i < n; i++ {
			try(fmt.Sprintf("t %d %d %d %d", r.rnd.Intn(10), r.rnd.Intn(34), r.rnd.Intn(70), r.rnd.Intn(70)))
		}
		try("t 255 255 255 255")
	case "DPT_11001":
		for i := 0; i < n; i++ {
			y := 1985 + r.rnd.Intn(110)
			if i%10 == 0 {
				y = r.rnd.Intn(65536)
			}
			try(fmt.Sprintf("d %d %d %d", y, r.rnd.Intn(16), r.rnd.Intn(34)))
		}
		for _, s := range []string{"d 1990 1 1", "d 2089 12 31", "d 2090 1 1", "d 1989 12 31", "d 2000 2 29", "d 2100 2 29", "d 2001 2 29", "d 0 0 0", "d 65535 255 255"} {
			try(s)
		}
	case "DPT_16000", "DPT_16001", "DPT_28001":
		for i := 0; i < n/2; i++ {
			l := r.rnd.Intn(41)
			var cps []string
			var raw []byte
			for j := 0; j < l; j++ {
				var c int
				switch r.rnd.Intn(8) {
				case 0:
					c = 0x80 + r.rnd.Intn(0x80)
				case 1:
					c = []int{0x100, 0x20ac, 0x4e2d, 0x1f600, 0x7f, 0x1}[r.rnd.Intn(6)]
				default:
					c = 0x20 + r.rnd.Intn(0x5f)
				}
				cps = append(cps, fmt.Sprint(c))
				raw = append(raw, []byte(string(rune(c)))...)
			}
			if t.name == "DPT_28001" {
				// a Go string holds any bytes: a third of the values are not well-formed UTF-8 (ISO 8859-1
				// text, sequences cut short, lone continuation bytes); the encoding carries them verbatim
				if i%3 == 0 && len(raw) > 0 {
					for k := 0; k < 1+r.rnd.Intn(3); k++ {
						raw[r.rnd.Intn(len(raw))] = byte(0x80 + r.rnd.Intn(0x80))
					}
					if i%6 == 0 {
						raw = append(raw, []byte(string(rune(0x4e2d)))[:2]...)
					}
				}
				if len(raw) == 0 {
					try("y -")
				} else {
					try("y " + hx(raw))
				}
			} else if l == 0 {
				try("s -")
			} else {
				try("s " + strings.Join(cps, ","))
			}
		}
	case "DPT_232600":
		for i := 0; i < 600; i++ {
			try(fmt.Sprintf("c %d %d %d", r.rnd.Intn(256), r.rnd.Intn(256), r.rnd.Intn(256)))
		}
	case "DPT_242600":
		for i := 0; i < 600; i++ {
			try(fmt.Sprintf("x %d %d %d %d %d", r.rnd.Intn(65536), r.rnd.Intn(65536), r.rnd.Intn(256), r.rnd.Intn(2), r.rnd.Intn(2)))
		}
	case "DPT_251600":
		for i := 0; i < 600; i++ {
			try(fmt.Sprintf("w %d %d %d %d %d %d %d %d", r.rnd.Intn(256), r.rnd.Intn(256), r.rnd.Intn(256), r.rnd.Intn(256), r.rnd.Intn(2), r.rnd.Intn(2), r.rnd.Intn(2), r.rnd.Intn(2)))
		}
	}
}

func (r *run) c07(budget int, thorough bool) {
	for _, t := range allTypes() {
		switch {
		case t.kind == reflect.Float32 && t.fixed == 5:
			// IEEE pass-through: a few patterns per type (exactness is C06's)
			for _, b := range []uint32{0, 0x3f800000, 0xbf800000, 0x7f7fffff, 0x00000001, 0x7f800000, 0xff800000, 0x7fc00000, r.rnd.Uint32()} {
				val := fmt.Sprintf("f %08x", b)
				op := "dpp " + t.name + " " + val
				c, p, msg := pack(t.key, val)
				if c != "ok" {
					r.emit(op, c)
					r.violation("pack-"+c, op, msg)
					continue
				}
				r.emit(op, "ok "+hx(p))
				cls, v2, _, _ := unpack(t.key, p)
				r.emit("dpu "+t.name+" "+hx(p), outOf(cls, v2))
				if len(p) != 5 || p[0] != 0 || cls != "ok" || (v2 != val && b != 0x7fc00000) {
					r.violation("ieee-roundtrip", op, "encoding "+hx(p)+" decodes to "+outOf(cls, v2))
				}
			}
		case t.kind == reflect.Float32:
			lo, hi := decoderRange(t)
			nt := numType{t: t, lo: lo, hi: hi}
			switch {
			case t.fixed == 3 && strings.HasPrefix(t.name, "DPT_9"):
				nt.step = func(p []byte) float64 { return 0.01 * math.Pow(2, float64(p[1]>>3&15)) }
			case t.name == "DPT_5001":
				nt.step = func([]byte) float64 { return 100.0 / 255 }
			case t.name == "DPT_5003":
				nt.step = func([]byte) float64 { return 360.0 / 255 }
			case t.name == "DPT_8004":
				nt.step = func([]byte) float64 { return 0.1 }
			default:
				nt.step = func([]byte) float64 { return 0.01 }
			}
			quick := thorough || map[string]bool{"DPT_9001": true, "DPT_9002": true, "DPT_9004": true, "DPT_9027": true, "DPT_5001": true, "DPT_5003": true, "DPT_8003": true, "DPT_8004": true, "DPT_8010": true}[t.name] || r.rnd.Intn(4) == 0
			// every type gets the corner inputs (bounds, their float neighbours, every exponent-switch
			// point); the random part is smaller for the types outside the main list in the quick tier
			if quick {
				r.c07Float(nt, thorough, 3000)
			} else {
				r.c07Float(nt, thorough, 400)
			}
		case t.kind == reflect.Struct || t.kind == reflect.String:
			r.c07Struct(t, thorough)
		default:
			r.c07Int(t, thorough)
		}
	}
}
