// Command dpt drives the real knx/dpt package for properties C06, C07, C08 and C19.
package main

import (
	"bufio"
	"encoding/binary"
	"encoding/hex"
	"encoding/json"
	"flag"
	"fmt"
	"math"
	"math/rand"
	"os"
	"path/filepath"
	"reflect"
	"runtime"
	"sort"
	"strconv"
	"strings"
	"sync"
	"time"
	"unsafe"

	"github.com/vapourismo/knx-go/knx/dpt"
)

type finding struct {
	Property string `json:"property"`
	Kind     string `json:"kind"`
	Op       string `json:"op"`
	Detail   string `json:"detail"`
}

type run struct {
	prop     string
	ops      *bufio.Writer
	impl     *bufio.Writer
	findings []finding
	nOps     int
	classes  map[string]int
	samples  []string
	distinct map[string]bool
	gen      map[string]int
	rnd      *rand.Rand
}

func (r *run) emit(op, out string) {
	fmt.Fprintln(r.ops, op)
	fmt.Fprintln(r.impl, out)
	r.nOps++
	cls := out
	if i := strings.IndexByte(out, ' '); i >= 0 {
		cls = out[:i]
	}
	r.classes[strings.SplitN(op, " ", 2)[0]+"->"+cls]++
	if len(r.samples) < 12 && r.nOps%4099 == 1 {
		s := op + " => " + out
		if len(s) > 240 {
			s = s[:240] + "…"
		}
		r.samples = append(r.samples, s)
	}
}

func (r *run) violation(kind, op, detail string) {
	if len(r.findings) < 300 {
		r.findings = append(r.findings, finding{r.prop, kind, op, detail})
	}
}

func hx(b []byte) string {
	if len(b) == 0 {
		return "-"
	}
	return hex.EncodeToString(b)
}

// typeName returns "DPT_9001" for a produced datapoint.
func typeName(d dpt.Datapoint) string { return reflect.TypeOf(d).Elem().Name() }

// render prints the value a datapoint holds in the canonical token syntax.
func render(d dpt.Datapoint) string {
	v := reflect.ValueOf(d).Elem()
	switch v.Kind() {
	case reflect.Bool:
		if v.Bool() {
			return "b 1"
		}
		return "b 0"
	case reflect.Uint8:
		return fmt.Sprintf("u8 %d", v.Uint())
	case reflect.Int8:
		return fmt.Sprintf("i8 %d", uint8(v.Int()))
	case reflect.Uint16:
		return fmt.Sprintf("u16 %d", v.Uint())
	case reflect.Int16:
		return fmt.Sprintf("i16 %d", uint16(v.Int()))
	case reflect.Uint32:
		return fmt.Sprintf("u32 %d", v.Uint())
	case reflect.Int32:
		return fmt.Sprintf("i32 %d", uint32(v.Int()))
	case reflect.Float32:
		// read the bits in place: going through float64 would quieten signalling NaNs
		return fmt.Sprintf("f %08x", *(*uint32)(unsafe.Pointer(v.UnsafeAddr())))
	case reflect.String:
		if typeName(d) == "DPT_28001" {
			return "y " + hx([]byte(v.String()))
		}
		s := v.String()
		if s == "" {
			return "s -"
		}
		var parts []string
		for _, c := range s {
			parts = append(parts, strconv.Itoa(int(c)))
		}
		return "s " + strings.Join(parts, ",")
	case reflect.Struct:
		f := func(n string) reflect.Value { return v.FieldByName(n) }
		b := func(n string) string {
			if f(n).Bool() {
				return "1"
			}
			return "0"
		}
		switch typeName(d) {
		case "DPT_10001":
			return fmt.Sprintf("t %d %d %d %d", f("Weekday").Uint(), f("Hour").Uint(), f("Minutes").Uint(), f("Seconds").Uint())
		case "DPT_11001":
			return fmt.Sprintf("d %d %d %d", f("Year").Uint(), f("Month").Uint(), f("Day").Uint())
		case "DPT_232600":
			return fmt.Sprintf("c %d %d %d", f("Red").Uint(), f("Green").Uint(), f("Blue").Uint())
		case "DPT_242600":
			return fmt.Sprintf("x %d %d %d %s %s", f("X").Uint(), f("Y").Uint(), f("YBrightness").Uint(), b("ColorValid"), b("BrightnessValid"))
		case "DPT_251600":
			return fmt.Sprintf("w %d %d %d %d %s %s %s %s", f("Red").Uint(), f("Green").Uint(), f("Blue").Uint(), f("White").Uint(), b("RedValid"), b("GreenValid"), b("BlueValid"), b("WhiteValid"))
		}
	}
	return "?" + v.Kind().String()
}

// setValue stores a canonical value into a produced datapoint.
func setValue(d dpt.Datapoint, toks []string) error {
	v := reflect.ValueOf(d).Elem()
	num := func(i int) uint64 {
		n, _ := strconv.ParseUint(toks[i], 10, 64)
		return n
	}
	switch toks[0] {
	case "b":
		v.SetBool(toks[1] == "1")
	case "u8", "u16", "u32":
		v.SetUint(num(1))
	case "i8":
		v.SetInt(int64(int8(uint8(num(1)))))
	case "i16":
		v.SetInt(int64(int16(uint16(num(1)))))
	case "i32":
		v.SetInt(int64(int32(uint32(num(1)))))
	case "f":
		bits, err := strconv.ParseUint(toks[1], 16, 32)
		if err != nil {
			return err
		}
		*(*uint32)(unsafe.Pointer(v.UnsafeAddr())) = uint32(bits)
	case "s":
		if toks[1] == "-" {
			v.SetString("")
			return nil
		}
		var sb strings.Builder
		for _, p := range strings.Split(toks[1], ",") {
			n, _ := strconv.Atoi(p)
			sb.WriteRune(rune(n))
		}
		v.SetString(sb.String())
	case "y":
		if toks[1] == "-" {
			v.SetString("")
			return nil
		}
		b, err := hex.DecodeString(toks[1])
		if err != nil {
			return err
		}
		v.SetString(string(b))
	case "t":
		v.FieldByName("Weekday").SetUint(num(1))
		v.FieldByName("Hour").SetUint(num(2))
		v.FieldByName("Minutes").SetUint(num(3))
		v.FieldByName("Seconds").SetUint(num(4))
	case "d":
		v.FieldByName("Year").SetUint(num(1))
		v.FieldByName("Month").SetUint(num(2))
		v.FieldByName("Day").SetUint(num(3))
	case "c":
		v.FieldByName("Red").SetUint(num(1))
		v.FieldByName("Green").SetUint(num(2))
		v.FieldByName("Blue").SetUint(num(3))
	case "x":
		v.FieldByName("X").SetUint(num(1))
		v.FieldByName("Y").SetUint(num(2))
		v.FieldByName("YBrightness").SetUint(num(3))
		v.FieldByName("ColorValid").SetBool(toks[4] == "1")
		v.FieldByName("BrightnessValid").SetBool(toks[5] == "1")
	case "w":
		v.FieldByName("Red").SetUint(num(1))
		v.FieldByName("Green").SetUint(num(2))
		v.FieldByName("Blue").SetUint(num(3))
		v.FieldByName("White").SetUint(num(4))
		v.FieldByName("RedValid").SetBool(toks[5] == "1")
		v.FieldByName("GreenValid").SetBool(toks[6] == "1")
		v.FieldByName("BlueValid").SetBool(toks[7] == "1")
		v.FieldByName("WhiteValid").SetBool(toks[8] == "1")
	default:
		return fmt.Errorf("bad value tag %q", toks[0])
	}
	return nil
}

// unpack runs Unpack on a fresh instance; returns the class, the rendered value and the instance.
func unpack(key string, payload []byte) (class, val string, d dpt.Datapoint, msg string) {
	d, ok := dpt.Produce(key)
	if !ok {
		return "unknown", "", nil, ""
	}
	defer func() {
		if p := recover(); p != nil {
			class, msg = "panic", fmt.Sprint(p)
		}
	}()
	data := make([]byte, len(payload))
	copy(data, payload)
	if err := d.Unpack(data); err != nil {
		return "err", "", d, err.Error()
	}
	return "ok", render(d), d, ""
}

func pack(key string, val string) (class string, out []byte, msg string) {
	d, ok := dpt.Produce(key)
	if !ok {
		return "unknown", nil, ""
	}
	defer func() {
		if p := recover(); p != nil {
			class, msg = "panic", fmt.Sprint(p)
		}
	}()
	if err := setValue(d, strings.Split(val, " ")); err != nil {
		return "badval", nil, err.Error()
	}
	return "ok", d.Pack(), ""
}

func outOf(class, val string) string {
	if class == "ok" {
		return "ok " + val
	}
	return class
}

type typeInfo struct {
	key    string
	name   string
	fixed  int // length of Pack() of the zero value
	kind   reflect.Kind
	sample dpt.Datapoint
}

func allTypes() []typeInfo {
	keys := dpt.ListSupportedTypes()
	sort.Strings(keys)
	var out []typeInfo
	for _, k := range keys {
		d, ok := dpt.Produce(k)
		if !ok || d == nil {
			continue // reported by the registry check (C19); nothing to encode or decode here
		}
		out = append(out, typeInfo{key: k, name: typeName(d), fixed: len(d.Pack()), kind: reflect.ValueOf(d).Elem().Kind(), sample: d})
	}
	return out
}

// ---- C06: unpack -> pack -> unpack ----

// exactCanon returns the payload an exact-format type must re-encode to: the bits the decoder
// ignores zeroed. ok=false for types where the rule is left to the model.
func exactCanon(t typeInfo, p []byte) ([]byte, bool) {
	c := append([]byte(nil), p...)
	switch t.kind {
	case reflect.Bool:
		c[0] &= 1
		return c, true
	case reflect.Uint8, reflect.Int8, reflect.Uint16, reflect.Int16, reflect.Uint32, reflect.Int32:
		if t.name == "DPT_17001" || t.name == "DPT_18001" {
			return nil, false
		}
		c[0] = 0
		return c, true
	case reflect.Float32:
		if t.fixed == 5 {
			c[0] = 0
			return c, true
		}
	case reflect.Struct:
		if t.name == "DPT_232600" {
			c[0] = 0
			return c, true
		}
	}
	return nil, false
}

func (r *run) c06Payload(t typeInfo, p []byte) {
	op1 := "dpu " + t.name + " " + hx(p)
	r.distinct[op1] = true
	cls, val, _, msg := unpack(t.key, p)
	r.emit(op1, outOf(cls, val))
	if cls == "panic" {
		r.violation("unpack-panic", op1, msg)
		return
	}
	if cls != "ok" {
		return
	}
	op2 := "dpp " + t.name + " " + val
	pc, p2, msg := pack(t.key, val)
	if pc != "ok" {
		r.emit(op2, pc)
		r.violation("pack-"+pc, op2, msg)
		return
	}
	r.emit(op2, "ok "+hx(p2))
	op3 := "dpu " + t.name + " " + hx(p2)
	cls2, val2, _, msg2 := unpack(t.key, p2)
	r.emit(op3, outOf(cls2, val2))
	switch {
	case cls2 != "ok":
		r.violation("reencoded-payload-rejected", op1, fmt.Sprintf("decoded %s, re-encoded to %s, which the decoder answers with %s %s", val, hx(p2), cls2, msg2))
	case val2 != val:
		r.violation("value-drifts", op1, fmt.Sprintf("decoded %s, re-encoded to %s, decodes to %s", val, hx(p2), val2))
	default:
		if want, ok := exactCanon(t, p); ok && hx(want) != hx(p2) {
			r.violation("bytes-differ", op1, fmt.Sprintf("exact format: expected re-encoding %s, got %s", hx(want), hx(p2)))
		}
	}
}

func (r *run) c06(budget int, thorough bool) {
	types := allTypes()
	// which 3-byte types are swept completely in the quick tier: one per distinct code path
	fullQuick := map[string]bool{"DPT_9001": true, "DPT_9002": true, "DPT_7001": true, "DPT_8001": true, "DPT_8003": true, "DPT_8004": true}
	for _, t := range types {
		if t.kind == reflect.String {
			// strings (fixed 14-character and variable-length) have their own generators, whatever the
			// encoded length of the type's zero value is
			r.c06Structured(t, thorough)
			continue
		}
		switch t.fixed {
		case 1:
			for b := 0; b < 256; b++ {
				r.c06Payload(t, []byte{byte(b)})
			}
		case 2:
			for b := 0; b < 256; b++ {
				r.c06Payload(t, []byte{0, byte(b)})
			}
			for i := 0; i < 64; i++ {
				r.c06Payload(t, []byte{byte(1 + r.rnd.Intn(255)), byte(r.rnd.Intn(256))})
			}
		case 3:
			stride := 1
			if !thorough && !fullQuick[t.name] {
				stride = 61
			}
			for v := r.rnd.Intn(stride); v < 65536; v += stride {
				r.c06Payload(t, []byte{0, byte(v >> 8), byte(v)})
			}
			for i := 0; i < 64; i++ {
				r.c06Payload(t, []byte{byte(1 + r.rnd.Intn(255)), byte(r.rnd.Intn(256)), byte(r.rnd.Intn(256))})
			}
		case 5:
			n := 40
			if thorough {
				n = 4000
			}
			if t.kind == reflect.Float32 {
				// every sign x exponent class, a few mantissas each (dense stratified)
				for s := 0; s < 2; s++ {
					for e := 0; e < 256; e++ {
						if !thorough && r.rnd.Intn(8) != 0 && e > 2 && e < 253 {
							continue
						}
						for _, m := range []uint32{0, 1, 0x400000, 0x7fffff, uint32(r.rnd.Intn(1 << 23))} {
							bits := uint32(s)<<31 | uint32(e)<<23 | m
							p := make([]byte, 5)
							binary.BigEndian.PutUint32(p[1:], bits)
							r.c06Payload(t, p)
						}
					}
				}
			}
			for i := 0; i < n; i++ {
				p := make([]byte, 5)
				r.rnd.Read(p[1:])
				if i%7 == 0 {
					p[0] = byte(r.rnd.Intn(256))
				}
				if i%5 == 0 {
					binary.BigEndian.PutUint32(p[1:], []uint32{0, 1, 0x7fffffff, 0x80000000, 0xffffffff, 0x7f800000, 0xff800000, 0x7fc00000}[r.rnd.Intn(8)])
				}
				r.c06Payload(t, p)
			}
		default:
			r.c06Structured(t, thorough)
		}
	}
}

func (r *run) c06Structured(t typeInfo, thorough bool) {
	n := 3000
	if thorough {
		n = 60000
	}
	switch t.name {
	case "DPT_10001", "DPT_11001":
		// all 2^21 field combinations in thorough, a sample in quick; plus random high bits
		for i := 0; i < n*4; i++ {
			p := []byte{byte(r.rnd.Intn(2) * r.rnd.Intn(256)), byte(r.rnd.Intn(256)), byte(r.rnd.Intn(256)), byte(r.rnd.Intn(256))}
			if t.name == "DPT_11001" && i%3 != 0 {
				p[1], p[2], p[3] = byte(r.rnd.Intn(40)), byte(r.rnd.Intn(16)), byte(r.rnd.Intn(110))
			}
			if t.name == "DPT_10001" && i%3 != 0 {
				p[1], p[2], p[3] = byte(r.rnd.Intn(8)<<5|r.rnd.Intn(26)), byte(r.rnd.Intn(66)), byte(r.rnd.Intn(66))
			}
			r.c06Payload(t, p)
		}
		r.c06Payload(t, []byte{0, 0, 0, 0})
	case "DPT_16000", "DPT_16001":
		for i := 0; i < n; i++ {
			p := make([]byte, 15)
			l := r.rnd.Intn(15)
			for j := 1; j <= l; j++ {
				switch r.rnd.Intn(6) {
				case 0:
					p[j] = byte(0x80 + r.rnd.Intn(0x80))
				case 1:
					p[j] = []byte{0x00, 0x80, 0x7f, 0xff, 0x20, 0x01}[r.rnd.Intn(6)]
				default:
					p[j] = byte(0x20 + r.rnd.Intn(0x5f))
				}
			}
			if i%9 == 0 {
				p[0] = byte(r.rnd.Intn(256))
			}
			if i%4 == 0 && l < 13 {
				p[l+2] = byte(r.rnd.Intn(256)) // garbage behind the terminator
			}
			r.c06Payload(t, p)
		}
	case "DPT_28001":
		// text bytes of every kind: ASCII, well-formed multi-byte UTF-8, sequences cut short, ISO 8859-1
		// text, lone continuation bytes, embedded NULs, random bytes; lengths 0..300
		r.c06Payload(t, []byte{0, 0xe9, 0x74, 0xe9, 0})
		r.c06Payload(t, []byte{0, 0x61, 0x62, 0xe4, 0xbd, 0})
		r.c06Payload(t, []byte{0, 0x78, 0x80, 0x79, 0})
		// text that ends in NULs of its own (a sender that pads): the decoder takes everything up to the last
		// octet, the encoder must write all of it back
		r.c06Payload(t, []byte{0, 0x4f, 0x4b, 0, 0})
		r.c06Payload(t, []byte{0, 0, 0})
		r.c06Payload(t, []byte{0, 0x41, 0, 0, 0, 0})
		r.c06Payload(t, []byte{0, 0, 0x41, 0})
		for i := 0; i < n; i++ {
			l := r.rnd.Intn(24)
			if i%50 == 0 {
				l = r.rnd.Intn(300)
			}
			p := make([]byte, 0, l+2)
			p = append(p, 0)
			for len(p) < l+1 {
				switch r.rnd.Intn(8) {
				case 0:
					p = append(p, []byte(string(rune(0x80+r.rnd.Intn(0x700))))...)
				case 1:
					p = append(p, []byte(string(rune(0x800+r.rnd.Intn(0xf000))))...)
				case 2:
					u := []byte(string(rune(0x800 + r.rnd.Intn(0xf000))))
					p = append(p, u[:1+r.rnd.Intn(len(u)-1)]...) // cut short
				case 3:
					p = append(p, byte(0x80+r.rnd.Intn(0x80)))
				case 4:
					p = append(p, byte(r.rnd.Intn(256)))
				default:
					p = append(p, byte(0x20+r.rnd.Intn(0x5f)))
				}
			}
			if i%13 == 0 {
				p = append(p, make([]byte, 1+r.rnd.Intn(3))...) // trailing NULs inside the text
			}
			p = append(p, 0)
			switch i % 11 {
			case 0:
				p[0] = byte(r.rnd.Intn(256))
			case 1:
				p[len(p)-1] = byte(r.rnd.Intn(256))
			case 2:
				p = p[:r.rnd.Intn(3)] // too short or minimal
			}
			r.c06Payload(t, p)
		}
	default: // 4- and 7-byte structs
		for i := 0; i < n; i++ {
			p := make([]byte, t.fixed)
			r.rnd.Read(p)
			if i%3 != 0 {
				p[0] = 0
			}
			if t.fixed == 7 && i%2 == 0 {
				p[6] = byte(r.rnd.Intn(20))
			}
			r.c06Payload(t, p)
		}
	}
}

// ---- C08: totality and ranges ----

// f16Documented: the value range each 9.xxx type documents (its String / Unit, its error text and
// the KNX datapoint table): what a decoded value may be
var f16Documented = map[string][2]float64{
	"DPT_9001": {-273, 670760}, "DPT_9002": {-670760, 670760}, "DPT_9003": {-670760, 670760},
	"DPT_9004": {0, 670760}, "DPT_9005": {0, 670760}, "DPT_9006": {0, 670760}, "DPT_9007": {0, 670760},
	"DPT_9008": {0, 670760}, "DPT_9010": {-670760, 670760}, "DPT_9011": {-670760, 670760},
	"DPT_9020": {-670760, 670760}, "DPT_9021": {-670760, 670760}, "DPT_9022": {-670760, 670760},
	"DPT_9023": {-670760, 670760}, "DPT_9024": {-670760, 670760}, "DPT_9025": {-670760, 670760},
	"DPT_9026": {-670760, 670760}, "DPT_9027": {-459.6, 670760}, "DPT_9028": {0, 670760}, "DPT_9029": {0, 670760},
}

func (r *run) c08Check(t typeInfo, p []byte, emit bool) {
	op := "dpu " + t.name + " " + hx(p)
	cls, val, d, msg := unpack(t.key, p)
	if emit {
		r.emit(op, outOf(cls, val))
		r.distinct[op] = true
	}
	if cls == "panic" {
		r.violation("unpack-panic", op, msg)
		return
	}
	wrongLen := len(p) != t.fixed
	if t.name == "DPT_28001" {
		wrongLen = len(p) < 2
	}
	if wrongLen && cls == "ok" {
		r.violation("wrong-length-accepted", op, fmt.Sprintf("payload of %d bytes accepted (type length %d) as %s", len(p), t.fixed, val))
	}
	if !wrongLen && cls == "err" && t.kind != reflect.Struct && t.kind != reflect.Float32 {
		// integer, bool and string formats accept every payload of the right length
		r.violation("right-length-rejected", op, msg)
	}
	if cls != "ok" {
		return
	}
	// rendering must not panic
	func() {
		defer func() {
			if p := recover(); p != nil {
				r.violation("render-panic", op, fmt.Sprint(p))
			}
		}()
		_ = d.String()
		_ = d.Unit()
	}()
	// documented ranges
	v := reflect.ValueOf(d).Elem()
	bad := func(what string) { r.violation("out-of-range-value", op, "decoded "+val+": "+what) }
	switch {
	case t.name == "DPT_9001" && v.Float() < -273:
		bad("temperature below absolute zero")
	case t.name == "DPT_5001" && (v.Float() < 0 || v.Float() > 100):
		bad("scaling outside 0..100 %")
	case t.name == "DPT_5003" && (v.Float() < 0 || v.Float() > 360):
		bad("angle outside 0..360")
	case t.name == "DPT_17001" && v.Uint() > 63:
		bad("scene number above 63")
	case t.name == "DPT_18001" && !(v.Uint() <= 63 || (v.Uint() >= 128 && v.Uint() <= 191)):
		bad("scene control outside 0..63 / 128..191")
	case t.name == "DPT_10001":
		if v.FieldByName("Hour").Uint() > 23 || v.FieldByName("Minutes").Uint() > 59 || v.FieldByName("Seconds").Uint() > 59 || v.FieldByName("Weekday").Uint() > 7 {
			bad("time of day out of range")
		}
	case t.name == "DPT_11001":
		y, m, dd := int(v.FieldByName("Year").Uint()), int(v.FieldByName("Month").Uint()), int(v.FieldByName("Day").Uint())
		if !validDate(y, m, dd) {
			bad("not a calendar date within 1990..2089")
		}
	case t.name == "DPT_242600" || t.name == "DPT_251600":
		if p[6] > 15 {
			bad("reserved bits set")
		}
	}
	if strings.HasPrefix(t.name, "DPT_9") && t.kind == reflect.Float32 {
		f := v.Float()
		if math.IsNaN(f) || math.IsInf(f, 0) || f < -671088.64 || f > 670760.96 {
			bad("16-bit float outside its representable range")
		}
		if rg, ok := f16Documented[t.name]; ok && (f < rg[0] || f > rg[1]) {
			bad(fmt.Sprintf("outside the type's documented range [%g, %g]", rg[0], rg[1]))
		}
	}
}

func validDate(y, m, d int) bool {
	if y < 1990 || y > 2089 || m < 1 || m > 12 || d < 1 {
		return false
	}
	dim := []int{31, 28, 31, 30, 31, 30, 31, 31, 30, 31, 30, 31}[m-1]
	if m == 2 && (y%4 == 0 && y%100 != 0 || y%400 == 0) {
		dim = 29
	}
	return d <= dim
}

func (r *run) c08(budget int, thorough bool) {
	types := allTypes()
	alphabet := []byte{0x00, 0x01, 0x3f, 0x40, 0x7f, 0x80, 0xff, 0x1f, 0x20, 0xc0, 0x0c, 0x63, 0x64}
	for _, t := range types {
		// every length 0..20: all strings over the alphabet up to length 2, samples beyond
		r.c08Check(t, nil, true)
		for _, a := range alphabet {
			r.c08Check(t, []byte{a}, true)
			for _, b := range alphabet {
				r.c08Check(t, []byte{a, b}, r.rnd.Intn(4) == 0 || thorough)
			}
		}
		for l := 3; l <= 20; l++ {
			k := 6
			if thorough {
				k = 60
			}
			for i := 0; i < k; i++ {
				p := make([]byte, l)
				for j := range p {
					if r.rnd.Intn(3) == 0 {
						p[j] = byte(r.rnd.Intn(256))
					} else {
						p[j] = alphabet[r.rnd.Intn(len(alphabet))]
					}
				}
				r.c08Check(t, p, true)
			}
		}
		// exhaustive correct-length payloads for types up to 3 bytes (oracle on all; the
		// correspondence stream carries a stride, C06 carries the full sweep of these)
		switch t.fixed {
		case 1, 2:
			for v := 0; v < 256; v++ {
				p := []byte{byte(v)}
				if t.fixed == 2 {
					p = []byte{0, byte(v)}
				}
				r.c08Check(t, p, true)
			}
		case 3:
			for v := 0; v < 65536; v++ {
				r.c08Check(t, []byte{0, byte(v >> 8), byte(v)}, thorough && v%3 == 0 || v%257 == 0)
			}
		}
	}
	// all 2^21 field combinations of the date and time types (oracle on all)
	for _, key := range []string{"10.001", "11.001"} {
		var t typeInfo
		for _, x := range types {
			if x.key == key {
				t = x
			}
		}
		lim := 1 << 21
		for v := 0; v < lim; v++ {
			var p []byte
			if key == "11.001" {
				p = []byte{0, byte(v & 0x1f), byte(v >> 5 & 0xf), byte(v >> 9 & 0x7f)} // day, month, year
				if v>>16 != 0 {
					p[1] |= byte(v >> 16 & 7 << 5) // reserved bits
				}
			} else {
				p = []byte{0, byte(v & 0xff), byte(v >> 8 & 0x3f), byte(v >> 14 & 0x3f)} // wd|hour, min, sec
				if v>>20 != 0 {
					p[2] |= 0xc0
				}
			}
			r.c08Check(t, p, v%4099 == 0 || (thorough && v%97 == 0))
		}
	}
	// reserved-bit patterns of the bit-field types
	for _, key := range []string{"242.600", "251.600"} {
		var t typeInfo
		for _, x := range types {
			if x.key == key {
				t = x
			}
		}
		for v := 0; v < 256; v++ {
			p := make([]byte, 7)
			r.rnd.Read(p)
			p[6] = byte(v)
			r.c08Check(t, p, true)
		}
	}
}

func main() {
	prop := flag.String("prop", "", "C06 | C07 | C08 | C19")
	seed := flag.Int64("seed", 1, "PRNG seed")
	budget := flag.Int("budget", 20000, "operation budget; >= 1000000 selects the thorough generators")
	dir := flag.String("dir", "", "output directory")
	flag.Parse()
	if *prop == "C19cold" {
		coldConcurrentProduce()
		return
	}
	if *dir == "" {
		fmt.Fprintln(os.Stderr, "need -dir")
		os.Exit(2)
	}
	os.MkdirAll(*dir, 0o755)
	of, _ := os.Create(filepath.Join(*dir, "ops.txt"))
	inf, _ := os.Create(filepath.Join(*dir, "impl.txt"))
	r := &run{prop: *prop, ops: bufio.NewWriterSize(of, 1<<20), impl: bufio.NewWriterSize(inf, 1<<20),
		classes: map[string]int{}, distinct: map[string]bool{}, findings: []finding{}, samples: []string{},
		gen: map[string]int{}, rnd: rand.New(rand.NewSource(*seed))}
	start := time.Now()
	thorough := *budget >= 1000000
	func() {
		// a panic of the library outside the guarded calls (a generator building a value through the
		// library, a call on the main goroutine) is a finding, not a harness failure
		defer func() {
			if p := recover(); p != nil {
				buf := make([]byte, 4096)
				n := runtime.Stack(buf, false)
				r.violation("library-panic", "a call into the library made by the generator / harness itself", fmt.Sprint(p)+" | "+strings.ReplaceAll(string(buf[:n]), "\n", " "))
			}
		}()
		switch *prop {
		case "C06":
			r.c06(*budget, thorough)
		case "C07":
			r.c07(*budget, thorough)
		case "C08":
			r.c08(*budget, thorough)
		case "C19":
			r.c19(*budget, thorough)
		default:
			fmt.Fprintln(os.Stderr, "unknown -prop")
			os.Exit(2)
		}
	}()
	r.ops.Flush()
	r.impl.Flush()
	of.Close()
	inf.Close()
	stats := map[string]interface{}{
		"property": *prop, "seed": *seed, "ops": r.nOps, "distinct": len(r.distinct), "classes": r.classes,
		"generated": r.gen, "samples": r.samples, "findings": r.findings, "wall_s": time.Since(start).Seconds(),
	}
	sf, _ := os.Create(filepath.Join(*dir, "stats.json"))
	enc := json.NewEncoder(sf)
	enc.SetIndent("", " ")
	enc.Encode(stats)
	sf.Close()
	_ = sync.Mutex{}
}
