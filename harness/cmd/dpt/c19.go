package main

import (
	"fmt"
	"os"
	"os/exec"
	"path/filepath"
	"reflect"
	"regexp"
	"sort"
	"strings"
	"sync"

	"github.com/vapourismo/knx-go/knx/dpt"
)

var keyForm = regexp.MustCompile(`^[0-9]+\.[0-9]{3}$`)

// coldConcurrentProduce is what a child process does as the very first thing: 16 goroutines
// produce and fill instances of every listed type, nothing having been produced before
func coldConcurrentProduce() {
	keys := dpt.ListSupportedTypes()
	sort.Strings(keys)
	var wg sync.WaitGroup
	bad := make(chan string, 64)
	for g := 0; g < 16; g++ {
		wg.Add(1)
		go func(g int) {
			defer wg.Done()
			for round := 0; round < 3; round++ {
				for i := range keys {
					k := keys[(i*7+g*11)%len(keys)]
					d, ok := dpt.Produce(k)
					if !ok || d == nil {
						continue
					}
					zero := reflect.New(reflect.TypeOf(d).Elem()).Interface().(dpt.Datapoint)
					if render(d) != render(zero) {
						select {
						case bad <- k + " produced " + render(d):
						default:
						}
					}
					p := d.Pack()
					if len(p) > 1 {
						p[len(p)-1] ^= byte(g)
					}
					func() {
						defer func() { recover() }()
						d.Unpack(p)
					}()
				}
			}
		}(g)
	}
	wg.Wait()
	select {
	case b := <-bad:
		fmt.Println("NOT-ZERO " + b)
		os.Exit(4)
	default:
	}
	// the listing is the same whether it is the first thing a process asks for or not
	dpt.Produce("9.001")
	dpt.Produce("no.such")
	later := dpt.ListSupportedTypes()
	sort.Strings(later)
	if len(keys) == 0 || strings.Join(keys, ",") != strings.Join(later, ",") {
		fmt.Printf("LIST-DIFFERS the first call of the process, ListSupportedTypes, gave %d names; after some Produce calls it gives %d\n", len(keys), len(later))
		os.Exit(5)
	}
	fmt.Println("cold ok")
}

var declRe = regexp.MustCompile(`(?m)^type (DPT_[0-9]+) `)

// declaredTypes: the exported DPT_ types the package's source declares (read from /repo, the tree the
// harness was built from)
func declaredTypes() []string {
	root := os.Getenv("VERIF_REPO")
	if root == "" {
		root = "/repo"
	}
	files, _ := filepath.Glob(root + "/knx/dpt/*.go")
	seen := map[string]bool{}
	var out []string
	for _, f := range files {
		if strings.HasSuffix(f, "_test.go") {
			continue
		}
		b, err := os.ReadFile(f)
		if err != nil {
			continue
		}
		for _, m := range declRe.FindAllStringSubmatch(string(b), -1) {
			if !seen[m[1]] {
				seen[m[1]] = true
				out = append(out, m[1])
			}
		}
	}
	sort.Strings(out)
	return out
}

// c19Cold runs the cold-start concurrency probe in child processes (a lazily filled cache or table
// is only exercised by the FIRST requests of a process)
func (r *run) c19Cold(n int) {
	exe, err := os.Executable()
	if err != nil {
		return
	}
	for i := 0; i < n; i++ {
		cmd := exec.Command(exe, "-prop", "C19cold")
		out, err := cmd.CombinedOutput()
		r.classes["cold-start concurrent produce"]++
		if err != nil {
			s := string(out)
			if len(s) > 600 {
				s = s[:600]
			}
			r.violation("concurrent-produce-failed", "16 goroutines x Produce/Unpack over all names as the first thing a process does", strings.ReplaceAll(s, "\n", " | "))
			return
		}
	}
}

func (r *run) c19(budget int, thorough bool) {
	r.c19Cold(6)
	types := allTypes()
	keys := dpt.ListSupportedTypes()
	sort.Strings(keys)
	// 1. every listed name: producible, well-formed, unique, right type, fresh zero value
	seen := map[string]bool{}
	for _, k := range keys {
		op := "produce " + k
		r.distinct[op] = true
		d, ok := dpt.Produce(k)
		if !ok {
			r.emit(op, "unknown")
			r.violation("listed-name-not-producible", op, "")
			continue
		}
		r.emit(op, "ok "+typeName(d))
		if !keyForm.MatchString(k) {
			r.violation("key-format", op, "name "+k+" is not main.sub with a three-digit sub-number")
		}
		if seen[k] {
			r.violation("duplicate-key", op, "")
		}
		seen[k] = true
		if want := "DPT_" + strings.Replace(k, ".", "", 1); typeName(d) != want {
			r.violation("wrong-type-for-key", op, "yields "+typeName(d)+", the type bearing that number is "+want)
		}
		zero := reflect.New(reflect.TypeOf(d).Elem()).Interface().(dpt.Datapoint)
		if render(d) != render(zero) {
			r.violation("not-zero-value", op, "produced "+render(d))
		}
		d2, _ := dpt.Produce(k)
		if reflect.ValueOf(d).Pointer() == reflect.ValueOf(d2).Pointer() && reflect.TypeOf(d).Elem().Size() > 0 {
			r.violation("shared-instance", op, "two calls returned the same pointer")
		}
	}
	// 2. unknown names
	others := []string{"", "1", "1.", ".001", "1.0011", "01.001", "1.001 ", " 1.001", "9,001", "DPT_1001", "9.001\x00", "1.1", "999.999", "14.12000"}
	for i := 0; i < 300; i++ {
		others = append(others, fmt.Sprintf("%d.%03d", r.rnd.Intn(300), r.rnd.Intn(1000)))
	}
	for _, k := range others {
		if strings.ContainsAny(k, " \x00\n") || k == "" {
			// not expressible as a protocol token: oracle only
			if _, ok := dpt.Produce(k); ok {
				r.violation("unknown-name-produced", fmt.Sprintf("produce %q", k), "")
			}
			continue
		}
		op := "produce " + k
		d, ok := dpt.Produce(k)
		if ok {
			r.emit(op, "ok "+typeName(d))
			if !seen[k] {
				r.violation("unknown-name-produced", op, "not in ListSupportedTypes")
			}
		} else {
			r.emit(op, "unknown")
		}
	}
	// 2b. an unknown name stays unknown whatever was asked before and however often it is asked; a
	// listed name keeps yielding its own type in between
	for i := 0; i < 200 && len(keys) > 0; i++ {
		known := keys[r.rnd.Intn(len(keys))]
		unk := fmt.Sprintf("%d.%03d", r.rnd.Intn(300), r.rnd.Intn(1000))
		if seen[unk] {
			continue
		}
		var hist []string
		bad := ""
		step := func(k string, wantOK bool) {
			d, ok := dpt.Produce(k)
			hist = append(hist, k)
			if ok != wantOK && bad == "" {
				if ok {
					bad = fmt.Sprintf("after the calls %v Produce(%q) yields a %s", hist[:len(hist)-1], k, typeName(d))
				} else {
					bad = fmt.Sprintf("after the calls %v Produce(%q) reports a listed name as unknown", hist[:len(hist)-1], k)
				}
			}
			if ok && wantOK && bad == "" {
				if want := "DPT_" + strings.Replace(k, ".", "", 1); typeName(d) != want && k != "14.1200" {
					bad = fmt.Sprintf("after the calls %v Produce(%q) yields a %s", hist[:len(hist)-1], k, typeName(d))
				}
			}
		}
		for j := 0; j < 2+r.rnd.Intn(4); j++ {
			switch r.rnd.Intn(3) {
			case 0:
				step(known, true)
			default:
				step(unk, false)
			}
		}
		step(known, true)
		step(unk, false)
		step(unk, false)
		r.classes["produce-history-with-unknown-names"]++
		if bad != "" {
			r.violation("produce-depends-on-history", "produce "+strings.Join(hist, " ; produce "), bad)
		}
	}
	// 2c. the list handed out is the caller's own: whatever a caller does to it (sort, filter in place,
	// overwrite) the registry lists the same names afterwards
	{
		before := append([]string(nil), dpt.ListSupportedTypes()...)
		sort.Strings(before)
		for round := 0; round < 4; round++ {
			l := dpt.ListSupportedTypes()
			switch round {
			case 0:
				sort.Sort(sort.Reverse(sort.StringSlice(l)))
			case 1:
				keep := l[:0]
				for _, k := range l {
					if strings.HasPrefix(k, "9.") {
						keep = append(keep, k)
					}
				}
			case 2:
				for i := range l {
					l[i] = "DPT " + l[i]
				}
			default:
				for i := range l {
					l[i] = ""
				}
			}
			after := append([]string(nil), dpt.ListSupportedTypes()...)
			sort.Strings(after)
			r.classes["list-mutated-by-caller"]++
			if strings.Join(after, ",") != strings.Join(before, ",") {
				missing := 0
				am := map[string]bool{}
				for _, k := range after {
					am[k] = true
				}
				for _, k := range before {
					if !am[k] {
						missing++
					}
				}
				r.violation("list-shared-with-callers", "ListSupportedTypes, caller modifies the returned slice, ListSupportedTypes",
					fmt.Sprintf("after a caller modified the slice it was given the registry lists %d names, %d of the original %d are gone", len(after), missing, len(before)))
				break
			}
		}
	}
	// 3. histories: instances do not share state
	nh := 300
	if thorough {
		nh = 6000
	}
	for h := 0; h < nh; h++ {
		var insts []dpt.Datapoint
		var infos []typeInfo
		var state []string // "zero", "val", "dirty"
		var toks []string
		steps := 4 + r.rnd.Intn(12)
		for s := 0; s < steps; s++ {
			if len(insts) == 0 || r.rnd.Intn(3) == 0 {
				t := types[r.rnd.Intn(len(types))]
				if len(insts) > 0 && r.rnd.Intn(2) == 0 {
					t = infos[r.rnd.Intn(len(infos))] // same type again: must not share state
				}
				d, _ := dpt.Produce(t.key)
				insts, infos, state = append(insts, d), append(infos, t), append(state, "zero")
				toks = append(toks, "N:"+t.name)
				continue
			}
			i := r.rnd.Intn(len(insts))
			t := infos[i]
			var p []byte
			if t.name == "DPT_28001" {
				p = make([]byte, 2+r.rnd.Intn(6))
			} else {
				p = make([]byte, t.fixed)
			}
			r.rnd.Read(p)
			if r.rnd.Intn(2) == 0 {
				p[0] = 0
			}
			if t.fixed == 7 {
				p[6] &= 15
			}
			func() {
				defer func() {
					if rec := recover(); rec != nil {
						state[i] = "dirty"
					}
				}()
				if err := insts[i].Unpack(p); err != nil {
					state[i] = "dirty"
				} else {
					state[i] = "val"
				}
			}()
			toks = append(toks, fmt.Sprintf("U:%d:%s", i, hx(p)))
		}
		var outs []string
		for i, d := range insts {
			if state[i] == "dirty" {
				outs = append(outs, "?")
			} else {
				outs = append(outs, strings.ReplaceAll(render(d), " ", "_"))
			}
		}
		op := "hist " + strings.Join(toks, " ")
		r.distinct[op] = true
		r.emit(op, strings.Join(outs, " "))
		// a later Produce of each used type still yields the zero value
		for _, t := range infos {
			d, _ := dpt.Produce(t.key)
			zero := reflect.New(reflect.TypeOf(d).Elem()).Interface().(dpt.Datapoint)
			if render(d) != render(zero) {
				r.violation("registry-state-changed", op, "after this history Produce("+t.key+") yields "+render(d))
			}
		}
	}
	// 3b. every exported DPT_ type declared in the package's source is reachable through the registry
	if declared := declaredTypes(); len(declared) > 0 {
		reached := map[string]bool{}
		for _, k := range keys {
			if d, ok := dpt.Produce(k); ok && d != nil {
				reached[typeName(d)] = true
			}
		}
		for _, tn := range declared {
			r.classes["declared-type-checked"]++
			if !reached[tn] {
				r.violation("declared-type-unreachable", "type "+tn, "declared in knx/dpt but no listed name produces it")
			}
		}
	}
	// 3c. concurrent Produce / Unpack over ALL types: each goroutine fills its own instances with its
	// own payloads and reads back what a sequential decode of the same payload gives
	{
		type sample struct {
			p      []byte
			render string
		}
		samples := map[string][]sample{}
		for _, t := range types {
			for tries := 0; tries < 40 && len(samples[t.key]) < 4; tries++ {
				var p []byte
				if t.name == "DPT_28001" {
					p = append([]byte{0}, []byte(fmt.Sprintf("text-%d", tries))...)
					p = append(p, 0)
				} else {
					p = make([]byte, t.fixed)
					r.rnd.Read(p)
					p[0] = 0
					if t.fixed == 1 {
						p[0] = byte(r.rnd.Intn(64))
					}
					if t.kind == reflect.String {
						for i := 1; i < len(p); i++ {
							p[i] = byte(0x41 + (tries*7+i)%26)
						}
					}
				}
				d, _ := dpt.Produce(t.key)
				ok := func() (ok bool) {
					defer func() {
						if recover() != nil {
							ok = false
						}
					}()
					return d.Unpack(p) == nil
				}()
				if ok {
					samples[t.key] = append(samples[t.key], sample{p, render(d)})
				}
			}
		}
		// an instance owns what it decoded: it shares no state with the caller's buffer either (the next
		// telegram is received into the same buffer)
		for _, t := range types {
			for _, sm := range samples[t.key] {
				buf := append([]byte(nil), sm.p...)
				d, _ := dpt.Produce(t.key)
				if d.Unpack(buf) != nil {
					continue
				}
				for i := range buf {
					buf[i] ^= 0xff
				}
				r.classes["input-buffer-overwritten-after-decoding"]++
				if got := render(d); got != sm.render {
					r.violation("instance-aliases-input-buffer", "dpu "+t.name+" "+hx(sm.p)+" ; the caller overwrites its buffer",
						fmt.Sprintf("the instance held %q, after the caller reused its buffer it holds %q", sm.render, got))
					break
				}
			}
		}
		var wg sync.WaitGroup
		errs := make(chan string, 8)
		for g := 0; g < 16; g++ {
			wg.Add(1)
			go func(g int) {
				defer wg.Done()
				for round := 0; round < 30; round++ {
					for ti := range types {
						t := types[(ti+g*13)%len(types)]
						ss := samples[t.key]
						if len(ss) == 0 {
							continue
						}
						sm := ss[(g+round)%len(ss)]
						d, _ := dpt.Produce(t.key)
						if err := d.Unpack(sm.p); err != nil {
							continue
						}
						if got := render(d); got != sm.render {
							select {
							case errs <- fmt.Sprintf("goroutine %d decoded %s into its own %s instance and read back %q, a sequential decode gives %q", g, hx(sm.p), t.name, got, sm.render):
							default:
							}
							return
						}
					}
				}
			}(g)
		}
		wg.Wait()
		close(errs)
		for e := range errs {
			r.violation("concurrent-instances-interfere", "16 goroutines x Produce/Unpack over all types", e)
		}
	}
	// 4. concurrent Produce / Unpack from 16 goroutines
	var wg sync.WaitGroup
	errs := make(chan string, 64)
	for g := 0; g < 16; g++ {
		wg.Add(1)
		go func(g int) {
			defer wg.Done()
			for i := 0; i < 400; i++ {
				t := types[(g*31+i)%len(types)]
				if t.fixed != 3 || t.kind != reflect.Uint16 {
					t = types[0]
					for _, x := range types {
						if x.name == "DPT_7001" {
							t = x
						}
					}
				}
				d, _ := dpt.Produce(t.key)
				v := uint16(g*1000 + i)
				if err := d.Unpack([]byte{0, byte(v >> 8), byte(v)}); err != nil {
					errs <- err.Error()
					return
				}
				if got := render(d); got != fmt.Sprintf("u16 %d", v) {
					select {
					case errs <- fmt.Sprintf("goroutine %d decoded %d into its own instance and read back %s", g, v, got):
					default:
					}
					return
				}
			}
		}(g)
	}
	wg.Wait()
	close(errs)
	for e := range errs {
		r.violation("concurrent-instances-interfere", "16 goroutines x 400 Produce/Unpack", e)
	}
}
