package main

// Structural facts about the tunnel client's shutdown path (knx/tunnel.go), regenerated on every run:
//
//   tunnelExit      what the worker goroutine (Tunnel.serve) does when it ends, in the order in which
//                   it is EXECUTED: deferred calls run last-registered-first; a deferred closure or a
//                   deferred method of the same receiver with a straight-line body is followed one level
//   tunnelCloseBody what the function handed to once.Do in Tunnel.Close does, in order
//
// Each entry is one of a small vocabulary ("close inbound", "close ack", "close done", "done" for
// wait.Done(), "wait" for wait.Wait(), "requestDisc", "sock.Close"); logging is left out.  A statement
// outside the vocabulary makes the list incomplete (Status.lean), it is never guessed.

import (
	"fmt"
	"go/ast"
	"go/token"
	"strings"
)

func (p *pkg) method(recv, name string) *ast.FuncDecl {
	for _, f := range p.files {
		for _, d := range f.Decls {
			fd, ok := d.(*ast.FuncDecl)
			if !ok || fd.Name.Name != name || fd.Recv == nil || len(fd.Recv.List) != 1 || fd.Body == nil {
				continue
			}
			t := fd.Recv.List[0].Type
			if st, ok := t.(*ast.StarExpr); ok {
				t = st.X
			}
			if id, ok := t.(*ast.Ident); ok && id.Name == recv {
				return fd
			}
		}
	}
	return nil
}

func recvName(fd *ast.FuncDecl) string {
	if fd == nil || fd.Recv == nil || len(fd.Recv.List) != 1 || len(fd.Recv.List[0].Names) != 1 {
		return ""
	}
	return fd.Recv.List[0].Names[0].Name
}

// selPath renders a.b.c selectors; "" for anything else
func selPath(e ast.Expr) string {
	switch e := e.(type) {
	case *ast.Ident:
		return e.Name
	case *ast.SelectorExpr:
		x := selPath(e.X)
		if x == "" {
			return ""
		}
		return x + "." + e.Sel.Name
	}
	return ""
}

// shutdownCall classifies one call made on the shutdown path.  ok=false: not understood.
// follow != nil: a method of the same receiver whose body is to be read in place.
func (p *pkg) shutdownCall(recv, rv string, call *ast.CallExpr) (word string, follow *ast.FuncDecl, ok bool) {
	if id, isId := call.Fun.(*ast.Ident); isId && id.Name == "close" && len(call.Args) == 1 {
		path := selPath(call.Args[0])
		if strings.HasPrefix(path, rv+".") {
			return "close " + strings.TrimPrefix(path, rv+"."), nil, true
		}
		return "", nil, false
	}
	path := selPath(call.Fun)
	switch {
	case path == "":
		return "", nil, false
	case strings.HasPrefix(path, "util.Log"), strings.HasPrefix(path, "log."):
		return "", nil, true
	case path == rv+".wait.Done":
		return "done", nil, true
	case path == rv+".wait.Wait":
		return "wait", nil, true
	case path == rv+".sock.Close":
		return "sock.Close", nil, true
	case path == rv+".requestDisc":
		return "requestDisc", nil, true
	}
	if strings.HasPrefix(path, rv+".") && strings.Count(path, ".") == 1 && len(call.Args) == 0 {
		if fd := p.method(recv, strings.TrimPrefix(path, rv+".")); fd != nil {
			return "", fd, true
		}
	}
	return "", nil, false
}

// straightLine reads a body that consists of calls only (and, at depth 0, of the defers handled by the
// caller): the words in execution order.  ok=false when a statement is not understood.
func (p *pkg) straightLine(recv string, fd *ast.FuncDecl, body []ast.Stmt, depth int) (words []string, ok bool) {
	rv := recvName(fd)
	var deferred [][]string
	for _, st := range body {
		// `_ = f()` is the call f()
		if as, isAssign := st.(*ast.AssignStmt); isAssign && len(as.Rhs) == 1 {
			blank := true
			for _, l := range as.Lhs {
				if id, isId := l.(*ast.Ident); !isId || id.Name != "_" {
					blank = false
				}
			}
			if call, isCall := as.Rhs[0].(*ast.CallExpr); blank && isCall {
				st = &ast.ExprStmt{X: call}
			}
		}
		switch st := st.(type) {
		case *ast.ExprStmt:
			call, isCall := st.X.(*ast.CallExpr)
			if !isCall {
				return nil, false
			}
			w, follow, good := p.shutdownCall(recv, rv, call)
			if !good {
				return nil, false
			}
			if follow != nil {
				if depth >= 2 {
					return nil, false
				}
				inner, good := p.straightLine(recv, follow, follow.Body.List, depth+1)
				if !good {
					return nil, false
				}
				words = append(words, inner...)
			} else if w != "" {
				words = append(words, w)
			}
		case *ast.DeferStmt:
			d, good := p.deferredWords(recv, fd, st, depth)
			if !good {
				return nil, false
			}
			deferred = append(deferred, d)
		case *ast.ReturnStmt:
			if len(st.Results) != 0 {
				return nil, false
			}
		default:
			return nil, false
		}
	}
	for i := len(deferred) - 1; i >= 0; i-- {
		words = append(words, deferred[i]...)
	}
	return words, true
}

func (p *pkg) deferredWords(recv string, fd *ast.FuncDecl, st *ast.DeferStmt, depth int) ([]string, bool) {
	rv := recvName(fd)
	if lit, isLit := st.Call.Fun.(*ast.FuncLit); isLit {
		if len(st.Call.Args) != 0 || depth >= 2 {
			return nil, false
		}
		return p.straightLine(recv, fd, lit.Body.List, depth+1)
	}
	w, follow, good := p.shutdownCall(recv, rv, st.Call)
	if !good {
		return nil, false
	}
	if follow != nil {
		if depth >= 2 {
			return nil, false
		}
		return p.straightLine(recv, follow, follow.Body.List, depth+1)
	}
	if w == "" {
		return nil, true
	}
	return []string{w}, true
}

// exitOrder: what the function does when it ends: its top-level defers, executed in reverse order of
// registration.  Everything that is not a defer (the loop of the worker) is skipped; a defer inside
// a nested block is not expected and makes the result incomplete.
func (p *pkg) exitOrder(recv, name string) ([]string, bool) {
	fd := p.method(recv, name)
	if fd == nil {
		return nil, false
	}
	var deferred [][]string
	for _, st := range fd.Body.List {
		if d, isDefer := st.(*ast.DeferStmt); isDefer {
			w, good := p.deferredWords(recv, fd, d, 0)
			if !good {
				return nil, false
			}
			deferred = append(deferred, w)
			continue
		}
		nested := false
		ast.Inspect(st, func(n ast.Node) bool {
			switch n.(type) {
			case *ast.FuncLit:
				return false
			case *ast.DeferStmt:
				nested = true
			}
			return true
		})
		if nested {
			return nil, false
		}
	}
	var words []string
	for i := len(deferred) - 1; i >= 0; i-- {
		words = append(words, deferred[i]...)
	}
	return words, true
}

// onceBody: the statements of the function handed to <recv>.once.Do in the given method
func (p *pkg) onceBody(recv, name string) ([]string, bool) {
	fd := p.method(recv, name)
	if fd == nil {
		return nil, false
	}
	rv := recvName(fd)
	var words []string
	found, good := false, true
	ast.Inspect(fd.Body, func(n ast.Node) bool {
		call, isCall := n.(*ast.CallExpr)
		if !isCall || selPath(call.Fun) != rv+".once.Do" || len(call.Args) != 1 {
			return true
		}
		found = true
		switch a := call.Args[0].(type) {
		case *ast.FuncLit:
			words, good = p.straightLine(recv, fd, a.Body.List, 1)
		default:
			path := selPath(a)
			target := p.method(recv, strings.TrimPrefix(path, rv+"."))
			if !strings.HasPrefix(path, rv+".") || target == nil {
				good = false
				return false
			}
			words, good = p.straightLine(recv, target, target.Body.List, 1)
		}
		return false
	})
	return words, found && good
}

func genClient(knx *pkg) string {
	var sb strings.Builder
	sb.WriteString("/- GENERATED by /verif/extract from /repo's working tree — do not edit.\n" +
		"   The shutdown path of the tunnel client (knx/tunnel.go), statement by statement, in execution order. -/\n" +
		"namespace Knx.Gen\n\n")
	emit := func(name, doc string, words []string, ok bool, what string, need ...string) {
		// a list that lacks one of the statements the path must contain somewhere has been read from the
		// wrong place (the statement moved to where the extractor does not look): not understood, rather
		// than the fact "it is not executed" - the correspondence decides whether it still is
		for _, n := range need {
			has := false
			for _, w := range words {
				has = has || w == n
			}
			ok = ok && has
		}
		if !ok {
			noteIncomplete(what + " was not understood")
			words = []string{"unknown"}
		}
		fmt.Fprintf(&sb, "/-- %s -/\ndef %s : List String := [", doc, name)
		for i, w := range words {
			if i > 0 {
				sb.WriteString(", ")
			}
			sb.WriteString(leanStr(w))
		}
		sb.WriteString("]\n\n")
	}
	w, ok := knx.exitOrder("Tunnel", "serve")
	emit("tunnelExit", "what Tunnel.serve does when it ends (deferred calls, in the order in which they run)", w, ok, "exit path of Tunnel.serve", "close inbound", "close ack", "done")
	w, ok = knx.onceBody("Tunnel", "Close")
	emit("tunnelCloseBody", "what the first call of Tunnel.Close does, in order", w, ok, "body of Tunnel.Close", "requestDisc", "close done", "wait", "sock.Close")
	sb.WriteString("end Knx.Gen\n")
	return sb.String()
}

var _ = token.NoPos
