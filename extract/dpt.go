package main

func genDpt(dpt *pkg) string {
	return "/- GENERATED (placeholder) -/\n"
}
