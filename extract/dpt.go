package main

import (
	"bytes"
	"fmt"
	"go/ast"
	"go/printer"
	"go/token"
	"regexp"
	"sort"
	"strings"
)

var reNum = regexp.MustCompile(`-?\b[0-9]+(\.[0-9]+)?\b`)
var reStr = regexp.MustCompile(`"[^"]*"`)

func (p *pkg) bodyText(fd *ast.FuncDecl) string {
	var buf bytes.Buffer
	printer.Fprint(&buf, p.fset, fd.Body)
	return buf.String()
}

// normalize replaces the receiver's type name by T, string literals by "S" and numeric literals by
// #, returning the literals in order.
func normalize(body, typeName string) (string, []string) {
	body = strings.ReplaceAll(body, typeName, "T")
	body = reStr.ReplaceAllString(body, `"S"`)
	var nums []string
	body = reNum.ReplaceAllStringFunc(body, func(s string) string {
		nums = append(nums, s)
		return "#"
	})
	body = strings.Join(strings.Fields(body), " ")
	return body, nums
}

func genDptDebug(dpt *pkg) {
	type ent struct {
		name string
		nums []string
	}
	groups := map[string][]ent{}
	for _, f := range dpt.files {
		for _, d := range f.Decls {
			fd, ok := d.(*ast.FuncDecl)
			if !ok || fd.Recv == nil || (fd.Name.Name != "Pack" && fd.Name.Name != "Unpack") {
				continue
			}
			recv := strings.TrimPrefix(typeString(fd.Recv.List[0].Type), "*")
			n, nums := normalize(dpt.bodyText(fd), recv)
			key := fd.Name.Name + " :: " + n
			groups[key] = append(groups[key], ent{recv, nums})
		}
	}
	var keys []string
	for k := range groups {
		keys = append(keys, k)
	}
	sort.Strings(keys)
	for _, k := range keys {
		es := groups[k]
		fmt.Printf("%d %s\n    e.g. %s %v\n", len(es), k, es[0].name, es[0].nums)
	}
	_ = token.ADD
}


type tmpl struct {
	text  string
	kind  string
	nnums int // -1: any
}

var packTemplates = []tmpl{
	{`{ return []byte{packB1(bool(d))} }`, "b1", 0},
	{`{ return packU8(uint8(d)) }`, "u8", 0},
	{`{ return packV8(int8(d)) }`, "v8", 0},
	{`{ return packU16(uint16(d)) }`, "u16", 0},
	{`{ return packV16(int16(d)) }`, "v16", 0},
	{`{ return packU32(uint32(d)) }`, "u32", 0},
	{`{ return packV32(int32(d)) }`, "v32", 0},
	{`{ return packF32(float32(d)) }`, "f32", 0},
	{`{ if d <= # { return packF16(#) } else if d >= # { return packF16(#) } else { return packF16(float32(d)) } }`, "f16", 4},
	{`{ if d <= # { return packU8(#) } else if d >= # { return packU8(#) } else { return packU8(uint8(d*# + #)) } }`, "scaled", 6},
	{`{ if d <= # { return packU8(#) } else if d >= # { return packU8(#) } else { return packU8(uint8(d*#/# + #)) } }`, "angle", 7},
	{`{ if d > # { return packU8(#) } else { return packU8(uint8(d)) } }`, "scene17", 2},
	{`{ if d <= # || (d >= # && d <= #) { return packU8(uint8(d)) } else { return packU8(#) } }`, "scene18", 4},
	{`{ return packV16(roundV16(float32(d), #)) }`, "v16scaled", 1},
	{`{ var buf = []byte{#, #, #, #} if d.IsValid() { buf[#] = d.Weekday<<# | d.Hour&0x1F buf[#] = d.Minutes buf[#] = d.Seconds } return []byte(buf) }`, "time", 8},
	{`{ var buf = []byte{#, #, #, #} if d.Year >= # && d.Year <= # && d.IsValid() { buf[#] = d.Day & 0x1F buf[#] = d.Month & 0xF if d.Year < # { buf[#] = uint8(d.Year - #) } else { buf[#] = uint8(d.Year - #) } } buf[#] &= 0x7F return buf }`, "date", 14},
	{`{ var buf = make([]byte, #) r := []rune(d) for i := #; i < len(r) && i < #; i++ { if r[i] > unicode.MaxASCII { buf[i+#] = 0x20 } else { buf[i+#] = byte(r[i]) } } return buf }`, "strAscii", 5},
	{`{ buf := make([]byte, #) r := []rune(d) for i := #; i < len(r) && i < #; i++ { if r[i] > unicode.MaxLatin1 { buf[i+#] = 0x20 } else { buf[i+#] = byte(r[i]) } } return buf }`, "strLatin1", 5},
	{`{ // len(d) is gives us the number of bytes in d var buf = make([]byte, #, len(d)+#) buf = append(buf, d...) buf = append(buf, 0x00) return buf }`, "varstr", 2},
	{`{ return []byte{#, d.Red, d.Green, d.Blue} }`, "rgb", 1},
	{`{ validBits := packB2([#]bool{d.ColorValid, d.BrightnessValid}) x := packU16(uint16(d.X)) y := packU16(uint16(d.Y)) return []byte{#, x[#], x[#], y[#], y[#], d.YBrightness, validBits} }`, "xyY", 6},
	{`{ validBits := packB4([#]bool{d.WhiteValid, d.BlueValid, d.GreenValid, d.RedValid}) return []byte{#, d.Red, d.Green, d.Blue, d.White, uint8(#), validBits} }`, "rgbw", 3},
}

var unpackTemplates = []tmpl{
	{`{ return unpackB1(data, (*bool)(d)) }`, "b1", 0},
	{`{ return unpackU8(data, (*uint8)(d)) }`, "u8", 0},
	{`{ var value uint8 if err := unpackU8(data, &value); err != nil { return err } *d = T(value) return nil }`, "u8", 0},
	{`{ return unpackV8(data, (*int8)(d)) }`, "v8", 0},
	{`{ return unpackU16(data, (*uint16)(d)) }`, "u16", 0},
	{`{ return unpackV16(data, (*int16)(d)) }`, "v16", 0},
	{`{ return unpackU32(data, (*uint32)(d)) }`, "u32", 0},
	{`{ return unpackV32(data, (*int32)(d)) }`, "v32", 0},
	{`{ var value float32 if err := unpackF32(data, &value); err != nil { return err } *d = T(value) return nil }`, "f32", 0},
	{`{ var value float32 if err := unpackF16(data, &value); err != nil { return err } if value < # || value > # { return fmt.Errorf("S"%.2f\"S", value) } *d = T(value) return nil }`, "f16", 2},
	{`{ var value uint8 if err := unpackU8(data, &value); err != nil { return err } *d = T(value) / # return nil }`, "scaled", 1},
	{`{ var value uint8 if err := unpackU8(data, &value); err != nil { return err } *d = T(value) * # / # return nil }`, "angle", 2},
	{`{ var value uint8 if err := unpackU8(data, &value); err != nil { return err } if value <= # { *d = T(value) return nil } else { *d = T(#) return nil } }`, "scene17", 2},
	{`{ var value uint8 if err := unpackU8(data, &value); err != nil { return err } if value <= # || (value >= # && value <= #) { *d = T(value) return nil } else { *d = T(#) return nil } }`, "scene18", 4},
	{`{ var value int16 if err := unpackV16(data, &value); err != nil { return err } *d = T(float32(value) / #) return nil }`, "v16scaled", 1},
	{`{ if len(data) != # { return ErrInvalidLength } d.Weekday = uint8(data[#] >> #) d.Hour = uint8(data[#] & 0x1F) d.Minutes = uint8(data[#] & 0x3F) d.Seconds = uint8(data[#] & 0x3F) if !d.IsValid() { return fmt.Errorf("S") } return nil }`, "time", 6},
	{`{ if len(data) != # { return ErrInvalidLength } d.Day = uint8(data[#] & 0x1F) d.Month = uint8(data[#] & 0xF) d.Year = uint16(data[#] & 0x7F) if d.Year > # { return fmt.Errorf("S") } if d.Year == # && d.Month == # && d.Day == # { d.Year = # d.Month = # d.Day = # } if d.Year >= # { d.Year += # } else { d.Year += # } if !d.IsValid() { return fmt.Errorf("S") } return nil }`, "date", 14},
	{`{ if len(data) != # { return ErrInvalidLength } var buf = []rune{} for i := #; i < len(data) && data[i]&unicode.MaxASCII != 0x00; i++ { buf = append(buf, rune(data[i]&unicode.MaxASCII)) } *d = T(buf) return nil }`, "strAscii", 2},
	{`{ if len(data) != # { return ErrInvalidLength } var buf = []rune{} for i := #; i < len(data) && data[i] != 0x00; i++ { buf = append(buf, rune(data[i])) } *d = T(buf) return nil }`, "strLatin1", 2},
	{`{ if len(data) < # { return ErrInvalidLength } var buf = data[# : len(data)#] *d = T(buf) return nil }`, "varstr", 3},
	{`{ if len(data) != # { return ErrInvalidLength } d.Red = uint8(data[#]) d.Green = uint8(data[#]) d.Blue = uint8(data[#]) return nil }`, "rgb", 4},
}

// the two long struct decoders are matched by prefix + literal list
var unpackPrefixTemplates = []tmpl{
	{`{ if len(data) != # { return ErrInvalidLength } var colorValid, brightnessValid bool err := unpackB2(data[#], &colorValid, &brightnessValid)`, "xyY", 9},
	{`{ if len(data) != # { return ErrInvalidLength } var redValid, greenValid, blueValid, whiteValid bool err := unpackB4(data[#], &whiteValid, &blueValid, &greenValid, &redValid)`, "rgbw", 6},
}

// the literal lists the fixed-shape templates must carry (anything else is `unknown`)
var fixedNums = map[string][2]string{
	"scene17":   {"63 63", "63 63"},
	"scene18":   {"63 128 191 63", "63 128 191 63"},
	"time":      {"0 0 0 0 1 5 2 3", "4 1 5 1 2 3"},
	"date":      {"0 0 0 0 1990 2089 1 2 2000 3 1900 3 2000 3", "4 1 2 3 99 0 0 0 90 1 1 90 1900 2000"},
	"strAscii":  {"15 0 14 1 1", "15 1"},
	"strLatin1": {"15 0 14 1 1", "15 1"},
	"varstr":    {"1 2", "2 1 -1"},
	"rgb":       {"0", "4 1 2 3"},
	"xyY":       {"2 0 1 2 1 2", "7 6 0 1 2 0 3 4 5"},
	"rgbw":      {"4 0 0", "7 6 1 2 3 4"},
}

func matchTmpl(ts []tmpl, text string, prefix bool) (string, bool) {
	for _, t := range ts {
		if (!prefix && t.text == text) || (prefix && strings.HasPrefix(text, t.text)) {
			return t.kind, true
		}
	}
	return "", false
}

// decLit renders a decimal literal as a Lean `Lit` (numerator, power-of-ten denominator).
func decLit(s string) string {
	neg := strings.HasPrefix(s, "-")
	s = strings.TrimPrefix(s, "-")
	den := 1
	if i := strings.IndexByte(s, '.'); i >= 0 {
		frac := s[i+1:]
		s = s[:i] + frac
		for range frac {
			den *= 10
		}
	}
	s = strings.TrimLeft(s, "0")
	if s == "" {
		s = "0"
	}
	if neg {
		s = "-" + s
	}
	return fmt.Sprintf("⟨%s, %d⟩", s, den)
}

type dptType struct {
	name       string
	underlying string
	pack       string
	packNums   []string
	unpack     string
	unpackNums []string
}

func shapeOf(t *dptType) string {
	pk, ok1 := matchTmpl(packTemplates, t.pack, false)
	uk, ok2 := matchTmpl(unpackTemplates, t.unpack, false)
	if !ok2 {
		uk, ok2 = matchTmpl(unpackPrefixTemplates, t.unpack, true)
	}
	unknown := func(why string) string {
		noteIncomplete("datapoint type " + t.name + ": " + why)
		return fmt.Sprintf("Shape.unknown %q", why)
	}
	if !ok1 {
		return unknown("Pack body not recognised")
	}
	if !ok2 {
		return unknown("Unpack body not recognised")
	}
	if pk != uk {
		return unknown("Pack is " + pk + " but Unpack is " + uk)
	}
	pn, un := strings.Join(t.packNums, " "), strings.Join(t.unpackNums, " ")
	if fx, ok := fixedNums[pk]; ok {
		if pn != fx[0] || un != fx[1] {
			return unknown(pk + ": literals changed: pack [" + pn + "] unpack [" + un + "]")
		}
		return "Shape." + pk
	}
	switch pk {
	case "b1", "u8", "v8", "u16", "v16", "u32", "v32", "f32":
		wantU := map[string]string{"b1": "bool", "u8": "uint8", "v8": "int8", "u16": "uint16", "v16": "int16", "u32": "uint32", "v32": "int32", "f32": "float32"}[pk]
		if t.underlying != wantU {
			return unknown("underlying type " + t.underlying + " for shape " + pk)
		}
		return "Shape." + pk
	case "f16":
		// pack: d <= lo -> packF16(lo'), d >= hi -> packF16(hi'); unpack: value < ulo || value > uhi
		if len(t.packNums) != 4 || len(t.unpackNums) != 2 {
			return unknown("f16 literal count")
		}
		return fmt.Sprintf("Shape.f16 %s %s %s %s %s %s", decLit(t.packNums[0]), decLit(t.packNums[1]), decLit(t.packNums[2]), decLit(t.packNums[3]), decLit(t.unpackNums[0]), decLit(t.unpackNums[1]))
	case "scaled":
		if pn != "0 0 100 255 2.55 0.5" || un != "2.55" {
			return unknown("scaled literals changed: pack [" + pn + "] unpack [" + un + "]")
		}
		return "Shape.scaled"
	case "angle":
		if pn != "0 0 360 255 255 360 0.5" || un != "360 255" {
			return unknown("angle literals changed: pack [" + pn + "] unpack [" + un + "]")
		}
		return "Shape.angle"
	case "v16scaled":
		if len(t.packNums) != 1 || len(t.unpackNums) != 1 || t.packNums[0] != t.unpackNums[0] {
			return unknown("v16scaled: pack and unpack scale differ")
		}
		return "Shape.v16scaled " + t.packNums[0]
	}
	return unknown("no rule for " + pk)
}

func underlyingOf(e ast.Expr) string {
	switch e := e.(type) {
	case *ast.Ident:
		return e.Name
	case *ast.StructType:
		var fs []string
		for _, f := range e.Fields.List {
			for _, n := range f.Names {
				fs = append(fs, n.Name+":"+typeString(f.Type))
			}
		}
		return "struct{" + strings.Join(fs, ",") + "}"
	}
	return "?"
}

func codePoints(s string) string {
	var parts []string
	for _, r := range s {
		parts = append(parts, fmt.Sprint(int(r)))
	}
	return "[" + strings.Join(parts, ", ") + "]"
}

func genDpt(dpt *pkg) string {
	types := map[string]*dptType{}
	var order []string
	for _, f := range dpt.files {
		for _, d := range f.Decls {
			switch d := d.(type) {
			case *ast.GenDecl:
				if d.Tok != token.TYPE {
					continue
				}
				for _, s := range d.Specs {
					ts := s.(*ast.TypeSpec)
					if strings.HasPrefix(ts.Name.Name, "DPT_") {
						types[ts.Name.Name] = &dptType{name: ts.Name.Name, underlying: underlyingOf(ts.Type)}
						order = append(order, ts.Name.Name)
					}
				}
			}
		}
	}
	for _, f := range dpt.files {
		for _, d := range f.Decls {
			fd, ok := d.(*ast.FuncDecl)
			if !ok || fd.Recv == nil || (fd.Name.Name != "Pack" && fd.Name.Name != "Unpack") {
				continue
			}
			recv := strings.TrimPrefix(typeString(fd.Recv.List[0].Type), "*")
			t := types[recv]
			if t == nil {
				continue
			}
			n, nums := normalize(dpt.bodyText(fd), recv)
			if fd.Name.Name == "Pack" {
				t.pack, t.packNums = n, nums
			} else {
				t.unpack, t.unpackNums = n, nums
			}
		}
	}
	sort.Strings(order)
	// the registry map literal
	var reg [][2]string
	regOther := 0
	for _, f := range dpt.files {
		for _, d := range f.Decls {
			gd, ok := d.(*ast.GenDecl)
			if !ok || gd.Tok != token.VAR {
				continue
			}
			for _, s := range gd.Specs {
				vs := s.(*ast.ValueSpec)
				if len(vs.Names) != 1 || vs.Names[0].Name != "dptTypes" || len(vs.Values) != 1 {
					continue
				}
				cl, ok := vs.Values[0].(*ast.CompositeLit)
				if !ok {
					continue
				}
				for _, el := range cl.Elts {
					kv, ok := el.(*ast.KeyValueExpr)
					if !ok {
						regOther++
						continue
					}
					key, ok1 := kv.Key.(*ast.BasicLit)
					call, ok2 := kv.Value.(*ast.CallExpr)
					if !ok1 || !ok2 || len(call.Args) != 1 {
						regOther++
						continue
					}
					fn, ok3 := call.Fun.(*ast.Ident)
					arg, ok4 := call.Args[0].(*ast.Ident)
					if !ok3 || !ok4 || fn.Name != "new" {
						regOther++
						continue
					}
					k := strings.Trim(key.Value, `"`)
					reg = append(reg, [2]string{k, arg.Name})
				}
			}
		}
	}
	var sb strings.Builder
	sb.WriteString("/- GENERATED by /verif/extract from knx/dpt — do not edit. -/\nimport Knx.DptShape\nnamespace Knx.Gen\nopen Knx.Dpt\n\n")
	sb.WriteString("/-- the `dptTypes` map literal: (key, key as code points, type passed to `new`, that name as code points) -/\n")
	sb.WriteString("def registry : List (String × List Nat × String × List Nat) := [\n")
	for i, r := range reg {
		sep := ","
		if i == len(reg)-1 {
			sep = ""
		}
		fmt.Fprintf(&sb, "  (%q, %s, %q, %s)%s\n", r[0], codePoints(r[0]), r[1], codePoints(r[1]), sep)
	}
	sb.WriteString("]\n\n")
	if regOther > 0 || len(reg) == 0 {
		noteIncomplete(fmt.Sprintf("registry: %d entries of the dptTypes table are not of the form \"key\": new(T) (or the table was not found)", regOther))
	}
	fmt.Fprintf(&sb, "/-- map entries that are not of the form `\"key\": new(T)` -/\ndef registryOtherEntries : Nat := %d\n\n", regOther)
	sb.WriteString("/-- every `type DPT_… ` declared in the package, as code points -/\ndef declared : List (String × List Nat) := [\n")
	for i, n := range order {
		sep := ","
		if i == len(order)-1 {
			sep = ""
		}
		fmt.Fprintf(&sb, "  (%q, %s)%s\n", n, codePoints(n), sep)
	}
	sb.WriteString("]\n\n")
	sb.WriteString("/-- codec shape of every declared type, recognised from the bodies of its Pack and Unpack -/\ndef shapes : List (String × Shape) := [\n")
	for i, n := range order {
		sep := ","
		if i == len(order)-1 {
			sep = ""
		}
		fmt.Fprintf(&sb, "  (%q, %s)%s\n", n, shapeOf(types[n]), sep)
	}
	sb.WriteString("]\n\nend Knx.Gen\n")
	return sb.String()
}
