// Command extract re-reads knx-go's source (go/ast only) and regenerates the Lean facts the
// theorems in Props/* are stated over: constant tables, dispatch switches, method return
// constants, straight-line integer helper functions, and the datapoint registry with each type's
// codec shape.  Anything it does not recognise is emitted as `unknown`, for which no proof exists.
package main

import (
	"flag"
	"fmt"
	"go/ast"
	"go/parser"
	"go/token"
	"os"
	"path/filepath"
	"sort"
	"strconv"
	"strings"
)

type pkg struct {
	fset  *token.FileSet
	files []*ast.File
}

func load(dir string) *pkg {
	fset := token.NewFileSet()
	pkgs, err := parser.ParseDir(fset, dir, func(fi os.FileInfo) bool {
		n := fi.Name()
		return !strings.HasSuffix(n, "_test.go") && n != "verif_hooks.go"
	}, parser.ParseComments)
	if err != nil {
		fatal(err)
	}
	p := &pkg{fset: fset}
	var names []string
	for n := range pkgs {
		names = append(names, n)
	}
	sort.Strings(names)
	for _, n := range names {
		var fns []string
		for fn := range pkgs[n].Files {
			fns = append(fns, fn)
		}
		sort.Strings(fns)
		for _, fn := range fns {
			p.files = append(p.files, pkgs[n].Files[fn])
		}
	}
	return p
}

func fatal(err error) {
	fmt.Fprintln(os.Stderr, "extract:", err)
	os.Exit(2)
}

// intConsts returns name -> value for constants declared with a literal (or 1<<k) value of the
// given type name ("" = any).
func (p *pkg) intConsts(typeName string) [][2]string {
	var out [][2]string
	for _, f := range p.files {
		for _, d := range f.Decls {
			gd, ok := d.(*ast.GenDecl)
			if !ok || gd.Tok != token.CONST {
				continue
			}
			for _, s := range gd.Specs {
				vs := s.(*ast.ValueSpec)
				tn := ""
				if id, ok := vs.Type.(*ast.Ident); ok {
					tn = id.Name
				}
				if typeName != "" && tn != typeName {
					continue
				}
				for i, n := range vs.Names {
					if i >= len(vs.Values) {
						continue
					}
					if v, ok := evalInt(vs.Values[i]); ok {
						out = append(out, [2]string{n.Name, strconv.FormatInt(v, 10)})
					}
				}
			}
		}
	}
	return out
}

// constEnv: values of the named integer constants known so far (filled by typedConsts)
var constEnv = map[string]int64{}

func evalInt(e ast.Expr) (int64, bool) {
	switch e := e.(type) {
	case *ast.BasicLit:
		if e.Kind == token.INT {
			v, err := strconv.ParseInt(e.Value, 0, 64)
			return v, err == nil
		}
	case *ast.Ident:
		v, ok := constEnv[e.Name]
		return v, ok
	case *ast.CallExpr:
		// a conversion to an integer type of a constant: ControlField2(1 << 7)
		if id, ok := e.Fun.(*ast.Ident); ok && len(e.Args) == 1 {
			if w, isType := widths[id.Name]; isType {
				if v, ok := evalInt(e.Args[0]); ok && v >= 0 && v < 1<<uint(w) {
					return v, true
				}
			}
		}
	case *ast.BinaryExpr:
		a, ok1 := evalInt(e.X)
		b, ok2 := evalInt(e.Y)
		if ok1 && ok2 {
			switch e.Op {
			case token.SHL:
				if b >= 0 && b < 62 {
					return a << uint(b), true
				}
			case token.SHR:
				if b >= 0 && b < 62 {
					return a >> uint(b), true
				}
			case token.OR:
				return a | b, true
			case token.AND:
				return a & b, true
			case token.XOR:
				return a ^ b, true
			case token.ADD:
				return a + b, true
			case token.SUB:
				return a - b, true
			case token.MUL:
				return a * b, true
			case token.QUO:
				if b != 0 {
					return a / b, true
				}
			case token.REM:
				if b != 0 {
					return a % b, true
				}
			}
		}
	case *ast.ParenExpr:
		return evalInt(e.X)
	}
	return 0, false
}

func (p *pkg) funcDecl(recv, name string) *ast.FuncDecl {
	for _, f := range p.files {
		for _, d := range f.Decls {
			fd, ok := d.(*ast.FuncDecl)
			if !ok || fd.Name.Name != name {
				continue
			}
			r := ""
			if fd.Recv != nil && len(fd.Recv.List) == 1 {
				r = typeString(fd.Recv.List[0].Type)
			}
			if r == recv || r == "*"+recv {
				return fd
			}
		}
	}
	return nil
}

func typeString(e ast.Expr) string {
	switch e := e.(type) {
	case *ast.Ident:
		return e.Name
	case *ast.StarExpr:
		return "*" + typeString(e.X)
	case *ast.SelectorExpr:
		return typeString(e.X) + "." + e.Sel.Name
	case *ast.ArrayType:
		return "[]" + typeString(e.Elt)
	}
	return "?"
}

// switchDispatch finds, in function fn, the switch whose cases assign `body = &T{...}` and returns
// case-constant -> T ("default" for the default clause).
func (p *pkg) switchDispatch(fn string) [][2]string {
	fd := p.funcDecl("", fn)
	if fd == nil {
		return nil
	}
	var out [][2]string
	ast.Inspect(fd.Body, func(n ast.Node) bool {
		sw, ok := n.(*ast.SwitchStmt)
		if !ok {
			return true
		}
		for _, c := range sw.Body.List {
			cc := c.(*ast.CaseClause)
			target := "?"
			for _, st := range cc.Body {
				if as, ok := st.(*ast.AssignStmt); ok && len(as.Rhs) == 1 {
					if ue, ok := as.Rhs[0].(*ast.UnaryExpr); ok && ue.Op == token.AND {
						if cl, ok := ue.X.(*ast.CompositeLit); ok {
							target = typeString(cl.Type)
						}
					}
				}
			}
			if cc.List == nil {
				out = append(out, [2]string{"default", target})
			}
			for _, e := range cc.List {
				out = append(out, [2]string{typeString(e), target})
			}
		}
		return false
	})
	return out
}

// methodConst returns, for every type with a niladic method `name` whose body is a single
// `return <ident>` (or `return recv.field`), type -> returned identifier.
func (p *pkg) methodConst(name string) [][2]string {
	var out [][2]string
	for _, f := range p.files {
		for _, d := range f.Decls {
			fd, ok := d.(*ast.FuncDecl)
			if !ok || fd.Name.Name != name || fd.Recv == nil || len(fd.Recv.List) != 1 {
				continue
			}
			recv := strings.TrimPrefix(typeString(fd.Recv.List[0].Type), "*")
			ret := "?"
			if len(fd.Body.List) == 1 {
				if rs, ok := fd.Body.List[0].(*ast.ReturnStmt); ok && len(rs.Results) == 1 {
					switch r := rs.Results[0].(type) {
					case *ast.Ident:
						ret = r.Name
					case *ast.SelectorExpr:
						ret = "field:" + r.Sel.Name
					}
				}
			}
			out = append(out, [2]string{recv, ret})
		}
	}
	sort.Slice(out, func(i, j int) bool { return out[i][0] < out[j][0] })
	return out
}

func leanStr(s string) string { return strconv.Quote(s) }

func emitPairs(sb *strings.Builder, name string, pairs [][2]string, numeric bool) {
	ty := "List (String × String)"
	if numeric {
		ty = "List (String × Nat)"
	}
	fmt.Fprintf(sb, "def %s : %s := [\n", name, ty)
	for i, p := range pairs {
		sep := ","
		if i == len(pairs)-1 {
			sep = ""
		}
		if numeric {
			fmt.Fprintf(sb, "  (%s, %s)%s\n", leanStr(p[0]), p[1], sep)
		} else {
			fmt.Fprintf(sb, "  (%s, %s)%s\n", leanStr(p[0]), leanStr(p[1]), sep)
		}
	}
	sb.WriteString("]\n\n")
}

func writeIfChanged(path, content string) {
	old, err := os.ReadFile(path)
	if err == nil && string(old) == content {
		return
	}
	os.MkdirAll(filepath.Dir(path), 0o755)
	if err := os.WriteFile(path, []byte(content), 0o644); err != nil {
		fatal(err)
	}
}

func main() {
	repo := flag.String("repo", "/repo", "repository root")
	out := flag.String("out", "", "directory for generated Lean files (…/lean/Knx/Gen)")
	debug := flag.Bool("dptdebug", false, "print normalised DPT method bodies")
	flag.Parse()
	if *debug {
		genDptDebug(load(filepath.Join(*repo, "knx", "dpt")))
		return
	}
	if *out == "" {
		fatal(fmt.Errorf("need -out"))
	}
	knxnet := load(filepath.Join(*repo, "knx", "knxnet"))
	cemi := load(filepath.Join(*repo, "knx", "cemi"))
	dpt := load(filepath.Join(*repo, "knx", "dpt"))

	var sb strings.Builder
	sb.WriteString("/- GENERATED by /verif/extract from /repo's working tree — do not edit. -/\nnamespace Knx.Gen\n\n")
	emitPairs(&sb, "serviceConsts", knxnet.intConsts("ServiceID"), true)
	emitPairs(&sb, "unpackDispatch", knxnet.switchDispatch("Unpack"), false)
	emitPairs(&sb, "serviceOf", knxnet.methodConst("Service"), false)
	emitPairs(&sb, "messageCodes", cemi.intConsts("MessageCode"), true)
	emitPairs(&sb, "cemiDispatch", cemi.switchDispatch("Unpack"), false)
	emitPairs(&sb, "messageCodeOf", cemi.methodConst("MessageCode"), false)
	sb.WriteString("end Knx.Gen\n")
	writeIfChanged(filepath.Join(*out, "Wire.lean"), sb.String())

	writeIfChanged(filepath.Join(*out, "Helpers.lean"), genHelpers(cemi))
	writeIfChanged(filepath.Join(*out, "Dpt.lean"), genDpt(dpt))
	writeIfChanged(filepath.Join(*out, "Source.lean"), genSource(*repo, "Knx.Gen.Source"))
}
