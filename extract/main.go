// Command extract re-reads knx-go's source (go/ast only) and regenerates the Lean facts the
// theorems in Props/* are stated over: constant tables, dispatch switches, method return
// constants, straight-line integer helper functions, and the datapoint registry with each type's
// codec shape.  Anything it does not recognise is emitted as `unknown`, for which no proof exists.
package main

import (
	"flag"
	"fmt"
	"go/ast"
	"go/parser"
	"go/token"
	"os"
	"path/filepath"
	"sort"
	"strconv"
	"strings"
)

type pkg struct {
	fset  *token.FileSet
	files []*ast.File
}

func load(dir string) *pkg {
	fset := token.NewFileSet()
	pkgs, err := parser.ParseDir(fset, dir, func(fi os.FileInfo) bool {
		n := fi.Name()
		return !strings.HasSuffix(n, "_test.go") && n != "verif_hooks.go"
	}, parser.ParseComments)
	if err != nil {
		fatal(err)
	}
	p := &pkg{fset: fset}
	var names []string
	for n := range pkgs {
		names = append(names, n)
	}
	sort.Strings(names)
	for _, n := range names {
		var fns []string
		for fn := range pkgs[n].Files {
			fns = append(fns, fn)
		}
		sort.Strings(fns)
		for _, fn := range fns {
			p.files = append(p.files, pkgs[n].Files[fn])
		}
	}
	return p
}

// what the extractor could not follow in the source as it is now (a construct it translates was rewritten
// into a form it does not know): recorded in Knx/Gen/Status.lean.  A theorem over the regenerated facts that
// fails while this list is non-empty says "not followed", not "false of the code".
var incomplete []string

func noteIncomplete(s string) {
	for _, x := range incomplete {
		if x == s {
			return
		}
	}
	incomplete = append(incomplete, s)
}

func fatal(err error) {
	fmt.Fprintln(os.Stderr, "extract:", err)
	os.Exit(2)
}

// intConsts returns name -> value for constants declared with a literal (or 1<<k) value of the
// given type name ("" = any).
func (p *pkg) intConsts(typeName string) [][2]string {
	var out [][2]string
	for _, f := range p.files {
		for _, d := range f.Decls {
			gd, ok := d.(*ast.GenDecl)
			if !ok || gd.Tok != token.CONST {
				continue
			}
			for _, s := range gd.Specs {
				vs := s.(*ast.ValueSpec)
				tn := ""
				if id, ok := vs.Type.(*ast.Ident); ok {
					tn = id.Name
				}
				if typeName != "" && tn != typeName {
					continue
				}
				for i, n := range vs.Names {
					if i >= len(vs.Values) {
						continue
					}
					if v, ok := evalInt(vs.Values[i]); ok {
						out = append(out, [2]string{n.Name, strconv.FormatInt(v, 10)})
					}
				}
			}
		}
	}
	return out
}

// constEnv: values of the named integer constants known so far (filled by typedConsts)
var constEnv = map[string]int64{}

func evalInt(e ast.Expr) (int64, bool) {
	switch e := e.(type) {
	case *ast.BasicLit:
		if e.Kind == token.INT {
			v, err := strconv.ParseInt(e.Value, 0, 64)
			return v, err == nil
		}
	case *ast.Ident:
		v, ok := constEnv[e.Name]
		return v, ok
	case *ast.CallExpr:
		// a conversion to an integer type of a constant: ControlField2(1 << 7)
		if id, ok := e.Fun.(*ast.Ident); ok && len(e.Args) == 1 {
			if w, isType := widths[id.Name]; isType {
				if v, ok := evalInt(e.Args[0]); ok && v >= 0 && v < 1<<uint(w) {
					return v, true
				}
			}
		}
	case *ast.BinaryExpr:
		a, ok1 := evalInt(e.X)
		b, ok2 := evalInt(e.Y)
		if ok1 && ok2 {
			switch e.Op {
			case token.SHL:
				if b >= 0 && b < 62 {
					return a << uint(b), true
				}
			case token.SHR:
				if b >= 0 && b < 62 {
					return a >> uint(b), true
				}
			case token.OR:
				return a | b, true
			case token.AND:
				return a & b, true
			case token.XOR:
				return a ^ b, true
			case token.ADD:
				return a + b, true
			case token.SUB:
				return a - b, true
			case token.MUL:
				return a * b, true
			case token.QUO:
				if b != 0 {
					return a / b, true
				}
			case token.REM:
				if b != 0 {
					return a % b, true
				}
			}
		}
	case *ast.ParenExpr:
		return evalInt(e.X)
	}
	return 0, false
}

func (p *pkg) funcDecl(recv, name string) *ast.FuncDecl {
	for _, f := range p.files {
		for _, d := range f.Decls {
			fd, ok := d.(*ast.FuncDecl)
			if !ok || fd.Name.Name != name {
				continue
			}
			r := ""
			if fd.Recv != nil && len(fd.Recv.List) == 1 {
				r = typeString(fd.Recv.List[0].Type)
			}
			if r == recv || r == "*"+recv {
				return fd
			}
		}
	}
	return nil
}

func typeString(e ast.Expr) string {
	switch e := e.(type) {
	case *ast.Ident:
		return e.Name
	case *ast.StarExpr:
		return "*" + typeString(e.X)
	case *ast.SelectorExpr:
		return typeString(e.X) + "." + e.Sel.Name
	case *ast.ArrayType:
		return "[]" + typeString(e.Elt)
	}
	return "?"
}

// switchDispatch finds, in function fn, the switch whose cases assign `body = &T{...}` and returns
// case-constant -> T ("default" for the default clause).
func (p *pkg) switchIn(fd *ast.FuncDecl) [][2]string {
	var out [][2]string
	ast.Inspect(fd.Body, func(n ast.Node) bool {
		sw, ok := n.(*ast.SwitchStmt)
		if !ok || len(out) > 0 {
			return true
		}
		var got [][2]string
		for _, c := range sw.Body.List {
			cc := c.(*ast.CaseClause)
			target := "?"
			lit := func(e ast.Expr) {
				if ue, ok := e.(*ast.UnaryExpr); ok && ue.Op == token.AND {
					if cl, ok := ue.X.(*ast.CompositeLit); ok {
						target = typeString(cl.Type)
					}
				}
			}
			for _, st := range cc.Body {
				switch st := st.(type) {
				case *ast.AssignStmt:
					if len(st.Rhs) == 1 {
						lit(st.Rhs[0])
					}
				case *ast.ReturnStmt:
					if len(st.Results) >= 1 {
						lit(st.Results[0])
					}
				}
			}
			if cc.List == nil {
				got = append(got, [2]string{"default", target})
			}
			for _, e := range cc.List {
				got = append(got, [2]string{typeString(e), target})
			}
		}
		// a dispatch switch: at least two arms that construct a value
		built := 0
		for _, g := range got {
			if g[1] != "?" {
				built++
			}
		}
		if built >= 2 {
			out = got
		}
		return false
	})
	// no default arm: the fall-back may be the statement that follows the switch (`return &T{...}`)
	hasDefault := false
	for _, o := range out {
		if o[0] == "default" {
			hasDefault = true
		}
	}
	if len(out) > 0 && !hasDefault && len(fd.Body.List) > 0 {
		if rs, ok := fd.Body.List[len(fd.Body.List)-1].(*ast.ReturnStmt); ok && len(rs.Results) >= 1 {
			if ue, ok := rs.Results[0].(*ast.UnaryExpr); ok && ue.Op == token.AND {
				if cl, ok := ue.X.(*ast.CompositeLit); ok {
					out = append(out, [2]string{"default", typeString(cl.Type)})
				}
			}
		}
	}
	return out
}

func (p *pkg) switchDispatch(fn string) [][2]string {
	fd := p.funcDecl("", fn)
	if fd == nil {
		noteIncomplete("dispatch of " + fn + ": function not found")
		return nil
	}
	out := p.switchIn(fd)
	if len(out) == 0 {
		// the switch may have been extracted into a helper the function calls
		ast.Inspect(fd.Body, func(n ast.Node) bool {
			if ce, ok := n.(*ast.CallExpr); ok && len(out) == 0 {
				if id, ok := ce.Fun.(*ast.Ident); ok {
					if g := p.funcDecl("", id.Name); g != nil && g != fd {
						out = p.switchIn(g)
					}
				}
			}
			return true
		})
	}
	if len(out) == 0 {
		noteIncomplete("dispatch of " + fn + ": no switch that constructs the message bodies was found")
	}
	for i, o := range out {
		if o[1] == "?" && !(o[0] == "default" && i == len(out)-1) {
			noteIncomplete("dispatch of " + fn + ": the arm for " + o[0] + " was not understood")
		}
	}
	// a trailing default without a constructed value: the fall-back may follow the switch
	if n := len(out); n > 0 && out[n-1][0] == "default" && out[n-1][1] == "?" {
		noteIncomplete("dispatch of " + fn + ": the default arm was not understood")
	}
	return out
}

// methodConst returns, for every type with a niladic method `name` whose body is a single
// `return <ident>` (or `return recv.field`), type -> returned identifier.
func (p *pkg) methodConst(name string) [][2]string {
	var out [][2]string
	for _, f := range p.files {
		for _, d := range f.Decls {
			fd, ok := d.(*ast.FuncDecl)
			if !ok || fd.Name.Name != name || fd.Recv == nil || len(fd.Recv.List) != 1 {
				continue
			}
			recv := strings.TrimPrefix(typeString(fd.Recv.List[0].Type), "*")
			ret := "?"
			if len(fd.Body.List) == 1 {
				if rs, ok := fd.Body.List[0].(*ast.ReturnStmt); ok && len(rs.Results) == 1 {
					switch r := rs.Results[0].(type) {
					case *ast.Ident:
						ret = r.Name
					case *ast.SelectorExpr:
						ret = "field:" + r.Sel.Name
					}
				}
			}
			if ret == "?" {
				noteIncomplete("method " + recv + "." + name + ": body is not a single return of a constant")
			}
			out = append(out, [2]string{recv, ret})
		}
	}
	sort.Slice(out, func(i, j int) bool { return out[i][0] < out[j][0] })
	return out
}

func leanStr(s string) string { return strconv.Quote(s) }

// sortPairs orders a table by key ("default" last): the order of constant declarations and of switch
// arms in the source carries no meaning, so it must not show in the facts
func sortPairs(pairs [][2]string) [][2]string {
	out := append([][2]string(nil), pairs...)
	sort.SliceStable(out, func(i, j int) bool {
		a, b := out[i][0], out[j][0]
		if (a == "default") != (b == "default") {
			return b == "default"
		}
		return a < b
	})
	return out
}

func emitPairs(sb *strings.Builder, name string, pairs [][2]string, numeric bool) {
	pairs = sortPairs(pairs)
	ty := "List (String × String)"
	if numeric {
		ty = "List (String × Nat)"
	}
	fmt.Fprintf(sb, "def %s : %s := [\n", name, ty)
	for i, p := range pairs {
		sep := ","
		if i == len(pairs)-1 {
			sep = ""
		}
		if numeric {
			fmt.Fprintf(sb, "  (%s, %s)%s\n", leanStr(p[0]), p[1], sep)
		} else {
			fmt.Fprintf(sb, "  (%s, %s)%s\n", leanStr(p[0]), leanStr(p[1]), sep)
		}
	}
	sb.WriteString("]\n\n")
}

func writeIfChanged(path, content string) {
	old, err := os.ReadFile(path)
	if err == nil && string(old) == content {
		return
	}
	os.MkdirAll(filepath.Dir(path), 0o755)
	if err := os.WriteFile(path, []byte(content), 0o644); err != nil {
		fatal(err)
	}
}

func main() {
	repo := flag.String("repo", "/repo", "repository root")
	out := flag.String("out", "", "directory for generated Lean files (…/lean/Knx/Gen)")
	debug := flag.Bool("dptdebug", false, "print normalised DPT method bodies")
	flag.Parse()
	if *debug {
		genDptDebug(load(filepath.Join(*repo, "knx", "dpt")))
		return
	}
	if *out == "" {
		fatal(fmt.Errorf("need -out"))
	}
	knxnet := load(filepath.Join(*repo, "knx", "knxnet"))
	cemi := load(filepath.Join(*repo, "knx", "cemi"))
	dpt := load(filepath.Join(*repo, "knx", "dpt"))

	var sb strings.Builder
	sb.WriteString("/- GENERATED by /verif/extract from /repo's working tree — do not edit. -/\nnamespace Knx.Gen\n\n")
	emitPairs(&sb, "serviceConsts", knxnet.intConsts("ServiceID"), true)
	emitPairs(&sb, "unpackDispatch", knxnet.switchDispatch("Unpack"), false)
	emitPairs(&sb, "serviceOf", knxnet.methodConst("Service"), false)
	emitPairs(&sb, "messageCodes", cemi.intConsts("MessageCode"), true)
	emitPairs(&sb, "cemiDispatch", cemi.switchDispatch("Unpack"), false)
	emitPairs(&sb, "messageCodeOf", cemi.methodConst("MessageCode"), false)
	sb.WriteString("end Knx.Gen\n")
	writeIfChanged(filepath.Join(*out, "Wire.lean"), sb.String())

	writeIfChanged(filepath.Join(*out, "Helpers.lean"), genHelpers(cemi))
	writeIfChanged(filepath.Join(*out, "Dpt.lean"), genDpt(dpt))
	writeIfChanged(filepath.Join(*out, "Source.lean"), genSource(*repo, "Knx.Gen.Source"))
	writeIfChanged(filepath.Join(*out, "Client.lean"), genClient(load(filepath.Join(*repo, "knx"))))
	var st strings.Builder
	st.WriteString("/- GENERATED by /verif/extract from /repo's working tree — do not edit.\n   What the extractor could not follow in the source as it is now. -/\nnamespace Knx.Gen\n\ndef extractionIncomplete : List String := [")
	for i, x := range incomplete {
		if i > 0 {
			st.WriteString(",")
		}
		st.WriteString("\n  " + leanStr(x))
	}
	st.WriteString("]\n\nend Knx.Gen\n")
	writeIfChanged(filepath.Join(*out, "Status.lean"), st.String())
}
