package main

import (
	"fmt"
	"go/ast"
	"go/token"
	"strconv"
	"strings"
)

var widths = map[string]int{
	"uint8": 8, "Priority": 8, "ControlField1": 8, "ControlField2": 8, "APCI": 8, "MessageCode": 8,
	"uint16": 16, "IndividualAddr": 16, "GroupAddr": 16,
}

type trEnv struct {
	p      *pkg
	params map[string]int // name -> width
	consts map[string][2]string
}

// typedConsts: name -> (value, type)
func (p *pkg) typedConsts() map[string][2]string {
	out := map[string][2]string{}
	for _, f := range p.files {
		for _, d := range f.Decls {
			gd, ok := d.(*ast.GenDecl)
			if !ok || gd.Tok != token.CONST {
				continue
			}
			for _, s := range gd.Specs {
				vs := s.(*ast.ValueSpec)
				tn := ""
				if id, ok := vs.Type.(*ast.Ident); ok {
					tn = id.Name
				}
				for i, n := range vs.Names {
					if i < len(vs.Values) {
						if v, ok := evalInt(vs.Values[i]); ok {
							out[n.Name] = [2]string{strconv.FormatInt(v, 10), tn}
						}
					}
				}
			}
		}
	}
	return out
}

// tr translates an expression; width 0 = untyped constant, -1 = bool.
func (env *trEnv) tr(e ast.Expr) (string, int, error) {
	switch e := e.(type) {
	case *ast.ParenExpr:
		return env.tr(e.X)
	case *ast.BasicLit:
		if e.Kind != token.INT {
			return "", 0, fmt.Errorf("literal %s", e.Value)
		}
		v, err := strconv.ParseInt(e.Value, 0, 64)
		if err != nil {
			return "", 0, err
		}
		return strconv.FormatInt(v, 10), 0, nil
	case *ast.Ident:
		if w, ok := env.params[e.Name]; ok {
			return e.Name, w, nil
		}
		if c, ok := env.consts[e.Name]; ok {
			w := widths[c[1]]
			if w == 0 {
				return c[0], 0, nil
			}
			return fmt.Sprintf("(%s : BitVec %d)", c[0], w), w, nil
		}
		return "", 0, fmt.Errorf("unknown identifier %s", e.Name)
	case *ast.CallExpr:
		id, ok := e.Fun.(*ast.Ident)
		if !ok || len(e.Args) != 1 {
			return "", 0, fmt.Errorf("call")
		}
		w, ok := widths[id.Name]
		if !ok {
			return "", 0, fmt.Errorf("call to %s", id.Name)
		}
		x, wx, err := env.tr(e.Args[0])
		if err != nil {
			return "", 0, err
		}
		if wx == 0 {
			return fmt.Sprintf("(%s : BitVec %d)", x, w), w, nil
		}
		if wx == w {
			return x, w, nil
		}
		return fmt.Sprintf("(BitVec.setWidth %d %s)", w, x), w, nil
	case *ast.BinaryExpr:
		x, wx, err := env.tr(e.X)
		if err != nil {
			return "", 0, err
		}
		y, wy, err := env.tr(e.Y)
		if err != nil {
			return "", 0, err
		}
		switch e.Op {
		case token.SHL, token.SHR:
			if wy != 0 || wx <= 0 {
				return "", 0, fmt.Errorf("shift")
			}
			op := "<<<"
			if e.Op == token.SHR {
				op = ">>>"
			}
			return fmt.Sprintf("(%s %s %s)", x, op, y), wx, nil
		}
		// unify widths
		w := wx
		if w == 0 {
			w = wy
		}
		if w <= 0 {
			return "", 0, fmt.Errorf("untyped binary")
		}
		if wx == 0 {
			x = fmt.Sprintf("(%s : BitVec %d)", x, w)
		}
		if wy == 0 {
			y = fmt.Sprintf("(%s : BitVec %d)", y, w)
		}
		if wx != 0 && wy != 0 && wx != wy {
			return "", 0, fmt.Errorf("width mismatch")
		}
		switch e.Op {
		case token.AND:
			return fmt.Sprintf("(%s &&& %s)", x, y), w, nil
		case token.OR:
			return fmt.Sprintf("(%s ||| %s)", x, y), w, nil
		case token.EQL:
			return fmt.Sprintf("(%s == %s)", x, y), -1, nil
		case token.LSS:
			return fmt.Sprintf("(BitVec.ult %s %s)", x, y), -1, nil
		case token.GTR:
			return fmt.Sprintf("(BitVec.ult %s %s)", y, x), -1, nil
		}
		return "", 0, fmt.Errorf("operator %s", e.Op)
	}
	return "", 0, fmt.Errorf("expression %T", e)
}

func retType(fd *ast.FuncDecl) string {
	if fd.Type.Results == nil || len(fd.Type.Results.List) != 1 {
		return "?"
	}
	return typeString(fd.Type.Results.List[0].Type)
}

// translateFunc turns a straight-line integer function into a Lean definition.
func translateFunc(p *pkg, consts map[string][2]string, recv, name, leanName string) string {
	fd := p.funcDecl(recv, name)
	if fd == nil {
		return fmt.Sprintf("-- %s: function not found in source\n\n", leanName)
	}
	env := &trEnv{p: p, params: map[string]int{}, consts: consts}
	var binders []string
	add := func(fl *ast.FieldList) error {
		if fl == nil {
			return nil
		}
		for _, f := range fl.List {
			w, ok := widths[strings.TrimPrefix(typeString(f.Type), "*")]
			if !ok {
				return fmt.Errorf("parameter type %s", typeString(f.Type))
			}
			for _, n := range f.Names {
				env.params[n.Name] = w
				binders = append(binders, fmt.Sprintf("(%s : BitVec %d)", n.Name, w))
			}
		}
		return nil
	}
	fail := func(err error) string {
		return fmt.Sprintf("-- %s: not translated (%v)\n\n", leanName, err)
	}
	if err := add(fd.Recv); err != nil {
		return fail(err)
	}
	if err := add(fd.Type.Params); err != nil {
		return fail(err)
	}
	rt := retType(fd)
	leanRT := "Bool"
	rw := -1
	if rt != "bool" {
		w, ok := widths[rt]
		if !ok {
			return fail(fmt.Errorf("result type %s", rt))
		}
		rw = w
		leanRT = fmt.Sprintf("BitVec %d", w)
	}
	var lets []string
	var body string
	for i, st := range fd.Body.List {
		switch st := st.(type) {
		case *ast.IfStmt:
			if st.Else != nil || st.Init != nil || len(st.Body.List) != 1 {
				return fail(fmt.Errorf("if shape"))
			}
			as, ok := st.Body.List[0].(*ast.AssignStmt)
			if !ok || as.Tok != token.ASSIGN || len(as.Lhs) != 1 || len(as.Rhs) != 1 {
				return fail(fmt.Errorf("if body"))
			}
			id, ok := as.Lhs[0].(*ast.Ident)
			if !ok {
				return fail(fmt.Errorf("if lhs"))
			}
			w, ok := env.params[id.Name]
			if !ok {
				return fail(fmt.Errorf("if assigns non-parameter"))
			}
			c, wc, err := env.tr(st.Cond)
			if err != nil || wc != -1 {
				return fail(fmt.Errorf("if cond: %v", err))
			}
			v, wv, err := env.tr(as.Rhs[0])
			if err != nil {
				return fail(err)
			}
			if wv == 0 {
				v = fmt.Sprintf("(%s : BitVec %d)", v, w)
			}
			lets = append(lets, fmt.Sprintf("  let %s := if %s then %s else %s", id.Name, c, v, id.Name))
		case *ast.ReturnStmt:
			if i != len(fd.Body.List)-1 || len(st.Results) != 1 {
				return fail(fmt.Errorf("return shape"))
			}
			x, wx, err := env.tr(st.Results[0])
			if err != nil {
				return fail(err)
			}
			if wx == 0 && rw > 0 {
				x = fmt.Sprintf("(%s : BitVec %d)", x, rw)
				wx = rw
			}
			if wx != rw {
				return fail(fmt.Errorf("result width %d vs %d", wx, rw))
			}
			body = x
		default:
			return fail(fmt.Errorf("statement %T", st))
		}
	}
	if body == "" {
		return fail(fmt.Errorf("no return"))
	}
	var sb strings.Builder
	fmt.Fprintf(&sb, "def %s %s : %s :=\n", leanName, strings.Join(binders, " "), leanRT)
	for _, l := range lets {
		sb.WriteString(l + "\n")
	}
	fmt.Fprintf(&sb, "  %s\n\n", body)
	return sb.String()
}

func genHelpers(cemi *pkg) string {
	consts := cemi.typedConsts()
	var sb strings.Builder
	sb.WriteString("/- GENERATED by /verif/extract from knx/cemi (control.go, tpdu.go, address.go) — do not edit. -/\nnamespace Knx.Gen\n\n")
	for _, n := range []string{"Control1StdFrame", "Control1NoRepeat", "Control1NoSysBroadcast", "Control1WantAck", "Control1HasError", "Control2GroupAddr", "Control2LTEFrame", "PrioSystem", "PrioNormal", "PrioUrgent", "PrioLow", "GroupValueRead", "GroupValueResponse", "GroupValueWrite"} {
		if c, ok := consts[n]; ok {
			fmt.Fprintf(&sb, "def %s : BitVec %d := %s\n", n, widths[c[1]], c[0])
		} else {
			fmt.Fprintf(&sb, "-- %s: constant not found\n", n)
		}
	}
	sb.WriteString("\n")
	sb.WriteString(translateFunc(cemi, consts, "", "Control1Prio", "Control1Prio"))
	sb.WriteString(translateFunc(cemi, consts, "", "Control2Hops", "Control2Hops"))
	sb.WriteString(translateFunc(cemi, consts, "ControlField2", "Hops", "Hops"))
	sb.WriteString(translateFunc(cemi, consts, "ControlField2", "IsGroupAddr", "IsGroupAddr"))
	sb.WriteString(translateFunc(cemi, consts, "APCI", "IsGroupCommand", "IsGroupCommand"))
	sb.WriteString(translateFunc(cemi, consts, "", "NewIndividualAddr3", "NewIndividualAddr3"))
	sb.WriteString(translateFunc(cemi, consts, "", "NewIndividualAddr2", "NewIndividualAddr2"))
	sb.WriteString(translateFunc(cemi, consts, "", "NewGroupAddr3", "NewGroupAddr3"))
	sb.WriteString(translateFunc(cemi, consts, "", "NewGroupAddr2", "NewGroupAddr2"))
	sb.WriteString("end Knx.Gen\n")
	return sb.String()
}
