package main

import (
	"fmt"
	"go/ast"
	"go/token"
	"strconv"
	"strings"
)

var widths = map[string]int{
	"uint8": 8, "Priority": 8, "ControlField1": 8, "ControlField2": 8, "APCI": 8, "MessageCode": 8,
	"uint16": 16, "IndividualAddr": 16, "GroupAddr": 16,
}

type trEnv struct {
	p      *pkg
	params map[string]int // name -> width
	consts map[string][2]string
}

// typedConsts: name -> (value, type)
func (p *pkg) typedConsts() map[string][2]string {
	out := map[string][2]string{}
	for pass := 0; pass < 4; pass++ { // constants may be defined from constants declared later
		for _, f := range p.files {
			for _, d := range f.Decls {
				gd, ok := d.(*ast.GenDecl)
				if !ok || gd.Tok != token.CONST {
					continue
				}
				for _, s := range gd.Specs {
					vs := s.(*ast.ValueSpec)
					tn := ""
					if id, ok := vs.Type.(*ast.Ident); ok {
						tn = id.Name
					}
					for i, n := range vs.Names {
						if i < len(vs.Values) {
							if v, ok := evalInt(vs.Values[i]); ok {
								t := tn
								if t == "" {
									// `const x = T(…)`: typed by the conversion
									if ce, ok := vs.Values[i].(*ast.CallExpr); ok {
										if id, ok := ce.Fun.(*ast.Ident); ok {
											if _, isType := widths[id.Name]; isType {
												t = id.Name
											}
										}
									}
								}
								out[n.Name] = [2]string{strconv.FormatInt(v, 10), t}
								constEnv[n.Name] = v
							}
						}
					}
				}
			}
		}
	}
	return out
}

// tr translates an expression; width 0 = untyped constant, -1 = bool.
func (env *trEnv) tr(e ast.Expr) (string, int, error) {
	switch e := e.(type) {
	case *ast.ParenExpr:
		return env.tr(e.X)
	case *ast.BasicLit:
		if e.Kind != token.INT {
			return "", 0, fmt.Errorf("literal %s", e.Value)
		}
		v, err := strconv.ParseInt(e.Value, 0, 64)
		if err != nil {
			return "", 0, err
		}
		return strconv.FormatInt(v, 10), 0, nil
	case *ast.Ident:
		if w, ok := env.params[e.Name]; ok {
			return e.Name, w, nil
		}
		if e.Name == "true" || e.Name == "false" {
			return e.Name, -1, nil
		}
		if c, ok := env.consts[e.Name]; ok {
			w := widths[c[1]]
			if w == 0 {
				return c[0], 0, nil
			}
			return fmt.Sprintf("(%s : BitVec %d)", c[0], w), w, nil
		}
		return "", 0, fmt.Errorf("unknown identifier %s", e.Name)
	case *ast.CallExpr:
		id, ok := e.Fun.(*ast.Ident)
		if !ok || len(e.Args) != 1 {
			return "", 0, fmt.Errorf("call")
		}
		w, ok := widths[id.Name]
		if !ok {
			return "", 0, fmt.Errorf("call to %s", id.Name)
		}
		x, wx, err := env.tr(e.Args[0])
		if err != nil {
			return "", 0, err
		}
		if wx == 0 {
			return fmt.Sprintf("(%s : BitVec %d)", x, w), w, nil
		}
		if wx == w {
			return x, w, nil
		}
		return fmt.Sprintf("(BitVec.setWidth %d %s)", w, x), w, nil
	case *ast.BinaryExpr:
		x, wx, err := env.tr(e.X)
		if err != nil {
			return "", 0, err
		}
		y, wy, err := env.tr(e.Y)
		if err == nil && wx == 0 && wy == 0 {
			// both operands are untyped constants: the compiler folds the expression, so do we
			if v, ok := evalInt(e); ok {
				return strconv.FormatInt(v, 10), 0, nil
			}
		}
		if err != nil {
			return "", 0, err
		}
		if (e.Op == token.LAND || e.Op == token.LOR) && wx == -1 && wy == -1 {
			op := "&&"
			if e.Op == token.LOR {
				op = "||"
			}
			return fmt.Sprintf("(%s %s %s)", x, op, y), -1, nil
		}
		switch e.Op {
		case token.SHL, token.SHR:
			if wy != 0 {
				// the shift count must be a compile-time constant
				if v, ok := evalInt(e.Y); ok {
					y, wy = strconv.FormatInt(v, 10), 0
				}
			}
			if wy != 0 || wx <= 0 {
				return "", 0, fmt.Errorf("shift")
			}
			op := "<<<"
			if e.Op == token.SHR {
				op = ">>>"
			}
			return fmt.Sprintf("(%s %s %s)", x, op, y), wx, nil
		}
		// unify widths
		w := wx
		if w == 0 {
			w = wy
		}
		if w <= 0 {
			return "", 0, fmt.Errorf("untyped binary")
		}
		if wx == 0 {
			x = fmt.Sprintf("(%s : BitVec %d)", x, w)
		}
		if wy == 0 {
			y = fmt.Sprintf("(%s : BitVec %d)", y, w)
		}
		if wx != 0 && wy != 0 && wx != wy {
			return "", 0, fmt.Errorf("width mismatch")
		}
		switch e.Op {
		case token.AND:
			return fmt.Sprintf("(%s &&& %s)", x, y), w, nil
		case token.OR:
			return fmt.Sprintf("(%s ||| %s)", x, y), w, nil
		case token.XOR:
			return fmt.Sprintf("(%s ^^^ %s)", x, y), w, nil
		case token.AND_NOT:
			return fmt.Sprintf("(%s &&& ~~~%s)", x, y), w, nil
		case token.ADD:
			return fmt.Sprintf("(%s + %s)", x, y), w, nil
		case token.SUB:
			return fmt.Sprintf("(%s - %s)", x, y), w, nil
		case token.MUL:
			return fmt.Sprintf("(%s * %s)", x, y), w, nil
		case token.REM:
			// Go panics on a zero divisor; only constant non-zero divisors are translated
			if wy != 0 || y == fmt.Sprintf("(0 : BitVec %d)", w) {
				return "", 0, fmt.Errorf("remainder by a non-constant")
			}
			return fmt.Sprintf("(%s %% %s)", x, y), w, nil
		case token.QUO:
			if wy != 0 || y == fmt.Sprintf("(0 : BitVec %d)", w) {
				return "", 0, fmt.Errorf("division by a non-constant")
			}
			return fmt.Sprintf("(%s / %s)", x, y), w, nil
		case token.EQL:
			return fmt.Sprintf("(%s == %s)", x, y), -1, nil
		case token.NEQ:
			return fmt.Sprintf("(%s != %s)", x, y), -1, nil
		case token.LSS:
			return fmt.Sprintf("(BitVec.ult %s %s)", x, y), -1, nil
		case token.GTR:
			return fmt.Sprintf("(BitVec.ult %s %s)", y, x), -1, nil
		case token.LEQ:
			return fmt.Sprintf("(BitVec.ule %s %s)", x, y), -1, nil
		case token.GEQ:
			return fmt.Sprintf("(BitVec.ule %s %s)", y, x), -1, nil
		}
		return "", 0, fmt.Errorf("operator %s", e.Op)
	case *ast.UnaryExpr:
		x, wx, err := env.tr(e.X)
		if err != nil {
			return "", 0, err
		}
		switch {
		case e.Op == token.NOT && wx == -1:
			return fmt.Sprintf("(!%s)", x), -1, nil
		case e.Op == token.XOR && wx > 0:
			return fmt.Sprintf("(~~~%s)", x), wx, nil
		}
		return "", 0, fmt.Errorf("unary %s", e.Op)
	}
	return "", 0, fmt.Errorf("expression %T", e)
}

func retType(fd *ast.FuncDecl) string {
	if fd.Type.Results == nil || len(fd.Type.Results.List) != 1 {
		return "?"
	}
	return typeString(fd.Type.Results.List[0].Type)
}

// translateFunc turns a straight-line integer function into a Lean definition.
func translateFunc(p *pkg, consts map[string][2]string, recv, name, leanName string) string {
	fd := p.funcDecl(recv, name)
	if fd == nil {
		noteIncomplete("helper " + leanName + ": function not found in source")
		return fmt.Sprintf("-- %s: function not found in source\n\n", leanName)
	}
	env := &trEnv{p: p, params: map[string]int{}, consts: consts}
	var binders []string
	add := func(fl *ast.FieldList) error {
		if fl == nil {
			return nil
		}
		for _, f := range fl.List {
			w, ok := widths[strings.TrimPrefix(typeString(f.Type), "*")]
			if !ok {
				return fmt.Errorf("parameter type %s", typeString(f.Type))
			}
			for _, n := range f.Names {
				env.params[n.Name] = w
				binders = append(binders, fmt.Sprintf("(%s : BitVec %d)", n.Name, w))
			}
		}
		return nil
	}
	fail := func(err error) string {
		noteIncomplete(fmt.Sprintf("helper %s: not translated (%v)", leanName, err))
		return fmt.Sprintf("-- %s: not translated (%v)\n\n", leanName, err)
	}
	if err := add(fd.Recv); err != nil {
		return fail(err)
	}
	if err := add(fd.Type.Params); err != nil {
		return fail(err)
	}
	rt := retType(fd)
	leanRT := "Bool"
	rw := -1
	if rt != "bool" {
		w, ok := widths[rt]
		if !ok {
			return fail(fmt.Errorf("result type %s", rt))
		}
		rw = w
		leanRT = fmt.Sprintf("BitVec %d", w)
	}
	body, err := env.stmts(fd.Body.List, rw, 1)
	if err != nil {
		return fail(err)
	}
	var sb strings.Builder
	fmt.Fprintf(&sb, "def %s %s : %s :=\n%s\n\n", leanName, strings.Join(binders, " "), leanRT, body)
	return sb.String()
}

// stmts translates a statement list that ends by returning a value of width rw (-1: bool) into a
// Lean expression: assignments become `let`, conditionals `if … then … else …`, a switch a chain of
// conditionals.  Loops, calls and anything else are not translated.
func (env *trEnv) stmts(list []ast.Stmt, rw int, depth int) (string, error) {
	ind := strings.Repeat("  ", depth)
	if len(list) == 0 {
		return "", fmt.Errorf("falls off the end")
	}
	typed := func(x string, wx, want int) (string, error) {
		if wx == 0 && want > 0 {
			return fmt.Sprintf("(%s : BitVec %d)", x, want), nil
		}
		if wx != want {
			return "", fmt.Errorf("width %d where %d is expected", wx, want)
		}
		return x, nil
	}
	// endsInReturn: every path through the block returns
	var endsInReturn func(b []ast.Stmt) bool
	endsInReturn = func(b []ast.Stmt) bool {
		if len(b) == 0 {
			return false
		}
		switch l := b[len(b)-1].(type) {
		case *ast.ReturnStmt:
			return true
		case *ast.IfStmt:
			if l.Else == nil {
				return false
			}
			eb, ok := l.Else.(*ast.BlockStmt)
			if !ok {
				return endsInReturn([]ast.Stmt{l.Else}) && endsInReturn(l.Body.List)
			}
			return endsInReturn(l.Body.List) && endsInReturn(eb.List)
		}
		return false
	}
	st, rest := list[0], list[1:]
	switch st := st.(type) {
	case *ast.ReturnStmt:
		if len(st.Results) != 1 {
			return "", fmt.Errorf("return shape")
		}
		x, wx, err := env.tr(st.Results[0])
		if err != nil {
			return "", err
		}
		x, err = typed(x, wx, rw)
		if err != nil {
			return "", err
		}
		return ind + x, nil
	case *ast.AssignStmt:
		if len(st.Lhs) != 1 || len(st.Rhs) != 1 {
			return "", fmt.Errorf("assignment shape")
		}
		id, ok := st.Lhs[0].(*ast.Ident)
		if !ok {
			return "", fmt.Errorf("assignment target")
		}
		rhs := st.Rhs[0]
		switch st.Tok {
		case token.ASSIGN, token.DEFINE:
		case token.OR_ASSIGN, token.AND_ASSIGN, token.ADD_ASSIGN, token.SUB_ASSIGN, token.SHL_ASSIGN, token.SHR_ASSIGN:
			op := map[token.Token]token.Token{token.OR_ASSIGN: token.OR, token.AND_ASSIGN: token.AND, token.ADD_ASSIGN: token.ADD,
				token.SUB_ASSIGN: token.SUB, token.SHL_ASSIGN: token.SHL, token.SHR_ASSIGN: token.SHR}[st.Tok]
			rhs = &ast.BinaryExpr{X: id, Op: op, Y: rhs}
		default:
			return "", fmt.Errorf("assignment operator %s", st.Tok)
		}
		x, wx, err := env.tr(rhs)
		if err != nil {
			return "", err
		}
		if w, known := env.params[id.Name]; known {
			if x, err = typed(x, wx, w); err != nil {
				return "", err
			}
		} else {
			if st.Tok != token.DEFINE {
				return "", fmt.Errorf("assignment to unknown %s", id.Name)
			}
			if wx == 0 {
				return "", fmt.Errorf("untyped local %s", id.Name)
			}
			env.params[id.Name] = wx
		}
		tail, err := env.stmts(rest, rw, depth)
		if err != nil {
			return "", err
		}
		return fmt.Sprintf("%slet %s := %s\n%s", ind, id.Name, x, tail), nil
	case *ast.DeclStmt:
		gd, ok := st.Decl.(*ast.GenDecl)
		if !ok || len(gd.Specs) != 1 {
			return "", fmt.Errorf("declaration")
		}
		vs, ok := gd.Specs[0].(*ast.ValueSpec)
		if !ok || len(vs.Names) != 1 || len(vs.Values) != 1 {
			return "", fmt.Errorf("declaration shape")
		}
		x, wx, err := env.tr(vs.Values[0])
		if err != nil {
			return "", err
		}
		if vs.Type != nil {
			w, ok := widths[typeString(vs.Type)]
			if !ok {
				return "", fmt.Errorf("declared type %s", typeString(vs.Type))
			}
			if x, err = typed(x, wx, w); err != nil {
				return "", err
			}
			wx = w
		}
		if gd.Tok == token.CONST && wx == 0 {
			// an untyped local constant: substitute its value
			if env.consts == nil {
				env.consts = map[string][2]string{}
			}
			env.consts[vs.Names[0].Name] = [2]string{x, ""}
			return env.stmts(rest, rw, depth)
		}
		if wx == 0 {
			return "", fmt.Errorf("untyped local %s", vs.Names[0].Name)
		}
		env.params[vs.Names[0].Name] = wx
		tail, err := env.stmts(rest, rw, depth)
		if err != nil {
			return "", err
		}
		return fmt.Sprintf("%slet %s := %s\n%s", ind, vs.Names[0].Name, x, tail), nil
	case *ast.IfStmt:
		if st.Init != nil {
			return "", fmt.Errorf("if with initialiser")
		}
		c, wc, err := env.tr(st.Cond)
		if err != nil || wc != -1 {
			return "", fmt.Errorf("if condition: %v", err)
		}
		var elseList []ast.Stmt
		switch e := st.Else.(type) {
		case nil:
		case *ast.BlockStmt:
			elseList = e.List
		default:
			elseList = []ast.Stmt{e}
		}
		if endsInReturn(st.Body.List) {
			// the code after the conditional is the (rest of the) else branch
			a, err := env.stmts(st.Body.List, rw, depth+1)
			if err != nil {
				return "", err
			}
			b, err := env.stmts(append(append([]ast.Stmt{}, elseList...), rest...), rw, depth+1)
			if err != nil {
				return "", err
			}
			return fmt.Sprintf("%sif %s then\n%s\n%selse\n%s", ind, c, a, ind, b), nil
		}
		// a conditional update of one variable (both branches, or one branch, assign it)
		one := func(b []ast.Stmt) (string, ast.Expr, bool) {
			if len(b) != 1 {
				return "", nil, false
			}
			as, ok := b[0].(*ast.AssignStmt)
			if !ok || as.Tok != token.ASSIGN || len(as.Lhs) != 1 || len(as.Rhs) != 1 {
				return "", nil, false
			}
			id, ok := as.Lhs[0].(*ast.Ident)
			if !ok {
				return "", nil, false
			}
			return id.Name, as.Rhs[0], true
		}
		name, thenE, ok := one(st.Body.List)
		if !ok {
			return "", fmt.Errorf("if body")
		}
		w, known := env.params[name]
		if !known {
			return "", fmt.Errorf("if assigns unknown %s", name)
		}
		tv, wtv, err := env.tr(thenE)
		if err != nil {
			return "", err
		}
		if tv, err = typed(tv, wtv, w); err != nil {
			return "", err
		}
		ev := name
		if len(elseList) > 0 {
			n2, elseE, ok := one(elseList)
			if !ok || n2 != name {
				return "", fmt.Errorf("else body")
			}
			x, wx, err := env.tr(elseE)
			if err != nil {
				return "", err
			}
			if ev, err = typed(x, wx, w); err != nil {
				return "", err
			}
		}
		tail, err := env.stmts(rest, rw, depth)
		if err != nil {
			return "", err
		}
		return fmt.Sprintf("%slet %s := if %s then %s else %s\n%s", ind, name, c, tv, ev, tail), nil
	case *ast.SwitchStmt:
		if st.Init != nil {
			return "", fmt.Errorf("switch with initialiser")
		}
		// rewrite as an if / else-if chain and translate that
		var chain ast.Stmt
		var deflt []ast.Stmt
		var clauses []*ast.CaseClause
		for _, c := range st.Body.List {
			cc := c.(*ast.CaseClause)
			for _, b := range cc.Body {
				if br, ok := b.(*ast.BranchStmt); ok && br.Tok == token.FALLTHROUGH {
					return "", fmt.Errorf("fallthrough")
				}
			}
			if cc.List == nil {
				deflt = cc.Body
			} else {
				clauses = append(clauses, cc)
			}
		}
		var tail ast.Stmt
		if deflt != nil {
			tail = &ast.BlockStmt{List: deflt}
		}
		for i := len(clauses) - 1; i >= 0; i-- {
			cc := clauses[i]
			var cond ast.Expr
			for _, e := range cc.List {
				var one ast.Expr = e
				if st.Tag != nil {
					one = &ast.BinaryExpr{X: st.Tag, Op: token.EQL, Y: e}
				}
				if cond == nil {
					cond = one
				} else {
					cond = &ast.BinaryExpr{X: cond, Op: token.LOR, Y: one}
				}
			}
			chain = &ast.IfStmt{Cond: cond, Body: &ast.BlockStmt{List: cc.Body}, Else: tail}
			tail = chain
		}
		if chain == nil {
			return env.stmts(append(append([]ast.Stmt{}, deflt...), rest...), rw, depth)
		}
		return env.stmts(append([]ast.Stmt{chain}, rest...), rw, depth)
	case *ast.BlockStmt:
		return env.stmts(append(append([]ast.Stmt{}, st.List...), rest...), rw, depth)
	}
	return "", fmt.Errorf("statement %T", st)
}

func genHelpers(cemi *pkg) string {
	consts := cemi.typedConsts()
	var sb strings.Builder
	sb.WriteString("/- GENERATED by /verif/extract from knx/cemi (control.go, tpdu.go, address.go) — do not edit. -/\nnamespace Knx.Gen\n\n")
	for _, n := range []string{"Control1StdFrame", "Control1NoRepeat", "Control1NoSysBroadcast", "Control1WantAck", "Control1HasError", "Control2GroupAddr", "Control2LTEFrame", "PrioSystem", "PrioNormal", "PrioUrgent", "PrioLow", "GroupValueRead", "GroupValueResponse", "GroupValueWrite"} {
		if c, ok := consts[n]; ok {
			fmt.Fprintf(&sb, "def %s : BitVec %d := %s\n", n, widths[c[1]], c[0])
		} else {
			noteIncomplete("constant " + n + ": not found or not a literal expression")
			fmt.Fprintf(&sb, "-- %s: constant not found\n", n)
		}
	}
	sb.WriteString("\n")
	sb.WriteString(translateFunc(cemi, consts, "", "Control1Prio", "Control1Prio"))
	sb.WriteString(translateFunc(cemi, consts, "", "Control2Hops", "Control2Hops"))
	sb.WriteString(translateFunc(cemi, consts, "ControlField2", "Hops", "Hops"))
	sb.WriteString(translateFunc(cemi, consts, "ControlField2", "IsGroupAddr", "IsGroupAddr"))
	sb.WriteString(translateFunc(cemi, consts, "APCI", "IsGroupCommand", "IsGroupCommand"))
	sb.WriteString(translateFunc(cemi, consts, "", "NewIndividualAddr3", "NewIndividualAddr3"))
	sb.WriteString(translateFunc(cemi, consts, "", "NewIndividualAddr2", "NewIndividualAddr2"))
	sb.WriteString(translateFunc(cemi, consts, "", "NewGroupAddr3", "NewGroupAddr3"))
	sb.WriteString(translateFunc(cemi, consts, "", "NewGroupAddr2", "NewGroupAddr2"))
	sb.WriteString("end Knx.Gen\n")
	return sb.String()
}
